import Bpmn.Model.Engine
import Bpmn.Props.C01Chain
/-!
# C12 — sub-processes nested to ANY depth around a chain of ANY length

The statement of C12 quantifies over "any nesting depth". `Props/C12Steps` gives the contract of ONE sub-process node for
every program; this file carries it through whole runs, by induction on the depth and on the length of the chain, for the
family of programs in which `d ≥ 1` sub-process levels are wrapped around a chain of `K ≥ 1` tasks `T₀ → … → T_{K-1}`, with a
task `C` behind the outermost level:

    s → U₀[ S₀ → U₁[ S₁ → … U_{d-1}[ S_{d-1} → T₀ → … → T_{K-1} → E_{d-1} ] … → E₁ ] → E₀ ] → C → e

* `Shape p d K U S E T` — what it means for a program `p` to be such a nest (stated through the program's own look-ups, so
  the theorems are about every program of that shape, whatever else it declares and however its nodes and flows are named);
* `descend` — the way in: every level is entered, one fresh token per inner start event, `T₀` is requested once;
* `inner_step` — along the chain: answering an innermost task that is not the last requests the next one; no level returns;
* `ascend` / `last_inner` — the way out: once the last innermost task is answered the levels return INNERMOST FIRST, each
  exactly once, each only when its scope holds no live token, and then `C` is requested — once;
* `nest_run` — the whole run (`NestRun`): start, every innermost task, `C`; the instance completes, nothing is left alive,
  the model never leaves its domain — for every `d`, every `K`, every initial data, whatever the answers carry;
* `nest_shape` / `nestProc_run` — the shape is inhabited at every depth and length (`nestProc d K`, names `Uxx…`, `Txx…`),
  so the theorem is not vacuous for any `d`, `K`;
* `nest_as_inline` — wrapped = inlined on this family: the requests of `nestProc d K` are, step by step, the requests of
  the bare chain `s → T₀ → … → T_{K-1} → C → e` (`Props/C01Chain.chain_conformance`), at every depth.

All of it is about the token game (`Cfg.ideal`); `Props/C12Steps.nest_run_current` transfers it to the configuration
extracted from today's /repo (`sub_programs_are_token_game`). Proof technique: the state is followed through the fields the
sub-process mechanism reads (`subs`, `pending`, the occurrence counters of names still to come, nothing parked: `Calm`),
everything else (tracker picture, lineage, data) is left arbitrary.
-/
namespace Bpmn.Props.C12Nest
open Bpmn.Model Bpmn.Model.Engine

def Goes (p : Proc) (a : String) (k : Kind) (par b : String) : Prop :=
  ∃ n fl f, p.node? a = some n ∧ n.id = a ∧ n.kind = k ∧ n.parent = par ∧ n.outs = [fl] ∧
    p.flow? fl = some f ∧ f.cond = .none ∧ f.dst = b

def IsEnd (p : Proc) (a par : String) : Prop :=
  ∃ n, p.node? a = some n ∧ n.id = a ∧ n.kind = .end_ ∧ n.parent = par
theorem selectFlows_single (p : Proc) (s : St) (t : Tok) (fl : String) (f : SFlow)
    (hf : p.flow? fl = some f) (hc : f.cond = .none) :
    selectFlows Cfg.ideal p s t [fl] false = ([{ t with node := f.dst }], false, s.recordFlow p t.node [t.fid]) := by
  simp [selectFlows, evalFlows, evalFlow, hf, hc, Cond.eval, Cond.evalB, Cfg.ideal, forkToks, flowDst, St.inherit]

/-- node `a` is of kind `k`, lies in scope `par`, and has exactly one outgoing flow, unconditioned, to `b` -/


theorem arrive_task (p : Proc) (s : St) (t : Tok) (par b : String) (h : Goes p t.node .task par b) :
    arrive Cfg.ideal p s t = ([], { ((bumpOcc s t.node).2.emit (.req t.node)) with
      pending := (bumpOcc s t.node).2.pending ++ [(t, (bumpOcc s t.node).1)] }) := by
  obtain ⟨n, fl, f, hn, hid, hk, -, -, -, -, -⟩ := h
  unfold arrive
  simp only [hn, hk, hid]

theorem arrive_start (p : Proc) (s : St) (t : Tok) (par b : String) (h : Goes p t.node .start par b)
    (hfresh : s.activated.contains t.node = false) :
    arrive Cfg.ideal p s t = ([{ t with node := b }],
      ({ s with activated := t.node :: s.activated } : St).recordFlow p t.node [t.fid]) := by
  obtain ⟨n, fl, f, hn, hid, hk, -, ho, hf, hc, hd⟩ := h
  unfold arrive
  simp only [hn, hk, hid, hfresh, ho, Bool.false_eq_true, if_false]
  rw [selectFlows_single p _ t fl f hf hc]
  simp [hd]

theorem arrive_end (p : Proc) (s : St) (t : Tok) (par : String) (h : IsEnd p t.node par) :
    arrive Cfg.ideal p s t = ([], (({ s with activated := if s.activated.contains t.node then s.activated else t.node :: s.activated } : St).emit
        (.complete t.node)).recordTerm t.fid) := by
  obtain ⟨n, hn, hid, hk, -⟩ := h
  unfold arrive
  simp only [hn, hk, hid]

theorem arrive_sub (p : Proc) (s : St) (t : Tok) (par b : String) (m : Node) (h : Goes p t.node .sub par b)
    (hst : p.nodes.filter (fun x => x.parent == t.node && x.kind == .start) = [m])
    (hidle : s.subs.any (·.node == t.node) = false) :
    arrive Cfg.ideal p s t = ([{ fid := s.nextFid, node := m.id }],
      { s with subs := s.subs ++ [t], activated := s.activated.filter (fun a => !(m.id == a)), nextFid := s.nextFid + 1 }) := by
  obtain ⟨n, fl, f, hn, hid, hk, -, -, -, -, -⟩ := h
  unfold arrive
  simp only [hn, hk, hid, hidle, hst, Bool.false_eq_true, if_false]
  simp [spawnStarts, enterSub, Cfg.ideal]


/-- the state after the parent token `u` has left its sub-process node -/
def returned (p : Proc) (s : St) (u : Tok) : St :=
  ({ s with subs := s.subs.filter (· != u),
            subFired := if s.subFired.contains u.node then s.subFired else u.node :: s.subFired } : St).recordFlow p u.node [u.fid]

theorem settle_none (p : Proc) (s : St) (hni : p.nodes.filter (·.kind == .incl) = [])
    (hlive : s.subs.find? (fun t => !liveInScope p s t.node []) = none) :
    settle Cfg.ideal p s = ([], s) := by
  simp [settle, settleIncl, hni, hlive]

/-- … and when the scope of the parent token `u` is the first empty one, `u` leaves its sub-process node -/
theorem settle_return (p : Proc) (s : St) (u : Tok) (par b : String) (hni : p.nodes.filter (·.kind == .incl) = [])
    (hfind : s.subs.find? (fun t => !liveInScope p s t.node []) = some u) (h : Goes p u.node .sub par b)
    (hpk : s.parked = []) :
    settle Cfg.ideal p s = ([{ u with node := b }], returned p s u) := by
  obtain ⟨n, fl, f, hn, hid, hk, -, ho, hf, hc, hd⟩ := h
  have e1 : Cfg.ideal.subNeverReturns = false := rfl
  simp only [settle, settleIncl, hni, List.foldl, hfind, e1, Bool.false_eq_true, if_false, hn, ho]
  rw [selectFlows_single p _ u fl f hf hc]
  rw [nextTurn_idle _ _ _ (by simp [St.recordFlow, hpk])]
  simp [hd, returned]


theorem runWork_cons (p : Proc) (fuel : Nat) (t : Tok) (rest : List Tok) (s : St) :
    runWork Cfg.ideal p (fuel + 1) (t :: rest) s =
      runWork Cfg.ideal p fuel (rest ++ (arrive Cfg.ideal p s t).1) (arrive Cfg.ideal p s t).2 := by
  have e : Cfg.ideal.eagerSettle = false := rfl
  rw [runWork]
  simp only [e, Bool.false_eq_true, if_false]

theorem runWork_nil_stop (p : Proc) (fuel : Nat) (s : St) (h : settle Cfg.ideal p s = ([], s)) (hig : s.ig = []) :
    runWork Cfg.ideal p (fuel + 1) [] s = s := by
  rw [runWork]
  simp only [h, hig]
  simp

theorem runWork_nil_go (p : Proc) (fuel : Nat) (s s' : St) (t : Tok) (h : settle Cfg.ideal p s = ([t], s')) :
    runWork Cfg.ideal p (fuel + 1) [] s = runWork Cfg.ideal p fuel [t] s' := by
  rw [runWork]
  simp only [h]
  simp


theorem tok_bne (a b : Tok) : (a != b) = true ↔ a ≠ b := by
  obtain ⟨f, n⟩ := a
  obtain ⟨g, m⟩ := b
  simp [bne, BEq.beq, instBEqTok.beq]
  by_cases h : f = g <;> simp [h]

/-- the scope a level lies in -/
def par (U : Nat → String) (i : Nat) : String := if i = 0 then "-" else U (i - 1)
/-- where the parent token of level `i` continues when the level is done -/
def up (E : Nat → String) (i : Nat) : String := if i = 0 then "C" else E (i - 1)
/-- what the inner start event of level `i - 1` leads to: the next level, or the first of the innermost tasks -/
def down (d : Nat) (U T : Nat → String) (i : Nat) : String := if i < d then U i else T 0
/-- what follows the `i`-th innermost task: the next one, or the end event of the innermost level -/
def nextT (d K : Nat) (E T : Nat → String) (i : Nat) : String := if i + 1 < K then T (i + 1) else E (d - 1)

structure Shape (p : Proc) (d K : Nat) (U S E T : Nat → String) : Prop where
  pos : 0 < d
  kpos : 0 < K
  noIncl : p.nodes.filter (·.kind == .incl) = []
  topStart : ∃ n, p.nodes.filter (fun n => n.kind == .start && n.parent == "-") = [n] ∧ n.id = "s"
  s_goes : Goes p "s" .start "-" (U 0)
  u_goes : ∀ i, i < d → Goes p (U i) .sub (par U i) (up E i)
  starts : ∀ i, i < d → ∃ m, p.nodes.filter (fun x => x.parent == U i && x.kind == .start) = [m] ∧ m.id = S i
  st_goes : ∀ i, i < d → Goes p (S i) .start (U i) (down d U T (i + 1))
  ends : ∀ i, i < d → IsEnd p (E i) (U i)
  t_goes : ∀ i, i < K → Goes p (T i) .task (U (d - 1)) (nextT d K E T i)
  tinj : ∀ i j, i < K → j < K → T i = T j → i = j
  tC : ∀ i, i < K → T i ≠ "C"
  c_goes : Goes p "C" .task "-" "e"
  e_end : IsEnd p "e" "-"
  inj : ∀ i j, i < d → j < d → U i = U j → i = j
  notTop : ∀ i, i < d → U i ≠ "-"
  fuel : 4 * d + 8 ≤ fuelFor p

/-- the parent token held in level `i`: the `i+1`-th token of the run -/
def tk (U : Nat → String) (i : Nat) : Tok := { fid := i + 1, node := U i }
def subsAt (U : Nat → String) (k : Nat) : List Tok := (List.range k).map (tk U)

theorem subsAt_succ (U : Nat → String) (k : Nat) : subsAt U (k + 1) = subsAt U k ++ [tk U k] := by
  simp [subsAt, List.range_succ]

theorem mem_subsAt (U : Nat → String) (k : Nat) (x : Tok) : x ∈ subsAt U k ↔ ∃ i, i < k ∧ x = tk U i := by
  simp [subsAt, eq_comm]

theorem filter_last (U : Nat → String) (k : Nat) : (subsAt U (k + 1)).filter (· != tk U k) = subsAt U k := by
  rw [subsAt_succ, List.filter_append]
  have h1 : (subsAt U k).filter (· != tk U k) = subsAt U k := by
    apply List.filter_eq_self.mpr
    intro x hx
    obtain ⟨i, hi, rfl⟩ := (mem_subsAt U k x).mp hx
    apply (tok_bne _ _).mpr
    intro e
    have : i + 1 = k + 1 := congrArg Tok.fid e
    omega
  have h2 : [tk U k].filter (· != tk U k) = [] := by
    simp [List.filter, bne]
    obtain ⟨f, n⟩ := tk U k
    simp [BEq.beq, instBEqTok.beq]
  rw [h1, h2]; simp

variable {p : Proc} {d K : Nat} {U S E T : Nat → String}

/-- is node `a` a direct child of scope `x`? -/
def inScope (p : Proc) (x a : String) : Bool := (p.node? a).map (·.parent == x) |>.getD false

theorem inScope_U (sh : Shape p d K U S E T) (j : Nat) (hj : j < d) (x : String) :
    inScope p x (U j) = (par U j == x) := by
  obtain ⟨n, fl, f, hn, -, -, hp, -⟩ := sh.u_goes j hj
  simp [inScope, hn, hp]

theorem par_eq (sh : Shape p d K U S E T) (j i : Nat) (hj : j < d) (hi : i < d) : (par U j == U i) = decide (j = i + 1) := by
  unfold par
  by_cases h0 : j = 0
  · subst h0
    have := sh.notTop i hi
    simp [Ne.symm this]
  · simp only [h0, if_false]
    by_cases e : j = i + 1
    · subst e; simp
    · have : U (j - 1) ≠ U i := fun h => e (by have := sh.inj (j - 1) i (by omega) hi h; omega)
      simp [this, e]

/-- with nothing parked anywhere, the live tokens of a scope are pending requests and parent tokens of nested levels -/
theorem live_eq (s : St) (x : String) (h1 : s.parked = []) (h2 : s.pg = []) (h3 : s.ig = []) :
    liveInScope p s x [] = (s.pending.any (fun q => inScope p x q.1.node) || s.subs.any (fun t => inScope p x t.node)) := by
  simp [liveInScope, h1, h2, h3, inScope]
theorem find?_congr' {α : Type _} {q r : α → Bool} : ∀ {l : List α}, (∀ x ∈ l, q x = r x) → l.find? q = l.find? r
  | [], _ => rfl
  | a :: l, h => by
    have ha := h a (by simp)
    have ih := find?_congr' (l := l) (fun x hx => h x (by simp [hx]))
    simp [List.find?, ha, ih]

theorem any_subsAt (sh : Shape p d K U S E T) (m i : Nat) (hm : m ≤ d) (hi : i < d) :
    (subsAt U m).any (fun u => inScope p (U i) u.node) = decide (i + 1 < m) := by
  rw [Bool.eq_iff_iff]
  simp only [List.any_eq_true, decide_eq_true_eq]
  constructor
  · rintro ⟨x, hx, hs⟩
    obtain ⟨j, hj, rfl⟩ := (mem_subsAt U m x).mp hx
    have : (tk U j).node = U j := rfl
    rw [this, inScope_U sh j (by omega), par_eq sh j i (by omega) hi] at hs
    simp at hs
    omega
  · intro h
    refine ⟨tk U (i + 1), (mem_subsAt U m _).mpr ⟨i + 1, h, rfl⟩, ?_⟩
    have : (tk U (i + 1)).node = U (i + 1) := rfl
    rw [this, inScope_U sh (i + 1) (by omega), par_eq sh (i + 1) i (by omega) hi]
    simp

/-- the innermost open level is the first whose scope is empty once nothing is pending -/
theorem find_last (sh : Shape p d K U S E T) (k : Nat) (hk : k < d) (s : St) (hs : s.subs = subsAt U (k + 1))
    (hp : s.pending = []) (h1 : s.parked = []) (h2 : s.pg = []) (h3 : s.ig = []) :
    s.subs.find? (fun t => !liveInScope p s t.node []) = some (tk U k) := by
  have hpred : ∀ t ∈ subsAt U (k + 1), (!liveInScope p s t.node []) = decide (t = tk U k) := by
    intro t ht
    obtain ⟨i, hi, rfl⟩ := (mem_subsAt U (k + 1) t).mp ht
    rw [live_eq s _ h1 h2 h3, hp, hs]
    have : (tk U i).node = U i := rfl
    rw [this, any_subsAt sh (k + 1) i (by omega) (by omega)]
    simp only [List.any_nil, Bool.false_or]
    by_cases e : i = k
    · subst e; simp
    · have : tk U i ≠ tk U k := fun h => e (by have : i + 1 = k + 1 := congrArg Tok.fid h; omega)
      simp [this]; omega
  rw [hs, find?_congr' hpred, subsAt_succ, List.find?_append]
  have : (subsAt U k).find? (fun t => decide (t = tk U k)) = none := by
    apply List.find?_eq_none.mpr
    intro x hx
    obtain ⟨i, hi, rfl⟩ := (mem_subsAt U k x).mp hx
    have : tk U i ≠ tk U k := fun h => (by have : i + 1 = k + 1 := congrArg Tok.fid h; omega)
    simp [this]
  simp [this]

/-- while one of the innermost tasks is pending, no level's scope is empty -/
theorem find_none (sh : Shape p d K U S E T) (s : St) (t' : Tok) (occ i : Nat) (hi : i < K) (hs : s.subs = subsAt U d)
    (hp : s.pending = [(t', occ)]) (ht : t'.node = T i) (h1 : s.parked = []) (h2 : s.pg = []) (h3 : s.ig = []) :
    s.subs.find? (fun t => !liveInScope p s t.node []) = none := by
  apply List.find?_eq_none.mpr
  intro x hx
  rw [hs] at hx
  obtain ⟨j, hj, rfl⟩ := (mem_subsAt U d x).mp hx
  rw [live_eq s _ h1 h2 h3, hp, hs]
  have : (tk U j).node = U j := rfl
  rw [this, any_subsAt sh d j (Nat.le_refl d) hj]
  obtain ⟨n, fl, f, hn, -, -, hpar, -⟩ := sh.t_goes i hi
  by_cases e : j + 1 < d
  · simp [e]
  · have : j = d - 1 := by omega
    subst this
    simp [inScope, ht, hn, hpar]


/-- the part of the state the nesting argument follows: who is held where; nothing is parked anywhere -/
structure Calm (s : St) : Prop where
  parked : s.parked = []
  pg : s.pg = []
  ig : s.ig = []
  oos : s.outOfScope = none

/-- the completions of the inner end events from level `k - 1` outwards -/
def completions (E : Nat → String) (k : Nat) : List Obs := (List.range k).reverse.map (fun i => Obs.complete (E i))

theorem completions_succ (E : Nat → String) (k : Nat) :
    completions E (k + 1) = Obs.complete (E k) :: completions E k := by
  simp [completions, List.range_succ]

/-- **The way out.** `k` levels are open, nothing is pending, a token stands where level `k` continues (the inner end event
of level `k - 1`, or `C` once every level is closed): the levels return innermost first, one completion each, and then `C`
is requested — once. -/
theorem ascend (sh : Shape p d K U S E T) : ∀ (k : Nat), k ≤ d → ∀ (fuel : Nat), 2 * k + 2 ≤ fuel → ∀ (s : St) (t : Tok),
    Calm s → s.subs = subsAt U k → s.pending = [] → s.occ.find? (·.1 == "C") = none → t.node = up E k →
    Calm (runWork Cfg.ideal p fuel [t] s) ∧ (runWork Cfg.ideal p fuel [t] s).subs = [] ∧
    (runWork Cfg.ideal p fuel [t] s).obs = s.obs ++ completions E k ++ [.req "C"] ∧
    ∃ t', (runWork Cfg.ideal p fuel [t] s).pending = [(t', 1)] ∧ t'.node = "C" := by
  intro k
  induction k with
  | zero =>
    intro _ fuel hf s t hc hs hp ho ht
    obtain ⟨f2, rfl⟩ : ∃ f2, fuel = f2 + 2 := ⟨fuel - 2, by omega⟩
    have ht' : t.node = "C" := by simpa [up] using ht
    have hg : Goes p t.node .task "-" "e" := by rw [ht']; exact sh.c_goes
    rw [runWork_cons, arrive_task p s t _ _ hg]
    simp only [List.nil_append]
    have hb1 : (bumpOcc s t.node).1 = 1 := by simp [bumpOcc, ho, ht']
    rw [runWork_nil_stop]
    · refine ⟨⟨?_, ?_, ?_, ?_⟩, ?_, ?_, ⟨t, ?_, ht'⟩⟩
      all_goals simp [bumpOcc, St.emit, hc.parked, hc.pg, hc.ig, hc.oos, hs, subsAt, hp, completions, ho, ht']
    · apply settle_none _ _ sh.noIncl
      simp [bumpOcc, St.emit, hs, subsAt]
    · simp [bumpOcc, St.emit, hc.ig]
  | succ k ih =>
    intro hk fuel hf s t hc hs hp ho ht
    obtain ⟨f2, rfl⟩ : ∃ f2, fuel = f2 + 2 := ⟨fuel - 2, by omega⟩
    have ht' : t.node = E k := by simpa [up] using ht
    have hg : IsEnd p t.node (U k) := by rw [ht']; exact sh.ends k (by omega)
    rw [runWork_cons, arrive_end p s t _ hg]
    simp only [List.nil_append]
    generalize hs1 : ((({ s with activated := if s.activated.contains t.node then s.activated else t.node :: s.activated } : St).emit
        (.complete t.node)).recordTerm t.fid) = s1
    have c1 : Calm s1 := by
      subst hs1
      exact ⟨by simp [St.recordTerm, St.emit, hc.parked], by simp [St.recordTerm, St.emit, hc.pg],
        by simp [St.recordTerm, St.emit, hc.ig], by simp [St.recordTerm, St.emit, hc.oos]⟩
    have e1 : s1.subs = subsAt U (k + 1) := by subst hs1; simp [St.recordTerm, St.emit, hs]
    have e2 : s1.pending = [] := by subst hs1; simp [St.recordTerm, St.emit, hp]
    have e3 : s1.occ.find? (·.1 == "C") = none := by subst hs1; simpa [St.recordTerm, St.emit] using ho
    have e4 : s1.obs = s.obs ++ [.complete (E k)] := by subst hs1; simp [St.recordTerm, St.emit, ht']
    have hfind := find_last sh k (by omega) s1 e1 e2 c1.parked c1.pg c1.ig
    have hgo : Goes p (tk U k).node .sub (par U k) (up E k) := sh.u_goes k (by omega)
    have hset := settle_return p s1 (tk U k) _ _ sh.noIncl hfind hgo c1.parked
    generalize hs2 : returned p s1 (tk U k) = s2 at hset
    have c2 : Calm s2 := by
      subst hs2
      exact ⟨by simp [returned, St.recordFlow, c1.parked], by simp [returned, St.recordFlow, c1.pg], by simp [returned, St.recordFlow, c1.ig],
        by simp [returned, St.recordFlow, c1.oos]⟩
    have g1 : s2.subs = subsAt U k := by
      subst hs2
      simp only [returned, St.recordFlow, e1]
      exact filter_last U k
    have g2 : s2.pending = [] := by subst hs2; simp [returned, St.recordFlow, e2]
    have g3 : s2.occ.find? (·.1 == "C") = none := by subst hs2; simpa [returned, St.recordFlow] using e3
    have g4 : s2.obs = s.obs ++ [.complete (E k)] := by subst hs2; simp [returned, St.recordFlow, e4]
    rw [runWork_nil_go p f2 s1 s2 _ hset]
    obtain ⟨c, hsub, hobs, hpend⟩ := ih (by omega) f2 (by omega) s2 { tk U k with node := up E k } c2 g1 g2 g3 rfl
    refine ⟨c, hsub, ?_, hpend⟩
    rw [hobs, g4, completions_succ]
    simp

theorem tok_beq_self (a : Tok) : (a == a) = true := by
  obtain ⟨f, n⟩ := a
  simp [BEq.beq, instBEqTok.beq]

/-- the state in which the work list runs after request `(t, 1)` — the only pending one — was answered with `results` -/
def answered (p : Proc) (s : St) (t : Tok) (n : Node) (results : List (String × Int)) : St :=
  ({ s with obs := [], pending := [], vars := applyDeclared n s.vars results } : St).recordFlow p t.node [t.fid]

theorem answer_ok (p : Proc) (s : St) (t : Tok) (par b : String) (results : List (String × Int))
    (hpend : s.pending = [(t, 1)]) (hg : Goes p t.node .task par b) :
    ∃ n, answer Cfg.ideal p s t.node 1 (.ok results) =
      runWork Cfg.ideal p (fuelFor p) [{ t with node := b }] (answered p s t n results) := by
  obtain ⟨n, fl, f, hn, hid, hk, -, ho, hf, hc, hd⟩ := hg
  refine ⟨n, ?_⟩
  unfold answer
  have hfind : (({ s with obs := [] } : St).pending.find? (fun q => q.1.node == t.node && q.2 == 1)) = some (t, 1) := by
    simp [hpend]
  simp only [hfind, hn, ho]
  rw [selectFlows_single p _ t fl f hf hc]
  have hfil : [(t, 1)].filter (fun x => x != (t, (1 : Nat))) = [] := by
    have e : ((t, (1 : Nat)) == (t, 1)) = true := by
      show (t == t && (1 : Nat) == 1) = true
      simp [tok_beq_self]
    simp [List.filter, bne, e]
  simp [hd, answered, hpend, hfil]

/-- the state after token `t` has entered its sub-process node, whose single inner start event is `m` -/
def entered (s : St) (t : Tok) (m : Node) : St :=
  { s with subs := s.subs ++ [t], activated := s.activated.filter (fun a => !(m.id == a)), nextFid := s.nextFid + 1 }

/-- the state after token `t` has left its (fresh) start event -/
def started (p : Proc) (s : St) (t : Tok) : St :=
  ({ s with activated := t.node :: s.activated } : St).recordFlow p t.node [t.fid]

/-- the state after token `t` has been handed to its task -/
def requested (s : St) (t : Tok) : St :=
  { ((bumpOcc s t.node).2.emit (.req t.node)) with
      pending := (bumpOcc s t.node).2.pending ++ [(t, (bumpOcc s t.node).1)] }

/-- **The way in.** `k` levels are entered, the `k+1`-th token of the run stands at the next sub-process node (or at the
innermost task): every remaining level is entered, one fresh token per inner start event, and `T` is requested — once;
nothing else is. -/
theorem descend (sh : Shape p d K U S E T) : ∀ (m k : Nat), k + m = d → ∀ (fuel : Nat), 2 * m + 2 ≤ fuel → ∀ (s : St),
    Calm s → s.subs = subsAt U k → s.pending = [] → s.occ = [] → s.nextFid = k + 2 →
    Calm (runWork Cfg.ideal p fuel [{ fid := k + 1, node := down d U T k }] s) ∧
    (runWork Cfg.ideal p fuel [{ fid := k + 1, node := down d U T k }] s).subs = subsAt U d ∧
    (runWork Cfg.ideal p fuel [{ fid := k + 1, node := down d U T k }] s).obs = s.obs ++ [.req (T 0)] ∧
    (runWork Cfg.ideal p fuel [{ fid := k + 1, node := down d U T k }] s).occ = [(T 0, 1)] ∧
    ∃ t', (runWork Cfg.ideal p fuel [{ fid := k + 1, node := down d U T k }] s).pending = [(t', 1)] ∧ t'.node = T 0 := by
  intro m
  induction m with
  | zero =>
    intro k hkd fuel hf s hc hs hp ho hn
    obtain ⟨f2, rfl⟩ : ∃ f2, fuel = f2 + 2 := ⟨fuel - 2, by omega⟩
    have hk : k = d := by omega
    subst hk
    have hdown : down k U T k = T 0 := by simp [down]
    rw [hdown]
    have hg : Goes p ({ fid := k + 1, node := T 0 } : Tok).node .task (U (k - 1)) (nextT k K E T 0) := sh.t_goes 0 sh.kpos
    rw [runWork_cons, arrive_task p s _ _ _ hg]
    simp only [List.nil_append]
    have hsettle : settle Cfg.ideal p (requested s { fid := k + 1, node := T 0 }) = ([], requested s { fid := k + 1, node := T 0 }) := by
      apply settle_none _ _ sh.noIncl
      apply find_none sh _ { fid := k + 1, node := T 0 } 1 0 sh.kpos
      · simp [requested, bumpOcc, St.emit, hs]
      · simp [requested, bumpOcc, St.emit, hp, ho]
      · rfl
      · simp [requested, bumpOcc, St.emit, hc.parked]
      · simp [requested, bumpOcc, St.emit, hc.pg]
      · simp [requested, bumpOcc, St.emit, hc.ig]
    have := runWork_nil_stop p f2 (requested s { fid := k + 1, node := T 0 }) hsettle (by simp [requested, bumpOcc, St.emit, hc.ig])
    unfold requested at this
    rw [this]
    refine ⟨⟨?_, ?_, ?_, ?_⟩, ?_, ?_, ?_, ⟨{ fid := k + 1, node := T 0 }, ?_, rfl⟩⟩
    all_goals simp [bumpOcc, St.emit, hc.parked, hc.pg, hc.ig, hc.oos, hs, hp, ho]
  | succ m ih =>
    intro k hkd fuel hf s hc hs hp ho hn
    obtain ⟨f2, rfl⟩ : ∃ f2, fuel = f2 + 2 := ⟨fuel - 2, by omega⟩
    have hk : k < d := by omega
    have hdown : down d U T k = U k := by simp [down, hk]
    rw [hdown]
    obtain ⟨mn, hst, hmid⟩ := sh.starts k hk
    have hg : Goes p ({ fid := k + 1, node := U k } : Tok).node .sub (par U k) (up E k) := sh.u_goes k hk
    have hidle : s.subs.any (fun x => x.node == ({ fid := k + 1, node := U k } : Tok).node) = false := by
      rw [hs]
      apply Bool.eq_false_iff.mpr
      intro h
      obtain ⟨x, hx, he⟩ := List.any_eq_true.mp h
      obtain ⟨i, hi, rfl⟩ := (mem_subsAt U k x).mp hx
      have : U i = U k := by simpa [tk] using he
      have := sh.inj i k (by omega) hk this
      omega
    rw [runWork_cons, arrive_sub p s _ _ _ mn hg hst hidle]
    simp only [List.nil_append]
    have hg2 : Goes p ({ fid := s.nextFid, node := mn.id } : Tok).node .start (U k) (down d U T (k + 1)) := by
      simp only [hmid]; exact sh.st_goes k hk
    have hfresh : (entered s { fid := k + 1, node := U k } mn).activated.contains ({ fid := s.nextFid, node := mn.id } : Tok).node = false := by
      simp [entered]
    have := arrive_start p (entered s { fid := k + 1, node := U k } mn) { fid := s.nextFid, node := mn.id } _ _ hg2 hfresh
    unfold entered at this
    rw [runWork_cons, this]
    simp only [List.nil_append, hn]
    have := ih (k + 1) (by omega) f2 (by omega) (started p (entered s { fid := k + 1, node := U k } mn) { fid := k + 2, node := mn.id })
      ⟨by simp [started, entered, St.recordFlow, hc.parked], by simp [started, entered, St.recordFlow, hc.pg],
        by simp [started, entered, St.recordFlow, hc.ig], by simp [started, entered, St.recordFlow, hc.oos]⟩
      (by simp only [started, entered, St.recordFlow, hs]; exact (subsAt_succ U k).symm)
      (by simp [started, entered, St.recordFlow, hp]) (by simp [started, entered, St.recordFlow, ho])
      (by simp [started, entered, St.recordFlow, hn])
    unfold started entered at this
    simp only [hn] at this
    have hobs : (started p (entered s { fid := k + 1, node := U k } mn) { fid := k + 2, node := mn.id }).obs = s.obs := by
      simp [started, entered, St.recordFlow]
    unfold started entered at hobs
    simp only [hn] at hobs
    rw [hobs] at this
    exact this


/-! ## the innermost chain and the whole run -/

theorem answered_calm (s : St) (t : Tok) (n : Node) (r : List (String × Int)) (hc : Calm s) : Calm (answered p s t n r) :=
  ⟨by simp [answered, St.recordFlow, hc.parked], by simp [answered, St.recordFlow, hc.pg], by simp [answered, St.recordFlow, hc.ig],
    by simp [answered, St.recordFlow, hc.oos]⟩

/-- a fresh name stays fresh when another name's occurrence is counted -/
theorem occ_fresh (occ : List (String × Nat)) (x y : String) (n : Nat) (hxy : x ≠ y) (h : occ.find? (·.1 == x) = none) :
    ((occ.filter (·.1 != y)) ++ [(y, n)]).find? (·.1 == x) = none := by
  apply List.find?_eq_none.mpr
  intro z hz
  rcases List.mem_append.mp hz with hz | hz
  · exact List.find?_eq_none.mp h z (List.mem_filter.mp hz).1
  · have : z = (y, n) := by simpa using hz
    subst this
    simpa using fun e => hxy e.symm

/-- **One step along the innermost chain.** Every level is open, the `i`-th innermost task is the only pending request and
it is not the last one: answering it requests the next innermost task — nothing else happens, no level returns. -/
theorem inner_step (sh : Shape p d K U S E T) (i : Nat) (hi : i + 1 < K) (s : St) (t : Tok) (r : List (String × Int))
    (hc : Calm s) (hs : s.subs = subsAt U d) (hp : s.pending = [(t, 1)]) (ht : t.node = T i)
    (hoC : s.occ.find? (·.1 == "C") = none) (hoT : ∀ j, i < j → j < K → s.occ.find? (·.1 == T j) = none) :
    (answer Cfg.ideal p s (T i) 1 (.ok r)).obs = [.req (T (i + 1))] ∧ Calm (answer Cfg.ideal p s (T i) 1 (.ok r)) ∧
    (answer Cfg.ideal p s (T i) 1 (.ok r)).subs = subsAt U d ∧
    (∃ t', (answer Cfg.ideal p s (T i) 1 (.ok r)).pending = [(t', 1)] ∧ t'.node = T (i + 1)) ∧
    (answer Cfg.ideal p s (T i) 1 (.ok r)).occ.find? (·.1 == "C") = none ∧
    (∀ j, i + 1 < j → j < K → (answer Cfg.ideal p s (T i) 1 (.ok r)).occ.find? (·.1 == T j) = none) := by
  have hg : Goes p t.node .task (U (d - 1)) (T (i + 1)) := by
    rw [ht]; have := sh.t_goes i (by omega); simpa [nextT, hi] using this
  obtain ⟨n, hans⟩ := answer_ok p s t _ _ r hp hg
  rw [ht] at hans
  have hfuel := sh.fuel
  obtain ⟨f2, hf2⟩ : ∃ f2, fuelFor p = f2 + 2 := ⟨fuelFor p - 2, by omega⟩
  have hg2 : Goes p ({ t with node := T (i + 1) } : Tok).node .task (U (d - 1)) (nextT d K E T (i + 1)) := sh.t_goes (i + 1) hi
  rw [hf2, runWork_cons, arrive_task p _ _ _ _ hg2] at hans
  simp only [List.nil_append] at hans
  have hfresh : (answered p s t n r).occ.find? (·.1 == T (i + 1)) = none := by
    simpa [answered, St.recordFlow] using hoT (i + 1) (by omega) hi
  have hsettle : settle Cfg.ideal p (requested (answered p s t n r) { t with node := T (i + 1) }) =
      ([], requested (answered p s t n r) { t with node := T (i + 1) }) := by
    apply settle_none _ _ sh.noIncl
    apply find_none sh _ { t with node := T (i + 1) } ((bumpOcc (answered p s t n r) (T (i + 1))).1) (i + 1) hi
    · simp [requested, bumpOcc, St.emit, answered, St.recordFlow, hs]
    · simp [requested, bumpOcc, St.emit, answered, St.recordFlow]
    · rfl
    · simp [requested, bumpOcc, St.emit, answered, St.recordFlow, hc.parked]
    · simp [requested, bumpOcc, St.emit, answered, St.recordFlow, hc.pg]
    · simp [requested, bumpOcc, St.emit, answered, St.recordFlow, hc.ig]
  have hstop := runWork_nil_stop p f2 (requested (answered p s t n r) { t with node := T (i + 1) }) hsettle
    (by simp [requested, bumpOcc, St.emit, answered, St.recordFlow, hc.ig])
  unfold requested at hstop
  rw [hstop] at hans
  rw [hans]
  have hb : (bumpOcc (answered p s t n r) (T (i + 1))).1 = 1 := by
    simp only [bumpOcc, hfresh]; rfl
  refine ⟨?_, ⟨?_, ?_, ?_, ?_⟩, ?_, ⟨{ t with node := T (i + 1) }, ?_, rfl⟩, ?_, ?_⟩
  · simp [bumpOcc, St.emit, answered, St.recordFlow]
  · simp [bumpOcc, St.emit, answered, St.recordFlow, hc.parked]
  · simp [bumpOcc, St.emit, answered, St.recordFlow, hc.pg]
  · simp [bumpOcc, St.emit, answered, St.recordFlow, hc.ig]
  · simp [bumpOcc, St.emit, answered, St.recordFlow, hc.oos]
  · simp [bumpOcc, St.emit, answered, St.recordFlow, hs]
  · simp only [hb]; simp [bumpOcc, answered, St.recordFlow]
  · simp only [bumpOcc, St.emit, answered, St.recordFlow]
    exact occ_fresh _ _ _ _ (fun e => sh.tC (i + 1) hi e.symm) hoC
  · intro j hj hjK
    simp only [bumpOcc, St.emit, answered, St.recordFlow]
    exact occ_fresh _ _ _ _ (fun e => by have := sh.tinj j (i + 1) hjK hi e; omega) (hoT j (by omega) hjK)

/-- **The last innermost task.** Answering it closes every level, innermost first, and requests `C`. -/
theorem last_inner (sh : Shape p d K U S E T) (s : St) (t : Tok) (r : List (String × Int))
    (hc : Calm s) (hs : s.subs = subsAt U d) (hp : s.pending = [(t, 1)]) (ht : t.node = T (K - 1))
    (hoC : s.occ.find? (·.1 == "C") = none) :
    (answer Cfg.ideal p s (T (K - 1)) 1 (.ok r)).obs = completions E d ++ [.req "C"] ∧
    Calm (answer Cfg.ideal p s (T (K - 1)) 1 (.ok r)) ∧ (answer Cfg.ideal p s (T (K - 1)) 1 (.ok r)).subs = [] ∧
    ∃ t', (answer Cfg.ideal p s (T (K - 1)) 1 (.ok r)).pending = [(t', 1)] ∧ t'.node = "C" := by
  have hK := sh.kpos
  have hd := sh.pos
  have hg : Goes p t.node .task (U (d - 1)) (E (d - 1)) := by
    rw [ht]; have := sh.t_goes (K - 1) (by omega)
    have e : ¬ (K - 1 + 1 < K) := by omega
    simpa [nextT, e] using this
  obtain ⟨n, hans⟩ := answer_ok p s t _ _ r hp hg
  rw [ht] at hans
  have hup : E (d - 1) = up E d := by simp [up]; omega
  have hfuel := sh.fuel
  obtain ⟨c1, hsub1, hobs1, t1, hpend1, ht1⟩ := ascend sh d (Nat.le_refl d) (fuelFor p) (by omega) (answered p s t n r)
    { t with node := E (d - 1) } (answered_calm s t n r hc)
    (by simp [answered, St.recordFlow, hs]) (by simp [answered, St.recordFlow])
    (by simpa [answered, St.recordFlow] using hoC) hup
  rw [← hans] at c1 hsub1 hobs1 hpend1
  refine ⟨?_, c1, hsub1, t1, hpend1, ht1⟩
  rw [hobs1]; simp [answered, St.recordFlow]

/-- **Behind the nest.** `C` is the only pending request and no level is open: answering it ends the instance. -/
theorem answer_C (sh : Shape p d K U S E T) (s : St) (t : Tok) (r : List (String × Int))
    (hc : Calm s) (hs : s.subs = []) (hp : s.pending = [(t, 1)]) (ht : t.node = "C") :
    (answer Cfg.ideal p s "C" 1 (.ok r)).obs = [.complete "e"] ∧ (answer Cfg.ideal p s "C" 1 (.ok r)).topLive p = false ∧
    (answer Cfg.ideal p s "C" 1 (.ok r)).outOfScope = none ∧ (answer Cfg.ideal p s "C" 1 (.ok r)).subs = [] := by
  have hgC : Goes p t.node .task "-" "e" := by rw [ht]; exact sh.c_goes
  obtain ⟨nC, hansC⟩ := answer_ok p s t _ _ r hp hgC
  rw [ht] at hansC
  have hfuel := sh.fuel
  obtain ⟨f3, hf3⟩ : ∃ f3, fuelFor p = f3 + 2 := ⟨fuelFor p - 2, by omega⟩
  have hgE : IsEnd p ({ t with node := "e" } : Tok).node "-" := sh.e_end
  rw [hf3, runWork_cons, arrive_end p _ _ _ hgE] at hansC
  simp only [List.nil_append] at hansC
  rw [runWork_nil_stop] at hansC
  · refine ⟨?_, ?_, ?_, ?_⟩
    · rw [hansC]; simp [answered, St.recordFlow, St.recordTerm, St.emit]
    · rw [hansC]
      unfold St.topLive
      rw [live_eq _ _ (by simp [answered, St.recordFlow, St.recordTerm, St.emit, hc.parked])
        (by simp [answered, St.recordFlow, St.recordTerm, St.emit, hc.pg]) (by simp [answered, St.recordFlow, St.recordTerm, St.emit, hc.ig])]
      simp [answered, St.recordFlow, St.recordTerm, St.emit, hs]
    · rw [hansC]; simp [answered, St.recordFlow, St.recordTerm, St.emit, hc.oos]
    · rw [hansC]; simp [answered, St.recordFlow, St.recordTerm, St.emit, hs]
  · apply settle_none _ _ sh.noIncl
    simp [answered, St.recordFlow, St.recordTerm, St.emit, hs]
  · simp [answered, St.recordFlow, St.recordTerm, St.emit, hc.ig]

/-- the innermost tasks from the `i`-th on, `m` of them -/
def namesFrom (T : Nat → String) : Nat → Nat → List String
  | _, 0 => []
  | i, m + 1 => T i :: namesFrom T (i + 1) m

/-- answer the named requests (first occurrence each) one after the other, at configuration `cfg`: the observations of every
step, and the final state -/
def traceC (cfg : Cfg) (p : Proc) : St → List (String × List (String × Int)) → List (List Obs) × St
  | s, [] => ([], s)
  | s, (a, r) :: rest =>
    ((answer cfg p s a 1 (.ok r)).obs :: (traceC cfg p (answer cfg p s a 1 (.ok r)) rest).1,
     (traceC cfg p (answer cfg p s a 1 (.ok r)) rest).2)

/-- … under the token game -/
abbrev trace (p : Proc) := traceC Cfg.ideal p

theorem trace_fst (p : Proc) : ∀ (as : List (String × List (String × Int))) (s : St),
    (trace p s as).1 = Bpmn.Props.C01Chain.runChain Cfg.ideal p s as
  | [], _ => rfl
  | (a, r) :: rest, s => by simp [trace, traceC, Bpmn.Props.C01Chain.runChain, ← trace_fst p rest]

/-- what the token game prescribes from the current innermost task on (`comp`: the completions of the levels): after each
innermost task the next one, after the last one every level returns and `C` is requested, after `C` the end event -/
def expectedNest (comp : List Obs) : List String → List (List Obs)
  | [] => []
  | [_] => [comp ++ [.req "C"], [.complete "e"]]
  | _ :: b :: rest => [.req b] :: expectedNest comp (b :: rest)

/-- **Along the innermost chain and out.** From the `i`-th innermost task on (`m + 1` of them left), whatever the answers
carry. -/
theorem inner_chain (sh : Shape p d K U S E T) : ∀ (m i : Nat), i + m + 1 = K → ∀ (s : St) (t : Tok),
    Calm s → s.subs = subsAt U d → s.pending = [(t, 1)] → t.node = T i → s.occ.find? (·.1 == "C") = none →
    (∀ j, i < j → j < K → s.occ.find? (·.1 == T j) = none) → ∀ (rs : List (List (String × Int))), rs.length = m + 2 →
    (trace p s ((namesFrom T i (m + 1) ++ ["C"]).zip rs)).1 = expectedNest (completions E d) (namesFrom T i (m + 1)) ∧
    (trace p s ((namesFrom T i (m + 1) ++ ["C"]).zip rs)).2.topLive p = false ∧
    (trace p s ((namesFrom T i (m + 1) ++ ["C"]).zip rs)).2.outOfScope = none ∧
    (trace p s ((namesFrom T i (m + 1) ++ ["C"]).zip rs)).2.subs = [] := by
  intro m
  induction m with
  | zero =>
    intro i hiK s t hc hs hp ht hoC _ rs hrs
    have hi : i = K - 1 := by omega
    subst hi
    match rs, hrs with
    | [r1, r2], _ =>
      obtain ⟨o1, c1, s1, t1, p1, n1⟩ := last_inner sh s t r1 hc hs hp ht hoC
      obtain ⟨o2, l2, oo2, s2⟩ := answer_C sh _ t1 r2 c1 s1 p1 n1
      simp only [namesFrom, List.cons_append, List.nil_append, List.zip_cons_cons, List.zip_nil_right, trace, traceC, expectedNest]
      exact ⟨by rw [o1, o2], l2, oo2, s2⟩
  | succ m ih =>
    intro i hiK s t hc hs hp ht hoC hoT rs hrs
    match rs, hrs with
    | r :: rs', hrs' =>
      obtain ⟨o1, c1, s1, ⟨t1, p1, n1⟩, oC1, oT1⟩ := inner_step sh i (by omega) s t r hc hs hp ht hoC hoT
      have := ih (i + 1) (by omega) _ t1 c1 s1 p1 n1 oC1 oT1 rs' (by simpa using hrs')
      simp only [namesFrom, List.cons_append, List.zip_cons_cons, trace, traceC, expectedNest] at this ⊢
      exact ⟨by rw [o1, this.1], this.2⟩

/-- a whole run of a nest: start, then the innermost tasks in order, then `C` — each answered once -/
structure NestRun (p : Proc) (d K : Nat) (E T : Nat → String) (s0 : St) (steps : List (List Obs) × St) : Prop where
  /-- starting the instance enters every level and requests the first innermost task — nothing else -/
  start_obs : s0.obs = [.req (T 0)]
  /-- after each innermost task the next one is requested; after the last one the levels return innermost first, one
  completion each, and the task behind the outermost sub-process is requested — exactly once; after it the end event -/
  steps_obs : steps.1 = expectedNest (completions E d) (namesFrom T 0 K)
  /-- nothing is left alive -/
  completes : steps.2.topLive p = false
  /-- no parent token is left inside any sub-process node -/
  all_returned : steps.2.subs = []
  in_scope : s0.outOfScope = none ∧ steps.2.outOfScope = none

/-- **C12, any nesting depth, any chain inside.** For every program of the nest shape — `d ≥ 1` sub-process levels around a
chain of `K ≥ 1` tasks, a task behind the outermost level — every initial data and whatever the answers carry, the token game
(`Cfg.ideal`) requests the innermost tasks one after the other as the chain alone would, returns through every level exactly
once after the last of them is answered, requests the following task once, and the instance completes. -/
theorem nest_run (sh : Shape p d K U S E T) (vars : Vars) (rs : List (List (String × Int))) (hrs : rs.length = K + 1) :
    NestRun p d K E T (start Cfg.ideal p vars)
      (trace p (start Cfg.ideal p vars) ((namesFrom T 0 K ++ ["C"]).zip rs)) := by
  obtain ⟨sn, hstarts, hsid⟩ := sh.topStart
  have hfuel := sh.fuel
  have hK := sh.kpos
  obtain ⟨f1, hf1⟩ : ∃ f1, fuelFor p = f1 + 1 := ⟨fuelFor p - 1, by omega⟩
  have hstart : start Cfg.ideal p vars =
      runWork Cfg.ideal p f1 [{ fid := 0 + 1, node := down d U T 0 }] (started p ({ vars := vars, nextFid := 2 } : St) { fid := 1, node := "s" }) := by
    unfold start
    simp only [hstarts, spawnStarts, List.foldl, hsid, hf1, List.nil_append]
    have hg : Goes p ({ fid := 1, node := "s" } : Tok).node .start "-" (U 0) := sh.s_goes
    have := arrive_start p ({ vars := vars, nextFid := 2 } : St) { fid := 1, node := "s" } _ _ hg (by simp)
    rw [runWork_cons, this]
    simp [started, down, sh.pos]
  obtain ⟨c0, hsub0, hobs0, hocc0, t0, hpend0, ht0⟩ := descend sh d 0 (by omega) f1 (by omega)
    (started p ({ vars := vars, nextFid := 2 } : St) { fid := 1, node := "s" })
    ⟨by simp [started, St.recordFlow], by simp [started, St.recordFlow], by simp [started, St.recordFlow], by simp [started, St.recordFlow]⟩
    (by simp [started, St.recordFlow, subsAt]) (by simp [started, St.recordFlow]) (by simp [started, St.recordFlow])
    (by simp [started, St.recordFlow])
  rw [← hstart] at c0 hsub0 hobs0 hocc0 hpend0
  generalize start Cfg.ideal p vars = s0 at *
  have hoC : s0.occ.find? (·.1 == "C") = none := by
    rw [hocc0]
    have := sh.tC 0 hK
    simp [this]
  have hoT : ∀ j, 0 < j → j < K → s0.occ.find? (·.1 == T j) = none := by
    intro j hj hjK
    rw [hocc0]
    have : T 0 ≠ T j := fun e => by have := sh.tinj 0 j hK hjK e; omega
    simp [this]
  obtain ⟨m, rfl⟩ : ∃ m, K = m + 1 := ⟨K - 1, by omega⟩
  obtain ⟨h1, h2, h3, h4⟩ := inner_chain sh m 0 (by omega) s0 t0 c0 hsub0 hpend0 ht0 hoC hoT rs (by omega)
  exact ⟨hobs0.trans (by simp [started, St.recordFlow]), h1, h2, h4, c0.oos, h3⟩

/-! ## The shape is inhabited at every depth -/

/-- names: a family letter followed by `i` times `x` -/
def nm (c : Char) (i : Nat) : String := String.ofList (c :: List.replicate i 'x')

theorem nm_inj (c c' : Char) (i j : Nat) (h : nm c i = nm c' j) : c = c' ∧ i = j := by
  unfold nm at h
  have := String.ofList_injective h
  simpa using this

theorem find_fam {α : Type} (getId : α → String) (F : Nat → α) (c : Char) (hid : ∀ i, getId (F i) = nm c i) :
    ∀ (d i : Nat), i < d → ((List.range d).map F).find? (fun x => getId x == nm c i) = some (F i) := by
  intro d
  induction d with
  | zero => intro i hi; omega
  | succ d ih =>
    intro i hi
    rw [List.range_succ, List.map_append, List.find?_append]
    by_cases h : i < d
    · rw [ih i h]; rfl
    · have : i = d := by omega
      subst this
      have hnone : ((List.range i).map F).find? (fun x => getId x == nm c i) = none := by
        apply List.find?_eq_none.mpr
        intro x hx
        obtain ⟨j, hj, rfl⟩ := List.mem_map.mp hx
        have hj' : j < i := List.mem_range.mp hj
        rw [hid j]
        intro e
        have := (nm_inj c c j i (by simpa using e)).2
        omega
      rw [hnone]
      simp [hid i]

theorem find_fam_none {α : Type} (getId : α → String) (F : Nat → α) (c : Char) (hid : ∀ i, getId (F i) = nm c i)
    (x : String) (hx : ∀ j, nm c j ≠ x) (d : Nat) : ((List.range d).map F).find? (fun y => getId y == x) = none := by
  apply List.find?_eq_none.mpr
  intro y hy
  obtain ⟨j, _, rfl⟩ := List.mem_map.mp hy
  rw [hid j]
  simpa using hx j

def uN (i : Nat) : Node :=
  { id := nm 'U' i, kind := .sub, ins := [], outs := [nm 'o' i], parent := if i = 0 then "-" else nm 'U' (i - 1) }
def iS (i : Nat) : Node := { id := nm 'S' i, kind := .start, ins := [], outs := [nm 'g' i], parent := nm 'U' i }
def iE (i : Nat) : Node := { id := nm 'E' i, kind := .end_, ins := [], outs := [], parent := nm 'U' i }
def tN (d : Nat) (i : Nat) : Node := { id := nm 'T' i, kind := .task, ins := [], outs := [nm 't' i], parent := nm 'U' (d - 1) }
def oF (i : Nat) : SFlow := { id := nm 'o' i, src := nm 'U' i, dst := if i = 0 then "C" else nm 'E' (i - 1), cond := .none }
def gF (d i : Nat) : SFlow := { id := nm 'g' i, src := nm 'S' i, dst := if i + 1 < d then nm 'U' (i + 1) else nm 'T' 0, cond := .none }
def tF (d K i : Nat) : SFlow :=
  { id := nm 't' i, src := nm 'T' i, dst := if i + 1 < K then nm 'T' (i + 1) else nm 'E' (d - 1), cond := .none }

/-- `d` sub-process levels around the chain of tasks `T, Tx, Txx, …` (`K` of them), the task `C` behind the outermost level -/
def nestProc (d K : Nat) : Proc :=
  { nodes := [{ id := "s", kind := .start, ins := [], outs := ["fs"] },
              { id := "C", kind := .task, ins := [], outs := ["fc"] },
              { id := "e", kind := .end_, ins := [], outs := [] }] ++
             (List.range d).map uN ++ (List.range d).map iS ++ (List.range d).map iE ++ (List.range K).map (tN d),
    flows := [{ id := "fs", src := "s", dst := nm 'U' 0, cond := .none },
              { id := "fc", src := "C", dst := "e", cond := .none }] ++
             (List.range d).map oF ++ (List.range d).map (gF d) ++ (List.range K).map (tF d K) }

theorem lit_ne (c : Char) (i : Nat) (x : String) (h : ∀ l, x.toList = c :: l → False) : (x == nm c i) = false := by
  apply beq_eq_false_iff_ne.mpr
  intro e
  apply h (List.replicate i 'x')
  rw [e]; simp [nm]

theorem ne_lit (c : Char) (i : Nat) (x : String) (h : ∀ l, x.toList = c :: l → False) : nm c i ≠ x := by
  intro e
  apply h (List.replicate i 'x')
  rw [← e]; simp [nm]

theorem nm_ne (c c' : Char) (h : c ≠ c') (i j : Nat) : nm c i ≠ nm c' j := fun e => h (nm_inj c c' i j e).1

theorem node_U (d K i : Nat) (hi : i < d) : (nestProc d K).node? (nm 'U' i) = some (uN i) := by
  unfold Proc.node? nestProc
  simp only [List.append_assoc, List.cons_append, List.nil_append, List.find?]
  rw [lit_ne 'U' i "s" (by simp), lit_ne 'U' i "C" (by simp), lit_ne 'U' i "e" (by simp)]
  simp only [List.find?_append]
  rw [find_fam (·.id) uN 'U' (fun _ => rfl) d i hi]
  rfl

theorem node_S (d K i : Nat) (hi : i < d) : (nestProc d K).node? (nm 'S' i) = some (iS i) := by
  unfold Proc.node? nestProc
  simp only [List.append_assoc, List.cons_append, List.nil_append, List.find?]
  rw [lit_ne 'S' i "s" (by simp), lit_ne 'S' i "C" (by simp), lit_ne 'S' i "e" (by simp)]
  simp only [List.find?_append]
  rw [find_fam_none (·.id) uN 'U' (fun _ => rfl) (nm 'S' i) (fun j => nm_ne 'U' 'S' (by decide) j i) d,
    find_fam (·.id) iS 'S' (fun _ => rfl) d i hi]
  rfl

theorem node_E (d K i : Nat) (hi : i < d) : (nestProc d K).node? (nm 'E' i) = some (iE i) := by
  unfold Proc.node? nestProc
  simp only [List.append_assoc, List.cons_append, List.nil_append, List.find?]
  rw [lit_ne 'E' i "s" (by simp), lit_ne 'E' i "C" (by simp), lit_ne 'E' i "e" (by simp)]
  simp only [List.find?_append]
  rw [find_fam_none (·.id) uN 'U' (fun _ => rfl) (nm 'E' i) (fun j => nm_ne 'U' 'E' (by decide) j i) d,
    find_fam_none (·.id) iS 'S' (fun _ => rfl) (nm 'E' i) (fun j => nm_ne 'S' 'E' (by decide) j i) d,
    find_fam (·.id) iE 'E' (fun _ => rfl) d i hi]
  rfl

theorem node_T (d K i : Nat) (hi : i < K) : (nestProc d K).node? (nm 'T' i) = some (tN d i) := by
  unfold Proc.node? nestProc
  simp only [List.append_assoc, List.cons_append, List.nil_append, List.find?]
  rw [lit_ne 'T' i "s" (by simp), lit_ne 'T' i "C" (by simp), lit_ne 'T' i "e" (by simp)]
  simp only [List.find?_append]
  rw [find_fam_none (·.id) uN 'U' (fun _ => rfl) (nm 'T' i) (fun j => nm_ne 'U' 'T' (by decide) j i) d,
    find_fam_none (·.id) iS 'S' (fun _ => rfl) (nm 'T' i) (fun j => nm_ne 'S' 'T' (by decide) j i) d,
    find_fam_none (·.id) iE 'E' (fun _ => rfl) (nm 'T' i) (fun j => nm_ne 'E' 'T' (by decide) j i) d,
    find_fam (·.id) (tN d) 'T' (fun _ => rfl) K i hi]
  rfl

theorem flow_o (d K i : Nat) (hi : i < d) : (nestProc d K).flow? (nm 'o' i) = some (oF i) := by
  unfold Proc.flow? nestProc
  simp only [List.append_assoc, List.cons_append, List.nil_append, List.find?]
  rw [lit_ne 'o' i "fs" (by simp), lit_ne 'o' i "fc" (by simp)]
  simp only [List.find?_append]
  rw [find_fam (·.id) oF 'o' (fun _ => rfl) d i hi]
  rfl

theorem flow_g (d K i : Nat) (hi : i < d) : (nestProc d K).flow? (nm 'g' i) = some (gF d i) := by
  unfold Proc.flow? nestProc
  simp only [List.append_assoc, List.cons_append, List.nil_append, List.find?]
  rw [lit_ne 'g' i "fs" (by simp), lit_ne 'g' i "fc" (by simp)]
  simp only [List.find?_append]
  rw [find_fam_none (·.id) oF 'o' (fun _ => rfl) (nm 'g' i) (fun j => nm_ne 'o' 'g' (by decide) j i) d,
    find_fam (·.id) (gF d) 'g' (fun _ => rfl) d i hi]
  rfl

theorem flow_t (d K i : Nat) (hi : i < K) : (nestProc d K).flow? (nm 't' i) = some (tF d K i) := by
  unfold Proc.flow? nestProc
  simp only [List.append_assoc, List.cons_append, List.nil_append, List.find?]
  rw [lit_ne 't' i "fs" (by simp), lit_ne 't' i "fc" (by simp)]
  simp only [List.find?_append]
  rw [find_fam_none (·.id) oF 'o' (fun _ => rfl) (nm 't' i) (fun j => nm_ne 'o' 't' (by decide) j i) d,
    find_fam_none (·.id) (gF d) 'g' (fun _ => rfl) (nm 't' i) (fun j => nm_ne 'g' 't' (by decide) j i) d,
    find_fam (·.id) (tF d K) 't' (fun _ => rfl) K i hi]
  rfl

theorem filter_fam_nil {α : Type} (F : Nat → α) (q : α → Bool) (h : ∀ j, q (F j) = false) (d : Nat) :
    ((List.range d).map F).filter q = [] := by
  apply List.filter_eq_nil_iff.mpr
  intro x hx
  obtain ⟨j, _, rfl⟩ := List.mem_map.mp hx
  simp [h j]

theorem filter_fam_one {α : Type} (F : Nat → α) (q : α → Bool) (i : Nat) (h : ∀ j, q (F j) = decide (j = i)) :
    ∀ (d : Nat), i < d → ((List.range d).map F).filter q = [F i] := by
  intro d
  induction d with
  | zero => intro hi; omega
  | succ d ih =>
    intro hi
    rw [List.range_succ, List.map_append, List.filter_append]
    by_cases hd : i < d
    · rw [ih hd]
      have : q (F d) = false := by rw [h d]; simp; omega
      simp [List.filter, this]
    · have : i = d := by omega
      subst this
      have hnil : ((List.range i).map F).filter q = [] := by
        apply List.filter_eq_nil_iff.mpr
        intro x hx
        obtain ⟨j, hj, rfl⟩ := List.mem_map.mp hx
        have hj' : j < i := List.mem_range.mp hj
        rw [h j]; simp; omega
      have : q (F i) = true := by rw [h i]; simp
      simp [hnil, List.filter, this]

theorem k1 : (Kind.start == Kind.start) = true := by decide
theorem k2 : (Kind.task == Kind.start) = false := by decide
theorem k3 : (Kind.end_ == Kind.start) = false := by decide
theorem k4 : (Kind.sub == Kind.start) = false := by decide

theorem nest_shape (d K : Nat) (hd : 0 < d) (hK : 0 < K) :
    Shape (nestProc d K) d K (nm 'U') (nm 'S') (nm 'E') (nm 'T') where
  pos := hd
  kpos := hK
  noIncl := by
    unfold nestProc
    simp only [List.filter_append]
    rw [filter_fam_nil uN _ (fun _ => rfl), filter_fam_nil iS _ (fun _ => rfl), filter_fam_nil iE _ (fun _ => rfl),
      filter_fam_nil (tN d) _ (fun _ => rfl)]
    rfl
  topStart := by
    refine ⟨{ id := "s", kind := .start, ins := [], outs := ["fs"] }, ?_, rfl⟩
    unfold nestProc
    simp only [List.filter_append]
    rw [filter_fam_nil uN _ (fun _ => rfl), filter_fam_nil iE _ (fun _ => rfl), filter_fam_nil (tN d) _ (fun _ => rfl),
      filter_fam_nil iS _ (fun j => by
        show (Kind.start == Kind.start && nm 'U' j == "-") = false
        have : (nm 'U' j == "-") = false := beq_eq_false_iff_ne.mpr (ne_lit 'U' j "-" (by simp))
        simp [this])]
    simp [List.filter, k1, k2, k3]
  s_goes := ⟨_, "fs", _, rfl, rfl, rfl, rfl, rfl, rfl, rfl, rfl⟩
  u_goes := fun i hi => ⟨uN i, nm 'o' i, oF i, node_U d K i hi, rfl, rfl, by simp [uN, par], rfl, flow_o d K i hi, rfl, by simp [oF, up]⟩
  starts := fun i hi => by
    refine ⟨iS i, ?_, rfl⟩
    unfold nestProc
    simp only [List.filter_append]
    rw [filter_fam_nil uN _ (fun _ => by simp [uN, k4]), filter_fam_nil iE _ (fun _ => by simp [iE, k3]),
      filter_fam_nil (tN d) _ (fun _ => by simp [tN, k2]),
      filter_fam_one iS _ i (fun j => by
        show (nm 'U' j == nm 'U' i && Kind.start == Kind.start) = decide (j = i)
        by_cases e : j = i
        · subst e; simp [k1]
        · have : nm 'U' j ≠ nm 'U' i := fun h => e (nm_inj _ _ _ _ h).2
          simp [this, e]) d hi]
    have h1 : ("-" == nm 'U' i) = false := lit_ne 'U' i "-" (by simp)
    simp [List.filter, h1, k1, k2, k3]
  st_goes := fun i hi => ⟨iS i, nm 'g' i, gF d i, node_S d K i hi, rfl, rfl, rfl, rfl, flow_g d K i hi, rfl, by simp [gF, down]⟩
  ends := fun i hi => ⟨iE i, node_E d K i hi, rfl, rfl, rfl⟩
  t_goes := fun i hi => ⟨tN d i, nm 't' i, tF d K i, node_T d K i hi, rfl, rfl, rfl, rfl, flow_t d K i hi, rfl, by simp [tF, nextT]⟩
  tinj := fun i j _ _ h => (nm_inj _ _ _ _ h).2
  tC := fun i _ => ne_lit 'T' i "C" (by simp)
  c_goes := ⟨_, "fc", _, rfl, rfl, rfl, rfl, rfl, rfl, rfl, rfl⟩
  e_end := ⟨_, rfl, rfl, rfl, rfl⟩
  inj := fun i j _ _ h => (nm_inj _ _ _ _ h).2
  notTop := fun i _ => ne_lit 'U' i "-" (by simp)
  fuel := by
    simp [fuelFor, nestProc]
    omega

/-- **C12 at every nesting depth and chain length, on a concrete family.** `nestProc d K`: the chain `T → Tx → …` of `K ≥ 1`
tasks inside `d ≥ 1` nested sub-processes, the task `C` behind them. -/
theorem nestProc_run (d K : Nat) (hd : 0 < d) (hK : 0 < K) (vars : Vars) (rs : List (List (String × Int)))
    (hrs : rs.length = K + 1) :
    NestRun (nestProc d K) d K (nm 'E') (nm 'T') (start Cfg.ideal (nestProc d K) vars)
      (trace (nestProc d K) (start Cfg.ideal (nestProc d K) vars) ((namesFrom (nm 'T') 0 K ++ ["C"]).zip rs)) :=
  nest_run (nest_shape d K hd hK) vars rs hrs

/-- the task requests among a step's observations -/
def requests (os : List Obs) : List Obs := os.filter (fun o => match o with | .req _ => true | _ => false)

theorem requests_completions (E : Nat → String) (k : Nat) : requests (completions E k) = [] := by
  apply List.filter_eq_nil_iff.mpr
  intro o ho
  obtain ⟨i, _, rfl⟩ := List.mem_map.mp ho
  simp

/-- the prescription for the nest and the prescription for the bare chain (`Props/C01Chain.expected`) request the same -/
theorem expectedNest_requests (comp : List Obs) (hc : requests comp = []) : ∀ (inner : List String), inner ≠ [] →
    (expectedNest comp inner).map requests = (Bpmn.Props.C01Chain.expected (inner ++ ["C"])).map requests
  | [], h => absurd rfl h
  | [a], _ => by
    simp only [expectedNest, List.cons_append, List.nil_append, Bpmn.Props.C01Chain.expected, List.map]
    have : requests (comp ++ [Obs.req "C"]) = requests [Obs.req "C"] := by
      unfold requests at hc ⊢
      rw [List.filter_append, hc]; rfl
    rw [this]
  | a :: b :: rest, _ => by
    simp only [expectedNest, List.cons_append, Bpmn.Props.C01Chain.expected, List.map]
    have ih := expectedNest_requests comp hc (b :: rest) (by simp)
    simp only [List.cons_append] at ih
    rw [ih]

/-- **Wrapped = inlined, at every depth, for every chain.** The requests of `nestProc d K` — on start and after each answer —
are those of the chain `s → T → Tx → … → C → e` in which the tasks are not wrapped at all; both end at the end event. -/
theorem nest_as_inline (d K : Nat) (hd : 0 < d) (hK : 0 < K) (vars : Vars) (rs : List (List (String × Int)))
    (hrs : rs.length = K + 1) (fl : String → String)
    (hwf : Bpmn.Props.C01Chain.Wf fl (namesFrom (nm 'T') 0 K ++ ["C"])) :
    requests (start Cfg.ideal (nestProc d K) vars).obs =
      requests (start Cfg.ideal (Bpmn.Props.C01Chain.chainProc fl (namesFrom (nm 'T') 0 K ++ ["C"])) vars).obs ∧
    (Bpmn.Props.C01Chain.runChain Cfg.ideal (nestProc d K) (start Cfg.ideal (nestProc d K) vars)
        ((namesFrom (nm 'T') 0 K ++ ["C"]).zip rs)).map requests =
      (Bpmn.Props.C01Chain.runChain Cfg.ideal (Bpmn.Props.C01Chain.chainProc fl (namesFrom (nm 'T') 0 K ++ ["C"]))
        (start Cfg.ideal (Bpmn.Props.C01Chain.chainProc fl (namesFrom (nm 'T') 0 K ++ ["C"])) vars)
        ((namesFrom (nm 'T') 0 K ++ ["C"]).zip rs)).map requests := by
  obtain ⟨m, rfl⟩ : ∃ m, K = m + 1 := ⟨K - 1, by omega⟩
  have hlen : (namesFrom (nm 'T') 0 (m + 1) ++ ["C"]).length = m + 2 := by
    have : ∀ (i n : Nat), (namesFrom (nm 'T') i n).length = n := by
      intro i n; induction n generalizing i with
      | zero => rfl
      | succ n ih => simp [namesFrom, ih]
    simp [this]
  have hnames : namesFrom (nm 'T') 0 (m + 1) ++ ["C"] = nm 'T' 0 :: (namesFrom (nm 'T') 1 m ++ ["C"]) := by simp [namesFrom]
  have n := nestProc_run d (m + 1) hd hK vars rs hrs
  rw [hnames] at hwf ⊢
  obtain ⟨c1, c2⟩ := Bpmn.Props.C01Chain.chain_conformance Cfg.ideal fl (nm 'T' 0) (namesFrom (nm 'T') 1 m ++ ["C"]) vars rs hwf
    (by rw [← hnames, hlen]; omega)
  rw [c1, c2, n.start_obs]
  refine ⟨rfl, ?_⟩
  rw [← hnames, ← trace_fst, n.steps_obs]
  exact expectedNest_requests _ (requests_completions _ _) _ (by simp [namesFrom])

/-- non-vacuity of the inline comparison: flows named after their source, three tasks inside -/
example : Bpmn.Props.C01Chain.Wf (fun x => "f_" ++ x) (namesFrom (nm 'T') 0 3 ++ ["C"]) := ⟨by decide, by decide⟩

end Bpmn.Props.C12Nest
