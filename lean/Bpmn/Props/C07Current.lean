import Bpmn.Props.C07
import Bpmn.Model.CancelCurrent
/-!
C07 on the tables extracted from the current /repo tree (`Bpmn.Gen.C07`, regenerated on every run).

The goroutine table and the blocking-operation table are turned into a `List Kind`; the side conditions of
`cancel_drains` are evaluated on it by `decide`. Every theorem here is a dichotomy that builds on either side
of a repair: where a row meets the side conditions it gets the positive statement, where it does not it gets
the stuck witness of `Props/C07.lean` (`KindFails`). `current_no_regression` is the obligation that breaks when
a row that is fine today loses its cancellation alternative, its buffered reply or its registration, when a
goroutine body the model knows disappears, or when the extractor cannot read a table (`none`).
The tables themselves and the justification list are in `Model/CancelCurrent.lean`.
-/
namespace Bpmn.Props.C07
open Bpmn.Model.Cancel Bpmn.Model.CancelCurrent

/-- `Done()` is never called on a handle that was not registered (the Go runtime would panic) -/
theorem current_done_implies_registered : ∀ k ∈ current, k.callsDone = true → k.registered = true := by
  have h : current.all (fun k => !k.callsDone || k.registered) = true := by decide
  intro k hk hd
  have := List.all_eq_true.mp h k hk
  simpa [hd] using this

/-- C07 at the current tables: the protocol statement, or a named row with its stuck witness (or the request does
not carry the loop's context) -/
theorem current_verdict :
    if C07ok current carries = true then C07_statement current carries
    else (∃ k ∈ current, k.ok = false ∧ KindFails k) ∨
         (carries = false ∧ ∃ evs s', trun false {} [.enqueue, .cancel, .recv] = some (s', evs) ∧
            validEvs false false evs = false) := by
  split
  · next h => exact C07_general _ _ h
  · next h =>
    by_cases ht : tableOk current = true
    · right
      have hc : carries = false := by
        cases hcc : carries with
        | false => rfl
        | true => exact absurd (by simp [C07ok, ht, hcc]) h
      exact ⟨hc, request_live_ctx_without_carry⟩
    · left
      have := table_dichotomy current current_done_implies_registered
      rw [if_neg ht] at this
      exact this

/-- every row of the current table: the single-kind protocol drains, or the row has a stuck witness -/
theorem current_rows : ∀ k ∈ current, if k.ok = true then Drains [k] else KindFails k := by
  intro k hk
  split
  · next h =>
    have ht : tableOk [k] = true := by simp [tableOk, h]
    intro s hs
    exact ⟨cancel_drains [k] ht s hs, fun ls s' hr =>
      let r := cancel_drains_any_schedule [k] ht s hs ls s' hr; ⟨r.1, r.2.1⟩⟩
  · next h =>
    exact bad_kind_fails k (by simpa using h) (current_done_implies_registered k hk)

/-! ### the rows behind the defects seen by the sweep -/

/-- **D20** (and its siblings): the goroutines of the generic task and the sub-process, named by the BODY they run
(the numbering of go sites moves when a `go` statement is added or moved) — registered, hence drains; or the leak
witness -/
def d20Bodies : List String := ["genericTask.run", "genericTask.run$1", "subProcess.run", "subProcess.run$1"]

theorem current_D20 : ∀ g ∈ goRows, g.body ∈ d20Bodies →
    if (!(kindOf opRows g).sends || (kindOf opRows g).registered) = true then
      ((kindOf opRows g).sends = true → (kindOf opRows g).registered = true)
    else KindFails (kindOf opRows g) := by
  intro g _ _
  split
  · next h => intro hs; simpa [hs] using h
  · next h =>
    have : (kindOf opRows g).sends = true ∧ (kindOf opRows g).registered = false := by
      cases h1 : (kindOf opRows g).sends <;> cases h2 : (kindOf opRows g).registered <;> simp_all
    exact unregistered_sender_leaks _ this.1 this.2

/-- every D20 body is started by some go statement of the table (the theorem above is not vacuous) -/
theorem current_D20_present : d20Bodies.all (fun b => goRows.any (fun g => g.body == b)) = true := by decide

/-- **D22**: the token goroutine (`flow.Start$1`) and `harness.NextAction`'s receive `<-response`. Either that
receive has got a cancellation alternative / justified partner, or the flow kind has the parked-for-ever witness
(registered sender ⇒ the tracer never ends and polls for ever, `parked_registered_spins`). -/
def d22Key : String × String × String := ("harness.NextAction", "recv", "response")

def d22Rows : List OpRow := opRows.filter (fun r => r.body == "flow.Start$1" && r.key == d22Key)

theorem current_D22 :
    if d22Rows.all (fun r => (opOf r).passable) = true then True
    else ∃ k ∈ current, k.name = "flow.Start#1" ∧ k.registered = true ∧ KindFails k := by
  split
  · trivial
  · next h =>
    have hrow : ∃ r ∈ d22Rows, (opOf r).passable = false := by
      have h' : d22Rows.all (fun r => (opOf r).passable) = false := Bool.eq_false_iff.mpr h
      rw [List.all_eq_false] at h'
      obtain ⟨r, hr, hp⟩ := h'
      exact ⟨r, hr, by simpa using hp⟩
    obtain ⟨r, hr, hp⟩ := hrow
    -- the flow site exists and is registered
    have hsite : ∃ g ∈ goRows, g.site = "flow.Start#1" ∧ g.body = "flow.Start$1" ∧ g.registered = true := by
      have : goRows.any (fun g => g.site == "flow.Start#1" && g.body == "flow.Start$1" && g.registered) = true := by
        decide
      rw [List.any_eq_true] at this
      obtain ⟨g, hg, hb⟩ := this
      simp only [Bool.and_eq_true, beq_iff_eq] at hb
      exact ⟨g, hg, hb.1.1, hb.1.2, hb.2⟩
    obtain ⟨g, hg, hs, hb, hreg⟩ := hsite
    refine ⟨kindOf opRows g, List.mem_map.mpr ⟨g, hg, rfl⟩, hs, hreg, ?_⟩
    have hmem : r ∈ opRows ∧ (r.body == "flow.Start$1" && r.key == d22Key) = true := by
      simpa [d22Rows, List.mem_filter] using hr
    have hop : opOf r ∈ (kindOf opRows g).ops := by
      refine List.mem_map.mpr ⟨r, List.mem_filter.mpr ⟨hmem.1, ?_⟩, rfl⟩
      have h2 := hmem.2
      simp only [Bool.and_eq_true, beq_iff_eq] at h2
      have hkind : r.kind = "recv" := congrArg (fun k : String × String × String => k.2.1) h2.2
      simp [hb, h2.1, isActorOp, hkind]
    exact parked_operation_leaks _ _ hop hp

theorem current_subprocess_tracer :
    if subTracerKind.ok = true then Drains [subTracerKind] else KindFails subTracerKind := by
  split
  · next h =>
    have ht : tableOk [subTracerKind] = true := by simp [tableOk, h]
    intro s hs
    exact ⟨cancel_drains _ ht s hs, fun ls s' hr =>
      let r := cancel_drains_any_schedule _ ht s hs ls s' hr; ⟨r.1, r.2.1⟩⟩
  · next h => exact bad_kind_fails _ (by simpa using h) (by intro h; cases h)

/-! ### no regression -/

/-- goroutine bodies known to have been started without registration (D20 and its siblings, all repaired in /repo by
now; ProcessSet/timer/id rows are outside the sweep's corpus). Named by body, not by go-site number. -/
def expectedFailingSenders : List String := [
  "genericTask.run", "genericTask.run$1", "subProcess.run", "subProcess.run$1",
  "harness.run$1", "ProcessSet.run", "ProcessSet.tracerProcess",
  "Process.ceaseFlowMonitor$ret",   -- the completion monitor: handle from p.tracer, sent on p.subTracer
  "timer.eventDefinitionInstanceBuilder.NewEventDefinitionInstance$1", "id.Sno.RestoreIdGenerator$1"]

/-- operations known today to have neither a cancellation alternative nor a justified partner -/
def expectedFailingOps : List (String × String × String) := [
  ("harness.NextAction", "recv", "_"),                      -- D22
  ("newHarness$lit$lit", "recv", "_.activity.Cancel()"),         -- same shape, at an interrupting boundary
  ("startEvent.run", "send", "_.response"),                        -- unbuffered reply to a token that may have left
  ("throwEvent.run", "send", "_.response"),
  ("eventBasedGateway.run", "send", "_.response"),
  ("catchEvent.run", "send", "_"),
  ("distributeFlows", "send", "_"),
  ("inclusiveGateway.trySync", "send", "_.activated.response"),
  ("eventBasedGateway.run$lit", "send", "_"),                     -- winner notifying a loser that may have left
  ("flowTracker.run", "select", "recv:_.traces|recv:_.shutdownCh"),
  ("tracing.tracer.run", "send", "_"),                    -- newFlowTracker subscribes and never unsubscribes
  ("timer.New$arg", "send", "_")]

/-- goroutine bodies the model's reading of the code relies on -/
def anchorBodies : List String := [
  "flow.Start$1", "harness.run", "genericTask.run", "genericTask.run$1", "subProcess.run", "subProcess.run$1",
  "startEvent.run", "endEvent.run", "catchEvent.run", "throwEvent.run", "parallelGateway.run",
  "exclusiveGateway.run", "inclusiveGateway.run", "eventBasedGateway.run", "flowTracker.run",
  "Process.ceaseFlowMonitor$ret", "subProcess.ceaseFlowMonitor$ret", "taskTrace.process",
  "tracing.tracer.run", "tracing.tracer.run$1", "tracing.NewRelay$1", "timer.dateTimeTimer"]

/-- every anchor body has at least one blocking operation with a cancellation alternative recorded, except the
ones that have none by design -/
def anchorsWithCancellableSelect : List String := [
  "flow.Start$1", "harness.run", "genericTask.run", "genericTask.run$1", "subProcess.run", "subProcess.run$1",
  "startEvent.run", "endEvent.run", "catchEvent.run", "throwEvent.run", "parallelGateway.run",
  "exclusiveGateway.run", "inclusiveGateway.run", "eventBasedGateway.run",
  "Process.ceaseFlowMonitor$ret", "subProcess.ceaseFlowMonitor$ret", "taskTrace.process",
  "tracing.tracer.run", "tracing.NewRelay$1", "timer.dateTimeTimer"]

def noRegression : Bool :=
  tablesFound
  && failingSenderBodies.all (expectedFailingSenders.contains ·)
  && failingOps.all (expectedFailingOps.contains ·)
  && unbalanced.isEmpty
  && anchorBodies.all (fun b => goRows.any (fun g => g.body == b))
  && anchorsWithCancellableSelect.all (fun b => opRows.any (fun r => r.body == b && r.kind == "select" && r.cancelAlt))
  && carries

/-- everything that is fine today is still fine: no row outside the known lists fails a side condition, every
registration is matched by a `Done()`, the bodies the model reads are there with their cancellable selects, and
task requests carry the run loop's context -/
theorem current_no_regression : noRegression = true := by decide

/-- the post-cancel hot polling is where the model puts it: in the broadcaster (bounded by `tracer_spin_bounded`)
and in the relay (which ends when its source tracer is done), nowhere else -/
theorem current_hot_polls : hotPolls.all (fun p => [("tracing.tracer.run", "tracing.tracer.run"),
    ("tracing.NewRelay$1", "tracing.NewRelay$1")].contains p) = true := by decide

/-- the request side on the current fact -/
theorem current_requests :
    if carries = true then ∀ ls s' evs, trun carries {} ls = some (s', evs) → validEvs false false evs = true
    else ∃ evs s', trun false {} [.enqueue, .cancel, .recv] = some (s', evs) ∧ validEvs false false evs = false := by
  split
  · next h => rw [h]; exact fun ls s' evs hr => no_request_after_cancel ls s' evs hr
  · exact request_live_ctx_without_carry

end Bpmn.Props.C07
