import Bpmn.Gen.Engine
import Bpmn.Model.Engine
/-!
The engine model's configuration at the facts extracted from the current /repo tree. Each theorem is an
obligation re-checked on every run: if an edit moves a fact, the corresponding theorem stops type-checking.
-/
namespace Bpmn.Props.EngineCurrent
open Bpmn.Gen.Engine

/-- flow.Start lets the token continue on the first EFFECTIVE outgoing flow (D1 repaired) -/
theorem current_firstFlow_ok : firstFlowDecides = some false := by decide

/-- the sub-process completion monitor listens on the inner tracer (D10 repaired) -/
theorem current_subReturns_ok : subNeverReturns = some false := by decide

/-- every token that reaches an intermediate throw event passes it (D38 repaired) -/
theorem current_throwPasses_ok : throwFuse = some false := by decide

/-- facts the extractor must be able to read at all -/
theorem current_facts_known : inclCohort.isSome = true ∧ subStartSticky.isSome = true := by decide

/-- the configuration the driver replays the engine with -/
def faithful : Bpmn.Model.Engine.Cfg :=
  { firstFlowDecides := firstFlowDecides.getD true
    subNeverReturns := subNeverReturns.getD true
    inclCohort := inclCohort.getD true
    subStartSticky := subStartSticky.getD true
    throwFuse := throwFuse.getD true }

end Bpmn.Props.EngineCurrent
