import Bpmn.Model.Engine
import Bpmn.Spec.TokenGame
import Bpmn.Lemmas.Engine
/-!
# C01 — refinement: a run of the code configuration that logs no cause IS a run of the token game

`Bpmn.Model.Engine` is one executable semantics parametric in `Cfg`; every deviation switch that changes
behaviour logs its name in `St.causes`. This file proves what that logging is worth, for every `cfg : Cfg` with
`cfg.eagerSettle = false` and `cfg.lateJoin = false` (the four deviation switches arbitrary), every program,
every state and every answer sequence:

1. **Monotonicity** (`mono_*`): no function ever shrinks or resets the log.
2. **Step conformance** (`conf_*`): if the OUTPUT of a step has an empty log, the step is the token game's step.
3. **Runs** (`conformance_start`, `conformance_answer`, `conformance_runOps`).

## What "the token game" has to mean (finding)

Against the single configuration `Cfg.ideal` the statement is FALSE as soon as `inclCohort = true`
(`C01Conformance_counterexample`): the inclusive join of the code may wait for a sibling token that can no
longer reach it. That is inside what the property allows (DESIGN §12.1: a join may release anywhere between
`early` = `Cfg.ideal` and `late && early` = `Cfg.idealLate`), so `igReady` rightly logs nothing — but the run then
equals the run of `Cfg.idealLate`, not of `Cfg.ideal`; and since the choice is made per join decision, one run can
follow `Cfg.ideal` at one join and `Cfg.idealLate` at another and equal NEITHER deterministic variant
(`mixed_run_is_neither_ideal_variant`). The specification is therefore the token game with an ADMISSIBLE JOIN
POLICY (`Bpmn.Spec.TokenGame`: all deviation switches off, every join decision inside the interval). Proved here:

* for every `cfg`: a cause-free run equals the run of `TokenGame` under `joinOf cfg`, and `joinOf cfg` is
  admissible (`conformance_*`, `joinOf_admissible`);
* `TokenGame` under `Join.early` / `Join.late` is exactly the engine at `Cfg.ideal` / `Cfg.idealLate`
  (`tokenGame_early_*`, `tokenGame_late_*`);
* hence, when `cfg.inclCohort = false`, the statement exactly as conjectured (`conformance_*_ideal`);
* per decision, a cause-free `igReady cfg` equals `igReady Cfg.ideal` or `igReady Cfg.idealLate`
  (`conf_igReady_either`);
* at a gateway with at most one incoming flow (a pure fork: no join clause, `Engine.lateAt` is vacuous) the interval
  collapses and a cause-free decision is the one of `Cfg.ideal` (`conf_igReady_fork_only`).

A second gap was closed in the model rather than in the statement: with `subStartSticky = true` the code does not
re-arm the inner start events of a sub-process, and `arrive` logged `sub_reentry` only when the completion monitor
had already fired. From a state in which an inner start event is still `activated` although the monitor has not
fired, the code configuration skipped the sub-process content and logged nothing. `Engine.enterSub` now logs
`sub_reentry` whenever an inner start event is still activated (more precise attribution, no change of behaviour).
-/
namespace Bpmn.Props.C01Conformance
open Bpmn.Model Bpmn.Model.Engine Bpmn.Lemmas.Engine
open Bpmn.Spec

/-- a whole run: start, then the driver's answers `(node, occurrence, answer)` in order -/
def runOps (cfg : Cfg) (p : Proc) (vars : Vars) (ops : List (String × Nat × Answer)) : St :=
  ops.foldl (fun s (n, o, a) => answer cfg p s n o a) (start cfg p vars)

/-! ## 1. Monotonicity: the log never shrinks -/

/-- `St.cause` leaves a non-empty log -/
theorem cause_nonempty (s : St) (c : String) : (s.cause c).causes ≠ [] := cause_ne_nil s c

theorem mono_selectFlows (cfg : Cfg) (p : Proc) (s : St) (t : Tok) (fls : List String) (u : Bool) :
    (selectFlows cfg p s t fls u).2.2.causes = [] → s.causes = [] := selectFlows_back cfg p s t fls u

theorem mono_igReady (cfg : Cfg) (p : Proc) (s : St) (n : Node) (g : IgSt) (work : List Tok) :
    (igReady cfg p s n g work).2.causes = [] → s.causes = [] := igReady_back cfg p s n g work

/-- `igRelease` does not touch the log -/
theorem mono_igRelease (p : Proc) (s : St) (n : Node) (g : IgSt) :
    (igRelease p s n g).2.causes = s.causes := igRelease_causes p s n g

theorem mono_arrive (cfg : Cfg) (p : Proc) (s : St) (t : Tok) :
    (arrive cfg p s t).2.causes = [] → s.causes = [] := arrive_back cfg p s t

theorem mono_settleIncl (cfg : Cfg) (p : Proc) (s : St) (work : List Tok) :
    (settleIncl cfg p s work).2.causes = [] → s.causes = [] := by
  rw [← settleIncl_tie]; exact settleInclW_back _ (igReady_back cfg) p s work

theorem mono_settle (cfg : Cfg) (p : Proc) (s : St) :
    (settle cfg p s).2.causes = [] → s.causes = [] := by
  rw [← settle_tie]; exact settleW_back _ (igReady_back cfg) cfg p s

theorem mono_runWork (cfg : Cfg) (h1 : cfg.eagerSettle = false) (p : Proc) (fuel : Nat) (toks : List Tok) (s : St) :
    (runWork cfg p fuel toks s).causes = [] → s.causes = [] := by
  rw [← runWork_tie]; exact runWorkW_back _ (igReady_back cfg) cfg h1 p fuel toks s

/-- `answer` clears `obs` but keeps the log: nothing in the model resets or drops `causes` -/
theorem mono_answer (cfg : Cfg) (h1 : cfg.eagerSettle = false) (p : Proc) (s : St) (node : String) (occ : Nat)
    (a : Answer) : (answer cfg p s node occ a).causes = [] → s.causes = [] := by
  rw [← answer_tie]; exact answerW_back _ (igReady_back cfg) cfg h1 p s node occ a

/-! ## 2. Step conformance -/

theorem conf_selectFlows (cfg : Cfg) (p : Proc) (s : St) (t : Tok) (fls : List String) (u : Bool) :
    (selectFlows cfg p s t fls u).2.2.causes = [] →
    selectFlows cfg p s t fls u = selectFlows Cfg.ideal p s t fls u := selectFlows_conf cfg p s t fls u

theorem conf_arrive (cfg : Cfg) (h1 : cfg.eagerSettle = false) (p : Proc) (s : St) (t : Tok) :
    (arrive cfg p s t).2.causes = [] → arrive cfg p s t = arrive Cfg.ideal p s t := arrive_conf cfg h1 p s t

/-- the join policy of a code configuration respects the interval the property allows -/
theorem joinOf_admissible (cfg : Cfg) : (TokenGame.joinOf cfg).Admissible := Lemmas.Engine.joinOf_admissible cfg

/-- a join decision that logs nothing is the decision of the (admissible) policy `joinOf cfg`, state untouched -/
theorem conf_igReady (cfg : Cfg) (h2 : cfg.lateJoin = false) (p : Proc) (s : St) (n : Node) (g : IgSt)
    (work : List Tok) :
    (igReady cfg p s n g work).2.causes = [] →
    igReady cfg p s n g work = ((TokenGame.joinOf cfg) p s n g work, s) := igReady_conf cfg h2 p s n g work

/-- without the cohort switch the decision is the one of `Cfg.ideal` -/
theorem conf_igReady_ideal (cfg : Cfg) (h2 : cfg.lateJoin = false) (h3 : cfg.inclCohort = false) (p : Proc) (s : St)
    (n : Node) (g : IgSt) (work : List Tok) : igReady cfg p s n g work = igReady Cfg.ideal p s n g work := by
  unfold igReady
  simp [h2, h3, Cfg.ideal]

/-- **per decision**: a join decision that logs nothing is the earliest or the latest allowed one -/
theorem conf_igReady_either (cfg : Cfg) (h2 : cfg.lateJoin = false) (p : Proc) (s : St) (n : Node) (g : IgSt)
    (work : List Tok) :
    (igReady cfg p s n g work).2.causes = [] →
    igReady cfg p s n g work = igReady Cfg.ideal p s n g work ∨
    igReady cfg p s n g work = igReady Cfg.idealLate p s n g work := by
  intro h
  rw [igReady_conf cfg h2 p s n g work h, igReady_ideal, igReady_idealLate]
  have hadm := Lemmas.Engine.joinOf_admissible cfg p s n g work
  unfold TokenGame.Join.ready TokenGame.Join.early TokenGame.Join.late
  cases hg : g.activated with
  | none =>
    rw [hg] at hadm
    left; simp only [hadm]
  | some a =>
    rw [hg] at hadm
    simp only at hadm ⊢
    revert hadm
    generalize TokenGame.joinOf cfg p s n g work = j
    generalize lateAt s n a g.arrived work = l
    generalize TokenGame.earlyAt p s n g work = e
    cases j <;> cases l <;> cases e <;> simp

/-- **a pure fork has no join clause**: at a gateway with at most one incoming flow the late bound is vacuous
(`Engine.lateAt`), the interval collapses, and a decision that logs nothing is the decision of `Cfg.ideal` — a code
configuration that lets such a gateway wait logs `inclusive_cohort` -/
theorem conf_igReady_fork_only (cfg : Cfg) (h2 : cfg.lateJoin = false) (p : Proc) (s : St) (n : Node) (g : IgSt)
    (work : List Tok) (hin : n.ins.length ≤ 1) :
    (igReady cfg p s n g work).2.causes = [] →
    igReady cfg p s n g work = igReady Cfg.ideal p s n g work := by
  intro h
  have hlate : igReady Cfg.idealLate p s n g work = igReady Cfg.ideal p s n g work := by
    unfold igReady lateAt
    cases g.activated <;> simp [Cfg.ideal, Cfg.idealLate, hin]
  rcases conf_igReady_either cfg h2 p s n g work h with h' | h'
  · exact h'
  · rw [h', hlate]

/-! ### the steps that contain join decisions: against the token game under `joinOf cfg` -/

theorem conf_settleIncl (cfg : Cfg) (h2 : cfg.lateJoin = false) (p : Proc) (s : St) (work : List Tok) :
    (settleIncl cfg p s work).2.causes = [] →
    settleIncl cfg p s work = TokenGame.settleInclW (TokenGame.joinOf cfg).ready p s work := by
  rw [← settleIncl_tie]
  exact settleInclW_conf _ _ (igReady_back cfg) (igReady_conf cfg h2) p s work

theorem conf_settle (cfg : Cfg) (h2 : cfg.lateJoin = false) (p : Proc) (s : St) :
    (settle cfg p s).2.causes = [] →
    settle cfg p s = TokenGame.settleW (TokenGame.joinOf cfg).ready Cfg.ideal p s := by
  rw [← settle_tie]
  exact settleW_conf _ _ (igReady_back cfg) (igReady_conf cfg h2) cfg p s

theorem conf_runWork (cfg : Cfg) (h1 : cfg.eagerSettle = false) (h2 : cfg.lateJoin = false) (p : Proc) (fuel : Nat)
    (toks : List Tok) (s : St) :
    (runWork cfg p fuel toks s).causes = [] →
    runWork cfg p fuel toks s = TokenGame.runWorkW (TokenGame.joinOf cfg).ready Cfg.ideal p fuel toks s := by
  rw [← runWork_tie]
  exact runWorkW_conf _ _ (igReady_back cfg) (igReady_conf cfg h2) cfg h1 p fuel toks s

/-! ### … and against `Cfg.ideal` when the cohort switch is off -/

theorem joinOf_ready_ideal (cfg : Cfg) (h3 : cfg.inclCohort = false) :
    (TokenGame.joinOf cfg).ready = igReady Cfg.ideal := by
  rw [igReady_ideal]; simp [TokenGame.joinOf, h3]

theorem conf_settleIncl_ideal (cfg : Cfg) (h2 : cfg.lateJoin = false) (h3 : cfg.inclCohort = false) (p : Proc)
    (s : St) (work : List Tok) :
    (settleIncl cfg p s work).2.causes = [] → settleIncl cfg p s work = settleIncl Cfg.ideal p s work := by
  intro h
  rw [conf_settleIncl cfg h2 p s work h, joinOf_ready_ideal cfg h3, settleIncl_tie]

theorem conf_settle_ideal (cfg : Cfg) (h2 : cfg.lateJoin = false) (h3 : cfg.inclCohort = false) (p : Proc) (s : St) :
    (settle cfg p s).2.causes = [] → settle cfg p s = settle Cfg.ideal p s := by
  intro h
  rw [conf_settle cfg h2 p s h, joinOf_ready_ideal cfg h3, settle_tie]

theorem conf_runWork_ideal (cfg : Cfg) (h1 : cfg.eagerSettle = false) (h2 : cfg.lateJoin = false)
    (h3 : cfg.inclCohort = false) (p : Proc) (fuel : Nat) (toks : List Tok) (s : St) :
    (runWork cfg p fuel toks s).causes = [] → runWork cfg p fuel toks s = runWork Cfg.ideal p fuel toks s := by
  intro h
  rw [conf_runWork cfg h1 h2 p fuel toks s h, joinOf_ready_ideal cfg h3, runWork_tie]

/-! ## 3. Runs -/

/-- the token game under the earliest / latest policy is the engine at `Cfg.ideal` / `Cfg.idealLate` -/
theorem tokenGame_early_start (p : Proc) (vars : Vars) : TokenGame.start .early p vars = start Cfg.ideal p vars := by
  unfold TokenGame.start; rw [← igReady_ideal, start_tie]

theorem tokenGame_early_answer (p : Proc) (s : St) (node : String) (occ : Nat) (a : Answer) :
    TokenGame.answer .early p s node occ a = answer Cfg.ideal p s node occ a := by
  unfold TokenGame.answer; rw [← igReady_ideal, answer_tie]

/-- `Cfg.idealLate` differs from `Cfg.ideal` in `lateJoin` only, and `lateJoin` is read by `igReady` only -/
theorem tokenGame_late_start (p : Proc) (vars : Vars) :
    TokenGame.start .late p vars = start Cfg.idealLate p vars := by
  unfold TokenGame.start
  rw [← igReady_idealLate, ← start_tie Cfg.idealLate, startW_idealLate]

theorem tokenGame_late_answer (p : Proc) (s : St) (node : String) (occ : Nat) (a : Answer) :
    TokenGame.answer .late p s node occ a = answer Cfg.idealLate p s node occ a := by
  unfold TokenGame.answer
  rw [← igReady_idealLate, ← answer_tie Cfg.idealLate, answerW_idealLate]

/-- **Start.** A start of the code configuration that logs no cause is the start of the token game under the
admissible join policy `joinOf cfg`. -/
theorem conformance_start (cfg : Cfg) (h1 : cfg.eagerSettle = false) (h2 : cfg.lateJoin = false) (p : Proc)
    (vars : Vars) :
    (start cfg p vars).causes = [] → start cfg p vars = TokenGame.start (TokenGame.joinOf cfg) p vars := by
  rw [← start_tie]
  exact startW_conf _ _ (igReady_back cfg) (igReady_conf cfg h2) cfg h1 p vars

/-- **Answer**, from ANY state. -/
theorem conformance_answer (cfg : Cfg) (h1 : cfg.eagerSettle = false) (h2 : cfg.lateJoin = false) (p : Proc) (s : St)
    (node : String) (occ : Nat) (a : Answer) :
    (answer cfg p s node occ a).causes = [] →
    answer cfg p s node occ a = TokenGame.answer (TokenGame.joinOf cfg) p s node occ a := by
  rw [← answer_tie]
  exact answerW_conf _ _ (igReady_back cfg) (igReady_conf cfg h2) cfg h1 p s node occ a

/-- **Whole runs.** If the run of the code configuration ends with an empty log, it is — state by state — the run
of the token game under `joinOf cfg`. -/
theorem conformance_runOps (cfg : Cfg) (h1 : cfg.eagerSettle = false) (h2 : cfg.lateJoin = false) (p : Proc)
    (vars : Vars) (ops : List (String × Nat × Answer)) :
    (runOps cfg p vars ops).causes = [] →
    runOps cfg p vars ops = TokenGame.runOps (TokenGame.joinOf cfg) p vars ops := by
  unfold runOps TokenGame.runOps
  intro h
  have hb : ∀ (s : St) (x : String × Nat × Answer),
      (answer cfg p s x.1 x.2.1 x.2.2).causes = [] → s.causes = [] :=
    fun s x => mono_answer cfg h1 p s x.1 x.2.1 x.2.2
  have h0 : (start cfg p vars).causes = [] :=
    foldl_back (fun s : St => s.causes = []) _ (fun s x => hb s x) ops _ h
  rw [← conformance_start cfg h1 h2 p vars h0]
  exact foldl_congr_back (fun s : St => s.causes = []) _ _ (fun s x => hb s x)
    (fun s x hx => conformance_answer cfg h1 h2 p s x.1 x.2.1 x.2.2 hx) ops _ h

/-! ### the statement as conjectured: against `Cfg.ideal`, when the cohort switch is off -/

theorem joinOf_ideal (cfg : Cfg) (h3 : cfg.inclCohort = false) : TokenGame.joinOf cfg = .early := by
  simp [TokenGame.joinOf, h3]

theorem conformance_start_ideal (cfg : Cfg) (h1 : cfg.eagerSettle = false) (h2 : cfg.lateJoin = false)
    (h3 : cfg.inclCohort = false) (p : Proc) (vars : Vars) :
    (start cfg p vars).causes = [] → start cfg p vars = start Cfg.ideal p vars := by
  intro h
  rw [conformance_start cfg h1 h2 p vars h, joinOf_ideal cfg h3, tokenGame_early_start]

theorem conformance_answer_ideal (cfg : Cfg) (h1 : cfg.eagerSettle = false) (h2 : cfg.lateJoin = false)
    (h3 : cfg.inclCohort = false) (p : Proc) (s : St) (node : String) (occ : Nat) (a : Answer) :
    (answer cfg p s node occ a).causes = [] → answer cfg p s node occ a = answer Cfg.ideal p s node occ a := by
  intro h
  rw [conformance_answer cfg h1 h2 p s node occ a h, joinOf_ideal cfg h3, tokenGame_early_answer]

theorem tokenGame_early_runOps (p : Proc) (vars : Vars) (ops : List (String × Nat × Answer)) :
    TokenGame.runOps .early p vars ops = runOps Cfg.ideal p vars ops := by
  unfold TokenGame.runOps runOps
  rw [tokenGame_early_start]
  congr 1
  funext s x
  exact tokenGame_early_answer p s x.1 x.2.1 x.2.2

theorem tokenGame_late_runOps (p : Proc) (vars : Vars) (ops : List (String × Nat × Answer)) :
    TokenGame.runOps .late p vars ops = runOps Cfg.idealLate p vars ops := by
  unfold TokenGame.runOps runOps
  rw [tokenGame_late_start]
  congr 1
  funext s x
  exact tokenGame_late_answer p s x.1 x.2.1 x.2.2

theorem conformance_runOps_ideal (cfg : Cfg) (h1 : cfg.eagerSettle = false) (h2 : cfg.lateJoin = false)
    (h3 : cfg.inclCohort = false) (p : Proc) (vars : Vars) (ops : List (String × Nat × Answer)) :
    (runOps cfg p vars ops).causes = [] → runOps cfg p vars ops = runOps Cfg.ideal p vars ops := by
  intro h
  rw [conformance_runOps cfg h1 h2 p vars ops h, joinOf_ideal cfg h3, tokenGame_early_runOps]

/-! ## The conjectured statement, its counterexample, and non-vacuity -/

/-- the refinement as first conjectured: against the single deterministic token game `Cfg.ideal` -/
def C01Conformance_statement (cfg : Cfg) : Prop :=
  ∀ (p : Proc) (vars : Vars) (ops : List (String × Nat × Answer)),
    (runOps cfg p vars ops).causes = [] → runOps cfg p vars ops = runOps Cfg.ideal p vars ops

/-- it holds for every code configuration without the cohort switch … -/
theorem C01Conformance_partial (cfg : Cfg) (h1 : cfg.eagerSettle = false) (h2 : cfg.lateJoin = false)
    (h3 : cfg.inclCohort = false) : C01Conformance_statement cfg :=
  fun p vars ops => conformance_runOps_ideal cfg h1 h2 h3 p vars ops

/-- … and what holds for EVERY code configuration: a cause-free run is a run of the token game under an
admissible join policy -/
def C01Conformance_statement_policy (cfg : Cfg) : Prop :=
  ∃ J : TokenGame.Join, J.Admissible ∧
    ∀ (p : Proc) (vars : Vars) (ops : List (String × Nat × Answer)),
      (runOps cfg p vars ops).causes = [] → runOps cfg p vars ops = TokenGame.runOps J p vars ops

theorem C01Conformance_holds (cfg : Cfg) (h1 : cfg.eagerSettle = false) (h2 : cfg.lateJoin = false) :
    C01Conformance_statement_policy cfg :=
  ⟨TokenGame.joinOf cfg, joinOf_admissible cfg, fun p vars ops => conformance_runOps cfg h1 h2 p vars ops⟩

/-- s → F(inclusive fork) → {J, B → e2, J on a false condition}; J(inclusive join, two incoming flows) → C →
F2(inclusive fork) → {T, J2};
T(activity with two outgoing flows) → {J2, U → e3}; J2(inclusive join) → D → e.
At `J` the sibling token waits at `B` and cannot reach `J` (it is in the cohort: the code waits, `late`);
at `J2` the token at `U` was forked by the activity `T`, is not in the cohort and cannot reach `J2` (the code
releases, `early`). -/
def mixProc : Proc :=
  { nodes := [
      { id := "s", kind := .start, ins := [], outs := ["f0"] },
      { id := "F", kind := .incl, ins := ["f0"], outs := ["fa", "fb", "fx"] },
      { id := "B", kind := .task, ins := ["fb"], outs := ["fb2"] },
      { id := "e2", kind := .end_, ins := ["fb2"], outs := [] },
      { id := "J", kind := .incl, ins := ["fa", "fx"], outs := ["fj"] },
      { id := "C", kind := .task, ins := ["fj"], outs := ["fc"] },
      { id := "F2", kind := .incl, ins := ["fc"], outs := ["g1", "g2"] },
      { id := "T", kind := .task, ins := ["g1"], outs := ["t1", "t2"] },
      { id := "U", kind := .task, ins := ["t2"], outs := ["u1"] },
      { id := "e3", kind := .end_, ins := ["u1"], outs := [] },
      { id := "J2", kind := .incl, ins := ["t1", "g2"], outs := ["fj2"] },
      { id := "D", kind := .task, ins := ["fj2"], outs := ["fd"] },
      { id := "e", kind := .end_, ins := ["fd"], outs := [] }],
    flows := [
      { id := "f0", src := "s", dst := "F", cond := .none }, { id := "fa", src := "F", dst := "J", cond := .none },
      { id := "fb", src := "F", dst := "B", cond := .none }, { id := "fb2", src := "B", dst := "e2", cond := .none },
      { id := "fj", src := "J", dst := "C", cond := .none }, { id := "fc", src := "C", dst := "F2", cond := .none },
      { id := "g1", src := "F2", dst := "T", cond := .none }, { id := "g2", src := "F2", dst := "J2", cond := .none },
      { id := "t1", src := "T", dst := "J2", cond := .none }, { id := "t2", src := "T", dst := "U", cond := .none },
      { id := "u1", src := "U", dst := "e3", cond := .none }, { id := "fj2", src := "J2", dst := "D", cond := .none },
      { id := "fd", src := "D", dst := "e", cond := .none }, { id := "fx", src := "F", dst := "J", cond := .ff }] }

def mixOps : List (String × Nat × Answer) := [("B", 1, .ok []), ("C", 1, .ok []), ("T", 1, .ok [])]

/-- the code as it is today, seen from the model: only the cohort switch on -/
def cohortCfg : Cfg := { Cfg.ideal with inclCohort := true }

/-- **Finding.** With the cohort switch on, the very first step of `mixProc` logs no cause and differs from the
token game `Cfg.ideal`: the join `J` waits for the token at `B` (`Cfg.ideal` requests `C` at once). -/
theorem C01Conformance_counterexample : ¬ C01Conformance_statement cohortCfg := by
  intro h
  have h0 := h mixProc [] [] (by decide)
  have : (runOps cohortCfg mixProc [] []).obs = (runOps Cfg.ideal mixProc [] []).obs := by rw [h0]
  revert this
  decide

/-- **Finding.** The whole run logs no cause, follows `Cfg.idealLate` at `J` and `Cfg.ideal` at `J2`, and is the run
of neither: it leaves `Cfg.ideal` at the start and `Cfg.idealLate` after the third answer. -/
theorem mixed_run_is_neither_ideal_variant :
    (runOps cohortCfg mixProc [] mixOps).causes = [] ∧
    (runOps cohortCfg mixProc [] []).obs = [.req "B"] ∧
    (runOps Cfg.ideal mixProc [] []).obs = [.req "B", .req "C"] ∧
    (runOps Cfg.idealLate mixProc [] []).obs = [.req "B"] ∧
    (runOps cohortCfg mixProc [] mixOps).obs = [.req "U", .complete "J2", .req "D"] ∧
    (runOps Cfg.ideal mixProc [] mixOps).obs = [.req "U", .complete "J2", .req "D"] ∧
    (runOps Cfg.idealLate mixProc [] mixOps).obs = [.req "U"] := by
  decide

/-- … and yet it is a run of the token game: of the one under the admissible policy `joinOf cohortCfg` -/
theorem mixed_run_is_a_token_game_run :
    runOps cohortCfg mixProc [] mixOps = TokenGame.runOps (TokenGame.joinOf cohortCfg) mixProc [] mixOps :=
  conformance_runOps cohortCfg rfl rfl mixProc [] mixOps mixed_run_is_neither_ideal_variant.1

/-- start → A → sub U( us → B → ue ) → C → e -/
def subProc : Proc :=
  { nodes := [
      { id := "s", kind := .start, ins := [], outs := ["f0"] },
      { id := "A", kind := .task, ins := ["f0"], outs := ["f1"] },
      { id := "U", kind := .sub, ins := ["f1"], outs := ["f2"] },
      { id := "us", kind := .start, ins := [], outs := ["g0"], parent := "U" },
      { id := "B", kind := .task, ins := ["g0"], outs := ["g1"], parent := "U" },
      { id := "ue", kind := .end_, ins := ["g1"], outs := [], parent := "U" },
      { id := "C", kind := .task, ins := ["f2"], outs := ["f3"] },
      { id := "e", kind := .end_, ins := ["f3"], outs := [] }],
    flows := [
      { id := "f0", src := "s", dst := "A", cond := .none }, { id := "f1", src := "A", dst := "U", cond := .none },
      { id := "f2", src := "U", dst := "C", cond := .none }, { id := "f3", src := "C", dst := "e", cond := .none },
      { id := "g0", src := "us", dst := "B", cond := .none }, { id := "g1", src := "B", dst := "ue", cond := .none }] }

/-- **The gap that was closed in the model.** From a state in which the inner start event `us` is still marked
activated while the completion monitor of `U` has not fired, the sticky-start configuration skips the content of
`U` (no request for `B`, `C` requested at once) where the token game requests `B`. Before `Engine.enterSub` logged
this, the step logged nothing; `conformance_answer` (from ANY state) needs it logged. -/
theorem sticky_start_is_logged :
    let cfg : Cfg := { Cfg.ideal with subStartSticky := true }
    let s0 : St := { (start cfg subProc []) with activated := ["us", "s"] }
    (answer cfg subProc s0 "A" 1 (.ok [])).causes = ["sub_reentry"] ∧
    (answer cfg subProc s0 "A" 1 (.ok [])).obs = [.complete "us", .req "C"] ∧
    (answer Cfg.ideal subProc s0 "A" 1 (.ok [])).obs = [.req "B"] := by
  decide

/-! ### non-vacuity: the hypotheses are satisfiable with every deviation switch on -/

def allOn : Cfg := ⟨true, true, true, true, false, false, true⟩
def noCohort : Cfg := ⟨true, true, false, true, false, false, true⟩

example : allOn.eagerSettle = false ∧ allOn.lateJoin = false := ⟨rfl, rfl⟩
example : (start allOn mixProc []).causes = [] := by decide
example : (answer allOn mixProc (start allOn mixProc []) "B" 1 (.ok [])).causes = [] := by decide
example : (runOps allOn mixProc [] mixOps).causes = [] := by decide
example : (runOps allOn subProc [] [("A", 1, .ok [])]).causes = [] := by decide
example : noCohort.inclCohort = false ∧ (runOps noCohort mixProc [] mixOps).causes = [] := by decide
example : (selectFlows allOn mixProc { vars := [] } { fid := 1, node := "s" } ["f0"] false).2.2.causes = [] := by
  decide
example : (arrive allOn mixProc { vars := [] } { fid := 1, node := "s" }).2.causes = [] := by decide
example : (arrive allOn subProc { vars := [] } { fid := 1, node := "U" }).2.causes = [] := by decide
example : (igReady allOn mixProc { vars := [] } { id := "J", kind := .incl, ins := ["fa", "fx"], outs := ["fj"] }
    { gw := "J", activated := some 1, arrived := [1] } []).2.causes = [] := by decide
example : (settleIncl allOn mixProc { vars := [] } []).2.causes = [] := by decide
example : (settle allOn mixProc { vars := [] }).2.causes = [] := by decide
example : (runWork allOn mixProc 50 [{ fid := 1, node := "s" }] { vars := [] }).causes = [] := by decide

end Bpmn.Props.C01Conformance
