import Bpmn.Lemmas.Satisfier
/-!
# C14 — Multiple / parallel-multiple catch events account correctly over any history

Property theorems only. Model: `Bpmn.Model.Satisfier` (port of pkg/logic `Satisfy`, both the
catch and the throw satisfier; the throw satisfier is the `par := true` instance).
A history is a `List (Option Nat)`: for each delivered event the index of the first definition it
matches, or `none`. All statements are for histories of any length and any number of definitions.
-/
namespace Bpmn.Props.C14
open Bpmn.Model.Satisfier

/-- the full statement of C14 on the model, kept visible -/
def C14_statement : Prop :=
  -- (a) plain multiple (or a single definition): fires on every matching event, never otherwise
  (∀ (len : Nat) (par : Bool) (h : List (Option Nat)), (par = false ∨ len = 1) →
      (run (Sat.init len par) h).2 = h.map Option.isSome) ∧
  -- (b) parallel multiple: never more firings than the least matched definition
  (∀ (len : Nat) (h : List (Option Nat)), 2 ≤ len → (∀ e ∈ h, validEv len e) →
      ∀ i, i < len → fires (run (Sat.init len true) h).2 ≤ matchCount h i) ∧
  -- (c) parallel multiple: every definition matched exactly k times ⇒ fired exactly k times
  (∀ (len : Nat) (h : List (Option Nat)) (k : Nat), 2 ≤ len → (∀ e ∈ h, validEv len e) →
      (∀ i, i < len → matchCount h i = k) → fires (run (Sat.init len true) h).2 = k) ∧
  -- (d) an event matching no definition changes nothing
  (∀ (s : Sat), satisfy s none = (s, false, didNotMatch))

theorem run_inv (es : List (Option Nat)) :
    ∀ (s : Sat) (h : List (Option Nat)) (f : Nat), s.par = true → 2 ≤ s.len →
      (∀ e ∈ es, validEv s.len e) → Inv s h f →
      Inv (run s es).1 (h ++ es) (f + fires (run s es).2) ∧ (run s es).1.len = s.len := by
  induction es with
  | nil => intro s h f _ _ _ inv; simpa [run, fires] using inv
  | cons e es ih =>
    intro s h f hpar h2 hv inv
    have hstep := inv_step s h f e hpar h2 (hv e (by simp)) inv
    obtain ⟨hlen, hpar'⟩ := satisfy_len s e
    have := ih (satisfy s e).1 (h ++ [e]) _ (by rw [hpar', hpar]) (by rw [hlen]; exact h2)
      (by intro e' he'; rw [hlen]; exact hv e' (by simp [he'])) hstep
    obtain ⟨hinv, hl⟩ := this
    simp only [run]
    refine ⟨?_, by rw [hl, hlen]⟩
    have e1 : h ++ e :: es = h ++ [e] ++ es := by simp
    have e2 : f + fires ((satisfy s e).2.1 :: (run (satisfy s e).1 es).2) =
        f + (if (satisfy s e).2.1 then 1 else 0) + fires (run (satisfy s e).1 es).2 := by
      unfold fires
      cases (satisfy s e).2.1 <;> simp [List.count_cons] <;> omega
    rw [e1, e2]; exact hinv

theorem multiple_fires_on_any (len : Nat) (par : Bool) (h : List (Option Nat))
    (hp : par = false ∨ len = 1) : (run (Sat.init len par) h).2 = h.map Option.isSome := by
  have key : ∀ (s : Sat), (s.par = false ∨ s.len = 1) → (run s h).2 = h.map Option.isSome := by
    induction h with
    | nil => intro s _; simp [run]
    | cons e es ih =>
      intro s hs
      have hst : (satisfy s e).1 = s ∧ (satisfy s e).2.1 = e.isSome := by
        cases e with
        | none => simp [satisfy]
        | some i =>
          unfold satisfy
          rcases hs with hs | hs <;> simp [hs]
      simp only [run, List.map_cons]
      rw [hst.1, hst.2, ih s hs]
  exact key _ (by simpa [Sat.init] using hp)

theorem pm_bound (len : Nat) (h : List (Option Nat)) (h2 : 2 ≤ len)
    (hv : ∀ e ∈ h, validEv len e) (i : Nat) (hi : i < len) :
    fires (run (Sat.init len true) h).2 ≤ matchCount h i := by
  obtain ⟨inv, hl⟩ := run_inv h (Sat.init len true) [] 0 rfl h2 hv (inv_init len true)
  have := inv.count i (by rw [hl]; exact hi)
  simp only [List.nil_append, Nat.zero_add] at this
  omega

theorem pm_exact (len : Nat) (h : List (Option Nat)) (k : Nat) (h2 : 2 ≤ len)
    (hv : ∀ e ∈ h, validEv len e) (hk : ∀ i, i < len → matchCount h i = k) :
    fires (run (Sat.init len true) h).2 = k := by
  obtain ⟨inv, hl⟩ := run_inv h (Sat.init len true) [] 0 rfl h2 hv (inv_init len true)
  simp only [List.nil_append, Nat.zero_add] at inv
  have hl' : (run (Sat.init len true) h).1.len = len := hl
  by_cases hne : (run (Sat.init len true) h).1.chains = []
  · have := inv.count 0 (by omega)
    rw [hne, hk 0 (by omega)] at this
    simpa using this.symm
  · exfalso
    obtain ⟨i0, hi0, hall⟩ := inv.common hne
    -- every definition occurs in as many chains as `i0`, i.e. in all of them
    have hcnt0 := inv.count i0 hi0
    have hall_cnt : ∀ j, j < len →
        List.countP (has · j) (run (Sat.init len true) h).1.chains =
        List.countP (has · i0) (run (Sat.init len true) h).1.chains := by
      intro j hj
      have hj' := inv.count j (by omega)
      rw [hk j hj] at hj'
      rw [hk i0 (by omega)] at hcnt0
      omega
    have hfull0 : List.countP (has · i0) (run (Sat.init len true) h).1.chains =
        (run (Sat.init len true) h).1.chains.length :=
      List.countP_eq_length.mpr (by intro c hc; exact hall c hc)
    -- take the first chain: it is full, contradiction
    cases hch : (run (Sat.init len true) h).1.chains with
    | nil => exact hne hch
    | cons c cs =>
      have hcmem : c ∈ (run (Sat.init len true) h).1.chains := by rw [hch]; simp
      obtain ⟨hclen, hcnf⟩ := inv.wf c hcmem
      have : full c = true := by
        rw [full_iff]
        intro j hj
        have hj' : j < len := by omega
        have := (hall_cnt j hj').trans hfull0
        exact (List.countP_eq_length.mp this) c hcmem
      rw [this] at hcnf; cases hcnf

theorem nonmatching_inert (s : Sat) : satisfy s none = (s, false, didNotMatch) := rfl

/-- C14 holds on the model, for every history length and every number of definitions. -/
theorem C14_holds : C14_statement :=
  ⟨multiple_fires_on_any, pm_bound, pm_exact, nonmatching_inert⟩

/-! Non-vacuity: concrete histories meeting the hypotheses (these are tests, not the claim). -/
example : fires (run (Sat.init 3 true) [some 0, some 1, some 0, some 2, some 2, some 1]).2 = 2 := by decide
example : (∀ e ∈ [some 0, some 1, none, some 2], validEv 3 e) := by
  intro e he; simp at he; rcases he with rfl | rfl | rfl | rfl <;> simp [validEv]
example : fires (run (Sat.init 2 true) [some 0, some 0, some 1]).2 = 1 ∧
    matchCount [some 0, some 0, some 1] 1 = 1 := by decide

end Bpmn.Props.C14
