import Bpmn.Model.Tracer
import Bpmn.Spec.Causal
/-! # C09 — placeholder while the proofs are grown (breadth-first) -/
namespace Bpmn.Props.C09
open Bpmn.Model.Tracer

theorem run_nil (cfg : Cfg) (s : St) : run cfg s [] = s := rfl

end Bpmn.Props.C09
