import Bpmn.Lemmas.Tracer
import Bpmn.Lemmas.TracerProgress
import Bpmn.Lemmas.FlowOrder
import Bpmn.Spec.Causal
/-!
# C09 — the trace stream is one causally consistent total order, the same for all subscribers

Model: `Bpmn.Model.Tracer` — the broadcaster goroutine of pkg/tracing/tracer.go at channel-operation granularity
(unbuffered request channels, ordered subscriber list, bounded subscriber buffers, swap-removal, the draining
`Unsubscribe` loop), with an explicit scheduler: `run cfg init sched` for an ARBITRARY list `sched` of actions
(actions that are not enabled where they are scheduled are skipped). All theorems below quantify over every `sched`,
i.e. over every interleaving of any number of senders, subscribers, buffer sizes and consumer speeds, of any length.

`s.misuse = false` excludes exactly the runs in which `Unsubscribe` was called on a channel that is not subscribed
(see `unsubscribe_unsubscribed_spins`): the property speaks about subscribers.
-/
namespace Bpmn.Props.C09
open Bpmn.Model.Tracer

/-! ## 1. every subscriber sees a contiguous segment of the one global order -/

/-- `tracer_segment`. For every schedule and every channel that was ever appended to the subscriber list: what its
consumer received, then what its `Unsubscribe` loop drained, then what is still queued, is exactly the global send
order (`log`: the order in which the broadcaster took the traces) from the position at which the channel was appended
(`start`) up to `upto`: the position at which it was removed, or — while it is subscribed — the end of the log, minus
the one trace the range loop is still carrying towards it. Nothing dropped, nothing duplicated, nothing reordered;
the swap-removal of another channel never shows. -/
theorem tracer_segment (cfg : Cfg) (sched : List Act) (s : St) (hs : s = run cfg init sched) :
    s.misuse = false →
    ∀ c, (s.chan c).stat ≠ .absent → (s.chan c).stat ≠ .subWait →
      (s.chan c).recvd ++ (s.chan c).drained ++ (s.chan c).buf = (s.log.take (s.upto c)).drop (s.chan c).start := by
  intro hm c h1 h2
  have hinv : Inv s := by rw [hs] at hm ⊢; exact inv_run cfg sched hm
  have hf : (s.chan c).stat.fresh = false := by
    cases hst : (s.chan c).stat <;> simp_all [CStat.fresh]
  exact hinv.seg c hf

/-- the bounds of the segment: `start ≤ upto ≤ |log|` -/
theorem tracer_segment_bounds (cfg : Cfg) (sched : List Act) (s : St) (hs : s = run cfg init sched) :
    s.misuse = false →
    ∀ c, (s.chan c).stat ≠ .absent → (s.chan c).stat ≠ .subWait →
      (s.chan c).start ≤ s.upto c ∧ s.upto c ≤ s.log.length := by
  intro hm c h1 h2
  have hinv : Inv s := by rw [hs] at hm ⊢; exact inv_run cfg sched hm
  have hf : (s.chan c).stat.fresh = false := by
    cases hst : (s.chan c).stat <;> simp_all [CStat.fresh]
  exact ⟨hinv.startLe c hf, hinv.upto_le c⟩

/-- Same order for all: the k-th trace a subscriber received is the (start + k)-th trace of the global order. Two
subscribers therefore agree on every position both cover, and none of them sees a trace twice or skips one. -/
theorem tracer_same_order (cfg : Cfg) (sched : List Act) (s : St) (hs : s = run cfg init sched) :
    s.misuse = false →
    ∀ c k m, (s.chan c).recvd[k]? = some m → s.log[(s.chan c).start + k]? = some m := by
  intro hm c k m hk
  have hne : (s.chan c).recvd ≠ [] := by intro e; rw [e] at hk; cases hk
  have hinv : Inv s := by rw [hs] at hm ⊢; exact inv_run cfg sched hm
  have hf : (s.chan c).stat.fresh = false := by
    cases hfr : (s.chan c).stat.fresh with
    | false => rfl
    | true =>
      have := hinv.fresh c hfr
      simp only [Chan.total, List.append_eq_nil_iff] at this
      exact absurd this.1.1 hne
  have hseg := hinv.seg c hf
  unfold Chan.total St.segment at hseg
  have hlt : k < (s.chan c).recvd.length := by
    rcases Nat.lt_or_ge k (s.chan c).recvd.length with h | h
    · exact h
    · rw [List.getElem?_eq_none h] at hk; cases hk
  have h1 : ((s.chan c).recvd ++ (s.chan c).drained ++ (s.chan c).buf)[k]? = some m := by
    rw [List.append_assoc, List.getElem?_append_left hlt]; exact hk
  rw [hseg, List.getElem?_drop, List.getElem?_take] at h1
  split at h1
  · exact h1
  · cases h1

/-- Nothing is withheld: while the broadcaster is in its `select`, a subscribed channel holds (received, drained or
queued) every trace sent since its subscription. -/
theorem tracer_complete_when_idle (cfg : Cfg) (sched : List Act) (s : St) (hs : s = run cfg init sched) :
    s.misuse = false → s.pc = .idle →
    ∀ c, c ∈ s.subs →
      (s.chan c).recvd ++ (s.chan c).drained ++ (s.chan c).buf = s.log.drop (s.chan c).start := by
  intro hm hpc c hc
  have hinv : Inv s := by rw [hs] at hm ⊢; exact inv_run cfg sched hm
  have hl := (hinv.listed c).mp hc
  have hf : (s.chan c).stat.fresh = false := by
    rcases stat_class (s.chan c).stat with ⟨_, b, _⟩ | ⟨a, _, _⟩ | ⟨_, b, _⟩
    · rw [hl] at b; cases b
    · exact a
    · rw [hl] at b; cases b
  have hr : (s.chan c).stat.removed = false := by
    rcases stat_class (s.chan c).stat with ⟨_, b, _⟩ | ⟨_, _, a⟩ | ⟨_, b, _⟩
    · rw [hl] at b; cases b
    · exact a
    · rw [hl] at b; cases b
  have hseg := hinv.seg c hf
  unfold Chan.total St.segment at hseg
  have hidle : ∀ x i, s.pc ≠ .push x i := by intro x i; rw [hpc]; simp
  rw [upto_idle hidle, hinv.stopNone c hr] at hseg
  simpa [List.take_length] using hseg

/-- The removal (`subscribers[pos] = subscribers[l]; subscribers = subscribers[:l]`) takes out exactly the
unsubscribing channel: every other channel keeps its place in the list exactly once and its contents untouched. -/
theorem tracer_removal_keeps_others (cfg : Cfg) (sched : List Act) (c : Nat) (s : St)
    (hs : s = run cfg init sched) :
    s.misuse = false → c ∈ s.subs →
    (s.removeSub c).subs.Nodup ∧ (∀ j, j ∈ (s.removeSub c).subs ↔ (j ∈ s.subs ∧ j ≠ c)) ∧
    ∀ j, j ≠ c → (s.removeSub c).chan j = s.chan j := by
  intro hm hc
  have hinv : Inv s := by rw [hs] at hm ⊢; exact inv_run cfg sched hm
  obtain ⟨h1, h2⟩ := swapRemove_spec hc hinv.nodup
  refine ⟨h1, h2, ?_⟩
  intro j hj
  simp [St.removeSub, hj]

/-! ## 2. the global order extends every sender's program order -/

/-- `tracer_sender_order`. For every schedule and every sender: the sequence numbers of that sender's traces, in the
order the broadcaster took them, are `0, 1, 2, …` — the global order restricted to one sender is that sender's
program order (a sender is a sequential goroutine: one `Send` at a time). -/
theorem tracer_sender_order (cfg : Cfg) (sched : List Act) (sd : Nat) (s : St) (hs : s = run cfg init sched) :
    ((s.log.filter (fun m => m.sender == sd)).map (·.seq)) =
      List.range ((s.log.filter (fun m => m.sender == sd)).length) := by
  subst hs
  have h := (sinv_run cfg sched).order sd
  have := prefix_of_range h
  simpa [seqsOf] using this

/-! ## 3. subscribing, unsubscribing and sending concurrently never deadlocks -/

/-- `tracer_unsub_progress`. Take any reachable state and let only goroutines that are already inside the protocol
move (the broadcaster, clients finishing their `Send` / `SubscribeChannel` / `Unsubscribe`, consumers of subscribed
channels taking traces, the `Unsubscribe` loop draining its own channel) — no new call is begun. Then
(a) however these steps are scheduled, at most `mu s` of them can happen (`mu` is computed from the state: blocked
    sends × subscribers, remaining pushes, queued traces, open hand-shakes);
(b) as long as some call has not returned (`Busy`), one of them is enabled: no deadlock. The unsubscriber's own drain
    is what unblocks a broadcaster that is pushing to the very channel being unsubscribed — its consumer is not needed;
so every maximal such run ends, within `mu s` steps, in a state where every `Send`, `SubscribeChannel` and
`Unsubscribe` has returned; (c) one such run is exhibited. What the other subscribers hold is given by
`tracer_segment` in every state on the way. -/
theorem tracer_unsub_progress (cfg : Cfg) (hdr : cfg.unsubDrains = true) (sched : List Act) (s : St)
    (hs : s = run cfg init sched) :
    s.misuse = false →
    (∀ acts, (∀ a ∈ acts, a.isEnv = false) → allEnabled cfg s acts →
        acts.length ≤ s.mu ∧
        ((run cfg s acts).Busy → ∃ a, a.isEnv = false ∧ (step cfg (run cfg s acts) a).isSome = true)) ∧
    (∃ acts, (∀ a ∈ acts, a.isEnv = false) ∧ allEnabled cfg s acts ∧ acts.length ≤ s.mu ∧ ¬ (run cfg s acts).Busy) := by
  intro hm
  have hinv : Inv s := by rw [hs] at hm ⊢; exact inv_run cfg sched hm
  constructor
  · intro acts hsys hen
    obtain ⟨h1, _, h3⟩ := inv_allEnabled acts s hinv hm hsys hen
    exact ⟨by omega, fun hb => no_deadlock hdr h1 hb⟩
  · obtain ⟨acts, h1, h2, h3⟩ := completes hdr s.mu s (Nat.le_refl _) hinv hm
    obtain ⟨_, _, h6⟩ := inv_allEnabled acts s hinv hm h1 h2
    exact ⟨acts, h1, h2, by omega, h3⟩

/-! ## 4. what lies outside, as kernel-checked witnesses -/

/-- the schedule: one subscriber (unbuffered channel) subscribes; a sender's trace is taken by the broadcaster, which
now blocks in `subscriber <- trace`; the subscriber stops reading and calls `Unsubscribe` -/
def nodrainSched : List Act :=
  [.callSub 0, .recvSub 0, .subReturn 0, .callSend 0, .recvTrace 0, .callUnsub 0]

/-- Without the `case <-channel` alternative in the `Unsubscribe` loop the same situation is a deadlock: the
broadcaster waits for the subscriber to read, the subscriber waits for the broadcaster to take its request, and no
goroutine inside the protocol can move — the `Send` has returned but the `Unsubscribe` never does. -/
theorem tracer_nodrain_deadlock :
    let cfg : Cfg := { unsubDrains := false }
    let s := run cfg init nodrainSched
    s.misuse = false ∧ s.Busy ∧ ∀ a, a.isEnv = false → step cfg s a = none := by
  intro cfg s
  have hpc : s.pc = .push ⟨0, 0⟩ 0 := rfl
  have hsubs : s.subs = [0] := rfl
  have hchan : ∀ c, (s.chan c).stat = if c = 0 then .unsubOffer else .absent := by
    intro c
    by_cases hc : c = 0
    · subst hc; rfl
    · have : s.chan c = {} := by
        show (if c = 0 then _ else if c = 0 then _ else if c = 0 then _ else if c = 0 then _ else _) = _
        simp [hc, init]
      rw [this]; simp [hc]
  have hbuf : (s.chan 0).buf = [] ∧ (s.chan 0).cap = 0 := ⟨rfl, rfl⟩
  refine ⟨rfl, Or.inr (Or.inl (by rw [hpc]; simp)), ?_⟩
  intro a ha
  cases a with
  | callSub cap => cases ha
  | callUnsub c => cases ha
  | callSend sd => cases ha
  | recvTrace k => simp [step, hpc]
  | recvSub c => simp [step, hpc]
  | recvUnsub c => simp [step, hpc]
  | push => simp [step, hpc, hsubs, hbuf]
  | consume c =>
    have := hchan c
    by_cases hc : c = 0
    · subst hc; simp only [if_true] at this; simp [step, this]
    · simp only [hc, if_false] at this; simp [step, this]
  | drain c => simp [step, cfg]
  | subReturn c =>
    have := hchan c
    by_cases hc : c = 0
    · subst hc; simp only [if_true] at this; simp [step, this]
    · simp only [hc, if_false] at this; simp [step, this]
  | takeOk c => simp [step, hpc]

/-- with the drain the same schedule continues: `Unsubscribe` drains the trace, is removed, acknowledged, returns -/
example :
    let cfg : Cfg := {}
    let s := run cfg init (nodrainSched ++ [.drain 0, .recvUnsub 0, .takeOk 0])
    s.pc = .idle ∧ (s.chan 0).stat = .done ∧ (s.chan 0).drained = [⟨0, 0⟩] ∧ s.subs = [] := by
  exact ⟨rfl, rfl, rfl, rfl⟩

/-- one subscriber subscribes, unsubscribes, and calls `Unsubscribe` a second time; then the broadcaster takes the
request `n` times -/
def spinSched (n : Nat) : List Act :=
  [.callSub 1, .recvSub 0, .subReturn 0, .callUnsub 0, .recvUnsub 0, .takeOk 0, .callUnsub 0] ++
    List.replicate n (.recvUnsub 0)

/-- Outside the statement (noted in DESIGN.md): `Unsubscribe` of a channel that is not subscribed never returns.
The broadcaster finds `pos = -1`, sends no acknowledgement, and the loop offers the request again — for every `n`,
after the broadcaster has taken the request `n` times the call is still where it was. -/
theorem unsubscribe_unsubscribed_spins (cfg : Cfg) (n : Nat) :
    let s := run cfg init (spinSched n)
    (s.chan 0).stat = .unsubOffer ∧ s.pc = .idle ∧ s.misuse = true := by
  induction n with
  | zero => exact ⟨rfl, rfl, rfl⟩
  | succ n ih =>
    intro s
    have hs : s = step' cfg (run cfg init (spinSched n)) (.recvUnsub 0) := by
      show run cfg init (spinSched (n + 1)) = _
      unfold spinSched
      rw [List.replicate_succ', ← List.append_assoc, run_append]
      rfl
    obtain ⟨h1, h2, h3⟩ := ih
    have hsubs : (run cfg init (spinSched n)).subs = [] := by
      clear hs h1 h2 h3 s
      induction n with
      | zero => rfl
      | succ n ih2 =>
        have e : run cfg init (spinSched (n + 1)) = step' cfg (run cfg init (spinSched n)) (.recvUnsub 0) := by
          unfold spinSched
          rw [List.replicate_succ', ← List.append_assoc, run_append]
          rfl
        rw [e]
        unfold step'
        cases hst : step cfg (run cfg init (spinSched n)) (.recvUnsub 0) with
        | none => exact ih2
        | some s' =>
          simp only [step] at hst
          split at hst
          · rw [ih2] at hst; simp at hst; rw [← hst]; exact ih2
          · cases hst
    have hstep : step cfg (run cfg init (spinSched n)) (.recvUnsub 0) = some (run cfg init (spinSched n)) := by
      simp only [step, h2, h1, hsubs]
      simp
    rw [hs]
    unfold step'
    rw [hstep]
    exact ⟨h1, h2, h3⟩

/-! ## non-vacuity: a concrete run with two subscribers, a swap-removal in the middle, and three senders' traces -/

def demoSched : List Act :=
  [ .callSub 1, .recvSub 0, .subReturn 0,            -- channel 0, buffer 1
    .callSend 7, .recvTrace 0, .push,                 -- 7:0 → [0]
    .callSub 0, .recvSub 1, .subReturn 1,             -- channel 1, unbuffered, joins after 7:0
    .callSub 2, .recvSub 2, .subReturn 2,             -- channel 2, buffer 2
    .callSend 8, .callSend 7, .recvTrace 1,           -- 7:1 overtakes 8:0
    .consume 0, .push, .consume 1, .push,             -- 7:1 → 0, 1 (rendezvous), 2
    .callUnsub 0, .recvUnsub 0, .takeOk 0,            -- channel 0 leaves: the list [0,1,2] becomes [2,1]
    .recvTrace 0, .push, .consume 1 ]                 -- 8:0 → 2, then 1

example :
    let s := run {} init demoSched
    s.misuse = false ∧ s.subs = [2, 1] ∧ s.log = [⟨7, 0⟩, ⟨7, 1⟩, ⟨8, 0⟩] ∧
    (s.chan 0).recvd = [⟨7, 0⟩] ∧ (s.chan 0).drained = [] ∧ (s.chan 0).buf = [⟨7, 1⟩] ∧
    (s.chan 0).start = 0 ∧ s.upto 0 = 2 ∧
    (s.chan 1).recvd = [⟨7, 1⟩, ⟨8, 0⟩] ∧ (s.chan 1).start = 1 ∧ s.upto 1 = 3 ∧
    (s.chan 2).buf = [⟨7, 1⟩, ⟨8, 0⟩] ∧ (s.chan 2).start = 1 := by
  refine ⟨rfl, rfl, rfl, rfl, rfl, rfl, rfl, rfl, rfl, rfl, rfl, rfl, rfl⟩

/-- the hypotheses of `tracer_unsub_progress` are met by a state with calls in flight -/
example :
    let s := run {} init [.callSub 0, .recvSub 0, .subReturn 0, .callSend 0, .recvTrace 0, .callUnsub 0, .callSend 1]
    s.misuse = false ∧ s.Busy ∧ s.mu = 7 := by
  refine ⟨rfl, Or.inl (by decide), rfl⟩


/-! ## the drain is what the progress theorem hangs on: a dichotomy over the extracted fact -/

/-- what is claimed at a given value of the fact "the `Unsubscribe` loop drains its own channel" -/
def ProgressClaim (drains : Bool) : Prop :=
  if drains then
    ∀ (cfg : Cfg), cfg.unsubDrains = true → ∀ (sched : List Act) (s : St), s = run cfg init sched → s.misuse = false →
      (∀ acts, (∀ a ∈ acts, a.isEnv = false) → allEnabled cfg s acts →
          acts.length ≤ s.mu ∧
          ((run cfg s acts).Busy → ∃ a, a.isEnv = false ∧ (step cfg (run cfg s acts) a).isSome = true)) ∧
      (∃ acts, (∀ a ∈ acts, a.isEnv = false) ∧ allEnabled cfg s acts ∧ acts.length ≤ s.mu ∧ ¬ (run cfg s acts).Busy)
  else
    ∃ sched, (run { unsubDrains := false } init sched).misuse = false ∧ (run { unsubDrains := false } init sched).Busy ∧
      ∀ a, a.isEnv = false → step { unsubDrains := false } (run { unsubDrains := false } init sched) a = none

theorem progress_dichotomy (drains : Bool) : ProgressClaim drains := by
  cases drains with
  | true =>
    intro cfg hdr sched s hs hm
    exact tracer_unsub_progress cfg hdr sched s hs hm
  | false => exact ⟨nodrainSched, tracer_nodrain_deadlock⟩


/-! ## 5. a relay (`NewRelay`, `subProcess.run`) is a subscriber: it forwards what it was subscribed for

By `tracer_segment` a subscriber holds `log[start, upto)`: what it misses is exactly `log.take start`, the traces the
broadcaster took before it appended the channel. A relay therefore forwards the whole inner stream iff it is
subscribed before the first inner `Send` begins. -/

/-- a subscriber that is in the list before any `Send` has begun holds the whole stream, whatever happens later -/
theorem relay_lossless_if_subscribed_first (cfg : Cfg) (pre post : List Act) (c : Nat)
    (hpre : ∀ a ∈ pre, a.isSend = false) (s : St) (hs : s = run cfg init (pre ++ post))
    (hm : s.misuse = false)
    (hc : ((run cfg init pre).chan c).stat ≠ .absent ∧ ((run cfg init pre).chan c).stat ≠ .subWait) :
    (s.chan c).start = 0 ∧
    (s.chan c).recvd ++ (s.chan c).drained ++ (s.chan c).buf = s.log.take (s.upto c) := by
  rw [run_append] at hs
  have hf0 : ((run cfg init pre).chan c).stat.fresh = false := by
    cases hst : ((run cfg init pre).chan c).stat <;> simp_all [CStat.fresh]
  have hlog : (run cfg init pre).log = [] := run_nosend cfg pre hpre init ⟨rfl, rfl⟩
  have h0 : (run cfg init pre).misuse = false → Inv (run cfg init pre) ∧
      ((run cfg init pre).chan c).stat.fresh = false ∧ ((run cfg init pre).chan c).start = 0 := by
    intro hm0
    have hinv := inv_run cfg pre hm0
    refine ⟨hinv, hf0, ?_⟩
    have h1 := hinv.startLe c hf0
    have h2 := hinv.upto_le c
    rw [hlog] at h2
    simp at h2
    omega
  have := start_zero_run cfg c post (run cfg init pre) h0 (by rw [← hs]; exact hm)
  rw [← hs] at this
  obtain ⟨hinv, hf, hz⟩ := this
  refine ⟨hz, ?_⟩
  have hseg := hinv.seg c hf
  unfold Chan.total St.segment at hseg
  rw [hz] at hseg
  simpa using hseg

/-- the inner flow sends `NewFlowTrace`, `VisitTrace` (7:0, 7:1); only then is the relay's subscription accepted; a third
trace follows -/
def lateRelaySched : List Act :=
  [ .callSend 7, .recvTrace 0, .callSend 7, .recvTrace 0,
    .callSub 10, .recvSub 0, .subReturn 0,
    .callSend 7, .recvTrace 0, .push, .consume 0 ]

/-- subscribed after the first sends (subprocess.go `run`: `sp.startAll(ctx)` before `sp.subTracer.Subscribe()`), the
relay never sees them: its segment starts at position 2 -/
theorem relay_late_subscription_loses_prefix :
    let s := run {} init lateRelaySched
    s.misuse = false ∧ (s.chan 0).stat = .active ∧ s.log = [⟨7, 0⟩, ⟨7, 1⟩, ⟨7, 2⟩] ∧
    (s.chan 0).start = 2 ∧ (s.chan 0).recvd = [⟨7, 2⟩] ∧ (s.chan 0).buf = [] ∧ s.pc = .idle := by
  refine ⟨rfl, rfl, rfl, rfl, rfl, rfl, rfl⟩

/-! ### two relays on one inner tracer (D43)

A relay is a subscriber like any other: TWO relays subscribed to the same inner tracer before its first `Send` each hold the
whole inner stream, so everything is forwarded to the enclosing tracer twice. That is what two tokens inside one
sub-process node did before activations took turns (`sp.activation`, 69bc080): the second token's relay repeated the
running activation's traces on the instance's tracer. -/

/-- both subscribers hold the whole stream (twice `relay_lossless_if_subscribed_first`) -/
theorem two_relays_each_hold_everything (cfg : Cfg) (pre post : List Act) (c1 c2 : Nat)
    (hpre : ∀ a ∈ pre, a.isSend = false) (s : St) (hs : s = run cfg init (pre ++ post)) (hm : s.misuse = false)
    (h1 : ((run cfg init pre).chan c1).stat ≠ .absent ∧ ((run cfg init pre).chan c1).stat ≠ .subWait)
    (h2 : ((run cfg init pre).chan c2).stat ≠ .absent ∧ ((run cfg init pre).chan c2).stat ≠ .subWait) :
    (s.chan c1).recvd ++ (s.chan c1).drained ++ (s.chan c1).buf = s.log.take (s.upto c1) ∧
    (s.chan c2).recvd ++ (s.chan c2).drained ++ (s.chan c2).buf = s.log.take (s.upto c2) :=
  ⟨(relay_lossless_if_subscribed_first cfg pre post c1 hpre s hs hm h1).2,
   (relay_lossless_if_subscribed_first cfg pre post c2 hpre s hs hm h2).2⟩

/-- two relays subscribe, the inner flow sends one trace, both receive it -/
def twoRelaySched : List Act :=
  [ .callSub 10, .recvSub 0, .subReturn 0, .callSub 10, .recvSub 1, .subReturn 1,
    .callSend 7, .recvTrace 0, .push, .push, .consume 0, .consume 1 ]

/-- … the witness: one trace sent, two copies forwarded -/
theorem two_relays_forward_twice :
    let s := run {} init twoRelaySched
    s.misuse = false ∧ s.log = [⟨7, 0⟩] ∧ (s.chan 0).recvd ++ (s.chan 1).recvd = [⟨7, 0⟩, ⟨7, 0⟩] ∧ s.pc = .idle := by
  refine ⟨rfl, rfl, rfl, rfl⟩

/-- what is claimed at a given value of the fact "subProcess.run subscribes to the inner tracer before it starts the
inner flows" -/
def RelayClaim (subscribesFirst : Bool) : Prop :=
  if subscribesFirst then
    ∀ (cfg : Cfg) (pre post : List Act) (c : Nat), (∀ a ∈ pre, a.isSend = false) →
      ∀ s, s = run cfg init (pre ++ post) → s.misuse = false →
      (((run cfg init pre).chan c).stat ≠ .absent ∧ ((run cfg init pre).chan c).stat ≠ .subWait) →
      (s.chan c).start = 0 ∧ (s.chan c).recvd ++ (s.chan c).drained ++ (s.chan c).buf = s.log.take (s.upto c)
  else
    ∃ sched c, (run {} init sched).misuse = false ∧ ((run {} init sched).chan c).stat = .active ∧
      (run {} init sched).pc = .idle ∧ 0 < ((run {} init sched).chan c).start

theorem relay_dichotomy (b : Bool) : RelayClaim b := by
  cases b with
  | true =>
    intro cfg pre post c hpre s hs hm hc
    exact relay_lossless_if_subscribed_first cfg pre post c hpre s hs hm hc
  | false => exact ⟨lateRelaySched, 0, rfl, rfl, rfl, by decide⟩

/-! ## 6. the causality grammar -/

open Bpmn.Model.FlowOrder Bpmn.Spec in
/-- `flows_causal`. Over one tracer (total order, program order, a `Send` returns only once the trace is in the order),
the sending discipline of flow.go — `NewFlowTrace`, `VisitTrace`; per move `LeaveTrace`, `VisitTrace`, then the
`FlowTrace` listing the continuing flow and the fresh ids of the additional flows, and only THEN their goroutines;
`TerminationTrace` immediately before returning; `CeaseFlowTrace` after every flow goroutine has returned — yields,
for every number of flows, every branching and every interleaving (`sched` arbitrary), a history that satisfies the
grammar: the announcement precedes every trace of an announced flow, visit precedes leave per node occurrence, nothing
of a flow follows its termination, nothing of any flow follows the cease trace. -/
theorem flows_causal (sched : List FAct) : causal (frun finit sched).log = true := by
  obtain ⟨sc, h, _⟩ := good_run sched finit good_init
  simp [causal, firstViolation, h]

open Bpmn.Model.FlowOrder Bpmn.Spec in
/-- non-vacuity: a fork. Flow 0 starts at node 10, moves to node 11 announcing flows 1 and 2 (started at nodes 12 and
13), which run concurrently with it; flow 1 terminates; the history is the expected one -/
example :
    (frun finit [.root 10, .send 0, .send 0, .move 0 11 [12, 13], .send 0, .send 0,
                 .send 2, .send 1, .send 1, .send 2, .term 1, .other]).log =
    [.newflow 0, .visit 10, .leave 10, .visit 11, .flow 10 [0, 1, 2],
     .newflow 2, .newflow 1, .visit 12, .visit 13, .term 1, .other] := rfl

open Bpmn.Spec in
/-- the predicate is not trivially true: each rule rejects a history -/
example :
    causal [.newflow 0, .visit 1, .newflow 5, .leave 1, .visit 2, .flow 1 [0, 5]] = false ∧   -- flow 5 seen before its announcement
    causal [.newflow 0, .leave 1] = false ∧                                                    -- leave before visit
    causal [.newflow 0, .visit 1, .term 0, .flow 1 [0]] = false ∧                              -- trace after termination
    causal [.newflow 0, .visit 1, .term 0, .cease, .visit 1] = false ∧                         -- flow trace after cease
    causal [.visit 1, .flow 1 [3]] = false ∧                                                   -- FlowTrace before NewFlowTrace
    causal [.newflow 0, .visit 1, .leave 1, .visit 2, .flow 1 [0, 5], .newflow 5, .visit 3, .term 5, .term 0, .cease, .other] = true := by
  decide

/-! ## the statement -/

/-- C09 on the model, in full. (`ProgressClaim true` is the no-deadlock part at the value of the drain fact the code
has; `relay_dichotomy` and `progress_dichotomy` carry the other values.) -/
def C09_statement : Prop :=
  -- every subscriber: a contiguous segment of the one global order, for all schedules
  (∀ (cfg : Cfg) (sched : List Act) (s : St), s = run cfg init sched → s.misuse = false →
    ∀ c, (s.chan c).stat ≠ .absent → (s.chan c).stat ≠ .subWait →
      (s.chan c).recvd ++ (s.chan c).drained ++ (s.chan c).buf = (s.log.take (s.upto c)).drop (s.chan c).start) ∧
  -- same order for all, nothing dropped or duplicated
  (∀ (cfg : Cfg) (sched : List Act) (s : St), s = run cfg init sched → s.misuse = false →
    ∀ c k m, (s.chan c).recvd[k]? = some m → s.log[(s.chan c).start + k]? = some m) ∧
  -- the global order extends every sender's program order
  (∀ (cfg : Cfg) (sched : List Act) (sd : Nat) (s : St), s = run cfg init sched →
    ((s.log.filter (fun m => m.sender == sd)).map (·.seq)) =
      List.range ((s.log.filter (fun m => m.sender == sd)).length)) ∧
  -- concurrent Subscribe / Unsubscribe / Send: bounded progress, no deadlock
  ProgressClaim true ∧
  -- removal leaves the other subscribers alone
  (∀ (cfg : Cfg) (sched : List Act) (c : Nat) (s : St), s = run cfg init sched → s.misuse = false → c ∈ s.subs →
    (s.removeSub c).subs.Nodup ∧ (∀ j, j ∈ (s.removeSub c).subs ↔ (j ∈ s.subs ∧ j ≠ c)) ∧
    ∀ j, j ≠ c → (s.removeSub c).chan j = s.chan j) ∧
  -- the causality grammar, for every interleaving of flows that send as flow.go does
  (∀ sched : List Bpmn.Model.FlowOrder.FAct,
    Bpmn.Spec.causal (Bpmn.Model.FlowOrder.frun Bpmn.Model.FlowOrder.finit sched).log = true)

theorem C09_holds : C09_statement :=
  ⟨tracer_segment, tracer_same_order, tracer_sender_order, progress_dichotomy true,
   tracer_removal_keeps_others, flows_causal⟩

end Bpmn.Props.C09
