import Bpmn.Gen.C04
/-!
C04's condition differential (`c04cond`) at the fact extracted from the current /repo tree (`Bpmn.Gen.C04`,
regenerated on every run).

`xpathVarsReachable` says which of two shapes `XPath.EvaluateExpression` has: today's (`some false`: variables are
reachable by bare name only when there is exactly one, D24, known finding `xpath_variables_unreachable`) or the
repaired one (`some true`: the datum is always wrapped and the expression is evaluated on the wrapping element).
The driver (`Bpmn.Driver.C04.checkCond`) picks the model of the XPath engine by it, so neither tree alarms. The only
obligation is that the extractor can read the shape at all: on a tree with a third shape the fact is `none` and this
module stops building.
-/
namespace Bpmn.Props.C04Current
open Bpmn.Gen.C04

/-- the extractor recognises the shape of `XPath.EvaluateExpression` (either today's or the repaired one) -/
theorem xpath_fact_known : xpathVarsReachable.isSome = true := by decide

end Bpmn.Props.C04Current
