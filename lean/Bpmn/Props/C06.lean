import Bpmn.Lemmas.EventGateway
/-!
# C06 — Event-based gateway: exactly one alternative wins and the instance completes

Theorems over the small-step model `Bpmn.Model.EventGateway` (a port of `gateway_event_based.go`, the `select` loop
of `flow.Start` and `event_catch.go`), for every number of alternatives, every sequence of deliveries — sequential
or overlapping — and every schedule (`exec` runs ANY list of labels, skipping the ones that are not enabled).

* `ebg_one_winner` — for every value of the facts: at most one alternative passes the compare-and-swap; once any
  flow is past it a winner exists; a flow that observed its event reaches the compare-and-swap unhindered.
* `ebg_no_block` — under `1 ≤ ebgTermCap` (and, for the losers, the map variable not being reassigned): the winner
  never blocks; in every quiescent state in which some event has been observed exactly one branch has continued,
  every other flow has terminated or completed and the wait group is down to the winner; `ebg_bounded`: every
  internal step decreases a measure that starts at `9k+1` and grows by `3k` per delivery (for every value of the
  facts).
* `C06_counterexample_deadlock` — `ebgTermCap = 0` (today): the explicit schedule `deadlockSched`; nothing ever
  continues afterwards (D5). `C06_counterexample_late_select` — channels buffered but the map still reassigned.
* `ebg_late_events_inert` — late deliveries change no token (all facts: `late_events_no_token_change`), block no node
  and no caller under `1 ≤ catchReplyCap`; `C06_counterexample_late_event_blocks` — `catchReplyCap = 0` (today): the
  withdrawn alternative's node sends forever on a dead reply channel, its inbox fills, the caller blocks (D21).
* `C06_statement`, `C06_general` (`Ok facts → statement`), `C06_cex` (`¬ Ok facts → ¬ statement`), `C06_holds_partial`.
-/
namespace Bpmn.Props.C06
open Bpmn.Model.EventGateway


/-! ## one winner -/

/-- at most one alternative's action passes the compare-and-swap -/
theorem at_most_one_winner (c : Cfg) (sch : List Lbl) (i j : Nat)
    (hi : ((exec c (init c) sch).pc i).won = true) (hj : ((exec c (init c) sch).pc j).won = true) : i = j := by
  have h := (inv_reach c sch).a
  have a := h.won_first i hi
  have b := h.won_first j hj
  rw [a] at b
  exact Option.some.inj b

/-- once some flow is past the compare-and-swap (it won, or it was sent away with `completeAction`) a winner exists -/
theorem winner_exists (c : Cfg) (sch : List Lbl) (i : Nat)
    (hi : ((exec c (init c) sch).pc i).won = true ∨ (exec c (init c) sch).pc i = .completed) :
    ∃ w, w < c.k ∧ ((exec c (init c) sch).pc w).won = true := by
  have h := (inv_reach c sch).a
  have hf : (exec c (init c) sch).first ≠ none := by
    rcases hi with hi | hi
    · rw [h.won_first i hi]; simp
    · exact h.compl i hi
  cases hw : (exec c (init c) sch).first with
  | none => exact absurd hw hf
  | some w =>
    have hwon := h.first_w w hw
    refine ⟨w, h.lt_k w ?_, hwon⟩
    intro hs
    rw [hs] at hwon
    simp [Pc.won] at hwon

/-- a flow that has observed its event is never blocked on its way to the compare-and-swap, and the
compare-and-swap produces a winner -/
theorem observed_reaches_cas (c : Cfg) (sch : List Lbl) (i : Nat) (hi : i < c.k) :
    ((exec c (init c) sch).pc i = .gotAction → enabled c (exec c (init c) sch) (.enterTransformer i) = true) ∧
    ((exec c (init c) sch).pc i = .inTransformer → enabled c (exec c (init c) sch) (.cas i) = true ∧
      ∃ w, w < c.k ∧ ((fire c (exec c (init c) sch) (.cas i)).pc w).won = true) := by
  have h := (inv_reach c sch).a
  generalize exec c (init c) sch = s at h ⊢
  constructor
  · intro hp; simp [enabled, hi, hp]
  · intro hp
    refine ⟨by simp [enabled, hi, hp], ?_⟩
    cases hf : s.first with
    | none => exact ⟨i, hi, by simp [fire, hf, Pc.won]⟩
    | some w =>
      have hw := h.first_w w hf
      have hne : w ≠ i := by
        intro e; subst e; rw [hp] at hw; simp [Pc.won] at hw
      refine ⟨w, h.lt_k w ?_, by simp [fire, hf, upd, hne, hw]⟩
      intro hs; rw [hs] at hw; simp [Pc.won] at hw



/-- `continued`, `terminated` and `completed` are final: the winning branch continues exactly once (a flow enters
`continued` only through `finish`, and never leaves it), a withdrawn alternative never continues -/
theorem final_step (c : Cfg) (s : St) (l : Lbl) (i : Nat) (h : s.pc i = .continued ∨ (s.pc i).gone = true)
    (he : enabled c s l = true) : (fire c s l).pc i = s.pc i := by
  have hno : s.pc i ≠ .starting ∧ s.pc i ≠ .selecting ∧ s.pc i ≠ .gotAction ∧ s.pc i ≠ .inTransformer ∧
      s.pc i ≠ .notifying := by
    rcases h with h | h
    · simp [h]
    · cases hp : s.pc i <;> rw [hp] at h <;> simp [Pc.gone] at h <;> simp
  cases l <;> simp only [enabled, Bool.and_eq_true, decide_eq_true_eq] at he <;> simp only [fire]
  all_goals grind [upd]

theorem final_absorbing (c : Cfg) (s : St) (i : Nat) (h : s.pc i = .continued ∨ (s.pc i).gone = true)
    (sch : List Lbl) : (exec c s sch).pc i = s.pc i :=
  exec_induct c (fun s' => s'.pc i = s.pc i)
    (fun s' l hs he => by rw [← hs]; exact final_step c s' l i (by rw [hs]; exact h) he) sch s rfl

/-! ## the winner never blocks (buffered termination channels) -/

theorem notify_enabled (c : Cfg) (s : St) (h : InvA c s) (hcap : 1 ≤ c.termCap) (i t : Nat)
    (hp : s.pc i = .notifying) (ht : s.target = some t) (hne : t ≠ i) : enabled c s (.notify i t) = true := by
  obtain ⟨htk, hcl, _⟩ := h.tgt t ht
  have hik : i < c.k := h.lt_k i (by rw [hp]; simp)
  have hb := h.buf0 t hcl
  have h0 : c.termCap ≠ 0 := by omega
  simp [enabled, hik, htk, hne, hp, ht, h0, hb]
  omega

/-- while the winner is in its loop one of its own steps is enabled -/
theorem winner_step_enabled (c : Cfg) (s : St) (h : InvA c s) (hcap : 1 ≤ c.termCap) (i : Nat)
    (hp : s.pc i = .notifying) :
    (∃ t, enabled c s (.pick i t) = true) ∨ (∃ t, enabled c s (.notify i t) = true) ∨
      enabled c s (.closeOwn i) = true ∨ enabled c s (.finish i) = true := by
  have hik : i < c.k := h.lt_k i (by rw [hp]; simp)
  cases ht : s.target with
  | some t =>
    by_cases hti : t = i
    · subst hti
      right; right; left
      simp [enabled, hik, hp, ht]
    · right; left
      exact ⟨t, notify_enabled c s h hcap i t hp ht hti⟩
  | none =>
    by_cases hall : allClosed c s = true
    · right; right; right
      simp [enabled, hik, hp, ht, hall]
    · left
      have : ∃ t, t < c.k ∧ s.closed t = false := by
        rw [allClosed_iff] at hall
        by_cases hex : ∃ t, t < c.k ∧ s.closed t = false
        · exact hex
        · exfalso; apply hall
          intro t htk
          cases hc : s.closed t with
          | true => rfl
          | false => exact absurd ⟨t, htk, hc⟩ hex
      obtain ⟨t, htk, hc⟩ := this
      exact ⟨t, by simp [enabled, hik, htk, hp, ht, hc]⟩

/-! ## quiescent states after the determination are the outcome C06 asks for -/

theorem countP_single (p : Nat → Bool) (w : Nat) : ∀ n, (∀ j, j < n → j ≠ w → p j = false) → p w = true →
    (List.range n).countP p = if w < n then 1 else 0 := by
  intro n
  induction n with
  | zero => intro _ _; simp
  | succ n ih =>
    intro h hw
    rw [List.range_succ, List.countP_append, ih (fun j hj => h j (Nat.lt_succ_of_lt hj)) hw]
    by_cases e : w = n
    · subst e; simp [hw]
    · have := h n (Nat.lt_succ_self n) (Ne.symm e)
      simp only [List.countP_cons, List.countP_nil, this]
      by_cases h1 : w < n
      · have : w < n + 1 := by omega
        simp [h1, this]
      · have : ¬ w < n + 1 := by omega
        simp [h1, this]

theorem terminal_settled (c : Cfg) (s : St) (h : Inv c s) (hcap : 1 ≤ c.termCap) (hmap : c.mapReplaced = false)
    (hib : 1 ≤ c.inboxCap) (hterm : terminal c s) (hobs : ∃ i, i < c.k ∧ (s.pc i).observed = true) :
    settled c s := by
  have ha := h.a
  -- nobody is between the event and the compare-and-swap
  have hnoGot : ∀ i, i < c.k → s.pc i ≠ .gotAction := by
    intro i hi hp
    have := hterm (.enterTransformer i) rfl
    simp [enabled, hi, hp] at this
  have hnoTr : ∀ i, i < c.k → s.pc i ≠ .inTransformer := by
    intro i hi hp
    have := hterm (.cas i) rfl
    simp [enabled, hi, hp] at this
  have hnoNot : ∀ i, s.pc i ≠ .notifying := by
    intro i hp
    rcases winner_step_enabled c s ha hcap i hp with ⟨t, e⟩ | ⟨t, e⟩ | e | e
    · have := hterm (.pick i t) rfl; rw [this] at e; cases e
    · have := hterm (.notify i t) rfl; rw [this] at e; cases e
    · have := hterm (.closeOwn i) rfl; rw [this] at e; cases e
    · have := hterm (.finish i) rfl; rw [this] at e; cases e
  -- so the flag is set and its owner has continued
  obtain ⟨i0, hi0, ho⟩ := hobs
  have hfirst : s.first ≠ none := by
    cases hp : s.pc i0 <;> rw [hp] at ho <;> simp [Pc.observed] at ho
    · exact absurd hp (hnoGot i0 hi0)
    · exact absurd hp (hnoTr i0 hi0)
    · exact absurd hp (hnoNot i0)
    · rw [ha.won_first i0 (by rw [hp]; rfl)]; simp
    · exact ha.compl i0 hp
  cases hw : s.first with
  | none => exact absurd hw hfirst
  | some w =>
    have hwon := ha.first_w w hw
    have hwc : s.pc w = .continued := by
      cases hp : s.pc w <;> rw [hp] at hwon <;> simp [Pc.won] at hwon
      · exact absurd hp (hnoNot w)
    have hwk : w < c.k := ha.lt_k w (by rw [hwc]; simp)
    have hgone : ∀ j, j < c.k → j ≠ w → (s.pc j).gone = true := by
      intro j hj hne
      cases hp : s.pc j with
      | starting =>
        exfalso
        obtain ⟨_, hidle, _, _⟩ := h.n.start_node j hp
        have e1 := hterm (.enterSelect j) rfl
        simp only [enabled, hj, hp, decide_true, Bool.true_and, decide_eq_false_iff_not, Nat.not_lt] at e1
        have e2 := hterm (.node j) rfl
        simp only [enabled, hj, hidle, decide_true, Bool.true_and, Bool.not_eq_false'] at e2
        have : (s.inbox j).length = 0 := by
          cases hl : s.inbox j with
          | nil => rfl
          | cons m r => simp [hl] at e2
        omega
      | selecting =>
        exfalso
        have hcl := ha.cont_closed w hwc j hj
        have hb := ha.bufpos hcap w j hw hne hcl (Or.inr hp)
        have hnil : s.nilChan j = false := by
          cases hn : s.nilChan j with
          | false => rfl
          | true => have := ha.nilc j hn; rw [hmap] at this; cases this
        have e := hterm (.recvTerm j) rfl
        simp [enabled, hj, hp, hnil] at e
        omega
      | gotAction => exact absurd hp (hnoGot j hj)
      | inTransformer => exact absurd hp (hnoTr j hj)
      | notifying => exact absurd hp (hnoNot j)
      | continued =>
        exfalso
        have := ha.won_first j (by rw [hp]; rfl)
        rw [hw] at this
        exact hne (Option.some.inj this).symm
      | terminated => rfl
      | completed => rfl
    refine ⟨w, hwk, hwc, hgone, ?_⟩
    have hwg : s.wg = liveCount c s := h.w
    rw [hwg, liveCount, countP_single (fun i => !(s.pc i).gone) w c.k]
    · simp [hwk]
    · intro j hj hne; simp [hgone j hj hne]
    · simp [hwc, Pc.gone]



/-! ## late events -/

/-- every flow of the gateway has either continued or gone -/
def quiet (c : Cfg) (s : St) : Prop := ∀ i, i < c.k → s.pc i = .continued ∨ (s.pc i).gone = true

theorem settled_quiet (c : Cfg) (s : St) (h : settled c s) : quiet c s := by
  obtain ⟨w, _, hw, hg, _⟩ := h
  intro i hi
  by_cases e : i = w
  · subst e; exact Or.inl hw
  · exact Or.inr (hg i hi e)

/-- in a quiet state no label touches a flow, the flag, the wait group or the termination channels -/
theorem quiet_step (c : Cfg) (s : St) (hq : quiet c s) (l : Lbl) (he : enabled c s l = true) :
    (fire c s l).pc = s.pc ∧ (fire c s l).first = s.first ∧ (fire c s l).wg = s.wg := by
  have hno : ∀ i, i < c.k → s.pc i ≠ .starting ∧ s.pc i ≠ .selecting ∧ s.pc i ≠ .gotAction ∧
      s.pc i ≠ .inTransformer ∧ s.pc i ≠ .notifying := by
    intro i hi
    rcases hq i hi with h | h
    · simp [h]
    · cases hp : s.pc i <;> rw [hp] at h <;> simp [Pc.gone] at h <;> simp
  cases l <;> simp only [enabled, Bool.and_eq_true, decide_eq_true_eq] at he <;> simp only [fire]
  case enterSelect i => exact absurd he.1.2 (hno i he.1.1).1
  case node j => simp
  case send j =>
    by_cases h0 : c.replyCap = 0
    · simp only [h0, if_true, decide_eq_true_eq] at he
      exact absurd he.2 (hno j he.1.1).2.1
    · simp [h0]
  case takeAction j => exact absurd he.1.2 (hno j he.1.1).2.1
  case enterTransformer i => exact absurd he.2 (hno i he.1).2.2.1
  case cas i => exact absurd he.2 (hno i he.1).2.2.2.1
  case pick i t => exact absurd he.1.1.2 (hno i he.1.1.1.1).2.2.2.2
  case notify i t => exact absurd he.1.1.2 (hno i he.1.1.1.1.1).2.2.2.2
  case closeOwn i => exact absurd he.1.2 (hno i he.1.1).2.2.2.2
  case finish i => exact absurd he.1.1.2 (hno i he.1.1.1).2.2.2.2
  case recvTerm t => exact absurd he.1.1.2 (hno t he.1.1.1).2.1
  case deliver a => simp
  case forward d => simp

/-- late deliveries change no token: whatever is delivered and however it is scheduled after the gateway has
settled, every flow stays where it is (for every value of the facts) -/
theorem late_events_no_token_change (c : Cfg) (s : St) (hq : quiet c s) (sch : List Lbl) :
    (exec c s sch).pc = s.pc ∧ (exec c s sch).first = s.first ∧ (exec c s sch).wg = s.wg := by
  have := exec_induct c (fun s' => s'.pc = s.pc ∧ s'.first = s.first ∧ s'.wg = s.wg)
    (fun s' l hs he => by
      have hq' : quiet c s' := by intro i hi; rw [hs.1]; exact hq i hi
      obtain ⟨a, b, d⟩ := quiet_step c s' hq' l he
      exact ⟨a.trans hs.1, b.trans hs.2.1, d.trans hs.2.2⟩) sch s ⟨rfl, rfl, rfl⟩
  exact this

/-- with a buffered reply channel a catch node is never stuck in its send -/
theorem send_enabled (c : Cfg) (s : St) (h : InvN c s) (hcap : 1 ≤ c.replyCap) (j : Nat)
    (hs : s.npc j = .sending) : enabled c s (.send j) = true := by
  have hj := h.node_lt j (Or.inl hs)
  have hb := (h.active_reg j (h.send_active j hs)).2
  have h0 : c.replyCap ≠ 0 := by omega
  simp [enabled, hj, hs, h0, hb]
  omega

/-- … hence every inbox drains and no delivery stays blocked -/
theorem terminal_no_delivery_blocked (c : Cfg) (s : St) (h : Inv c s) (hcap : 1 ≤ c.replyCap)
    (hib : 1 ≤ c.inboxCap) (hterm : terminal c s) : s.dels = [] := by
  cases hd : s.dels with
  | nil => rfl
  | cons d ds =>
    exfalso
    have hdk : d.2 < c.k := h.d d (by rw [hd]; exact List.mem_cons_self)
    have hat : delAt s 0 = d := by simp [delAt, hd]
    have e := hterm (.forward 0) rfl
    simp only [enabled, hat, hd, List.length_cons, Nat.zero_lt_succ, decide_true, hdk, Bool.true_and,
      decide_eq_false_iff_not, Nat.not_lt] at e
    have hne : s.inbox d.2 ≠ [] := by
      intro hn; rw [hn] at e; simp at e; omega
    cases hn : s.npc d.2 with
    | idle =>
      have e2 := hterm (.node d.2) rfl
      simp only [enabled, hdk, hn, decide_true, Bool.true_and, Bool.not_eq_false'] at e2
      exact hne (List.isEmpty_iff.mp e2)
    | sending =>
      have e2 := hterm (.send d.2) rfl
      rw [send_enabled c s h.n hcap d.2 hn] at e2
      cases e2


/-! ## bounded progress (every value of the facts) -/

/-- every internal step of a reachable state decreases the measure -/
theorem ebg_bounded (c : Cfg) (sch : List Lbl) (l : Lbl) (hl : l.isInput = false)
    (he : enabled c (exec c (init c) sch) l = true) :
    mu c (fire c (exec c (init c) sch) l) < mu c (exec c (init c) sch) :=
  mu_decreases c _ l (inv_reach c sch).a hl he

/-- number of internal steps a schedule actually performs -/
def effSteps (c : Cfg) : St → List Lbl → Nat
  | _, [] => 0
  | s, l :: ls =>
    if enabled c s l = true then (if l.isInput = true then 0 else 1) + effSteps c (fire c s l) ls
    else effSteps c s ls

def inputs (sch : List Lbl) : Nat := (sch.filter Lbl.isInput).length

theorem bounded_progress (c : Cfg) : ∀ (sch : List Lbl) (s : St), InvA c s →
    effSteps c s sch + mu c (exec c s sch) ≤ mu c s + 3 * c.k * inputs sch := by
  intro sch
  induction sch with
  | nil => intro s _; simp [effSteps, exec_nil, inputs]
  | cons l ls ih =>
    intro s h
    rw [exec_cons]
    by_cases he : enabled c s l = true
    · have ih' := ih (fire c s l) (invA_step c s l h he)
      simp only [effSteps, he, if_true]
      cases hin : l.isInput with
      | true =>
        have hd : ∃ a, l = .deliver a := by cases l <;> simp [Lbl.isInput] at hin; exact ⟨_, rfl⟩
        obtain ⟨a, rfl⟩ := hd
        have hm := mu_deliver c s a
        have hi : inputs (Lbl.deliver a :: ls) = inputs ls + 1 := by
          simp [inputs, List.filter_cons, Lbl.isInput]
        rw [hi]
        simp only [if_true]
        have : 3 * c.k * (inputs ls + 1) = 3 * c.k * inputs ls + 3 * c.k := by
          rw [Nat.mul_add, Nat.mul_one]
        omega
      | false =>
        have hm := mu_decreases c s l h hin he
        have hi : inputs (l :: ls) = inputs ls := by simp [inputs, hin]
        rw [hi]
        simp only [Bool.false_eq_true, if_false]
        omega
    · simp only [effSteps, he, Bool.false_eq_true, if_false]
      have ih' := ih s h
      have hi : inputs ls ≤ inputs (l :: ls) := by
        simp only [inputs, List.filter_cons]
        split <;> simp
      have : 3 * c.k * inputs ls ≤ 3 * c.k * inputs (l :: ls) := Nat.mul_le_mul_left _ hi
      omega

/-- from the start: at most `9k+1` internal steps plus `3k` per delivery, whatever the schedule -/
theorem bounded_from_init (c : Cfg) (sch : List Lbl) :
    effSteps c (init c) sch ≤ 9 * c.k + 1 + 3 * c.k * inputs sch := by
  have := bounded_progress c sch (init c) (invA_init c)
  rw [mu_init] at this
  omega

/-! ## counterexample D5: unbuffered termination channels -/

/-- the state D5 ends in: the winner is committed to `ch_1 <- true` and flow 1 has gone away with `completeAction` -/
def Deadlocked (s : St) : Prop :=
  s.first = some 0 ∧ s.pc 0 = .notifying ∧ s.target = some 1 ∧ s.pc 1 = .completed

theorem deadlocked_step (c : Cfg) (h0 : c.termCap = 0) (s : St) (hd : Deadlocked s) (l : Lbl)
    (he : enabled c s l = true) : Deadlocked (fire c s l) := by
  obtain ⟨h1, h2, h3, h4⟩ := hd
  cases l <;> simp only [enabled, Bool.and_eq_true, decide_eq_true_eq] at he <;> simp only [fire, Deadlocked]
  all_goals grind [upd]

theorem deadlock_run0 (mr : Bool) (ib : Nat) (hib : 1 ≤ ib) :
    ∃ s, run { k := 2, termCap := 0, mapReplaced := mr, replyCap := 0, inboxCap := ib }
      (init { k := 2, termCap := 0, mapReplaced := mr, replyCap := 0, inboxCap := ib }) deadlockSched = some s ∧
      Deadlocked s := by
  have h0 : 0 < ib := by omega
  simp [deadlockSched, setupSched, deliverSched, run, step, enabled, fire, init, upd, delAt, List.range,
    List.range.loop, h0, Option.bind, Deadlocked]

theorem deadlock_run1 (mr : Bool) (rc ib : Nat) (hrc : 1 ≤ rc) (hib : 1 ≤ ib) :
    ∃ s, run { k := 2, termCap := 0, mapReplaced := mr, replyCap := rc, inboxCap := ib }
      (init { k := 2, termCap := 0, mapReplaced := mr, replyCap := rc, inboxCap := ib }) deadlockSchedBuffered
        = some s ∧ Deadlocked s := by
  have h0 : 0 < ib := by omega
  have h1 : rc ≠ 0 := by omega
  have h2 : 0 < rc := by omega
  simp [deadlockSchedBuffered, setupSched, deliverSched, run, step, enabled, fire, init, upd, delAt, List.range,
    List.range.loop, h0, h1, h2, Option.bind, Deadlocked]

theorem liveCount_pos (c : Cfg) (s : St) (i : Nat) (hi : i < c.k) (hl : (s.pc i).gone = false) :
    1 ≤ liveCount c s := by
  unfold liveCount
  apply List.countP_pos_iff.mpr
  exact ⟨i, List.mem_range.mpr hi, by simp [hl]⟩

/-- **D5.** With unbuffered termination channels (`ebgTermCap = 0`, the code today) there is an explicit schedule —
two alternatives; 0 wins the CAS and is about to offer `true` to 1 when 1's own event is delivered; 1 takes its action
in that same `select`, loses the CAS, gets `completeAction` and goes away — after which, WHATEVER is delivered and
however it is scheduled, the winner is still blocked on `ch_1 <- true`, no branch has continued and the wait group
never returns to zero: the instance hangs. -/
theorem C06_counterexample_deadlock (c : Cfg) (hk : c.k = 2) (h0 : c.termCap = 0) (hib : 1 ≤ c.inboxCap) :
    ∃ s, run c (init c) (deadlockWitness c) = some s ∧ Deadlocked s ∧
      ∀ sch, Deadlocked (exec c s sch) ∧ enabled c (exec c s sch) (.notify 0 1) = false ∧
        (∀ i, (exec c s sch).pc i ≠ .continued) ∧ 1 ≤ (exec c s sch).wg := by
  obtain ⟨k, tc, mr, rc, ib⟩ := c
  simp only at hk h0 hib
  subst hk h0
  have hrun : ∃ s, run ⟨2, 0, mr, rc, ib⟩ (init ⟨2, 0, mr, rc, ib⟩) (deadlockWitness ⟨2, 0, mr, rc, ib⟩) = some s ∧
      Deadlocked s := by
    by_cases hr : rc = 0
    · subst hr; simpa [deadlockWitness] using deadlock_run0 mr ib hib
    · simpa [deadlockWitness, hr] using deadlock_run1 mr rc ib (by omega) hib
  obtain ⟨s, hs, hd⟩ := hrun
  refine ⟨s, hs, hd, ?_⟩
  intro sch
  have hreach : s = exec ⟨2, 0, mr, rc, ib⟩ (init ⟨2, 0, mr, rc, ib⟩) (deadlockWitness ⟨2, 0, mr, rc, ib⟩) :=
    (run_eq_exec _ _ _ _ hs).symm
  have hinv : Inv ⟨2, 0, mr, rc, ib⟩ (exec ⟨2, 0, mr, rc, ib⟩ s sch) := by
    rw [hreach]; exact inv_exec _ _ (inv_reach _ _) sch
  have hdl : Deadlocked (exec ⟨2, 0, mr, rc, ib⟩ s sch) :=
    exec_induct _ Deadlocked (fun s' l hs' he => deadlocked_step _ rfl s' hs' l he) sch s hd
  obtain ⟨d1, d2, d3, d4⟩ := hdl
  refine ⟨⟨d1, d2, d3, d4⟩, ?_, ?_, ?_⟩
  · simp [enabled, d4]
  · intro i hc
    have := hinv.a.won_first i (by rw [hc]; rfl)
    rw [d1] at this
    have : i = 0 := (Option.some.inj this).symm
    subst this
    rw [d2] at hc; cases hc
  · have hw : (exec ⟨2, 0, mr, rc, ib⟩ s sch).wg = liveCount _ _ := hinv.w
    rw [hw]
    exact liveCount_pos _ _ 0 (by simp) (by rw [d2]; rfl)

/-! ## counterexample: buffered channels, but the map variable still reassigned -/

theorem lateSelect_run0 (tc ib : Nat) (htc : 1 ≤ tc) (hib : 1 ≤ ib) :
    ∃ s, run { k := 2, termCap := tc, mapReplaced := true, replyCap := 0, inboxCap := ib }
      (init { k := 2, termCap := tc, mapReplaced := true, replyCap := 0, inboxCap := ib }) (lateSelectSched false)
        = some s ∧ s.pc 0 = .continued ∧ s.pc 1 = .selecting ∧ s.nilChan 1 = true ∧ s.wg = 2 ∧
      terminal { k := 2, termCap := tc, mapReplaced := true, replyCap := 0, inboxCap := ib } s := by
  have h0 : 0 < ib := by omega
  have h1 : tc ≠ 0 := by omega
  have h2 : 0 < tc := by omega
  simp [lateSelectSched, deliverSched, run, step, enabled, fire, init, upd, delAt, List.range,
    List.range.loop, h0, h1, h2, Option.bind, allClosed]
  intro l hl
  cases l <;> simp [enabled, Lbl.isInput, upd, allClosed, delAt] at hl ⊢
  all_goals (try omega)
  all_goals (rename_i i; intro hi; have h01 : i = 0 ∨ i = 1 := by omega
             rcases h01 with rfl | rfl <;> simp_all)

theorem lateSelect_run1 (tc rc ib : Nat) (htc : 1 ≤ tc) (hrc : 1 ≤ rc) (hib : 1 ≤ ib) :
    ∃ s, run { k := 2, termCap := tc, mapReplaced := true, replyCap := rc, inboxCap := ib }
      (init { k := 2, termCap := tc, mapReplaced := true, replyCap := rc, inboxCap := ib }) (lateSelectSched true)
        = some s ∧ s.pc 0 = .continued ∧ s.pc 1 = .selecting ∧ s.nilChan 1 = true ∧ s.wg = 2 ∧
      terminal { k := 2, termCap := tc, mapReplaced := true, replyCap := rc, inboxCap := ib } s := by
  have h0 : 0 < ib := by omega
  have h1 : tc ≠ 0 := by omega
  have h2 : 0 < tc := by omega
  have h3 : rc ≠ 0 := by omega
  have h4 : 0 < rc := by omega
  simp [lateSelectSched, deliverSched, run, step, enabled, fire, init, upd, delAt, List.range,
    List.range.loop, h0, h1, h2, h3, h4, Option.bind, allClosed]
  intro l hl
  cases l <;> simp [enabled, Lbl.isInput, upd, allClosed, delAt, h3] at hl ⊢
  all_goals (try omega)
  all_goals (rename_i i; intro hi; have h01 : i = 0 ∨ i = 1 := by omega
             rcases h01 with rfl | rfl <;> simp_all)

/-- **Buffering alone is not the repair.** With `1 ≤ ebgTermCap` but the captured map variable still reassigned after
the winner's loop, a forked flow that evaluates its `select` only after the winner has finished looks its channel up
in the NEW empty map, waits on a nil channel and is never withdrawn: a quiescent state in which alternative 0 has
continued, alternative 1 still listens and the wait group is 2 — the instance cannot complete. (Not reachable with
the unbuffered channels of today: there the winner's send waits for that flow.) -/
theorem C06_counterexample_late_select (c : Cfg) (hk : c.k = 2) (htc : 1 ≤ c.termCap) (hmr : c.mapReplaced = true)
    (hib : 1 ≤ c.inboxCap) :
    ∃ s, run c (init c) (lateSelectSched (decide (c.replyCap ≠ 0))) = some s ∧ terminal c s ∧
      s.pc 0 = .continued ∧ s.pc 1 = .selecting ∧ s.nilChan 1 = true ∧ s.wg = 2 ∧ ¬ settled c s := by
  obtain ⟨k, tc, mr, rc, ib⟩ := c
  simp only at hk htc hmr hib
  subst hk hmr
  have hrun : ∃ s, run ⟨2, tc, true, rc, ib⟩ (init ⟨2, tc, true, rc, ib⟩) (lateSelectSched (decide (rc ≠ 0))) = some s ∧
      s.pc 0 = .continued ∧ s.pc 1 = .selecting ∧ s.nilChan 1 = true ∧ s.wg = 2 ∧ terminal ⟨2, tc, true, rc, ib⟩ s := by
    by_cases hr : rc = 0
    · subst hr; simpa using lateSelect_run0 tc ib htc hib
    · simpa [hr] using lateSelect_run1 tc rc ib htc (by omega) hib
  obtain ⟨s, hs, h1, h2, h3, h4, h5⟩ := hrun
  refine ⟨s, hs, h5, h1, h2, h3, h4, ?_⟩
  rintro ⟨w, _, _, _, hwg⟩
  omega

/-! ## counterexample D21: the reply channel parked at the withdrawn alternative's node -/

/-- node 1 is inside `actionChan <- flowAction{…}` and the flow that owned the channel has terminated -/
def NodeStuck (s : St) : Prop := s.npc 1 = .sending ∧ s.pc 1 = .terminated

theorem nodeStuck_step (c : Cfg) (h0 : c.replyCap = 0) (s : St) (hd : NodeStuck s) (l : Lbl)
    (he : enabled c s l = true) : NodeStuck (fire c s l) := by
  obtain ⟨h1, h2⟩ := hd
  cases l <;> simp only [enabled, Bool.and_eq_true, decide_eq_true_eq] at he <;> simp only [fire, NodeStuck]
  all_goals grind [upd]

theorem settle_run0 (mr : Bool) (ib : Nat) (hib : 1 ≤ ib) :
    ∃ s, run { k := 2, termCap := 0, mapReplaced := mr, replyCap := 0, inboxCap := ib }
      (init { k := 2, termCap := 0, mapReplaced := mr, replyCap := 0, inboxCap := ib }) (settleSched false false)
        = some s ∧ (s.pc 0 = .continued ∧ s.pc 1 = .terminated ∧ s.wg = 1) ∧
      ∃ s', run { k := 2, termCap := 0, mapReplaced := mr, replyCap := 0, inboxCap := ib } s lateEventSched = some s' ∧
        NodeStuck s' := by
  have h0 : 0 < ib := by omega
  simp [settleSched, lateEventSched, setupSched, deliverSched, run, step, enabled, fire, init, upd, delAt, List.range,
    List.range.loop, h0, Option.bind, allClosed, NodeStuck]

theorem settle_run1 (mr : Bool) (tc ib : Nat) (htc : 1 ≤ tc) (hib : 1 ≤ ib) :
    ∃ s, run { k := 2, termCap := tc, mapReplaced := mr, replyCap := 0, inboxCap := ib }
      (init { k := 2, termCap := tc, mapReplaced := mr, replyCap := 0, inboxCap := ib }) (settleSched true false)
        = some s ∧ (s.pc 0 = .continued ∧ s.pc 1 = .terminated ∧ s.wg = 1) ∧
      ∃ s', run { k := 2, termCap := tc, mapReplaced := mr, replyCap := 0, inboxCap := ib } s lateEventSched = some s' ∧
        NodeStuck s' := by
  have h0 : 0 < ib := by omega
  have h1 : tc ≠ 0 := by omega
  have h2 : 0 < tc := by omega
  simp [settleSched, lateEventSched, setupSched, deliverSched, run, step, enabled, fire, init, upd, delAt, List.range,
    List.range.loop, h0, h1, h2, Option.bind, allClosed, NodeStuck]

theorem settled_of (c : Cfg) (hk : c.k = 2) (s : St) (h0 : s.pc 0 = .continued) (h1 : s.pc 1 = .terminated)
    (hw : s.wg = 1) : settled c s := by
  refine ⟨0, by omega, h0, ?_, hw⟩
  intro j hj hne
  have : j = 1 := by omega
  subst this
  rw [h1]; rfl

/-- **D21.** With the unbuffered reply channel of `catchEvent.NextAction` (`catchReplyCap = 0`, the code today): after
the gateway has settled (0 continued, 1 withdrawn through its termination channel) one late delivery of alternative
1's event puts node 1 into a send nobody will ever receive; whatever happens afterwards the node stays there. -/
theorem C06_counterexample_late_event_blocks (c : Cfg) (hk : c.k = 2) (h0 : c.replyCap = 0) (hib : 1 ≤ c.inboxCap) :
    ∃ s, run c (init c) (settleSched (decide (c.termCap ≠ 0)) false) = some s ∧ settled c s ∧
      ∃ s', run c s lateEventSched = some s' ∧ NodeStuck s' ∧
        ∀ sch, NodeStuck (exec c s' sch) ∧ enabled c (exec c s' sch) (.send 1) = false := by
  obtain ⟨k, tc, mr, rc, ib⟩ := c
  simp only at hk h0 hib
  subst hk h0
  have hrun : ∃ s, run ⟨2, tc, mr, 0, ib⟩ (init ⟨2, tc, mr, 0, ib⟩) (settleSched (decide (tc ≠ 0)) false) = some s ∧
      (s.pc 0 = .continued ∧ s.pc 1 = .terminated ∧ s.wg = 1) ∧
      ∃ s', run ⟨2, tc, mr, 0, ib⟩ s lateEventSched = some s' ∧ NodeStuck s' := by
    by_cases ht : tc = 0
    · subst ht; simpa using settle_run0 mr ib hib
    · simpa [ht] using settle_run1 mr tc ib (by omega) hib
  obtain ⟨s, hs, ⟨p0, p1, pw⟩, s', hs', hst⟩ := hrun
  refine ⟨s, hs, settled_of _ rfl s p0 p1 pw, s', hs', hst, ?_⟩
  intro sch
  have hn : NodeStuck (exec ⟨2, tc, mr, 0, ib⟩ s' sch) :=
    exec_induct _ NodeStuck (fun x l hx he => nodeStuck_step _ rfl x hx l he) sch s' hst
  refine ⟨hn, ?_⟩
  simp [enabled, hn.1, hn.2]

/-- … and with the inbox capacity of today (`len(incoming)*2+1 = 3`) four more deliveries later a caller of
`ConsumeEvent` is blocked for good: a quiescent state with a delivery still in flight. -/
theorem late_delivery_blocked0 (mr : Bool) :
    ∃ s, run { k := 2, termCap := 0, mapReplaced := mr, replyCap := 0, inboxCap := 3 }
      (init { k := 2, termCap := 0, mapReplaced := mr, replyCap := 0, inboxCap := 3 }) (lateBlockSched false 3)
        = some s ∧ s.dels = [(1, 1)] ∧ s.pc 0 = .continued ∧ s.pc 1 = .terminated ∧
      terminal { k := 2, termCap := 0, mapReplaced := mr, replyCap := 0, inboxCap := 3 } s := by
  simp [lateBlockSched, lateFillSched, settleSched, lateEventSched, setupSched, deliverSched, run, step, enabled, fire,
    init, upd, delAt, List.range, List.range.loop, Option.bind, allClosed]
  intro l hl
  cases l <;> simp [enabled, Lbl.isInput, upd, allClosed, delAt] at hl ⊢
  all_goals (try omega)
  all_goals (rename_i i; intro hi; have h01 : i = 0 ∨ i = 1 := by omega
             rcases h01 with rfl | rfl <;> simp_all)


theorem late_delivery_blocked1 (mr : Bool) (tc : Nat) (htc : 1 ≤ tc) :
    ∃ s, run { k := 2, termCap := tc, mapReplaced := mr, replyCap := 0, inboxCap := 3 }
      (init { k := 2, termCap := tc, mapReplaced := mr, replyCap := 0, inboxCap := 3 }) (lateBlockSched true 3)
        = some s ∧ s.dels = [(1, 1)] ∧ s.pc 0 = .continued ∧ s.pc 1 = .terminated ∧
      terminal { k := 2, termCap := tc, mapReplaced := mr, replyCap := 0, inboxCap := 3 } s := by
  have h1 : tc ≠ 0 := by omega
  have h2 : 0 < tc := by omega
  simp [lateBlockSched, lateFillSched, settleSched, lateEventSched, setupSched, deliverSched, run, step, enabled, fire,
    init, upd, delAt, List.range, List.range.loop, Option.bind, allClosed, h1, h2]
  intro l hl
  cases l <;> simp [enabled, Lbl.isInput, upd, allClosed, delAt, h1] at hl ⊢
  all_goals (try omega)
  all_goals (rename_i i; intro hi; have h01 : i = 0 ∨ i = 1 := by omega
             rcases h01 with rfl | rfl <;> simp_all)

/-! ## the property -/

/-- exactly one alternative wins -/
def OneWinner (c : Cfg) : Prop :=
  ∀ sch : List Lbl,
    (∀ i j, ((exec c (init c) sch).pc i).won = true → ((exec c (init c) sch).pc j).won = true → i = j) ∧
    (∀ i, (((exec c (init c) sch).pc i).won = true ∨ (exec c (init c) sch).pc i = .completed) →
      ∃ w, w < c.k ∧ ((exec c (init c) sch).pc w).won = true) ∧
    (∀ i, i < c.k →
      ((exec c (init c) sch).pc i = .gotAction → enabled c (exec c (init c) sch) (.enterTransformer i) = true) ∧
      ((exec c (init c) sch).pc i = .inTransformer → enabled c (exec c (init c) sch) (.cas i) = true ∧
        ∃ w, w < c.k ∧ ((fire c (exec c (init c) sch) (.cas i)).pc w).won = true)) ∧
    (∀ i, ((exec c (init c) sch).pc i = .continued ∨ ((exec c (init c) sch).pc i).gone = true) →
      ∀ sch' : List Lbl, (exec c (exec c (init c) sch) sch').pc i = (exec c (init c) sch).pc i)

/-- `ebg_one_winner`: for every number of alternatives, every sequence of deliveries and every schedule at most one
alternative's action passes the compare-and-swap; as soon as any flow is past it there is exactly one winner; a flow
that has observed its competing event is never blocked before the compare-and-swap; a branch that continued stays
continued (it continues exactly once) and a withdrawn alternative never continues. Holds for every value of the
facts. -/
theorem ebg_one_winner (c : Cfg) : OneWinner c :=
  fun sch => ⟨fun i j => at_most_one_winner c sch i j, fun i => winner_exists c sch i,
    fun i hi => observed_reaches_cas c sch i hi, fun i h sch' => final_absorbing c _ i h sch'⟩

/-- the winner is never blocked, and quiescence after an observed event means: one branch continued, everybody else
withdrawn, wait group down to the winner -/
def NoBlock (c : Cfg) : Prop :=
  ∀ sch : List Lbl,
    (∀ i t, (exec c (init c) sch).pc i = .notifying → (exec c (init c) sch).target = some t → t ≠ i →
      enabled c (exec c (init c) sch) (.notify i t) = true) ∧
    (∀ i, (exec c (init c) sch).pc i = .notifying →
      (∃ t, enabled c (exec c (init c) sch) (.pick i t) = true) ∨
      (∃ t, enabled c (exec c (init c) sch) (.notify i t) = true) ∨
      enabled c (exec c (init c) sch) (.closeOwn i) = true ∨ enabled c (exec c (init c) sch) (.finish i) = true) ∧
    (terminal c (exec c (init c) sch) → (∃ i, i < c.k ∧ ((exec c (init c) sch).pc i).observed = true) →
      settled c (exec c (init c) sch))

/-- the winner never blocks: needs only buffered termination channels -/
theorem ebg_winner_never_blocks (c : Cfg) (hcap : 1 ≤ c.termCap) (sch : List Lbl) (i t : Nat)
    (hp : (exec c (init c) sch).pc i = .notifying) (ht : (exec c (init c) sch).target = some t) (hne : t ≠ i) :
    enabled c (exec c (init c) sch) (.notify i t) = true :=
  notify_enabled c _ (inv_reach c sch).a hcap i t hp ht hne

/-- `ebg_no_block`: with buffered termination channels (`1 ≤ ebgTermCap`) and the map variable left alone, the
winner never blocks, and whenever nothing but a new delivery can happen after some event was observed, exactly one
branch has continued, every other flow has terminated or completed and the wait group is 1. Together with
`ebg_bounded` / `bounded_from_init` (at most `9k+1+3k·deliveries` internal steps) this is "within bounded steps". -/
theorem ebg_no_block (c : Cfg) (hcap : 1 ≤ c.termCap) (hmap : c.mapReplaced = false) (hib : 1 ≤ c.inboxCap) :
    NoBlock c :=
  fun sch => ⟨fun i t hp ht hne => ebg_winner_never_blocks c hcap sch i t hp ht hne,
    fun i hp => winner_step_enabled c _ (inv_reach c sch).a hcap i hp,
    fun hterm hobs => terminal_settled c _ (inv_reach c sch) hcap hmap hib hterm hobs⟩

/-- late deliveries have no effect: no token moves, no node is stuck in a send, no caller stays blocked -/
def LateInert (c : Cfg) : Prop :=
  ∀ sch : List Lbl, settled c (exec c (init c) sch) → ∀ sch' : List Lbl,
    (exec c (exec c (init c) sch) sch').pc = (exec c (init c) sch).pc ∧
    (exec c (exec c (init c) sch) sch').first = (exec c (init c) sch).first ∧
    (exec c (exec c (init c) sch) sch').wg = (exec c (init c) sch).wg ∧
    (∀ j, (exec c (exec c (init c) sch) sch').npc j = .sending →
      enabled c (exec c (exec c (init c) sch) sch') (.send j) = true) ∧
    (terminal c (exec c (exec c (init c) sch) sch') → (exec c (exec c (init c) sch) sch').dels = [])

/-- `ebg_late_events_inert`: needs the reply channel parked at a catch node not to block the node
(`1 ≤ catchReplyCap`). FALSE today (D21): see `C06_counterexample_late_event_blocks`. -/
theorem ebg_late_events_inert (c : Cfg) (hrc : 1 ≤ c.replyCap) (hib : 1 ≤ c.inboxCap) : LateInert c := by
  intro sch hs sch'
  have hq := settled_quiet c _ hs
  obtain ⟨a, b, d⟩ := late_events_no_token_change c _ hq sch'
  have hinv : Inv c (exec c (exec c (init c) sch) sch') := inv_exec c _ (inv_reach c sch) sch'
  exact ⟨a, b, d, fun j hj => send_enabled c _ hinv.n hrc j hj,
    fun ht => terminal_no_delivery_blocked c _ hinv hrc hib ht⟩

/-- the part of it that holds whatever the facts are: late deliveries move no token and leave flag and wait group
alone -/
theorem ebg_late_events_inert_partial (c : Cfg) (sch : List Lbl) (hs : settled c (exec c (init c) sch))
    (sch' : List Lbl) :
    (exec c (exec c (init c) sch) sch').pc = (exec c (init c) sch).pc ∧
    (exec c (exec c (init c) sch) sch').first = (exec c (init c) sch).first ∧
    (exec c (exec c (init c) sch) sch').wg = (exec c (init c) sch).wg :=
  late_events_no_token_change c _ (settled_quiet c _ hs) sch'

/-- C06 for a source with facts `f` (the field `k` of `f` is ignored): gateways with any number ≥ 2 of alternatives,
all delivery sequences, sequential or overlapping, all schedules. -/
def C06_statement (f : Cfg) : Prop :=
  ∀ k, 2 ≤ k → OneWinner { f with k := k } ∧ NoBlock { f with k := k } ∧ LateInert { f with k := k }

/-- the side condition on the facts -/
def Ok (f : Cfg) : Bool := decide (1 ≤ f.termCap) && !f.mapReplaced && decide (1 ≤ f.replyCap)

theorem C06_general (f : Cfg) (hib : 1 ≤ f.inboxCap) (h : Ok f = true) : C06_statement f := by
  simp only [Ok, Bool.and_eq_true, decide_eq_true_eq, Bool.not_eq_true'] at h
  obtain ⟨⟨h1, h2⟩, h3⟩ := h
  intro k _
  exact ⟨ebg_one_winner _, ebg_no_block _ h1 h2 hib, ebg_late_events_inert _ h3 hib⟩

theorem noBlock_fails (f : Cfg) (hib : 1 ≤ f.inboxCap) (h : f.termCap = 0 ∨ f.mapReplaced = true) :
    ¬ NoBlock { f with k := 2 } := by
  intro hnb
  by_cases h0 : f.termCap = 0
  · obtain ⟨s, hs, hd, _⟩ := C06_counterexample_deadlock { f with k := 2 } rfl h0 hib
    have e := run_eq_exec _ _ _ _ hs
    have := (hnb (deadlockWitness { f with k := 2 })).1 0 1
    rw [e] at this
    have := this hd.2.1 hd.2.2.1 (by omega)
    simp [enabled, hd.2.2.2, h0] at this
  · have hmr : f.mapReplaced = true := by
      rcases h with h | h
      · exact absurd h h0
      · exact h
    obtain ⟨s, hs, hterm, p0, p1, _, _, hns⟩ :=
      C06_counterexample_late_select { f with k := 2 } rfl (by simp only; omega) hmr hib
    have e := run_eq_exec _ _ _ _ hs
    have := (hnb (lateSelectSched (decide (({ f with k := 2 } : Cfg).replyCap ≠ 0)))).2.2
    rw [e] at this
    exact hns (this hterm ⟨0, by simp, by rw [p0]; rfl⟩)

theorem lateInert_fails (f : Cfg) (hib : 1 ≤ f.inboxCap) (h : f.replyCap = 0) : ¬ LateInert { f with k := 2 } := by
  intro hli
  obtain ⟨s, hs, hset, s', hs', hst, hfor⟩ := C06_counterexample_late_event_blocks { f with k := 2 } rfl h hib
  have e := run_eq_exec _ _ _ _ hs
  have e' := run_eq_exec _ _ _ _ hs'
  have := (hli (settleSched (decide (({ f with k := 2 } : Cfg).termCap ≠ 0)) false) (by rw [e]; exact hset)
    lateEventSched).2.2.2.1 1
  rw [e, e'] at this
  have h2 := (hfor []).2
  rw [exec_nil] at h2
  rw [this hst.1] at h2
  cases h2

theorem C06_cex (f : Cfg) (hib : 1 ≤ f.inboxCap) (h : Ok f = false) : ¬ C06_statement f := by
  intro hst
  obtain ⟨_, hnb, hli⟩ := hst 2 (by omega)
  by_cases h1 : f.termCap = 0 ∨ f.mapReplaced = true
  · exact noBlock_fails f hib h1 hnb
  · have h3 : f.replyCap = 0 := by
      simp only [Ok] at h
      cases hm : f.mapReplaced with
      | true => exact absurd (Or.inr hm) h1
      | false =>
        have : f.termCap ≠ 0 := fun e => h1 (Or.inl e)
        simp [hm] at h
        omega
    exact lateInert_fails f hib h3 hli

/-- C06 is proved for every source whose facts satisfy `Ok` (`1 ≤ ebgTermCap`, the map variable not reassigned,
`1 ≤ catchReplyCap`); for the facts of the code as it is today it is refuted (`C06_today_fails`). -/
theorem C06_holds_partial (f : Cfg) (hib : 1 ≤ f.inboxCap) (h : Ok f = true) : C06_statement f :=
  C06_general f hib h

/-- the facts of the code today: unbuffered termination channels, map variable reassigned, unbuffered reply channel,
inbox `len(incoming)*2+1` with one incoming flow -/
def today : Cfg := { k := 2, termCap := 0, mapReplaced := true, replyCap := 0, inboxCap := 3 }

theorem C06_today_fails : ¬ C06_statement today := C06_cex today (by decide) (by decide)

/-! ## non-vacuity -/

/-- the hypotheses of `C06_general` are satisfiable -/
example : Ok { today with termCap := 1, mapReplaced := false, replyCap := 1 } = true := by decide

set_option maxRecDepth 8000 in
/-- `settled` states are reachable (hypothesis of `ebg_late_events_inert`), also under the repaired facts -/
example : ∃ sch, settled { today with termCap := 1, mapReplaced := false, replyCap := 1 }
    (exec { today with termCap := 1, mapReplaced := false, replyCap := 1 }
      (init { today with termCap := 1, mapReplaced := false, replyCap := 1 }) sch) := by
  refine ⟨settleSched true true, settled_of _ rfl _ ?_ ?_ ?_⟩ <;> decide

set_option maxRecDepth 8000 in
/-- a quiescent state in which an event has been observed is reachable (hypotheses of the last part of `NoBlock`) -/
example : ∃ sch, (∃ i, i < 2 ∧ ((exec today (init today) sch).pc i).observed = true) ∧
    enabledLabels today (exec today (init today) sch) = [] :=
  ⟨settleSched false false, ⟨0, by decide, by decide⟩, by decide⟩

/-- a winner in its loop with a committed target exists (hypotheses of `ebg_winner_never_blocks`) -/
example : ∃ sch, (exec { today with termCap := 1 } (init { today with termCap := 1 }) sch).pc 0 = .notifying ∧
    (exec { today with termCap := 1 } (init { today with termCap := 1 }) sch).target = some 1 :=
  ⟨setupSched 2 ++ deliverSched 2 0 ++ [.node 0, .send 0, .enterTransformer 0, .cas 0, .pick 0 1], by decide, by decide⟩

/-- two alternatives released into the compare-and-swap together: exactly one passes (today's facts and repaired) -/
example : ((run today (init today) (bothInTransformerSched false)).map (fun s => (s.pc 0, s.pc 1)))
    = some (.notifying, .completed) := by decide
example : ((run { today with termCap := 1, mapReplaced := false, replyCap := 1 }
      (init today) (bothInTransformerSched true)).map (fun s => (s.pc 0, s.pc 1)))
    = some (.notifying, .completed) := by decide

/-- the schedules of the counterexamples really are schedules of today's model -/
example : (run today (init today) deadlockSched).isSome = true := by decide
example : (run today (init today) (lateBlockSched false 3)).isSome = true := by decide

end Bpmn.Props.C06
