/-!
# What C10 requires of a host activity with boundary events, as an executable reference (the BPMN reading)

The reference is NOT a model of the code. It answers, for a sequence of driver actions {the token reaches the host,
event `i` is delivered, the host is answered}, how often the normal flow and each exception flow must have continued
and whether the instance may complete:

* an event on boundary event `i` reacts only while the host waits for its answer: the exception flow `i` continues
  once for that event; if `i` is interrupting the host is cancelled: the normal flow never continues, not even if the
  task is answered afterwards, and no boundary event of the host reacts any more;
* an answer while the host waits lets the normal flow continue once and completes the host; afterwards (and before
  the token arrived) boundary events do not react;
* boundary events hold no token: once the host has completed or was interrupted, only the tokens on the normal and
  exception paths keep the instance alive.

Actions that were issued without waiting for each other may take effect in any order, so a batch of racing actions
has a SET of admissible outcomes (`afterBatch`).
-/
namespace Bpmn.Spec.Boundary

inductive Host where
  | notReached | waiting | completed | interrupted
deriving DecidableEq, Repr

inductive Act where
  | activate | deliver (i : Nat) | answer
deriving DecidableEq, Repr

structure Ideal where
  /-- per boundary event: interrupting? -/
  kinds : List Bool
  host : Host := .notReached
  normal : Nat := 0
  exc : List Nat
  /-- per boundary event, why an event delivered to it had to be ignored (the strongest reason so far):
      0 none, 1 the host was not yet reached, 2 the host had completed, 3 the host had been interrupted -/
  ign : List Nat
deriving DecidableEq, Repr

def Ideal.init (kinds : List Bool) : Ideal := { kinds, exc := kinds.map (fun _ => 0), ign := kinds.map (fun _ => 0) }

def raise (xs : List Nat) (i v : Nat) : List Nat :=
  match xs[i]? with
  | some n => xs.set i (max n v)
  | none => xs

def bump (xs : List Nat) (i : Nat) : List Nat :=
  match xs[i]? with
  | some n => xs.set i (n + 1)
  | none => xs

def Ideal.step (s : Ideal) : Act → Ideal
  | .activate =>
    match s.host with
    | .notReached => { s with host := .waiting }
    | _ => s
  | .deliver i =>
    match s.host with
    | .waiting =>
      match s.kinds[i]? with
      | some true => { s with exc := bump s.exc i, host := .interrupted }
      | some false => { s with exc := bump s.exc i }
      | none => s
    | .notReached => { s with ign := raise s.ign i 1 }
    | .completed => { s with ign := raise s.ign i 2 }
    | .interrupted => { s with ign := raise s.ign i 3 }
  | .answer =>
    match s.host with
    | .waiting => { s with normal := s.normal + 1, host := .completed }
    | _ => s

def Ideal.run (s : Ideal) (as : List Act) : Ideal := as.foldl Ideal.step s

/-- no token of the host or of its boundary events is left (the tokens on the paths behind them are the harness's
business: it answers every task that was requested there) -/
def Ideal.mayComplete (s : Ideal) : Bool :=
  match s.host with
  | .completed | .interrupted => true
  | _ => false

/-- all orders of a (short) list -/
def perms : List Act → List (List Act)
  | [] => [[]]
  | a :: rest => (perms rest).flatMap (fun p => (List.range (p.length + 1)).map (fun k => p.take k ++ a :: p.drop k))

def dedup (xs : List Ideal) : List Ideal :=
  xs.foldl (fun acc x => if acc.contains x then acc else acc ++ [x]) []

/-- admissible states after a batch of racing actions -/
def afterBatch (ss : List Ideal) (batch : List Act) : List Ideal :=
  dedup (ss.flatMap (fun s => (perms batch).map s.run))

end Bpmn.Spec.Boundary
