/-!
# The causality grammar of a trace stream (C09), as an executable predicate on histories

`Trace` keeps what the grammar speaks about: which flow a trace belongs to where the Go trace carries a flow id
(`NewFlowTrace`, `FlowTrace` — first listed flow = the sending flow itself, the others = the new flows it announces —,
`TerminationTrace`, `CancellationFlowTrace`: like the termination trace it is sent immediately before the flow
goroutine returns, so it too ends the flow), the node of `VisitTrace` / `LeaveTrace` (these carry no flow id), `CeaseFlowTrace`, and `other`
for everything the grammar does not constrain (task, error, completion, gateway bookkeeping traces, which are sent
by node goroutines, not by the flow).

Rules, checked left to right by `scan`:
* `newflowBeforeAnnouncement g` — a `FlowTrace` lists `g` as a NEW flow (not in first position) although a trace of
  `g` (`NewFlowTrace g`, `TerminationTrace g`, or a `FlowTrace` sent by `g`) was already seen: the announcement
  did not precede the first trace of the flow it announces.
* `flowBeforeNewflow f` — a `FlowTrace` sent by `f`, or `TerminationTrace f`, before `NewFlowTrace f`: the sender's
  program order is broken (or its first trace was lost).
* `leaveBeforeVisit n` — more `LeaveTrace n` than `VisitTrace n` in some prefix: some occurrence of the node was
  left before it was visited.
* `traceAfterTermination f` — after `TerminationTrace f` (or `CancellationFlowTrace f`) another trace that carries
  `f` as its sender (`NewFlowTrace f`, `FlowTrace` sent by `f`, a second `TerminationTrace f`, a
  `CancellationFlowTrace f`).
* `ceaseNotLast` — a flow trace (`newflow`, `visit`, `leave`, `flow`, `term`, `cancel`) after `CeaseFlowTrace`.
-/
namespace Bpmn.Spec

inductive Trace
  | newflow (f : Nat)
  | visit (n : Nat)
  | leave (n : Nat)
  | flow (src : Nat) (fs : List Nat)
  | term (f : Nat)
  | cancel (f : Nat)
  | cease
  | other
deriving DecidableEq, Repr

inductive Viol
  | newflowBeforeAnnouncement (f : Nat)
  | flowBeforeNewflow (f : Nat)
  | leaveBeforeVisit (n : Nat)
  | traceAfterTermination (f : Nat)
  | ceaseNotLast
deriving DecidableEq, Repr

structure Scan where
  started : List Nat := []    -- flows whose `NewFlowTrace` was seen
  termd : List Nat := []      -- flows whose `TerminationTrace` was seen
  inside : List Nat := []     -- one entry per visit not yet matched by a leave
  ceased : Bool := false
deriving Repr, DecidableEq

/-- a trace sent by a flow goroutine -/
def Trace.isFlowTrace : Trace → Bool
  | .newflow _ | .visit _ | .leave _ | .flow _ _ | .term _ | .cancel _ => true
  | _ => false

def scanStep (s : Scan) (t : Trace) : Except Viol Scan :=
  if s.ceased && t.isFlowTrace then .error .ceaseNotLast else
  match t with
  | .newflow f =>
    if f ∈ s.termd then .error (.traceAfterTermination f)
    else .ok { s with started := f :: s.started }
  | .visit n => .ok { s with inside := n :: s.inside }
  | .leave n =>
    if n ∈ s.inside then .ok { s with inside := s.inside.erase n } else .error (.leaveBeforeVisit n)
  | .flow _ fs =>
    match fs with
    | [] => .ok s
    | f :: gs =>
      if f ∈ s.termd then .error (.traceAfterTermination f)
      else if f ∉ s.started then .error (.flowBeforeNewflow f)
      else match gs.find? (fun g => g ∈ s.started) with
        | some g => .error (.newflowBeforeAnnouncement g)
        | none => .ok s
  | .term f =>
    if f ∈ s.termd then .error (.traceAfterTermination f)
    else if f ∉ s.started then .error (.flowBeforeNewflow f)
    else .ok { s with termd := f :: s.termd }
  | .cancel f =>
    if f ∈ s.termd then .error (.traceAfterTermination f)
    else if f ∉ s.started then .error (.flowBeforeNewflow f)
    else .ok { s with termd := f :: s.termd }
  | .cease => .ok { s with ceased := true }
  | .other => .ok s

def scan (s : Scan) : List Trace → Except Viol Scan
  | [] => .ok s
  | t :: ts =>
    match scanStep s t with
    | .ok s' => scan s' ts
    | .error v => .error v

/-- first violation of the grammar in a history, if any -/
def firstViolation (ts : List Trace) : Option Viol :=
  match scan {} ts with
  | .ok _ => none
  | .error v => some v

/-- the causality grammar holds on the history -/
def causal (ts : List Trace) : Bool := (firstViolation ts).isNone

end Bpmn.Spec
