import Bpmn.Model.Engine
/-!
# The token game with a join policy

The property (DESIGN §8 C01/C05, §12.1) allows an inclusive join to release anywhere between

* `early` — no live token outside the gateway can still reach it, or the activating token descends from no inclusive fork
  activation at all (`Cfg.ideal`), and
* `late && early` — additionally every live token of the fork activation has arrived (`Cfg.idealLate`); this late
  bound exists only for gateways with two or more incoming flows (`Engine.lateAt`): a gateway with a single incoming
  flow is a pure fork, has no join clause and must forward at once, so for it the interval collapses to `early`.

`Cfg.ideal` and `Cfg.idealLate` are the two extreme deterministic token games. The specification itself is the
family of token games in which EVERY SINGLE join decision lies in that interval. It is written here as the engine
semantics (`Bpmn.Model.Engine`) with all deviation switches off and the join decision (`igReady`) replaced by a
parameter: a `Join` policy, `Admissible` when it respects the interval.

The functions `settleInclW … answerW` are the engine's `settleIncl … answer` with `igReady cfg` abstracted to an
arbitrary decision procedure `r : Ready`; `*_tie` theorems prove that instantiating `r := igReady cfg` gives back
the engine's functions for EVERY `cfg`, so nothing is duplicated unchecked.
-/
namespace Bpmn.Spec.TokenGame
open Bpmn.Model Bpmn.Model.Engine

/-- a join decision procedure (`trySync`): may gateway `n` (state `g`) synchronise now? It may log a cause. -/
abbrev Ready := Proc → St → Node → IgSt → List Tok → Bool × St

/-- `settleIncl` with the decision procedure abstracted -/
def settleInclW (r : Ready) (p : Proc) (s : St) (work : List Tok) : Option (List Tok) × St :=
  let igs := p.nodes.filter (·.kind == .incl)
  igs.foldl (fun (acc : Option (List Tok) × St) n =>
    match acc with
    | (some x, s) => (some x, s)
    | (none, s) =>
      let g := igGet s n.id
      let (ready, s') := r p s n g work
      if ready then (let (toks, s'') := igRelease p s' n g; (some toks, s'')) else (none, s')) (none, s)

/-- the second half of `settle`: a sub-process whose inner scope is empty returns -/
def settleSubs (cfg : Cfg) (p : Proc) (s : St) : List Tok × St :=
  let done := s.subs.find? (fun t => !liveInScope p s t.node [])
  match done with
  | none => ([], s)
  | some t =>
    if cfg.subNeverReturns then
      let s := (s.cause "sub_parent_never_resumes")
      let s := { s with subs := s.subs.filter (· != t), parked := s.parked ++ [t] }
      let encl := ((p.node? t.node).map (·.parent)).getD "-"
      match s.subs.find? (·.node == encl), p.node? encl with
      | some u, some un =>
        let s := { (s.cause "sub_cease_taken_by_enclosing") with subs := s.subs.filter (· != u) }
        let (toks, stay, s) := selectFlows cfg p s u un.outs false
        if stay then ([u] ++ toks, s) else (toks, s)
      | _, _ => ([], s)
    else
      let s := { s with subs := s.subs.filter (· != t),
                        subFired := if s.subFired.contains t.node then s.subFired else t.node :: s.subFired }
      match p.node? t.node with
      | none => ([], s)
      | some n =>
        let (toks, stay, s) := selectFlows cfg p s t n.outs false
        nextTurn s t.node (if stay then [t] ++ toks else toks)

/-- `settle` with the decision procedure abstracted -/
def settleW (r : Ready) (cfg : Cfg) (p : Proc) (s : St) : List Tok × St :=
  let (x, s) := settleInclW r p s []
  match x with
  | some x => (x, s)
  | none => settleSubs cfg p s

/-- `runWork` with the decision procedure abstracted -/
def runWorkW (r : Ready) (cfg : Cfg) (p : Proc) : Nat → List Tok → St → St
  | 0, _, s => s.oos "fuel"
  | fuel + 1, [], s =>
    let (toks, s') := settleW r cfg p s
    if toks.isEmpty && s'.causes.length == s.causes.length && s'.obs.length == s.obs.length
        && s'.ig == s.ig && s'.subs.length == s.subs.length then s'
    else runWorkW r cfg p fuel toks s'
  | fuel + 1, t :: rest, s =>
    let (toks, s) := arrive cfg p s t
    if cfg.eagerSettle then
      match settleInclW r p s (rest ++ toks) with
      | (some rel, s) => runWorkW r cfg p fuel (rel ++ rest ++ toks) s
      | (none, s) => runWorkW r cfg p fuel (rest ++ toks) s
    else runWorkW r cfg p fuel (rest ++ toks) s

/-- `start` with the decision procedure abstracted -/
def startW (r : Ready) (cfg : Cfg) (p : Proc) (vars : Vars) : St :=
  let starts := p.nodes.filter (fun n => n.kind == .start && n.parent == "-")
  let s : St := { vars }
  let (toks, s) := spawnStarts s starts
  runWorkW r cfg p (fuelFor p) toks s

/-- what `answer` does before it runs the work list: the tokens to run and the state to run them in
(`none`: there is no such request) -/
def answerPrep (cfg : Cfg) (p : Proc) (s : St) (node : String) (occ : Nat) (a : Answer) : Option (List Tok × St) :=
  let s := { s with obs := [] }
  match s.pending.find? (fun q => q.1.node == node && q.2 == occ), p.node? node with
  | some (t, k), some n =>
    let s := { s with pending := s.pending.filter (· != (t, k)) }
    let continueFlow (s : St) : List Tok × St :=
      let (toks, stay, s) := selectFlows cfg p s t n.outs false
      (if stay then t :: toks else toks, s)
    match a with
    | .ok results => some (continueFlow { s with vars := applyDeclared n s.vars results })
    | .err mode retries =>
      let s := s.emit (.err "taskexecerror")
      match mode with
      | 1 =>
        let attempts := ((s.retry.find? (·.1 == t.fid)).map (·.2)).getD 0
        if retries == -1 || retries > attempts then
          let s := { s with retry := (s.retry.filter (·.1 != t.fid)) ++ [(t.fid, attempts + 1)] }
          some ([t], s)
        else some ([], s.recordTerm t.fid)
      | 3 => some ([], s.recordTerm t.fid)
      | _ => some (continueFlow s)
  | _, _ => none

/-- `answer` with the decision procedure abstracted -/
def answerW (r : Ready) (cfg : Cfg) (p : Proc) (s : St) (node : String) (occ : Nat) (a : Answer) : St :=
  match answerPrep cfg p s node occ a with
  | some (toks, s') => runWorkW r cfg p (fuelFor p) toks s'
  | none => ({ s with obs := [] } : St).oos s!"answer to unknown request {node} {occ}"

/-! ## join policies -/

/-- a join policy: the bare decision, no logging -/
abbrev Join := Proc → St → Node → IgSt → List Tok → Bool

/-- the decision procedure of a policy: it never touches the state -/
def Join.ready (J : Join) : Ready := fun p s n g work => (J p s n g work, s)

/-- earliest allowed release point of gateway `n`: no live token can still reach it (reachability); a token that descends
from no inclusive fork activation joins nothing (it has no "activated branches") -/
def earlyAt (p : Proc) (s : St) (n : Node) (g : IgSt) (work : List Tok) : Bool :=
  (match g.activated with
   | some a => (s.tagsOf a).isEmpty
   | none => false) || !upstreamLive p s n.id work g.arrived

/-- **The interval.** A policy is admissible when it never lets an idle gateway synchronise, never releases before
the earliest allowed point, and always releases at the latest allowed one. -/
def Join.Admissible (J : Join) : Prop :=
  ∀ (p : Proc) (s : St) (n : Node) (g : IgSt) (work : List Tok),
    match g.activated with
    | none => J p s n g work = false
    | some a =>
      (J p s n g work = true → earlyAt p s n g work = true) ∧
      (lateAt s n a g.arrived work = true → earlyAt p s n g work = true → J p s n g work = true)

/-- release as early as allowed: the policy of `Cfg.ideal` -/
def Join.early : Join := fun p s n g work =>
  match g.activated with
  | none => false
  | some _ => earlyAt p s n g work

/-- release as late as allowed: the policy of `Cfg.idealLate` -/
def Join.late : Join := fun p s n g work =>
  match g.activated with
  | none => false
  | some a => lateAt s n a g.arrived work && earlyAt p s n g work

/-- the tracker's cohort (what the code awaits), clamped into the interval -/
def Join.cohortClamped : Join := fun p s n g work =>
  match g.activated with
  | none => false
  | some a =>
    ((Engine.cohort s a).all (g.arrived.contains ·) || lateAt s n a g.arrived work) && earlyAt p s n g work

/-- the join policy a code configuration follows as long as it logs no cause -/
def joinOf (cfg : Cfg) : Join := if cfg.inclCohort then Join.cohortClamped else Join.early

/-- the token game under policy `J`: all deviation switches off -/
def start (J : Join) (p : Proc) (vars : Vars) : St := startW J.ready Cfg.ideal p vars
def answer (J : Join) (p : Proc) (s : St) (node : String) (occ : Nat) (a : Answer) : St :=
  answerW J.ready Cfg.ideal p s node occ a

/-- a whole run under policy `J`: start, then the driver's answers `(node, occurrence, answer)` in order -/
def runOps (J : Join) (p : Proc) (vars : Vars) (ops : List (String × Nat × Answer)) : St :=
  ops.foldl (fun s (n, o, a) => answer J p s n o a) (start J p vars)

end Bpmn.Spec.TokenGame
