import Bpmn.Driver.Util
/-! Driver for family `c16decl`: declared data objects. The predicate on the implementation's own data: what a task is
handed (`seen`) and what the instance's locator holds at the end (`fobj`) for a declared data object is exactly what
that object must hold (`decl`: its own body, `{}` without one, or the value given with `WithDataObjects`) — per
instance, whatever the neighbouring data objects declare. -/
namespace Bpmn.Driver.C16Decl
open Bpmn.Driver

def check (_params : List String) (lines : List String) : CaseResult := Id.run do
  let mut r : CaseResult := {}
  let mut decls : List ((String × String) × String) := []
  let mut seenK : List (String × String) := []
  let mut fobjK : List (String × String) := []
  for ln in lines do
    match words ln with
    | ["decl", i, n, j] => decls := decls ++ [((i, n), j)]
    | [tag, i, n, j] =>
      if tag == "seen" || tag == "fobj" then
        if tag == "seen" then seenK := (i, n) :: seenK else fobjK := (i, n) :: fobjK
        match decls.lookup (i, n) with
        | some want =>
          if want != j then
            r := { r with specs := s!"declared_data_object_wrong_value: instance {i} data object {n} ({tag}): holds {j}, must hold {want}" :: r.specs }
        | none =>
          -- the sub-process's own data object may be listed too; anything else is a stray object
          if n != "ds" then
            r := { r with specs := s!"stray_data_object: instance {i} {tag} {n} = {j}" :: r.specs }
      else r := { r with bad := ln :: r.bad }
    | "panic" :: rest => r := { r with specs := s!"declared_data_object_panic: {" ".intercalate rest}" :: r.specs }
    | ["timeout", i] => r := { r with specs := s!"declared_data_object_instance_hangs: instance {i}" :: r.specs }
    | "harness-error" :: _ => r := { r with bad := ln :: r.bad }
    | _ => r := { r with bad := ln :: r.bad }
  for ((i, n), _) in decls do
    if !seenK.contains (i, n) then
      r := { r with specs := s!"declared_data_object_not_handed_to_task: instance {i} data object {n}" :: r.specs }
    if !fobjK.contains (i, n) then
      r := { r with specs := s!"declared_data_object_missing_at_end: instance {i} data object {n}" :: r.specs }
  return { r with nontrivial := decls.length ≥ 4 }

end Bpmn.Driver.C16Decl
