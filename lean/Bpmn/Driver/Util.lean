/-! Line-protocol helpers for the driver (core Lean only). -/
namespace Bpmn.Driver

def words (s : String) : List String :=
  (s.splitOn " ").filter (· ≠ "")

def parseInt? (s : String) : Option Int :=
  if s.startsWith "-" then (s.drop 1).toNat?.map (fun n => -(n : Int))
  else s.toNat?.map (fun n => (n : Int))

def parseBool? (s : String) : Option Bool :=
  if s == "1" then some true else if s == "0" then some false else none

/-- split "a,b,c" (empty string or "-" gives []) -/
def commaList (s : String) : List String :=
  if s == "" || s == "-" then [] else s.splitOn ","

def natList? (s : String) : Option (List Nat) :=
  (commaList s).mapM String.toNat?

def intList? (s : String) : Option (List Int) :=
  (commaList s).mapM parseInt?

/-- result of checking one case -/
structure CaseResult where
  diffs : List String := []     -- model/implementation disagreements
  specs : List String := []     -- property predicate false on the implementation history
  bad   : List String := []     -- malformed input (harness bug)
  nontrivial : Bool := false    -- did the case exercise the behaviour in question
  infos : List String := []     -- remarks that are not verdicts (e.g. case outside the model's domain)
  skipped : Bool := false       -- the case could not be judged (outside the model's domain)
deriving Repr

def CaseResult.ok (r : CaseResult) : Bool := r.diffs.isEmpty && r.specs.isEmpty && r.bad.isEmpty

end Bpmn.Driver
