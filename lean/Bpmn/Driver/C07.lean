import Bpmn.Driver.Util
import Bpmn.Model.CancelCurrent
/-!
Driver for C07: evaluates the cancellation property on what the IMPLEMENTATION did at one cancellation point
and compares every leftover goroutine with what the protocol model predicts from the extracted tables.

Lines of a case (family `c07`, params: program, cancellation point i, repetition):
  prog …                                   the parsed program
  obs <trace> / op answer|deliver|advance  the history; `op cancel <n>` marks the cancel in the recorder's stream
  obs cancel at <i> seen=<n> short=<0|1> startblocked=<0|1> token=<kind:node>
  obs after tracerdone=<0|1> subclosed=<0|1> wait=<true|late|timeout|blocked> waitcancelled=<returned|blocked>
            leaked=<n> [<entry>@<where>,…] spinning=<0|1> [<entry>@<where>,…] apiblocked=[…] laterequests=<n>

Signatures (first word of a `spec`):
  tracer_never_done:<entry>@<where>   a REGISTERED sender is parked at <where>: the tracer never ends, keeps polling,
                                      subscriber channels stay open (consequences are folded into this one line)
  leak:<entry>@<where>                a goroutine the instance started is still there (not a registered sender, or
                                      parked in tracer.Send after the tracer ended)
  spin_after_cancel:<entry>           a goroutine keeps running (not explained by a tracer that cannot end)
  panic_after_cancel:<engine function>  the process running the case died (panic in an engine goroutine)
  tracer_never_done:unknown, subscriber_channel_not_closed, wait_blocks_after_cancel, start_blocks_after_cancel,
  request_after_cancel_with_live_ctx, late_request_after_cancel
-/
namespace Bpmn.Driver.C07
open Bpmn.Driver Bpmn.Model.Cancel Bpmn.Model.CancelCurrent

def kv (ws : List String) (key : String) : Option String :=
  (ws.find? (·.startsWith (key ++ "="))).map (fun w => (w.drop (key.length + 1)).toString)

/-- "[a,b]" → ["a","b"]; "[-]" → [] -/
def bracketList (w : String) : List String :=
  let inner := ((w.drop 1).toString.dropEnd 1).toString
  commaList inner

/-- the two bracketed lists of the `obs after` line that follow `leaked=` and `spinning=` -/
def listAfter (ws : List String) (key : String) : List String :=
  match ws.dropWhile (fun w => !w.startsWith (key ++ "=")) with
  | _ :: l :: _ => if l.startsWith "[" then bracketList l else []
  | _ => []

def splitAt1 (s : String) (sep : String) : String × String :=
  match s.splitOn sep with
  | [] => (s, "")
  | [a] => (a, "")
  | a :: rest => (a, sep.intercalate rest)

/-- runtime name of a goroutine function → the name the extractor gives its body -/
def bodyOf (entry : String) : String :=
  let special : List (String × String) := [
    ("Process.ceaseFlowMonitor.func1", "Process.ceaseFlowMonitor$ret"),
    ("Process.ceaseFlowMonitor.func1.1", "Process.ceaseFlowMonitor$1"),
    ("subProcess.ceaseFlowMonitor.func1", "subProcess.ceaseFlowMonitor$ret"),
    ("subProcess.ceaseFlowMonitor.func1.1", "subProcess.ceaseFlowMonitor$1"),
    ("tracing.tracer.run.func1.1", "tracing.tracer.run$1"),
    ("timer.eventDefinitionInstanceBuilder.NewEventDefinitionInstance.func1",
      "timer.eventDefinitionInstanceBuilder.NewEventDefinitionInstance$1"),
    ("id.Sno.RestoreIdGenerator.func1", "id.Sno.RestoreIdGenerator$1")]
  match special.lookup entry with
  | some b => b
  | none =>
    if entry.endsWith ".func1" then (entry.dropEnd 6).toString ++ "$1"
    else if entry.endsWith ".func2" then (entry.dropEnd 6).toString ++ "$2"
    else entry

/-- goroutines that only wait for others: a leftover one is a consequence when something else is stuck -/
def machinery : List String := [
  "tracing.tracer.run", "tracing.tracer.run.func1.1", "tracing.NewRelay.func1",
  "Process.ceaseFlowMonitor.func1.1", "subProcess.ceaseFlowMonitor.func1.1"]

def registeredBody (b : String) : Bool :=
  goRows.any (fun g => g.body == b && g.registered)

/-- counted by SOME tracer's WaitGroup (possibly not the one it sends on) -/
def holdsHandle (b : String) : Bool :=
  goRows.any (fun g => g.body == b && g.registers)

def failingSenderBody (b : String) : Bool :=
  goRows.any (fun g => g.body == b && g.sends && !g.registered)

/-- `X.funcN` (a closure defined in X) → the name the extractor gives to operations inside closures of X -/
def litOf (w : String) : String :=
  match w.splitOn ".func" with
  | a :: _ :: _ => a ++ "$lit"
  | _ => w

/-- `where` of a parked goroutine is `<function>#<state>` -/
def fnOfWhere (w : String) : String := (splitAt1 w "#").1
def stateOfWhere (w : String) : String := (splitAt1 w "#").2

/-- what the tables say about a leftover goroutine `entry@where` -/
def predicted (entry wher : String) : Option String :=
  let b := bodyOf entry
  let wf := fnOfWhere wher
  let failing (r : OpRow) : Bool := isActorOp r && !(opOf r).passable
  let describe (r : OpRow) : String :=
    s!"row ({r.body}, {r.fn}, {r.kind}, {r.chan}): no cancellation alternative, no guaranteed partner"
  if wf == "tracing.tracer.Send" || wf == "tracing.tracer.SubscribeChannel" then
    if failingSenderBody b && holdsHandle b then
      some s!"row {b}: its sender handle comes from another tracer than the one it sends on ({otherTracer})"
    else if failingSenderBody b then some s!"row {b}: sends traces, not a registered sender"
    else if registeredBody b && failingSenderBodies.contains "subProcess.run$1" then
      some s!"row {b} is registered by subProcess.run$1, which is itself not a registered sender (row subProcess.run#1): registration after the inner tracer ended"
    else none
  else if b == "tracing.tracer.run" && stateOfWhere wher == "chan_send" then
    match opRows.find? (fun r => r.key == ("tracing.tracer.run", "send", "subscriber") && failing r) with
    | some r => some (describe r ++ s!" (subscribers that never unsubscribe: {deadSubscribers})")
    | none => none
  else
    let fns := if wher == "running" then [b] else [bodyOf wf, litOf wf]
    match opRows.find? (fun r => r.body == b && (fns.contains r.fn || (wher == "running" && r.kind == "select")) && failing r) with
    | some r => some (describe r)
    | none =>
      match opRows.find? (fun r => fns.contains r.fn && failing r) with
      | some r => some (describe r)
      | none =>
        if b == "tracing.tracer.run" && subTracerKind.ok == false then
          some "row newSubProcess→tracing.tracer.run: the sub-process tracer's context is not the instance's"
        else none

def check (params : List String) (lines : List String) : CaseResult := Id.run do
  let some (prog, pt) := (match params with
      | [p, i, _] => do pure (p, (← i.toNat?))
      | _ => none) | return { bad := ["c07 params"] }
  let mut r : CaseResult := {}
  let mut afterCancel := false
  let mut sawCancelLine := false
  let mut sawAfter := false
  let mut token := "-"
  let mut short := false
  let mut cancelWs : List String := []
  for ln in lines do
    let ws := words ln
    match ws with
    | "prog" :: _ => pure ()
    | "op" :: "cancel" :: _ => afterCancel := true
    | "op" :: _ => pure ()
    | "opnw" :: _ => pure ()
    | "harness-error" :: _ => r := { r with bad := ln :: r.bad }
    | "obs" :: "task" :: node :: _ =>
      if afterCancel && kv ws "ctxdone" == some "0" then
        r := { r with specs := s!"request_after_cancel_with_live_ctx: task {node} requested after the cancel with a live context ({prog} point {pt})" :: r.specs }
    | "obs" :: "died" :: "at" :: _ :: msg :: rest =>
      sawCancelLine := true
      sawAfter := true
      let frame := (kv rest "in").getD "-"
      r := { r with specs := s!"panic_after_cancel:{frame} the process running the case died: {msg} ({prog} point {pt})" :: r.specs }
    | "obs" :: "cancel" :: "at" :: _ =>
      sawCancelLine := true
      cancelWs := ws
      token := (kv ws "token").getD "-"
      short := kv ws "short" == some "1"
    | "obs" :: "after" :: _ =>
      sawAfter := true
      let tracerDone := kv ws "tracerdone" == some "1"
      let subClosed := kv ws "subclosed" == some "1"
      let wait := (kv ws "wait").getD "?"
      let waitC := (kv ws "waitcancelled").getD "?"
      let leaked := listAfter ws "leaked"
      let spinning := kv ws "spinning" == some "1"
      let spinners := listAfter ws "spinning"
      let late := ((kv ws "laterequests").bind String.toNat?).getD 0
      let ctx := s!"({prog} point {pt}, token at {token})"
      let startBlocked := kv cancelWs "startblocked" == some "1"
      let slow := kv cancelWs "slow" == some "1"
      if slow then
        r := { r with infos := s!"drained only after the 2 s deadline (nothing was parked; loaded machine) {ctx}" :: r.infos }
      -- leftovers: causes and consequences
      let pairs := (leaked.map (fun l => splitAt1 l "@")).eraseDups
      let atSend (p : String × String) : Bool :=
        fnOfWhere p.2 == "tracing.tracer.Send" || fnOfWhere p.2 == "tracing.tracer.SubscribeChannel"
      -- a broadcaster parked in `subscriber <- trace` is a cause, not a consequence
      let stuckBroadcaster := pairs.filter (fun p => p.1 == "tracing.tracer.run" && stateOfWhere p.2 == "chan_send")
      let isMach (p : String × String) : Bool := machinery.contains p.1 && !stuckBroadcaster.contains p
      -- with the broadcaster stuck nobody receives from `t.traces` / `t.unSubscription`
      let behindBroadcaster (p : String × String) : Bool :=
        !stuckBroadcaster.isEmpty && !stuckBroadcaster.contains p &&
          (atSend p || fnOfWhere p.2 == "tracing.tracer.Unsubscribe")
      let prim := pairs.filter (fun p => !isMach p && !behindBroadcaster p)
      let conseqs := pairs.filter (fun p => isMach p || behindBroadcaster p)
      let conseq := if conseqs.isEmpty then "" else
        " consequences: " ++ ", ".intercalate (conseqs.map (fun p => p.1 ++ "@" ++ p.2))
      -- causes that keep a tracer from ending
      let holdsTracer (p : String × String) : Bool :=
        p.2 != "running" && (stuckBroadcaster.contains p || holdsHandle (bodyOf p.1))
      let describe (p : String × String) : String := match predicted p.1 p.2 with
        | some t => "model: predicted, " ++ t
        | none => "model: NOT predicted by the extracted tables"
      if startBlocked then
        -- the instance never got started: everything left is a consequence of that
        r := { r with specs := s!"start_blocks_after_cancel: StartAll on the cancelled context did not return within 2 s {ctx}; left: {leaked}; driver calls blocked in: {(kv ws "apiblocked").getD "-"}" :: r.specs }
      else
        for p in prim do
          if p.2 == "running" then
            r := { r with specs := s!"spin_after_cancel:{p.1} keeps running after the cancel {ctx}; {describe p}" :: r.specs }
          else if holdsTracer p && !atSend p then
            r := { r with specs := s!"tracer_never_done:{p.1}@{p.2} parked for good while counted by a tracer; tracerdone={tracerDone} subclosed={subClosed} spinning={spinning} wait={wait} {ctx}; {describe p};{conseq}" :: r.specs }
          else
            r := { r with specs := s!"leak:{p.1}@{p.2} goroutine left behind; tracerdone={tracerDone} wait={wait} {ctx}; {describe p};{conseq}" :: r.specs }
        if prim.isEmpty then
          for p in conseqs do
            if p.2 == "running" then
              r := { r with specs := s!"spin_after_cancel:{p.1} keeps running after the cancel, nothing else is left {ctx}; {describe p}" :: r.specs }
            else
              r := { r with specs := s!"leak:{p.1}@{p.2} goroutine left behind, nothing else is left {ctx}; {describe p}" :: r.specs }
        let explained := prim.any holdsTracer
        if !tracerDone && !explained && !(prim.isEmpty && !conseqs.isEmpty) then
          r := { r with specs := s!"tracer_never_done:unknown Tracer().Done() not closed within the deadline, nothing that is counted by a tracer is parked {ctx}; left: {leaked}" :: r.specs }
        if tracerDone && !subClosed then
          r := { r with specs := s!"subscriber_channel_not_closed: tracer done but the subscriber channel is open {ctx}" :: r.specs }
        -- spinning that is neither a cause reported above nor the polling of a tracer that cannot end
        if spinning then
          let sp := (spinners.map (fun l => (splitAt1 l "@").1)).eraseDups
          let unexplained := sp.filter (fun e =>
            !(prim.any (fun p => p.1 == e)) && !(prim.isEmpty && conseqs.any (fun p => p.1 == e)) &&
            !((e == "tracing.tracer.run" || e == "tracing.NewRelay.func1") && explained))
          for e in unexplained do
            r := { r with specs := s!"spin_after_cancel:{e} keeps running after the cancel {ctx}" :: r.specs }
          if sp.isEmpty && pairs.isEmpty then
            r := { r with specs := s!"spin_after_cancel:unknown the process consumed CPU while idle {ctx}" :: r.specs }
        -- WaitUntilComplete: a stuck completion monitor holds the completion lock (reported above)
        let monitorStuck := pairs.any (fun p => p.1 == "Process.ceaseFlowMonitor.func1")
        if wait != "true" && !monitorStuck then
          r := { r with specs := s!"wait_blocks_after_cancel: WaitUntilComplete with a fresh 300 ms context: {wait} {ctx}" :: r.specs }
        if waitC != "returned" then
          r := { r with specs := s!"wait_blocks_after_cancel: WaitUntilComplete with the cancelled context: {waitC} {ctx}" :: r.specs }
        if late > 0 then
          r := { r with specs := s!"late_request_after_cancel: {late} task request(s) later than the grace period after the cancel {ctx}" :: r.specs }
      let api := (kv ws "apiblocked").map bracketList |>.getD []
      if !api.isEmpty then
        r := { r with infos := s!"API calls of the driver still blocked: {api}" :: r.infos }
    | "obs" :: _ => pure ()
    | _ => r := { r with bad := ln :: r.bad }
  if r.bad.isEmpty && !(sawCancelLine && sawAfter) then
    r := { r with bad := "no `obs cancel at` / `obs after` line" :: r.bad }
  return { r with nontrivial := !short }

/-- family c13 seen through C07: the harness ends every case by cancelling the context and waiting for the timer's
goroutines to go (`leak k` if k of them are still there; `stuck …` if they never came to rest). -/
def checkTimerGoroutines (_params : List String) (lines : List String) : CaseResult := Id.run do
  let mut r : CaseResult := {}
  let mut cancelled := false
  for ln in lines do
    match words ln with
    | ["leak", k] =>
      r := { r with specs := s!"leak:timer_goroutine_after_cancel: {k} goroutine(s) of pkg/timer still alive after the context was cancelled" :: r.specs }
    | "stuck" :: rest =>
      if (" ".intercalate rest).startsWith "not-quiescent" then
        r := { r with specs := s!"leak:timer_goroutine_blocked: a goroutine of pkg/timer neither waits for the clock / the context nor ends ({" ".intercalate rest})" :: r.specs }
    | "o" :: k :: _ => if k == "cancel" || k == "racecancel" then cancelled := true
    | _ => pure ()
  return { r with nontrivial := cancelled }

end Bpmn.Driver.C07
