import Bpmn.Driver.Eng
import Bpmn.Gen.Engine
import Bpmn.Spec.TokenGame
/-! Driver for C01 (and the other engine-level families that compare requests / end events / variables):
lock-step replay of the recorded run through the engine model at the extracted (faithful) configuration,
and evaluation of the token-game specification (`Cfg.ideal`) on the implementation's history. -/
namespace Bpmn.Driver.C01
open Bpmn.Driver Bpmn.Driver.Eng Bpmn.Model Bpmn.Model.Engine

/-- the configuration the code has today, from the regenerated facts (unknown ⇒ assume the deviation) -/
def faithful : Cfg :=
  { firstFlowDecides := Bpmn.Gen.Engine.firstFlowDecides.getD true
    subNeverReturns := Bpmn.Gen.Engine.subNeverReturns.getD true
    inclCohort := Bpmn.Gen.Engine.inclCohort.getD true
    subStartSticky := Bpmn.Gen.Engine.subStartSticky.getD true }

def implFinalVars (c : Case) : Option Vars :=
  c.final.bind (fun ws => (kv ws "vars").map (fun s => parseVars s))

def sameVars (a b : Vars) : Bool :=
  showVars a == showVars b

/-- Recogniser of one specific history shape (known finding `inclusive_join_stale_tracker`, D33): an inclusive JOIN
(two or more incoming flows) announces its outgoing flows (`flow J …` — it has fired) at a moment when a token that an
earlier `FlowTrace` announced as travelling on one of J's incoming flows has not yet visited J. The join decided on a
picture of its flow tracker that did not yet contain that `FlowTrace` (the tracker's lock only covers the first
activation; the tracer's broadcast to the tracker races with the arriving token). Counting is per join:
announced arrivals minus visits. -/
def staleTrackerFire (c : Case) : Option String := Id.run do
  let joins := c.proc.nodes.filter (fun n => n.kind == .incl && n.ins.length ≥ 2)
  if joins.isEmpty then return none
  let mut pending : List (String × Int) := joins.map (fun n => (n.id, 0))
  let bump := fun (pend : List (String × Int)) (j : String) (d : Int) =>
    pend.map (fun (x : String × Int) => if x.1 == j then (x.1, x.2 + d) else x)
  for (obs, _) in c.segs do
    for o in obs do
      match words o with
      | ["visit", n] => pending := bump pending n (-1)
      | ["flow", src, fl] =>
        -- a join that fires while an announced token is still on its way
        match pending.find? (·.1 == src) with
        | some (_, k) => if k > 0 then return some src
        | none => pure ()
        for pr in commaList fl do
          match pr.splitOn ":" with
          | [_, f] =>
            match c.proc.flow? f with
            | some sf => pending := bump pending sf.dst 1
            | none => pure ()
          | _ => pure ()
      | _ => pure ()
  return none

def judge (c : Case) : CaseResult := Id.run do
  if !c.bad.isEmpty then return { bad := c.bad }
  let mut r : CaseResult := {}
  -- the code's configuration under both scheduling variants; the one that reproduces the recorded run is used
  let m0 := replay faithful c
  let m1 := replay { faithful with eagerSettle := true } c
  let good (m : Replay) : Bool := m.oos.isNone && m.mismatch.isNone && sameVars m.finalVars ((implFinalVars c).getD [])
  let m := if good m0 then m0 else if good m1 then m1 else m0
  -- the token game, with the inclusive join at its earliest or at its latest allowed release point
  let i0 := replay Cfg.ideal c
  let i1 := replay Cfg.idealLate c
  -- … or anywhere in between, decision by decision: the token game under the admissible policy that follows the
  -- code's cohort wherever the cohort stays inside the allowed interval (Props/C01Conformance: a cause-free run of
  -- the code configuration IS a run of this token game, and it can differ from both extreme variants)
  let i2 := replayWith (Bpmn.Spec.TokenGame.start Bpmn.Spec.TokenGame.Join.cohortClamped)
                       (Bpmn.Spec.TokenGame.answer Bpmn.Spec.TokenGame.Join.cohortClamped) c
  let i := if good i0 then i0 else if good i1 then i1 else if good i2 then i2 else i0
  let implVars := (implFinalVars c).getD []
  let unknownReq (o : Option String) : Bool := (o.map (·.startsWith "answer to unknown request")).getD false
  -- livelock / blocked driver calls are failures of the implementation whatever the model says
  for n in c.notes do
    r := { r with specs := s!"engine_{if n == "noquiesce" then "does_not_quiesce" else "call_blocked"}: {n}" :: r.specs }
  -- 1. model (faithful) against implementation
  -- Inside the known-defective inclusive-join protocol the real engine races (tracker notification against the
  -- released tokens) in more ways than the two modelled variants: once a variant has logged `inclusive_cohort`
  -- at or before the point where it stops reproducing the run, the run is attributed to that finding instead of
  -- being reported as a model/implementation disagreement.
  let inCohortLand (m : Replay) : Bool := (m.causesAt.getD m.failAt m.causes).contains "inclusive_cohort"
  let tolerated := !(good m) && (inCohortLand m0 || inCohortLand m1)
  -- the stale-tracker race (D33) is not a step of the engine model (tokens run to quiescence between driver actions,
  -- the tracker is always up to date there): a run the model cannot reproduce whose history shows that very shape is
  -- attributed to that finding
  let stale := if good m || tolerated then none else staleTrackerFire c
  let mut modelAgrees := true
  if tolerated then
    r := { r with infos := "model cannot resolve the race inside the inclusive-cohort protocol; attributed to inclusive_cohort" :: r.infos }
  else if stale.isSome then
    r := { r with infos := s!"inclusive join {stale.getD ""} fired while an announced token was still on its way (stale flow tracker); attributed to inclusive_join_stale_tracker" :: r.infos }
  else
    match m.oos with
    | some why =>
      if unknownReq m.oos then
        modelAgrees := false
        r := { r with diffs := s!"model never issued a request the implementation issued ({why})" :: r.diffs }
      else
        return { r with skipped := true, infos := [s!"outside the model's domain: {why}"] }
    | none =>
      match m.mismatch with
      | some (k, mo, im) =>
        modelAgrees := false
        r := { r with diffs := s!"segment {k}: model [{mo}] impl [{im}]" :: r.diffs }
      | none =>
        if !sameVars m.finalVars implVars then
          modelAgrees := false
          r := { r with diffs := s!"final variables: model {showVars m.finalVars} impl {showVars implVars}" :: r.diffs }
  -- 2. specification (token game) against implementation
  -- the deviations the faithful model had logged when the token game first disagrees with the engine
  let upTo := if tolerated then ["inclusive_cohort"] else if stale.isSome then ["inclusive_join_stale_tracker"]
    else (m.causesAt.getD i.failAt m.causes)
  let sig := if modelAgrees && !upTo.isEmpty then "+".intercalate upTo else "unexplained_deviation"
  let specFail : Option String :=
    match i.oos with
    | some why => if unknownReq i.oos then some s!"the implementation issued a request the token game does not ({why})"
                  else none
    | none =>
      match i.mismatch with
      | some (k, mo, im) => some s!"after {k} answers the token game prescribes [{mo}] but the engine did [{im}]"
      | none => if !sameVars i.finalVars implVars then
                  some s!"final variables: token game {showVars i.finalVars} engine {showVars implVars}" else none
  match specFail with
  | some d => r := { r with specs := s!"{sig}: {d}" :: r.specs }
  | none => pure ()
  if i.oos.isSome && !unknownReq i.oos then
    r := { r with infos := s!"token game outside its domain: {i.oos.getD ""}" :: r.infos }
  -- non-trivial: at least two requests and some data-dependent or concurrent construct
  let interesting := c.proc.nodes.any (fun n => n.kind == .xor || n.kind == .par || n.kind == .incl || n.kind == .sub)
  return { r with nontrivial := m.reqs ≥ 2 && interesting }

def check (_params : List String) (lines : List String) : CaseResult :=
  judge (parseCase lines)

end Bpmn.Driver.C01
