import Bpmn.Driver.Eng
import Bpmn.Gen.Engine
import Bpmn.Spec.TokenGame
/-! Driver for C01 (and the other engine-level families that compare requests / end events / variables):
lock-step replay of the recorded run through the engine model at the extracted (faithful) configuration,
and evaluation of the token-game specification (`Cfg.ideal`) on the implementation's history. -/
namespace Bpmn.Driver.C01
open Bpmn.Driver Bpmn.Driver.Eng Bpmn.Model Bpmn.Model.Engine

/-- the configuration the code has today, from the regenerated facts (unknown ⇒ assume the deviation) -/
def faithful : Cfg :=
  { firstFlowDecides := Bpmn.Gen.Engine.firstFlowDecides.getD true
    subNeverReturns := Bpmn.Gen.Engine.subNeverReturns.getD true
    inclCohort := Bpmn.Gen.Engine.inclCohort.getD true
    subStartSticky := Bpmn.Gen.Engine.subStartSticky.getD true
    throwFuse := Bpmn.Gen.Engine.throwFuse.getD true }

def implFinalVars (c : Case) : Option Vars :=
  c.final.bind (fun ws => (kv ws "vars").map (fun s => parseVars s))

def sameVars (a b : Vars) : Bool :=
  showVars a == showVars b

/-- Recogniser of one specific history shape (known finding `inclusive_join_stale_tracker`, D33): an inclusive JOIN
(two or more incoming flows) that has fired before in this run (it is re-entered through a loop; the first activation is
covered by the tracker's start-up lock) announces its outgoing flows again (`flow J …` — it has fired) while a token
announced by an earlier `FlowTrace` and still alive — not one of those leaving J now — is on one of J's incoming flows or
at a node from which J can still be reached. The join decided on a picture of its flow tracker that did not yet contain
the `FlowTrace` announcing that sibling (the tracer's broadcast to the tracker races with the arriving token). Tokens are
followed by identity: `flow SRC tok:flow,…` moves each listed token to the flow's target, `term tok` removes it. -/
def staleTrackerFire (c : Case) : Option String := Id.run do
  let joins := c.proc.nodes.filter (fun n => n.kind == .incl && n.ins.length ≥ 2)
  if joins.isEmpty then return none
  let mut loc : List (String × String) := []
  let mut fired : List String := []
  for (obs, _) in c.segs do
    for o in obs do
      match words o with
      | ["term", tok, _] => loc := loc.filter (·.1 != tok)
      | ["flow", src, fl] =>
        let pairs : List (String × String) := (commaList fl).filterMap (fun pr =>
          match pr.splitOn ":" with
          | [t, f] => some (t, f)
          | _ => none)
        let leaving := pairs.map (·.1)
        if joins.any (·.id == src) then
          if fired.contains src then
            if loc.any (fun (x : String × String) =>
                !leaving.contains x.1 && (x.2 == src || Bpmn.Model.Engine.canReach c.proc x.2 src)) then
              return some src
          else fired := src :: fired
        for (t, f) in pairs do
          match c.proc.flow? f with
          | some sf => loc := (loc.filter (·.1 != t)) ++ [(t, sf.dst)]
          | none => pure ()
      | _ => pure ()
  return none

def judge (c : Case) : CaseResult := Id.run do
  if !c.bad.isEmpty then return { bad := c.bad }
  let mut r : CaseResult := {}
  -- the code's configuration under both scheduling variants; the one that reproduces the recorded run is used
  let m0 := replay faithful c
  let m1 := replay { faithful with eagerSettle := true } c
  let good (m : Replay) : Bool := m.oos.isNone && m.mismatch.isNone && sameVars m.finalVars ((implFinalVars c).getD [])
  let m := if good m0 then m0 else if good m1 then m1 else m0
  -- the token game, with the inclusive join at its earliest or at its latest allowed release point
  let i0 := replay Cfg.ideal c
  let i1 := replay Cfg.idealLate c
  -- … or anywhere in between, decision by decision: the token game under the admissible policy that follows the
  -- code's cohort wherever the cohort stays inside the allowed interval (Props/C01Conformance: a cause-free run of
  -- the code configuration IS a run of this token game, and it can differ from both extreme variants)
  let i2 := replayWith (Bpmn.Spec.TokenGame.start Bpmn.Spec.TokenGame.Join.cohortClamped)
                       (Bpmn.Spec.TokenGame.answer Bpmn.Spec.TokenGame.Join.cohortClamped) c
  let i := if good i0 then i0 else if good i1 then i1 else if good i2 then i2 else i0
  let implVars := (implFinalVars c).getD []
  let unknownReq (o : Option String) : Bool := (o.map (·.startsWith "answer to unknown request")).getD false
  -- livelock / blocked driver calls are failures of the implementation whatever the model says
  for n in c.notes do
    r := { r with specs := s!"engine_{if n == "noquiesce" then "does_not_quiesce" else "call_blocked"}: {n}" :: r.specs }
  -- 1. model (faithful) against implementation
  -- Inside the known-defective inclusive-join protocol the real engine races (tracker notification against the
  -- released tokens) in more ways than the two modelled variants: once a variant has logged `inclusive_cohort`
  -- at or before the point where it stops reproducing the run, the run is attributed to that finding instead of
  -- being reported as a model/implementation disagreement.
  let inCohortLand (m : Replay) : Bool := (m.causesAt.getD m.failAt m.causes).contains "inclusive_cohort"
  let tolerated := !(good m) && (inCohortLand m0 || inCohortLand m1)
  -- the stale-tracker race (D33) is not a step of the engine model (tokens run to quiescence between driver actions,
  -- the tracker is always up to date there): a run the model cannot reproduce whose history shows that very shape is
  -- attributed to that finding
  let stale := if good m || tolerated then none else staleTrackerFire c
  let mut modelAgrees := true
  if tolerated then
    r := { r with infos := "model cannot resolve the race inside the inclusive-cohort protocol; attributed to inclusive_cohort" :: r.infos }
  else if stale.isSome then
    r := { r with infos := s!"inclusive join {stale.getD ""} fired while an announced token was still on its way (stale flow tracker); attributed to inclusive_join_stale_tracker" :: r.infos }
  else
    match m.oos with
    | some why =>
      if unknownReq m.oos then
        modelAgrees := false
        r := { r with diffs := s!"model never issued a request the implementation issued ({why})" :: r.diffs }
      else
        return { r with skipped := true, infos := [s!"outside the model's domain: {why}"] }
    | none =>
      match m.mismatch with
      | some (k, mo, im) =>
        modelAgrees := false
        r := { r with diffs := s!"segment {k}: model [{mo}] impl [{im}]" :: r.diffs }
      | none =>
        if !sameVars m.finalVars implVars then
          modelAgrees := false
          r := { r with diffs := s!"final variables: model {showVars m.finalVars} impl {showVars implVars}" :: r.diffs }
  -- 2. specification (token game) against implementation
  -- the deviations the faithful model had logged when the token game first disagrees with the engine
  let upTo := if tolerated then ["inclusive_cohort"] else if stale.isSome then ["inclusive_join_stale_tracker"]
    else (m.causesAt.getD i.failAt m.causes)
  let sig := if modelAgrees && !upTo.isEmpty then "+".intercalate upTo else "unexplained_deviation"
  let specFail : Option String :=
    match i.oos with
    | some why => if unknownReq i.oos then some s!"the implementation issued a request the token game does not ({why})"
                  else none
    | none =>
      match i.mismatch with
      | some (k, mo, im) => some s!"after {k} answers the token game prescribes [{mo}] but the engine did [{im}]"
      | none => if !sameVars i.finalVars implVars then
                  some s!"final variables: token game {showVars i.finalVars} engine {showVars implVars}" else none
  match specFail with
  | some d => r := { r with specs := s!"{sig}: {d}" :: r.specs }
  | none => pure ()
  if i.oos.isSome && !unknownReq i.oos then
    r := { r with infos := s!"token game outside its domain: {i.oos.getD ""}" :: r.infos }
  -- non-trivial: at least two requests and some data-dependent or concurrent construct
  let interesting := c.proc.nodes.any (fun n => n.kind == .xor || n.kind == .par || n.kind == .incl || n.kind == .sub)
  return { r with nontrivial := m.reqs ≥ 2 && interesting }

def check (_params : List String) (lines : List String) : CaseResult :=
  judge (parseCase lines)

/-- family `c01twin`: two instances of one parsed definitions value alive at the same time; the two recorded runs are
separated by the line `variant twin` and each is judged on its own -/
def checkTwin (_params : List String) (lines : List String) : CaseResult :=
  let la := lines.takeWhile (· != "variant twin")
  let lb := (lines.dropWhile (· != "variant twin")).drop 1
  if lb.isEmpty then
    if la.any (·.startsWith "harness-error") then { bad := la.filter (·.startsWith "harness-error") }
    else { bad := ["c01twin: second instance missing"] }
  else
    let ra := judge (parseCase la)
    let rb := judge (parseCase lb)
    { diffs := ra.diffs.map ("first instance: " ++ ·) ++ rb.diffs.map ("second instance: " ++ ·),
      specs := ra.specs ++ rb.specs, bad := ra.bad ++ rb.bad, infos := ra.infos ++ rb.infos,
      skipped := ra.skipped && rb.skipped, nontrivial := ra.nontrivial || rb.nontrivial }

end Bpmn.Driver.C01
