import Bpmn.Driver.Eng
import Bpmn.Driver.C01
import Bpmn.Model.CatchEngine
import Bpmn.Gen.C11
/-! Driver for C11: replays a recorded run (start / answers / deliveries under a deadline) through the engine
model extended with the inbox model of the event nodes, comparing at every quiescent point what was requested,
which listeners armed / observed / fired and whether the delivery returned; and evaluates the C11 predicate on
what the IMPLEMENTATION did (which listeners were waiting at the moment of each delivery is read off the
implementation's own traces, not off the model). -/
namespace Bpmn.Driver.C11
open Bpmn.Driver Bpmn.Driver.Eng Bpmn.Model Bpmn.Model.Engine Bpmn.Model.CatchEvent Bpmn.Model.CatchEngine

/-- the facts of the current source (unknown ⇒ what the code did when the model was written) -/
def facts : Facts :=
  { catch_ := { capMul := Bpmn.Gen.C11.catchCapMul.getD 2, capAdd := Bpmn.Gen.C11.catchCapAdd.getD 1,
                readerAtConstruction := Bpmn.Gen.C11.catchReaderAtConstruction.getD false,
                sendNonBlocking := Bpmn.Gen.C11.catchSendNonBlocking.getD false,
                sendOnlyWhenRunning := Bpmn.Gen.C11.catchSendOnlyWhenRunning.getD false },
    start := { capMul := Bpmn.Gen.C11.startCapMul.getD 2, capAdd := Bpmn.Gen.C11.startCapAdd.getD 1,
               readerAtConstruction := Bpmn.Gen.C11.startReaderAtConstruction.getD false,
               sendNonBlocking := Bpmn.Gen.C11.startSendNonBlocking.getD false,
               sendOnlyWhenRunning := Bpmn.Gen.C11.startSendOnlyWhenRunning.getD false } }

structure Extra where
  /-- (node, index, kind, name) -/
  defs : List (String × Nat × String × String) := []
  consumers : List String := []
  bad : List String := []
  panics : List String := []

/-- split off the lines only this family has; the rest is the common engine-case format -/
def split (lines : List String) : Extra × List String := Id.run do
  let mut x : Extra := {}
  let mut rest : Array String := #[]
  for ln in lines do
    match words ln with
    | ["prog", "def", n, k, kind, name] =>
      match k.toNat? with
      | some k => x := { x with defs := x.defs ++ [(n, k, kind, name)] }
      | none => x := { x with bad := x.bad ++ [ln] }
    | ["prog", "consumers", cs] => x := { x with consumers := commaList cs }
    | ["obs", "ret", "deliver", _, status] => rest := rest.push s!"obs dret {status}"
    | "obs" :: "panic" :: why => x := { x with panics := x.panics ++ [" ".intercalate why] }
    | _ => rest := rest.push ln
  return (x, rest.toList)

/-- events are numbered by first appearance among the definitions and the deliveries -/
def evIndex (tbl : List (String × String)) (kind name : String) : List (String × String) × Nat :=
  match tbl.idxOf? (kind, name) with
  | some i => (tbl, i)
  | none => (tbl ++ [(kind, name)], tbl.length)

def sortStrs (xs : List String) : List String := xs.toArray.qsort (· < ·) |>.toList

/-- `observed X` is compared as present / absent per segment, not counted: when a node that callers were blocked on
is reached, the released callers race to the consumers behind it, so HOW MANY non-matching events a listener behind
it observes before the matching one disarms it depends on the schedule (whether it fires does not). In every other
segment at most one event reaches a node, so nothing is lost there. -/
def dedupObserved : List String → List String
  | a :: b :: rest => if a == b && a.startsWith "observed " then dedupObserved (b :: rest) else a :: dedupObserved (b :: rest)
  | xs => xs

/-- canonical multiset of what the implementation showed in one segment -/
def implCanon (p : Proc) (obs : List String) : List String :=
  let isCatch (n : String) : Bool := ((p.node? n).map (·.kind == .catch_)).getD false
  -- completions of end events INSIDE a sub-process are not compared (as in Driver/Eng: the inner tracer's last traces
  -- race the relay's shutdown)
  let top (n : String) : Bool := ((p.node? n).map (·.parent == "-")).getD true
  dedupObserved <| sortStrs (obs.filterMap (fun o =>
    match words o with
    | "task" :: n :: _ => some s!"req {n}"
    | ["complete", n] => if top n then some s!"complete {n}" else none
    | ["listening", n] => some s!"listening {n}"
    | ["observed", n] => some s!"observed {n}"
    | "flow" :: n :: _ => if isCatch n then some s!"fire {n}" else none
    | ["dret", st] => some s!"ret {st}"
    | ["error", cls] => some s!"error {cls}"
    | _ => none))

def modelCanon (p : Proc) (obs : List CObs) (ret : Option Bool) : List String :=
  let top (n : String) : Bool := ((p.node? n).map (·.parent == "-")).getD true
  dedupObserved <| sortStrs (obs.filterMap (fun o =>
    match o with
    | .eng (.req n) => some s!"req {n}"
    | .eng (.complete n) => if top n then some s!"complete {n}" else none
    | .eng (.err c) => some s!"error {c}"
    | .listening n => some s!"listening {n}"
    | .observed n => some s!"observed {n}"
    | .fire n => some s!"fire {n}") ++
    (match ret with | some true => ["ret returned"] | some false => ["ret blocked"] | none => []))

def count (xs : List String) (x : String) : Nat := xs.count x

def getN (m : List (String × Nat)) (k : String) : Nat := ((m.find? (·.1 == k)).map (·.2)).getD 0
def addN (m : List (String × Nat)) (k : String) (d : Nat) : List (String × Nat) :=
  (m.filter (·.1 != k)) ++ [(k, getN m k + d)]

/-- the events of a delivery action: `deliver kind name`, or `burst g kind:name,kind:name,…` (handed in back to back
from `g` goroutines without waiting in between) -/
def opEvents (op : List String) : Option (List (String × String)) :=
  match op with
  | ["deliver", kind, name] => some [(kind, name)]
  | ["burst", _, evs] =>
    (commaList evs).mapM (fun e => match e.splitOn ":" with
      | k :: n :: rest => some (k, ":".intercalate (n :: rest))   -- the NAME may contain colons
      | _ => none)
  | _ => none

/-- the C11 predicate on the implementation's history -/
def judgeSpec (p : Proc) (x : Extra) (ops : List (List String × List String)) : List String × Bool := Id.run do
  let catches := x.consumers.filter (fun n => ((p.node? n).map (·.kind == .catch_)).getD false)
  let incoming (n : String) : Nat := ((p.node? n).map (·.ins.length)).getD 0
  let evMatches (n kind name : String) : Bool := x.defs.any (fun d => d.1 == n && d.2.2.1 == kind && d.2.2.2 == name)
  -- catch events behind an event-based gateway: when one of them fires, the others are withdrawn (their tokens end)
  let siblings (n : String) : List String :=
    (p.nodes.filter (fun g => g.kind == .ebg && (g.outs.map (flowDst p)).contains n)).flatMap
      (fun g => (g.outs.map (flowDst p)).filter (· != n))
  -- per withdrawn catch event: the number of deliveries issued before the first matching one after the withdrawal
  let mut wedged : List (String × Nat) := []
  let mut withdrawn : List String := []
  let mut visits : List (String × Nat) := []
  let mut fires : List (String × Nat) := []
  let mut started := false
  let mut issued := 0
  let mut inflight : List (String × String) := []
  let mut specs : List String := []
  let mut interesting := false
  for (op, obs) in ops do
    let canon := implCanon p obs
    let visitsNow (n : String) : Nat := (obs.filter (fun o => words o == ["visit", n])).length
    let firesNow (n : String) : Nat := count canon s!"fire {n}"
    let inflightMatches (n : String) : Bool := inflight.any (fun e => evMatches n e.1 e.2)
    match opEvents op with
    | some evs =>
      let what := " ".intercalate op
      let blocked := canon.contains "ret blocked"
      let upTo := issued + evs.length - 1
      if blocked then
        interesting := true
        let sig :=
          if !started then
            (if upTo ≥ facts.start.cap 0 then "deliver_blocks_unstarted_instance" else "deliver_blocks_early")
          else if catches.any (fun n => getN visits n == 0 && upTo ≥ facts.catch_.cap (incoming n)) then
            "deliver_blocks_unreached_inbox"
          else if wedged.any (fun (n, k) => upTo ≥ k + facts.catch_.cap (incoming n) + 1) then
            "deliver_blocks_reader_stuck_on_withdrawn_token"
          else "deliver_blocks_unexplained"
        specs := s!"{sig}: delivery {issued + 1} ({what}) did not return within the deadline" :: specs
      for n in catches do
        let w := getN visits n - getN fires n
        let k := firesNow n
        let m := evs.any (fun e => evMatches n e.1 e.2)
        if k > 0 then interesting := true
        if k > w then
          specs := s!"listener_continued_twice: {n} released {k} tokens on `{what}` with {w} waiting" :: specs
        else if m && w > 0 && k < w && !blocked then
          specs := s!"listener_missed_event: {n} had {w} tokens waiting during `{what}`, {k} continued" :: specs
        else if !m && k > 0 && !inflightMatches n then
          specs := s!"nonmatching_listener_reacted: {n} continued on `{what}`" :: specs
      for n in withdrawn do
        if evs.any (fun e => evMatches n e.1 e.2) && !(wedged.any (·.1 == n)) then wedged := wedged ++ [(n, issued)]
      if blocked then inflight := inflight ++ evs
      issued := issued + evs.length
    | none =>
      if op == ["startall"] then started := true
      for n in catches do
        if firesNow n > 0 && !inflightMatches n then
          specs := s!"stale_event_affects_later_listener: {n} continued after `{" ".intercalate op}` without a delivery" :: specs
    for n in catches do
      visits := addN visits n (visitsNow n)
      fires := addN fires n (firesNow n)
    -- a catch event behind an event-based gateway fired: its siblings stop listening
    for n in catches do
      if firesNow n > 0 then
        for m in siblings n do
          if !withdrawn.contains m then
            withdrawn := withdrawn ++ [m]
            fires := addN fires m (getN visits m - getN fires m)
  return (specs.reverse, interesting)

def check (_params : List String) (lines : List String) : CaseResult := Id.run do
  let (x, rest) := split lines
  let c := parseCase rest
  if !c.bad.isEmpty || !x.bad.isEmpty then return { bad := c.bad ++ x.bad }
  let p := c.proc
  let mut r : CaseResult := {}
  for n in c.notes do
    r := { r with specs := s!"engine_{if n == "noquiesce" then "does_not_quiesce" else "call_blocked"}: {n}" :: r.specs }
  for w in x.panics do
    r := { r with specs := s!"panic_in_delivery: {w}" :: r.specs }
  -- event table and the consumers of the instance
  let mut tbl : List (String × String) := []
  for d in x.defs do
    tbl := (evIndex tbl d.2.2.1 d.2.2.2).1
  let mkNode (n : String) : Option CatchEvent.Node :=
    (p.node? n).bind (fun nd =>
      let kind? : Option NodeKind :=
        if nd.kind == .catch_ then some .catch_ else if nd.kind == .start then some .start else none
      kind?.map (fun kind =>
        let ds := (x.defs.filter (·.1 == n)).toArray.qsort (fun a b => a.2.1 < b.2.1) |>.toList
        let defs := ds.map (fun d => ((tbl.idxOf? (d.2.2.1, d.2.2.2)).getD 0))
        CatchEvent.Node.init facts kind nd.ins.length defs false))
  let some nodes := x.consumers.mapM mkNode | return { r with bad := ["consumers"] }
  -- the first segment holds what was observed before the first driver action: nothing
  let (obs0, ops) : List String × List (List String × List String) :=
    match c.segs with
    | [] => ([], [])
    | (o, op) :: more =>
      let rec pair (op : Option (List String)) (more : List (List String × Option (List String))) :
          List (List String × List String) :=
        match op, more with
        | some w, (o', op') :: more' => (w, o') :: pair op' more'
        | _, _ => []
      (o, pair op more)
  if !(implCanon p obs0).isEmpty then
    r := { r with diffs := s!"observations before the first action: {implCanon p obs0}" :: r.diffs }
  -- 1. model against implementation, segment by segment (programs with an event-based gateway are judged by the
  --    property predicate only: the engine model does not cover that gateway)
  let modelled := !(p.nodes.any (·.kind == .ebg))
  if !modelled then r := { r with infos := ["event-based gateway: judged by the property predicate only"] }
  let cfg := C01.faithful
  let mut st : CSt := { eng := { vars := c.vars }, sys := { nodes }, ids := x.consumers }
  let mut k := 0
  let mut stop := false
  for (op, obs) in ops do
    if stop || !modelled then break
    k := k + 1
    let mut ret : Option Bool := none
    match op with
    | ["startall"] => st := startAll cfg facts p c.vars st
    | ["deliver", kind, name] =>
      let (t, e) := evIndex tbl kind name
      tbl := t
      let (s', b) := deliverEv cfg facts p st e
      st := s'
      ret := some b
    | "burst" :: _ =>
      -- a delivery to a node whose reader runs waits until it is accepted, it is never dropped: a burst comes to
      -- the same as the deliveries one after the other
      match opEvents op with
      | none => st := st.fail ("malformed burst " ++ " ".intercalate op)
      | some evs =>
        let mut acc : List CObs := []
        let mut all := true
        for (kind, name) in evs do
          let (t, e) := evIndex tbl kind name
          tbl := t
          let (s', b) := deliverEv cfg facts p st e
          acc := acc ++ s'.obs
          all := all && b
          st := s'
        st := { st with obs := acc }
        ret := some all
    | _ =>
      match parseAnswer op with
      | some (n, occ, a) => st := answer cfg facts p st n occ a
      | none => st := st.fail ("unsupported op " ++ " ".intercalate op)
    match st.oos with
    | some why =>
      stop := true
      r := { r with skipped := true, infos := [s!"outside the model's domain: {why}"] }
    | none =>
      let m := modelCanon p st.obs ret
      let i := implCanon p obs
      if m != i then
        stop := true
        r := { r with diffs := s!"after action {k} ({" ".intercalate op}): model [{" ; ".intercalate m}] impl [{" ; ".intercalate i}]" :: r.diffs }
  -- 2. the property on the implementation's history
  let (specs, interesting) := judgeSpec p x ops
  r := { r with specs := specs.reverse ++ r.specs }
  return { r with nontrivial := interesting }

end Bpmn.Driver.C11
