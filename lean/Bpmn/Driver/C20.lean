import Bpmn.Driver.Util
import Bpmn.Model.IdGen
/-! Driver for C20.

* single-goroutine traces (`sno_single`, `sno_burst`, `fb_single`): every decoded id is replayed through the model
  (`soloNew` = the small-step machine run by one thread, with the clock reading taken from the id) → `diff` on
  disagreement; the law the theorems state (`sno_lex_increasing`: (time, seq) strictly increases per generator;
  partitions / prefixes distinct across generators; snapshot = model snapshot; restored generator continues) and
  pairwise distinctness are evaluated on what the implementation returned → `spec`.
* stress summaries (`sno_conc`, `fb_conc`, `fb_create`): the harness detected duplicates itself; `dups > 0` → `spec`.
* engine runs: instance ids and flow ids seen in traces must be pairwise distinct.
-/
namespace Bpmn.Driver.C20
open Bpmn.Driver Bpmn.Model.IdGen

structure GenSlot where
  st      : Option St := none     -- none until the partition has been seen
  retired : Bool := false
  last    : Option (Nat × Nat) := none   -- last (time, seq) the implementation returned
  snap    : Option (Gen × Nat) := none   -- model snapshot and its clock reading

instance : Inhabited GenSlot := ⟨{}⟩

def idKey (t tick part seq : Nat) : Nat := ((t * 2 + tick) * 65536 + part) * 65536 + seq

/-- first duplicate in an array of keys (after sorting) -/
def firstDupNat (a : Array Nat) : Option Nat := Id.run do
  let s := a.qsort (· < ·)
  for i in [1:s.size] do
    if s[i]! == s[i-1]! then return some s[i]!
  return none

def firstDupStr (a : Array String) : Option String := Id.run do
  let s := a.qsort (· < ·)
  for i in [1:s.size] do
    if s[i]! == s[i-1]! then return some s[i]!
  return none

def nats? (ws : List String) : Option (List Nat) := ws.mapM String.toNat?

def checkSno (lines : List String) : CaseResult := Id.run do
  let mut r : CaseResult := {}
  let mut slots : Array GenSlot := #[]
  let mut keys : Array Nat := #[]
  let mut n := 0
  let mut ids := 0
  let mut ticksCrossed := 0
  for ln in lines do
    n := n + 1
    match words ln with
    | ["gen", g] =>
      match g.toNat? with
      | some g => if g == slots.size then slots := slots.push {} else r := { r with bad := s!"line {n}: gen index" :: r.bad }
      | none => r := { r with bad := s!"line {n}" :: r.bad }
    | "id" :: rest =>
      match nats? rest with
      | some [g, t, tick, mt, part, seq] =>
        if h : g < slots.size then
          let sl := slots[g]
          if sl.retired then r := { r with bad := s!"line {n}: draw from retired generator {g}" :: r.bad }
          ids := ids + 1
          keys := keys.push (idKey t tick part seq)
          -- first id of a fresh generator fixes its partition; it must differ from every other live generator's
          let st0 : St := match sl.st with
            | some st => st
            | none => init (freshGen part) 0
          if sl.st.isNone then
            for j in [0:slots.size] do
              if j != g then
                match slots[j]!.st with
                | some o => if o.g.part == part && !slots[j]!.retired then
                    r := { r with specs := s!"sno_partition_shared: generators {j} and {g} both use partition {part}" :: r.specs }
                | none => pure ()
          -- model replay
          let st1 := soloNew { st0 with out := [] } t
          match st1.pcs 0, st1.out with
          | .idle, [x] =>
            if x.time != t || x.tick != tick || x.part != part || x.seq != seq || mt != 0 then
              r := { r with diffs := s!"line {n}: gen {g}: model ({x.time},{x.tick},{x.part},{x.seq}) impl ({t},{tick},{part},{seq}) meta {mt}" :: r.diffs }
          | _, _ => r := { r with diffs := s!"line {n}: gen {g}: model does not return an id at clock reading {t} (wallHi {st0.g.wallHi} seq {st0.g.seq})" :: r.diffs }
          -- the law, on the implementation's own output (only while the id clock does not run backwards)
          match sl.last with
          | some (lt, ls) =>
            if t > lt then ticksCrossed := ticksCrossed + 1
            if t == lt && seq ≤ ls then
              r := { r with specs := s!"sno_not_increasing: gen {g} line {n}: ({t},{seq}) after ({lt},{ls})" :: r.specs }
          | none => pure ()
          -- continue from the model state when it agrees, else resynchronise on the implementation
          let st2 : St := match st1.pcs 0, st1.out with
            | .idle, [x] => if x.time == t && x.seq == seq then st1 else { st1 with g := { st1.g with wallHi := t, seq := seq, part := part } }
            | _, _ => { st0 with g := { st0.g with wallHi := t, seq := seq, part := part } }
          slots := slots.set g { sl with st := some st2, last := some (t, seq) } h
        else r := { r with bad := s!"line {n}: unknown generator" :: r.bad }
      | _ => r := { r with bad := s!"line {n}: {ln}" :: r.bad }
    | "snap" :: rest =>
      match nats? rest with
      | some [g, now, wallHi, seq, part, seqMin, seqMax, wallSafe, drifts] =>
        if h : g < slots.size then
          let sl := slots[g]
          let st0 : St := match sl.st with
            | some st => st
            | none => init (freshGen part) 0
          let s := snapshot st0.g now
          if s.wallHi != wallHi || s.seq != seq || s.part != part || s.seqMin != seqMin || s.seqMax != seqMax
              || s.wallSafe != wallSafe || s.drifts != drifts then
            r := { r with diffs := s!"line {n}: snapshot of gen {g} at {now}: model (wallHi {s.wallHi} seq {s.seq} part {s.part} [{s.seqMin},{s.seqMax}] safe {s.wallSafe} drifts {s.drifts}) impl: {ln}" :: r.diffs }
          slots := slots.set g { sl with st := some st0, snap := some (s, now) } h
        else r := { r with bad := s!"line {n}: unknown generator" :: r.bad }
      | _ => r := { r with bad := s!"line {n}: {ln}" :: r.bad }
    | ["restore", g, g2] =>
      match g.toNat?, g2.toNat? with
      | some g, some g2 =>
        if h : g < slots.size then
          let sl := slots[g]
          match sl.snap with
          | some (s, now) =>
            if g2 == slots.size then
              slots := slots.set g { sl with retired := true } h
              slots := slots.push { st := some (init (restoreGen s) now), last := none }
            else r := { r with bad := s!"line {n}: restore index" :: r.bad }
          | none => r := { r with bad := s!"line {n}: restore without snapshot" :: r.bad }
        else r := { r with bad := s!"line {n}: unknown generator" :: r.bad }
      | _, _ => r := { r with bad := s!"line {n}" :: r.bad }
    | "note" :: _ => pure ()
    | "panic" :: rest => r := { r with specs := s!"panic: {" ".intercalate rest}" :: r.specs }
    | "generr" :: rest => r := { r with specs := s!"sno_generator_error: {" ".intercalate rest}" :: r.specs }
    | "snaperr" :: rest => r := { r with specs := s!"sno_snapshot_error: {" ".intercalate rest}" :: r.specs }
    | "restoreerr" :: rest => r := { r with specs := s!"sno_restore_error: {" ".intercalate rest}" :: r.specs }
    | "badid" :: rest => r := { r with specs := s!"sno_malformed_id: {" ".intercalate rest}" :: r.specs }
    | _ => r := { r with bad := s!"line {n}: {ln}" :: r.bad }
  -- the C20 predicate on the implementation's output: pairwise distinct
  match firstDupNat keys with
  | some k => r := { r with specs := s!"sno_single_duplicate: id key {k} handed out twice among {ids} ids" :: r.specs }
  | none => pure ()
  return { r with nontrivial := ids > 1 && ticksCrossed > 0 }

def kv (ws : List String) (k : String) : Option String :=
  match ws with
  | a :: b :: rest => if a == k then some b else kv (b :: rest) k
  | _ => none

def checkStress (lines : List String) : CaseResult := Id.run do
  let mut r : CaseResult := {}
  let mut seen := false
  for ln in lines do
    match words ln with
    | "stress" :: what :: rest =>
      seen := true
      match (kv rest "goroutines").bind String.toNat?, (kv rest "each").bind String.toNat?,
            (kv rest "gens").bind String.toNat?, (kv rest "total").bind String.toNat?,
            (kv rest "dups").bind String.toNat?, kv rest "first" with
      | some gor, some each, some gens, some total, some dups, some first =>
        if what != "fbcreate" && total != gor * each * gens then
          r := { r with bad := s!"stress totals: {ln}" :: r.bad }
        if let some u := (kv rest "undecodable").bind String.toNat? then
          if u > 0 then r := { r with specs := s!"fallback_malformed: {u} ids not of the form fallback-<base36>-<decimal>" :: r.specs }
        if dups > 0 then
          let sig := if what == "sno" then (if gor ≥ 2 then "sno_concurrent_duplicate" else "sno_single_duplicate")
            else if what == "fallback" then "fallback_duplicate"
            else if what == "fbcreate" then "fallback_same_prefix"
            else if what == "manygens" then "generators_share_ids"
            else if what == "snapconc" then "restored_generator_repeats_ids"
            else if what == "ctxclock" then "generator_with_context_clock_repeats_ids"
            else "stress_duplicate"
          r := { r with specs := s!"{sig}: {dups} duplicates among {total} ids ({gor} goroutines x {each} x {gens} generators), first {first}" :: r.specs }
        r := { r with nontrivial := total > 1 }
      | _, _, _, _, _, _ => r := { r with bad := s!"stress line: {ln}" :: r.bad }
    | "panic" :: rest => r := { r with specs := s!"panic: {" ".intercalate rest}" :: r.specs }
    | "generr" :: rest => r := { r with specs := s!"sno_generator_error: {" ".intercalate rest}" :: r.specs }
    | _ => r := { r with bad := s!"{ln}" :: r.bad }
  if !seen && r.specs.isEmpty then r := { r with bad := "no stress line" :: r.bad }
  return r

structure FbSlot where
  g : Option FbGen := none

instance : Inhabited FbSlot := ⟨{}⟩

/-- `<clock> <serial|->`; an explicit serial 0 cannot come out of the model before 2^64 generators -/
def fbPrefix? (clk ser : String) : Option FbPrefix := do
  let c ← clk.toNat?
  if ser == "-" then pure ⟨c, 0⟩
  else
    let s ← ser.toNat?
    if s == 0 then none else pure ⟨c, s⟩

def showP (p : FbPrefix) : String := if p.serial == 0 then s!"{p.clock}" else s!"{p.clock}.{p.serial}"

def checkFb (lines : List String) : CaseResult := Id.run do
  let mut r : CaseResult := {}
  let mut slots : Array FbSlot := #[]
  let mut keys : Array Nat := #[]
  let mut n := 0
  for ln in lines do
    n := n + 1
    match words ln with
    | ["fgen", g] =>
      if g.toNat? == some slots.size then slots := slots.push {} else r := { r with bad := s!"line {n}: fgen index" :: r.bad }
    | ["fid", g, clk, ser, c] =>
      match g.toNat?, fbPrefix? clk ser, c.toNat? with
      | some g, some p, some c =>
        if h : g < slots.size then
          let m0 : FbGen := match slots[g].g with
            | some m => m
            | none => fbNew p
          if slots[g].g.isNone then
            for j in [0:slots.size] do
              match slots[j]!.g with
              | some o =>
                if o.pfx == p then
                  r := { r with specs := s!"fallback_same_prefix: generators {j} and {g} share prefix {showP p}" :: r.specs }
                -- creation law of the model (`fbProgram`): generators created one after the other carry consecutive
                -- serial numbers, or none of them carries one
                if (o.pfx.serial == 0) != (p.serial == 0) || (p.serial != 0 && o.pfx.serial + g != p.serial + j) then
                  r := { r with diffs := s!"line {n}: fallback generators {j} and {g}: prefixes {showP o.pfx} and {showP p} are not consecutive creations" :: r.diffs }
              | none => pure ()
          let m1 := fbStep true { m0 with out := [] } 0
          match m1.out with
          | [x] => if x.pfx != p || x.n != c then
              r := { r with diffs := s!"line {n}: fallback gen {g}: model ({showP x.pfx},{x.n}) impl ({showP p},{c})" :: r.diffs }
          | _ => r := { r with diffs := s!"line {n}: model emitted nothing" :: r.diffs }
          keys := keys.push ((p.clock * u64 + p.serial) * u64 + c)
          slots := slots.set g { g := some { m1 with counter := c } } h
        else r := { r with bad := s!"line {n}: unknown generator" :: r.bad }
      | _, _, _ => r := { r with bad := s!"line {n}: {ln}" :: r.bad }
    | ["fsnap", g, clk, ser, c] =>
      match g.toNat?, fbPrefix? clk ser, c.toNat? with
      | some g, some p, some c =>
        if h : g < slots.size then
          match slots[g].g with
          | some m => if m.pfx != p || m.counter != c then
              r := { r with diffs := s!"line {n}: fallback snapshot: model ({showP m.pfx},{m.counter}) impl ({showP p},{c})" :: r.diffs }
          | none => pure ()
        else r := { r with bad := s!"line {n}: unknown generator" :: r.bad }
      | _, _, _ => r := { r with bad := s!"line {n}: {ln}" :: r.bad }
    | "fraw" :: rest => r := { r with specs := s!"fallback_malformed: {" ".intercalate rest}" :: r.specs }
    | "panic" :: rest => r := { r with specs := s!"panic: {" ".intercalate rest}" :: r.specs }
    | _ => r := { r with bad := s!"line {n}: {ln}" :: r.bad }
  match firstDupNat keys with
  | some k => r := { r with specs := s!"fallback_duplicate: id (clock {k / u64 / u64}, serial {k / u64 % u64}, n {k % u64}) handed out twice" :: r.specs }
  | none => pure ()
  return { r with nontrivial := keys.size > 1 }

def checkEngine (builder : String) (lines : List String) : CaseResult := Id.run do
  let mut r : CaseResult := {}
  let mut inst : Array String := #[]
  let mut flows : Array String := #[]
  let mut completed := 0
  for ln in lines do
    match words ln with
    | ["inst", x] => inst := inst.push x
    | ["flow", x] => flows := flows.push x
    | ["run", _, "done", d, "traces", _] => if d == "1" then completed := completed + 1
    | "panic" :: rest => r := { r with specs := s!"panic: {" ".intercalate rest}" :: r.specs }
    | _ => r := { r with bad := s!"{ln}" :: r.bad }
  -- duplicates that can only come from the sno generator being drawn from concurrently carry their own signature
  let sfx := if builder == "fallback" then "" else "_sno"
  match firstDupStr (flows ++ inst) with
  | some x => r := { r with specs := s!"engine_flow_id_duplicate{sfx}: {x} (among {flows.size} flow ids and {inst.size} instance ids)" :: r.specs }
  | none => pure ()
  return { r with nontrivial := flows.size > 1 && completed > 0 }

def check (params : List String) (lines : List String) : CaseResult :=
  match params with
  | "sno_single" :: _ => checkSno lines
  | "sno_burst" :: _ => checkSno lines
  | "sno_conc" :: _ => checkStress lines
  | "fb_conc" :: _ => checkStress lines
  | "fb_create" :: _ => checkStress lines
  | "many_gens" :: _ => checkStress lines
  | "snap_conc" :: _ => checkStress lines
  | "ctx_clock" :: _ => checkStress lines
  | "fb_single" :: _ => checkFb lines
  | "engine" :: builder :: _ => checkEngine builder lines
  | _ => { bad := ["c20 params"] }

end Bpmn.Driver.C20
