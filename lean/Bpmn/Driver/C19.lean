import Bpmn.Driver.Util
import Bpmn.Model.Builder
import Bpmn.Gen.C19
/-! Driver for C19: replays builder scripts through the model (the id oracle is recovered from the ids the
implementation produced), compares definitions, shapes, edges and waypoints, and evaluates the C19 predicates
on what the implementation produced. -/
namespace Bpmn.Driver.C19
open Bpmn.Driver Bpmn.Model.Builder

def pfxNames : List (String × Pfx) :=
  [("Definitions", .definitions), ("Process", .process), ("Collaboration", .collaboration),
   ("Participant", .participant), ("BPMNDiagram", .diagram), ("BPMNPlane", .plane), ("Shape", .shape),
   ("Edge", .edge), ("Event", .event), ("Activity", .activity), ("Flow", .flow)]

def kindNames : List (String × Kind) :=
  [("startEvent", .startEvent), ("endEvent", .endEvent), ("task", .task), ("businessRuleTask", .businessRuleTask),
   ("userTask", .userTask), ("callActivity", .callActivity), ("manualTask", .manualTask), ("sendTask", .sendTask),
   ("scriptTask", .scriptTask), ("serviceTask", .serviceTask), ("receiveTask", .receiveTask),
   ("subProcess", .subProcess), ("adHocSubProcess", .adHocSubProcess), ("transaction", .transaction),
   ("activity", .activity)]

/-- "Prefix_suffix" with a known prefix and a 7-character suffix -/
def splitGen (s : String) : Option (Pfx × String) :=
  match s.splitOn "_" with
  | [p, t] => if t.length = 7 then (pfxNames.lookup p).map (·, t) else none
  | _ => none

/-- preset ids of the scripts: `P<k>`, `P<k>_di`, `P<k>_1`, `P<k>:c` — four different ids, numbered `4k` … `4k + 3` -/
def presetNum (s : String) : Option Nat :=
  if s.startsWith "P" then
    match (s.drop 1).toString.splitOn "_" with
    | [k] => if k.endsWith ":c" then (k.dropEnd 2).toString.toNat?.map (· * 4 + 3) else k.toNat?.map (· * 4)
    | [k, "di"] => k.toNat?.map (· * 4 + 1)
    | [k, "1"] => k.toNat?.map (· * 4 + 2)
    | _ => none
  else none

def showPreset (n : Nat) : String :=
  match n % 4 with
  | 0 => s!"P{n / 4}"
  | 1 => s!"P{n / 4}_di"
  | 2 => s!"P{n / 4}_1"
  | _ => s!"P{n / 4}:c"

/-- offset of the tokens the model uses for calls whose result is not (yet) known -/
def unknownBase : Nat := 1000000

structure Ctx where
  toks : List String      -- token strings in first-seen order
  presets : List Nat      -- preset ids of the script

def Ctx.toId (c : Ctx) (s : String) : Option Id :=
  match presetNum s with
  | some n => if c.presets.contains n then some (.preset n) else none
  | none => match splitGen s with
    | some (p, t) => some (.gen p (c.toks.idxOf t))
    | none => none

def showId (c : Ctx) : Id → String
  | .preset n => showPreset n
  | .gen p t =>
    let pn := (pfxNames.find? (·.2 = p)).map (·.1) |>.getD "?"
    if t ≥ unknownBase then s!"{pn}_<call{t - unknownBase}>" else s!"{pn}_{c.toks.getD t "?"}"

def showIds (c : Ctx) (l : List Id) : String := ",".intercalate (l.map (showId c))

/-- what the implementation produced, parsed -/
structure Impl where
  defs : Option Defs := none
  strIds : List String := []     -- every id-defining position, as printed
  nonfinite : List String := []
  offgrid : List String := []
  malformed : List String := []

def parseCoord (s : String) : Except String Int :=
  match parseInt? s with
  | some v => .ok v
  | none => .error s

structure ParseSt where
  did : Option Id := none
  procs : Array Proc := #[]
  collab : Option Id := none
  parts : List (Id × Id) := []
  diag : Option (Id × Id × Id) := none
  shapes : List Shape := []
  edges : List Edge := []
  strIds : List String := []
  nonfinite : List String := []
  offgrid : List String := []
  malformed : List String := []
  /-- elements the implementation produced with an EMPTY id / flows with an empty end (printed `-`) -/
  emptyIds : List String := []

def ParseSt.bad (st : ParseSt) (m : String) : ParseSt := { st with malformed := m :: st.malformed }

def noteCoord (st : ParseSt) (s : String) : ParseSt :=
  if s == "nan" || s == "inf" then { st with nonfinite := s :: st.nonfinite }
  else { st with offgrid := s :: st.offgrid }

def parseDLine (c : Ctx) (st : ParseSt) (ws : List String) : ParseSt :=
  let idOf (s : String) : Option Id := c.toId s
  let idList (s : String) : Option (List Id) := (commaList s).mapM idOf
  match ws with
  | ["defs", i] => match idOf i with
    | some i' => { st with did := some i', strIds := i :: st.strIds }
    | none => st.bad s!"defs id {i}"
  | ["proc", _, i, ex] => match idOf i with
    | some i' =>
      let e := if ex == "1" then some true else if ex == "0" then some false else none
      { st with procs := st.procs.push ⟨i', e, [], []⟩, strIds := i :: st.strIds }
    | none => st.bad s!"proc id {i}"
  | ["node", _, k, "-", _, _] => { st with emptyIds := s!"a {k} has an empty id" :: st.emptyIds }
  | ["flow", _, i, "-", t] => { st with emptyIds := s!"sequence flow {i} → {t} has an empty source" :: st.emptyIds }
  | ["flow", _, i, s, "-"] => { st with emptyIds := s!"sequence flow {i} from {s} has an empty target" :: st.emptyIds }
  | ["node", pi, k, i, inc, out] =>
    match pi.toNat?, kindNames.lookup k, idOf i, idList inc, idList out with
    | some pi, some k, some i', some inc, some out =>
      if h : pi < st.procs.size then
        let p := st.procs[pi]
        { st with procs := st.procs.set pi { p with nodes := p.nodes ++ [⟨i', k, inc, out⟩] }, strIds := i :: st.strIds }
      else st.bad "node: process index"
    | _, _, _, _, _ => st.bad s!"node {k} {i} {inc} {out}"
  | ["flow", pi, i, s, t] =>
    match pi.toNat?, idOf i, idOf s, idOf t with
    | some pi, some i', some s, some t =>
      if h : pi < st.procs.size then
        let p := st.procs[pi]
        { st with procs := st.procs.set pi { p with flows := p.flows ++ [⟨i', s, t⟩] }, strIds := i :: st.strIds }
      else st.bad "flow: process index"
    | _, _, _, _ => st.bad s!"flow {i} {s} {t}"
  | ["collab", i] => match idOf i with
    | some i' => { st with collab := some i', strIds := i :: st.strIds }
    | none => st.bad s!"collab id {i}"
  | ["part", i, r] => match idOf i, idOf r with
    | some i', some r => { st with parts := st.parts ++ [(i', r)], strIds := i :: st.strIds }
    | _, _ => st.bad s!"part {i} {r}"
  | ["diagram", i, pl, el] => match idOf i, idOf pl, idOf el with
    | some i', some pl', some el => { st with diag := some (i', pl', el), strIds := pl :: i :: st.strIds }
    | _, _, _ => st.bad s!"diagram {i} {pl} {el}"
  | ["shape", i, el, x, y, w, h] => match idOf i, idOf el with
    | some i', some el =>
      match parseCoord x, parseCoord y, parseCoord w, parseCoord h with
      | .ok x, .ok y, .ok w, .ok h => { st with shapes := st.shapes ++ [⟨i', el, x, y, w, h⟩], strIds := i :: st.strIds }
      | _, _, _, _ => [x, y, w, h].foldl (fun st s => if (parseInt? s).isSome then st else noteCoord st s) st
    | _, _ => st.bad s!"shape {i} {el}"
  | ["edge", i, el, s, t, wps] => match idOf i, idOf el, idOf s, idOf t with
    | some i', some el, some s, some t =>
      let pts := (if wps == "-" then [] else wps.splitOn ";").map (fun p => p.splitOn ",")
      let cs := pts.flatten
      if cs.all (fun s => (parseInt? s).isSome) && pts.all (·.length = 2) then
        let pts' := pts.map (fun p => ((parseInt? (p.getD 0 "")).getD 0, (parseInt? (p.getD 1 "")).getD 0))
        { st with edges := st.edges ++ [⟨i', el, s, t, pts'⟩], strIds := i :: st.strIds }
      else cs.foldl (fun st s => if (parseInt? s).isSome then st else noteCoord st s) st
    | _, _, _, _ => st.bad s!"edge {i} {el} {s} {t}"
  | _ => st.bad (" ".intercalate ws)

def ParseSt.finish (st : ParseSt) : Impl :=
  let defs := st.did.map fun did =>
    ({ id := did, procs := st.procs.toList, collab := st.collab, parts := st.parts,
       diagram := st.diag.map fun (i, pl, el) => ⟨i, pl, el, st.shapes, st.edges⟩ } : Defs)
  { defs, strIds := st.strIds.reverse, nonfinite := st.nonfinite, offgrid := st.offgrid,
    malformed := st.malformed.reverse }

/-! ### oracle recovery: pair the model's id-defining positions with the implementation's -/

abbrev Binding := List (Nat × Nat)   -- call index ↦ token number

def oracleOf (b : Binding) : Nat → Nat := fun k => (b.lookup k).getD (unknownBase + k)

def bind1 (b : Binding) (m i : Id) : Binding :=
  match m, i with
  | .gen p t, .gen q u => if p = q && t ≥ unknownBase && u < unknownBase then (t - unknownBase, u) :: b else b
  | _, _ => b

def bindList {α : Type} (f : α → Id) (b : Binding) (ms is : List α) : Binding :=
  (ms.zip is).foldl (fun b (m, i) => bind1 b (f m) (f i)) b

/-- the model's definitions with the nodes of every process in flow-element order (as the harness prints them) -/
def canon (d : Defs) : Defs := { d with procs := d.procs.map fun p => { p with nodes := flowNodes p } }

def bindDefs (b : Binding) (m i : Defs) : Binding :=
  let b := bind1 b m.id i.id
  let b := (m.procs.zip i.procs).foldl (fun b (mp, ip) =>
    let b := bind1 b mp.id ip.id
    let b := if mp.nodes.length = ip.nodes.length then bindList (·.id) b mp.nodes ip.nodes else b
    if mp.flows.length = ip.flows.length then
      -- ends too: an activity `AddActivity` did not store shows up only as the end of a flow
      bindList (·.tgt) (bindList (·.src) (bindList (·.id) b mp.flows ip.flows) mp.flows ip.flows) mp.flows ip.flows
    else b) b
  let b := match m.collab, i.collab with
    | some x, some y => bind1 b x y
    | _, _ => b
  let b := bindList (·.1) b m.parts i.parts
  match m.diagram, i.diagram with
  | some g, some h =>
    let b := bind1 (bind1 b g.id h.id) g.plane h.plane
    let b := if g.shapes.length = h.shapes.length then bindList (·.id) b g.shapes h.shapes else b
    if g.edges.length = h.edges.length then bindList (·.id) b g.edges h.edges else b
  | _, _ => b

/-- the type switch of `AddActivity` as the extractor read it from the tree this driver was built for -/
def storedNow : Option (Kind → Bool) := Bpmn.Gen.C19.addActivityStored.map storedBy

def runModel (st : Kind → Bool) (b : Binding) (ops : List Op) : Option Defs :=
  (World.run st (oracleOf b) ops).result

def recover (st : Kind → Bool) (ops : List Op) (impl : Defs) : Nat → Binding → Binding
  | 0, b => b
  | fuel + 1, b =>
    match runModel st b ops with
    | none => b
    | some m =>
      let b' := bindDefs b (canon m) impl
      if b'.length = b.length then b else recover st ops impl fuel b'

/-! ### comparison -/

def cmp {α : Type} [BEq α] (what : String) (sh : α → String) (m i : α) (acc : List String) : List String :=
  if m == i then acc else s!"{what}: model {sh m} impl {sh i}" :: acc

def showNode (c : Ctx) (n : Node) : String :=
  s!"{repr n.kind}:{showId c n.id} in={showIds c n.incoming} out={showIds c n.outgoing}"

def showFlow (c : Ctx) (f : Flow) : String := s!"{showId c f.id}:{showId c f.src}->{showId c f.tgt}"

def showShape (c : Ctx) (s : Shape) : String := s!"{showId c s.id}[{showId c s.elem}] {s.x},{s.y} {s.w}x{s.h}"

def showEdge (c : Ctx) (e : Edge) : String :=
  s!"{showId c e.id}[{showId c e.elem}] {showId c e.src}->{showId c e.tgt} {e.wps}"

instance : BEq Node := ⟨fun a b => decide (a = b)⟩
instance : BEq Flow := ⟨fun a b => decide (a = b)⟩
instance : BEq Shape := ⟨fun a b => decide (a = b)⟩
instance : BEq Edge := ⟨fun a b => decide (a = b)⟩
instance : BEq Id := ⟨fun a b => decide (a = b)⟩

def cmpList {α : Type} [BEq α] (what : String) (sh : α → String) (ms is : List α) (acc : List String) : List String :=
  if ms.length != is.length then s!"{what}: model has {ms.length}, impl {is.length}" :: acc
  else
    let rec go (k : Nat) : List α → List α → List String → List String
      | m :: ms, i :: is, acc => go (k + 1) ms is (cmp s!"{what} #{k}" sh m i acc)
      | _, _, acc => acc
    go 0 ms is acc

def compareDefs (c : Ctx) (m i : Defs) : List String :=
  let acc := cmp "definitions id" (showId c) m.id i.id []
  let acc := if m.procs.length != i.procs.length then
      s!"processes: model {m.procs.length} impl {i.procs.length}" :: acc
    else (m.procs.zip i.procs).zipIdx.foldl (fun acc ((mp, ip), k) =>
      let acc := cmp s!"process {k} id" (showId c) mp.id ip.id acc
      let acc := cmp s!"process {k} isExecutable" (fun (x : Option Bool) => s!"{x}") mp.executable ip.executable acc
      let acc := cmpList s!"process {k} node" (showNode c) mp.nodes ip.nodes acc
      cmpList s!"process {k} flow" (showFlow c) mp.flows ip.flows acc) acc
  let acc := cmp "collaboration" (fun (x : Option Id) => (x.map (showId c)).getD "-") m.collab i.collab acc
  let acc := cmpList "participant" (fun (x : Id × Id) => s!"{showId c x.1}->{showId c x.2}") m.parts i.parts acc
  match m.diagram, i.diagram with
  | none, none => acc
  | some g, some h =>
    let acc := cmp "diagram id" (showId c) g.id h.id acc
    let acc := cmp "plane id" (showId c) g.plane h.plane acc
    let acc := cmp "plane element" (showId c) g.planeElem h.planeElem acc
    let acc := cmpList "shape" (showShape c) g.shapes h.shapes acc
    cmpList "edge" (showEdge c) g.edges h.edges acc
  | some _, none => "diagram: model has one, impl none" :: acc
  | none, some _ => "diagram: model none, impl has one" :: acc

/-! ### the C19 predicates on the implementation's output -/

def dupsOf (l : List String) : List String :=
  let rec go : List String → List String → List String → List String
    | [], _, acc => acc.reverse
    | x :: xs, seen, acc =>
      if seen.contains x then go xs seen (if acc.contains x then acc else x :: acc) else go xs (x :: seen) acc
  go l [] []

/-- largest node size, plain units -/
def maxW : Nat := 120
def maxH : Nat := 100

def gapsCoverSizes (cfg : Cfg) : Bool :=
  cfg.cg ≥ (maxW * cfg.scale : Nat) && cfg.rg ≥ (maxH * cfg.scale : Nat) && cfg.pg ≥ (maxH * cfg.scale : Nat)

/-- ids of the script's activities that `AddActivity` does not store (per process) -/
structure ScriptInfo where
  acts : List (List (Kind × Option Nat)) := []   -- per process, in insertion order
  cur : List (Kind × Option Nat) := []

/-- the types the known finding `activity_not_stored` is about (not stored on the tree the finding was recorded
on); a dangling flow caused by any OTHER type the switch no longer stores gets a signature of its own -/
def knownUnstored : List Kind := [.adHocSubProcess, .transaction, .activity]

def specsOf (c : Ctx) (cfg : Cfg) (unstored : List Kind) (impl : Impl) (d : Defs) : List String := Id.run do
  let hasUnstored := !unstored.isEmpty
  let notStoredSig := match unstored.find? (fun k => !knownUnstored.contains k) with
    | some k => s!"activity_not_stored_{k.goName}:"
    | none => "activity_not_stored:"
  let mut sp : List String := []
  -- ids unique
  let dups := dupsOf impl.strIds
  let genDups := dups.filter (fun s => (splitGen s).isSome)
  if !genDups.isEmpty then
    -- a collision of two generated ids: everything else in this case is a consequence of it
    return [s!"duplicate_generated_id: {genDups} appear twice among the ids of one definitions"]
  if !dups.isEmpty then sp := s!"duplicate_id: {dups}" :: sp
  -- flows
  let mut k := 0
  for p in d.procs do
    for f in p.flows do
      let srcN := p.nodes.filter (·.id = f.src)
      let tgtN := p.nodes.filter (·.id = f.tgt)
      if srcN.isEmpty || tgtN.isEmpty then
        if hasUnstored then
          sp := s!"{notStoredSig} process {k} flow {showFlow c f}: an end of the flow is not in the process (AddActivity drops activity types outside its type switch)" :: sp
        else
          sp := s!"flow_end_missing: process {k} flow {showFlow c f}" :: sp
      else
        if !(srcN.any (·.outgoing.contains f.id)) then
          sp := s!"flow_not_listed: process {k} flow {showFlow c f} not among the outgoing flows of its source" :: sp
        if !(tgtN.any (·.incoming.contains f.id)) then
          sp := s!"flow_not_listed: process {k} flow {showFlow c f} not among the incoming flows of its target" :: sp
    for n in p.nodes do
      if n.kind = .startEvent && !n.incoming.isEmpty then
        sp := s!"start_has_incoming: process {k} {showNode c n}" :: sp
      if n.kind = .endEvent && !n.outgoing.isEmpty then
        sp := s!"end_has_outgoing: process {k} {showNode c n}" :: sp
    k := k + 1
  -- layout
  for s in impl.nonfinite do
    sp := s!"nonfinite_coord: {s}" :: sp
  match d.diagram with
  | none => pure ()
  | some g =>
    let nodeIds := d.procs.flatMap (fun p => p.nodes.map (·.id))
    let flows := d.procs.flatMap (·.flows)
    for nid in nodeIds do
      let cnt := (g.shapes.filter (·.elem = nid)).length
      if cnt != 1 then sp := s!"shape_count: node {showId c nid} has {cnt} shapes" :: sp
    for s in g.shapes do
      if !nodeIds.contains s.elem then sp := s!"shape_count: shape {showShape c s} is of no flow node" :: sp
    for f in flows do
      let cnt := (g.edges.filter (·.elem = f.id)).length
      let dangling := !(nodeIds.contains f.src && nodeIds.contains f.tgt)
      if cnt != 1 && !(dangling && hasUnstored) then
        sp := s!"edge_count: flow {showFlow c f} has {cnt} edges" :: sp
    for e in g.edges do
      if !(flows.any (·.id = e.elem)) then sp := s!"edge_count: edge {showEdge c e} is of no sequence flow" :: sp
      match g.shapes.find? (·.elem = e.src), g.shapes.find? (·.elem = e.tgt), e.wps.head?, e.wps.getLast? with
      | some s, some t, some a, some b =>
        if e.wps.length < 2 then sp := s!"edge_not_on_shape: edge {showEdge c e} has fewer than two waypoints" :: sp
        if !onBorder s a then
          sp := s!"edge_not_on_shape: edge {showEdge c e} starts at {a}, source shape {showShape c s}" :: sp
        if !onBorder t b then
          sp := s!"edge_not_on_shape: edge {showEdge c e} ends at {b}, target shape {showShape c t}" :: sp
      | _, _, _, _ => sp := s!"edge_not_on_shape: edge {showEdge c e}: no waypoints or no shape for an end" :: sp
    if gapsCoverSizes cfg then
      let rec pairs : List Shape → List String → List String
        | [], acc => acc
        | s :: ss, acc =>
          pairs ss (ss.foldl (fun acc t =>
            if disjoint s t then acc else s!"shape_overlap: {showShape c s} and {showShape c t}" :: acc) acc)
      sp := pairs g.shapes sp
  return sp

/-! ### one case -/

def kv (w : String) (key : String) : Option String :=
  if w.startsWith (key ++ "=") then some ((w.drop (key.length + 1)).toString) else none

/-- 62^7: the number of values `RandBytes(7)` can return -/
def idSpace : Nat := 3521614606208

/-- Even an ideal generator repeats a value now and then among `n` draws (birthday bound, λ = n²/(2·62^7)).
The stress case reports a defect only when the number of repeats is beyond what an ideal generator gives with
probability < 1e-4: 2 repeats while λ ≤ 0.1, else 5 + 5λ. (Inside ONE definitions, a few hundred ids, λ < 1e-8:
there every repeat counts.) -/
def dupThreshold (n : Nat) : Nat :=
  let lamMilli := n * n * 1000 / (2 * idSpace)
  if lamMilli ≤ 100 then 2 else 5 + 5 * lamMilli / 1000

def checkIds (lines : List String) : CaseResult := Id.run do
  let mut r : CaseResult := { nontrivial := true }
  for ln in lines do
    match words ln with
    | ["randbytes", cs, ds, f] =>
      match (kv cs "calls").bind String.toNat?, (kv ds "dups").bind String.toNat? with
      | some n, some d =>
        if d ≥ dupThreshold n then
          r := { r with specs := s!"duplicate_generated_id: RandBytes(7) returned {d} repeated values in {n} consecutive calls ({f}); an ideal generator stays below {dupThreshold n}" :: r.specs }
      | _, _ => r := { r with bad := ln :: r.bad }
    | ["builds", ns, _, ds, f] =>
      match (kv ds "dupids").bind String.toNat? with
      | some 0 => pure ()
      | some n => r := { r with specs := s!"duplicate_generated_id: {n} ids repeated inside one built definitions ({ns}, {f})" :: r.specs }
      | none => r := { r with bad := ln :: r.bad }
    | _ => r := { r with bad := ln :: r.bad }
  return r

def checkBuild (params lines : List String) : CaseResult := Id.run do
  let some (cfg, layoutOn) := (match params with
      | [_, s, sx, sy, cg, rg, pg, l] => do
        let s ← s.toNat?; let sx ← parseInt? sx; let sy ← parseInt? sy; let cg ← parseInt? cg
        let rg ← parseInt? rg; let pg ← parseInt? pg; let l ← parseBool? l
        pure (({ sx, sy, cg, rg, pg, scale := s } : Cfg), l)
      | _ => none) | return { bad := ["c19 params"] }
  -- (when the type switch of AddActivity cannot be read the obligation on that fact is broken already; the scripts are then
  -- judged against the builder that stores EVERY activity kind — what the property demands — so that a failing input is
  -- still found)
  let stored := storedNow.getD (fun _ => true)
  let mut r : CaseResult := {}
  if storedNow.isNone then r := { r with infos := ["fact addActivityStored unreadable: judged against a builder that stores every kind"] }
  -- the grid on which the integer model is exact: even unit values, scale a multiple of 8
  if cfg.scale % 8 != 0 || [cfg.sx, cfg.sy, cfg.cg, cfg.rg, cfg.pg].any (· % 2 != 0) then
    return { bad := ["configuration off the exact grid"] }
  -- pass 1: script, token table
  let mut ops : List Op := []
  let mut info : ScriptInfo := {}
  let mut presets : List Nat := []
  let mut toks : List String := []
  let mut started := 0
  for ln in lines do
    match words ln with
    | ["s", "newdb"] => started := started + 1
    | ["s", "newpb"] => if started < 2 then started := started + 1 else ops := ops ++ [Op.newpb]
    | ["s", "act", k, pre] =>
      match kindNames.lookup k, (if pre == "-" then some none else (presetNum pre).map some) with
      | some k, some pre =>
        ops := ops ++ [Op.act k pre]
        info := { info with cur := info.cur ++ [(k, pre)] }
        match pre with
        | some p => presets := p :: presets
        | none => pure ()
      | _, _ => r := { r with bad := ln :: r.bad }
    | ["s", "out"] =>
      ops := ops ++ [Op.out]
      info := { acts := info.acts ++ [info.cur], cur := [] }
    | ["s", "layout"] => ops := ops ++ [Op.layout cfg]
    | ["s", "layoutwith", sx, sy, cg, rg, pg] =>
      -- an earlier AutoLayout with another configuration (same scale)
      match parseInt? sx, parseInt? sy, parseInt? cg, parseInt? rg, parseInt? pg with
      | some sx, some sy, some cg, some rg, some pg =>
        if [sx, sy, cg, rg, pg].any (· % 2 != 0) then return { bad := ["configuration off the exact grid"] }
        ops := ops ++ [Op.layout { sx, sy, cg, rg, pg, scale := cfg.scale }]
      | _, _, _, _, _ => return { bad := ["c19 layoutwith"] }
    | ["s", "dbout"] => ops := ops ++ [Op.dbout]
    | "d" :: ws =>
      for w in ws do
        for part in w.splitOn "," do
          match splitGen part with
          | some (_, t) => if !toks.contains t then toks := toks ++ [t]
          | none => pure ()
    | _ => pure ()
  if started != 2 then return { bad := ["script does not start with newdb, newpb"] }
  let _ := layoutOn
  let c : Ctx := { toks, presets }
  -- ids are unique across the WHOLE definitions — diagram, plane, shapes and edges included — whatever they look like
  -- (judged on the raw strings, before anything is interpreted)
  let mut declared : List String := []
  for ln in lines do
    match words ln with
    | ["d", "defs", id] => declared := id :: declared
    | "d" :: "proc" :: _ :: id :: _ => declared := id :: declared
    | "d" :: "node" :: _ :: _ :: id :: _ => declared := id :: declared
    | "d" :: "flow" :: _ :: id :: _ => declared := id :: declared
    | "d" :: "diagram" :: id :: plane :: _ => declared := plane :: id :: declared
    | "d" :: "shape" :: id :: _ => declared := id :: declared
    | "d" :: "edge" :: id :: _ => declared := id :: declared
    | _ => pure ()
  let rawDups := (dupsOf (declared.filter (fun s => s != "-" && s != ""))).filter (fun s => (splitGen s).isNone)
  if !rawDups.isEmpty then
    r := { r with specs := s!"duplicate_id_in_document: {rawDups} declared twice (model and diagram elements of one definitions)" :: r.specs }
  -- pass 2: what the implementation produced
  let mut st : ParseSt := {}
  let mut panicked := false
  for ln in lines do
    match words ln with
    | "d" :: ws => st := parseDLine c st ws
    | "panic" :: rest =>
      panicked := true
      r := { r with specs := s!"builder_panic: {rest}" :: r.specs }
    | _ => pure ()
  if panicked then return r
  for m in st.emptyIds.reverse do
    r := { r with specs := s!"empty_id: {m}" :: r.specs }
  if !st.emptyIds.isEmpty then return r
  let impl := st.finish
  for m in impl.malformed do
    r := { r with bad := s!"cannot parse: {m}" :: r.bad }
  let some d := impl.defs | return { r with bad := "no definitions recorded" :: r.bad }
  if !r.bad.isEmpty then return r
  let unstored := (info.acts.flatten.map (·.1)).filter (fun k => !stored k) |>.eraseDups
  -- model vs implementation
  if !impl.offgrid.isEmpty then
    r := { r with diffs := s!"coordinates off the exact grid: {impl.offgrid}" :: r.diffs }
  else if impl.nonfinite.isEmpty then
    let b := recover stored ops d 6 []
    match runModel stored b ops with
    | none => r := { r with bad := "script has no dbout" :: r.bad }
    | some m => r := { r with diffs := compareDefs c (canon m) d ++ r.diffs }
  -- the property on the implementation's output
  let sp := specsOf c cfg unstored impl d
  let dupGen := sp.any (·.startsWith "duplicate_generated_id")
  r := { r with specs := sp ++ r.specs }
  -- round trip and engine runs
  let mut pi := 0
  for ln in lines do
    match words ln with
    | ["again", "changed", b] =>
      if b == "1" then
        r := { r with specs := "earlier_definitions_changed_by_later_build: the definitions a builder has returned changed when the same builder went on to build the next one" :: r.specs }
    | "again" :: "panic" :: rest => r := { r with specs := s!"builder_reuse_panics: {" ".intercalate rest}" :: r.specs }
    | ["rt", "same", _] => pure ()
    | "rt" :: "differ" :: _ =>
      let back := (lines.filter (·.startsWith "r ")).map (fun s => (s.drop 2).toString)
      let orig := (lines.filter (·.startsWith "d ")).map (fun s => (s.drop 2).toString)
      let firstDiff := ((orig.zip back).find? (fun (a, b) => a != b)).map (fun (a, b) => s!"'{a}' became '{b}'")
      if !dupGen then
        r := { r with specs := s!"roundtrip_changed: {orig.length} lines before, {back.length} after; {firstDiff.getD "length differs"}" :: r.specs }
    | "rt" :: kind :: rest => r := { r with specs := s!"roundtrip_error: {kind} {rest}" :: r.specs }
    | ["run", p, mode, startRes, req, cease, _complete, errors, timeout, _attempts] =>
      let some p := p.toNat? | r := { r with bad := ln :: r.bad }
      pi := p
      let expected := info.acts.getD pi []
      -- the ids the implementation gave the activities of this process, in insertion order: read them off
      -- the chain of flows (flow j of the process ends in activity j)
      let proc := d.procs.getD pi ⟨d.id, none, [], []⟩
      let actIds := (proc.flows.take (info.acts.getD pi []).length).map (·.tgt)
      let reqIds := ((kv req "requested").map commaList).getD []
      let reqParsed := reqIds.map c.toId
      if startRes != "ok" then
        r := { r with specs := s!"run_start_failed: process {pi} ({mode}): {startRes}" :: r.specs }
      else if !dupGen then
        if kv timeout "timeout" == some "1" || kv cease "cease" != some "1" then
          r := { r with specs := s!"run_hang: process {pi} ({mode}) did not cease; requested {reqIds}" :: r.specs }
        if reqParsed != actIds.map some || expected.length != actIds.length then
          r := { r with specs := s!"run_order: process {pi} ({mode}) requested {reqIds}, added {showIds c actIds}" :: r.specs }
        if kv errors "errors" != some "0" then
          r := { r with specs := s!"run_error_trace: process {pi} ({mode}) {errors}" :: r.specs }
    | _ => pure ()
  let total := (info.acts.map List.length).sum
  return { r with nontrivial := total > 0 }

/-- params: `build <scale> <sx> <sy> <cg> <rg> <pg> <layout>` | `ids <calls> <builds>` -/
def check (params : List String) (lines : List String) : CaseResult :=
  match params.head? with
  | some "build" => checkBuild params lines
  | some "ids" => checkIds lines
  | _ => { bad := ["c19 params"] }

end Bpmn.Driver.C19
