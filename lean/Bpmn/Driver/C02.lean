import Bpmn.Driver.Util
import Bpmn.Model.Completion
import Bpmn.Gen.C02
/-! Driver for C02 (family `c02`).

One case = the chronological history of one instance: driver actions (`op …`), the instance's traces (`obs <trace>`),
the return of `StartAll` and of every `WaitUntilComplete` call.

(a) `specs`: the C02 predicate evaluated on what the IMPLEMENTATION did (independent of the model);
(b) `diffs`: the history replayed through `Bpmn.Model.Completion` at the facts extracted from /repo. Every line
    advances the model (driver actions move the starter to the hook point the harness enforced, observed traces are
    the token stream, `settle` lets the engine's own goroutines run); the model must be able to take every observed
    trace, must cease as often as observed, and must return what the calls returned. Done for enforced schedules and
    for free runs in which one monitor exists (otherwise the start-up race is not pinned by the history). -/
namespace Bpmn.Driver.C02
open Bpmn.Driver Bpmn.Model.Completion

def factsParams (n : Nat) : Params :=
  { subBefore := Bpmn.Gen.C02.subscribeBeforeTrigger.getD false
    perStart := Bpmn.Gen.C02.monitorPerStartWith.getD true
    sigCap := Bpmn.Gen.C02.waitSignalCap.getD 0
    subBuf := Bpmn.Gen.C02.subscribeBufCap.getD 10
    n := n }

def kv (ws : List String) (key : String) : Option String :=
  ws.findSome? fun w => if w.startsWith (key ++ "=") then some ((w.drop (key.length + 1)).toString) else none

def kvNat (ws : List String) (key : String) : Option Nat := (kv ws key).bind String.toNat?

/-- ids of start events are `s<digits>` (harness convention, checked against `prog starts`) -/
def isStartNode (id : String) : Bool :=
  id.startsWith "s" && id.length ≥ 2 && ((id.drop 1).toString.toNat?).isSome

/-! ## (b) lock-step replay -/

structure LS where
  m : St
  held : Bool := false
  heldHelper : Option Nat := none
  undecided : List Nat := []         -- tiny-timeout calls whose outcome is not known yet: their helper is not run
  owedTrue : List Nat := []          -- calls that returned true before the recorder had caught up
  lateSub : Bool := false            -- variant: the starter is parked after Trigger until the start trace went out
  waitIdx : List (Nat × Nat) := []   -- call id ↦ index in the model
  waitTmo : List (Nat × String) := []
  announced : List String := []      -- flow ids announced as forked children by a FlowTrace
  obsCease : Nat := 0
  diffs : List String := []

def LS.choices (ls : LS) : List Choice :=
  (internalChoices ls.m).filter fun c =>
    match c with
    | .starter => !ls.held
    | .helper w => ls.heldHelper != some w && !ls.undecided.contains w
    | _ => true

def settleLS (P : Params) : Nat → LS → LS
  | 0, ls => ls
  | fuel + 1, ls =>
    let m' := ls.choices.foldl (step P) ls.m
    if m' = ls.m then ls else settleLS P fuel { ls with m := m' }

def fuelFor (ls : LS) : Nat := 60 + 8 * ls.m.waits.length + 4 * ls.m.mons.length

def LS.settle (P : Params) (ls : LS) : LS := settleLS P (fuelFor ls) ls

def LS.diff (ls : LS) (d : String) : LS := { ls with diffs := d :: ls.diffs }

/-- run the starter until `stop` holds or it cannot move -/
def starterUntil (P : Params) (stop : St → Bool) : Nat → St → St
  | 0, m => m
  | fuel + 1, m =>
    if stop m then m else
      let m' := step P m .starter
      if m' = m then m else starterUntil P stop fuel m'

def executed (P : Params) (m : St) : Nat := (program P).length - m.prog.length

/-- an environment choice the history demands; it must be enabled in the model -/
def LS.env (P : Params) (ls : LS) (c : Choice) (what : String) : LS :=
  let ls := ls.settle P
  let m' := step P ls.m c
  if m' = ls.m then ls.diff s!"the model cannot take `{what}` here (tracer stalled or no such token)"
  else { ls with m := m' }

def flowIds (lst : String) : List String := (commaList lst).map fun x => (x.splitOn ":").headD ""

def LS.trace (P : Params) (ls : LS) (ws : List String) : LS :=
  match ws with
  | ["instantiation"] => ls
  | ["cease"] =>
    let ls := ls.settle P
    let ls := { ls with obsCease := ls.obsCease + 1 }
    if ceases ls.m < ls.obsCease then ls.diff s!"cease #{ls.obsCease} observed where the model cannot emit it" else ls
  | ["newflow", f] =>
    let ls := if ls.announced.contains f then ls.env P .birth s!"newflow {f} (forked token)"
              else ls.env P .fire s!"newflow {f} (token of a start event)"
    ls.env P .other s!"newflow {f}"
  | ["flow", node, lst] =>
    let ls := { ls with announced := ls.announced ++ (flowIds lst) }
    if isStartNode node then
      let ls := ls.env P .startTrace s!"flow {node}"
      if ls.lateSub then { ls with held := false, lateSub := false }.settle P else ls
    else ls.env P .other s!"flow {node}"
  | ["term", f, node] =>
    let ls := if isStartNode node then ls.env P .startTrace s!"term {f} {node}" else ls.env P .other s!"term {f} {node}"
    ls.env P .death s!"end of token {f}"
  | k :: _ => ls.env P .other k
  | [] => ls

def LS.widx (ls : LS) (id : Nat) : Option Nat := (ls.waitIdx.find? (·.1 == id)).map (·.2)

def LS.line (P : Params) (scen : String) (ls : LS) (ws : List String) : LS :=
  match ws with
  | "op" :: "startall" :: rest =>
    let hold := (kv rest "hold").getD ""
    let fuel := 4 * (program P).length + 4
    if hold == "after_trigger" then
      { ls with m := starterUntil P (fun m => m.triggered ≥ 1) fuel ls.m, held := true }
    else if hold == "after_monitor" then
      let l0 := (startWithAt P 0).length
      let stop : St → Bool :=
        if scen == "slow2" then fun m => executed P m ≥ l0 && m.prog.head? == some SI.trigger
        else fun m => m.triggered ≥ 2
      { ls with m := starterUntil P stop fuel ls.m, held := true }
    else if ls.lateSub then
      { ls with m := starterUntil P (fun m => m.triggered ≥ 1) fuel ls.m, held := true }
    else ls.settle P
  | "op" :: "release" :: _ => { ls with held := false }.settle P
  | "op" :: "wait" :: id :: phase :: tmo :: _ =>
    match id.toNat? with
    | none => ls
    | some id =>
      let ls := ls.settle P
      let w := ls.m.waits.length
      let ls := { ls with m := step P ls.m .call, waitIdx := (id, w) :: ls.waitIdx, waitTmo := (id, tmo) :: ls.waitTmo }
      if phase == "held" then
        { ls with m := step P ls.m (.helper w), heldHelper := some w }
      else if tmo == "tiny" then { ls with undecided := w :: ls.undecided }
      else ls
  | "op" :: _ => ls.settle P
  | "obs" :: "startall" :: res :: _ =>
    let ls := ls.settle P
    if res == "returned" && !ls.m.returned then ls.diff "StartAll returned; the model's starter is still blocked"
    else if res == "blocked" && ls.m.returned then ls.diff "StartAll blocked at quiescence; the model's starter has returned"
    else ls
  | "obs" :: "wait" :: id :: rest =>
    match id.toNat?, kvNat rest "ret" with
    | some id, some ret =>
      match ls.widx id with
      | none => ls.diff s!"wait {id} returned but was never issued"
      | some w =>
        let heldOne := ls.heldHelper == some w
        -- a caller whose helper is parked, or whose tiny timeout won the race, gives up first
        let giveUp := heldOne || (ls.undecided.contains w && ret == 0)
        let ls := if giveUp then { ls with m := step P ls.m (.expire w) } else ls
        let ls := { ls with heldHelper := if heldOne then none else ls.heldHelper, undecided := ls.undecided.erase w }
        let ls := ls.settle P
        let got := (ls.m.waits[w]?.map (·.caller)) == some CPc.gotTrue
        if ret == 1 then
          -- the recorder may lag behind the caller: the model has until the end of the history
          if got then ls else { ls with owedTrue := w :: ls.owedTrue }
        else
          let ls := { ls with m := step P ls.m (.expire w) }
          if got then ls.diff s!"wait {id} returned false; the model's caller got true" else ls
    | _, _ => ls
  | "obs" :: "final" :: rest =>
    let ls := ls.settle P
    let ls := if ceases ls.m != ls.obsCease then
        ls.diff s!"cease emitted {ls.obsCease}x; the model emits it {ceases ls.m}x on this history" else ls
    let ls := ls.owedTrue.foldl (fun ls w =>
      if (ls.m.waits[w]?.map (·.caller)) == some CPc.gotTrue then ls
      else ls.diff s!"a wait (model index {w}) returned true; the model's caller never gets true on this history") ls
    match kv rest "startall" with
    | some "returned" => if !ls.m.returned then ls.diff "final: StartAll returned; model blocked" else ls
    | some "blocked" => if ls.m.returned then ls.diff "final: StartAll blocked; model returned" else ls
    | _ => ls
  | "obs" :: "hold" :: _ => ls
  | "obs" :: "noquiesce" :: _ => ls
  | "obs" :: "ret" :: _ => ls
  | "obs" :: t => ls.trace P t
  | _ => ls

def replay (P : Params) (scen : String) (late : Bool) (lines : List (List String)) : LS :=
  lines.foldl (LS.line P scen) { m := init P, lateSub := late }

/-! ## (a) the property on the implementation's history -/

structure WaitRec where
  id : Nat
  phase : String
  tmo : String
  opPos : Nat
  ceaseBeforeOp : Bool
  ret : Option Nat := none
  pending : Nat := 0
  ceaseBeforeRet : Bool := false

structure Hist where
  n : Nat := 0
  ceasePos : List Nat := []          -- positions (line numbers) of cease traces
  afterCease : List String := []     -- flow traces of the instance recorded after the first cease
  openTasks : List String := []      -- task requests seen and not answered, at the current position
  ceaseWithOpen : List String := []
  waits : List WaitRec := []
  startAll : String := ""            -- returned | blocked | error …
  answered : Bool := false
  noquiesce : Bool := false
  expiredBefore : Bool := false      -- some wait has returned false so far
  bad : List String := []

def Hist.line (h : Hist) (pos : Nat) (ws : List String) : Hist :=
  match ws with
  | ["prog", "starts", n, "shape", _] => { h with n := n.toNat?.getD 0 }
  | "op" :: "answer" :: node :: occ :: _ => { h with openTasks := h.openTasks.erase s!"{node}#{occ}" }
  | "op" :: "answered" :: _ => { h with answered := true }
  | "op" :: "wait" :: id :: phase :: tmo :: _ =>
    { h with waits := h.waits ++ [{ id := id.toNat?.getD 0, phase, tmo, opPos := pos, ceaseBeforeOp := !h.ceasePos.isEmpty }] }
  | "op" :: _ => h
  | "obs" :: "wait" :: id :: rest =>
    let id := id.toNat?.getD 0
    let ret := kvNat rest "ret"
    { h with
      waits := h.waits.map fun w => if w.id == id then
        { w with ret := ret, pending := (kvNat rest "pending").getD 0, ceaseBeforeRet := !h.ceasePos.isEmpty } else w
      expiredBefore := h.expiredBefore || ret == some 0 }
  | "obs" :: "startall" :: res :: _ => { h with startAll := res }
  | "obs" :: "final" :: rest =>
    match kv rest "startall" with
    | some r => { h with startAll := r }
    | none => { h with bad := "final without startall" :: h.bad }
  | "obs" :: "noquiesce" :: _ => { h with noquiesce := true }
  | "obs" :: "hold" :: _ => h
  | "obs" :: "ret" :: _ => h
  | "obs" :: "instantiation" :: _ => h
  | "obs" :: "cease" :: _ =>
    { h with ceasePos := h.ceasePos ++ [pos],
             ceaseWithOpen := if h.ceasePos.isEmpty then h.openTasks else h.ceaseWithOpen }
  | "obs" :: "task" :: node :: occ :: _ =>
    let h := { h with openTasks := h.openTasks ++ [s!"{node}#{occ}"] }
    if h.ceasePos.isEmpty then h else { h with afterCease := h.afterCease ++ [s!"task {node}"] }
  | "obs" :: k :: rest =>
    if h.ceasePos.isEmpty then h else { h with afterCease := h.afterCease ++ [" ".intercalate (k :: rest)] }
  | "harness-error" :: _ => { h with bad := " ".intercalate ws :: h.bad }
  | _ => { h with bad := " ".intercalate ws :: h.bad }

def check (params lines : List String) : CaseResult := Id.run do
  let (shape, n, scen) ← match params with
    | shape :: n :: scen :: _ => pure (shape, n.toNat?.getD 0, scen)
    | _ => return { bad := ["c02 params"] }
  if n == 0 then return { bad := ["c02 params: number of start events"] }
  let toks := lines.map words
  let mut h : Hist := {}
  let mut pos := 0
  for ws in toks do
    h := h.line pos ws
    pos := pos + 1
  if !h.bad.isEmpty then return { bad := h.bad }
  if h.n != n then return { bad := [s!"prog starts {h.n} vs params {n}"] }
  let P := factsParams n
  let manyMonitors := P.monitorsPerStartAll > 1
  let mut r : CaseResult := {}
  -- ---- lock-step
  let pinned := scen != "free" || !manyMonitors
  let mut explainedByLateSub := false
  if pinned then
    let ls := replay P scen false toks
    if !ls.diffs.isEmpty && scen == "free" && n == 1 && !P.subBefore then
      -- the only other start-up schedule of a single start event: the monitor subscribes after the start's trace
      let ls2 := replay P scen true toks
      if ls2.diffs.isEmpty then explainedByLateSub := true
      else r := { r with diffs := ls.diffs }
    else r := { r with diffs := ls.diffs }
  -- ---- the property on the implementation's history
  let add (r : CaseResult) (s : String) : CaseResult := { r with specs := s :: r.specs }
  if h.ceasePos.length > 1 then
    r := add r (if manyMonitors then s!"cease_twice_second_monitor: cease-flow trace emitted {h.ceasePos.length} times ({n} start events, one monitor per StartWith)"
                else s!"cease_twice: cease-flow trace emitted {h.ceasePos.length} times")
  let late := h.afterCease.filter (· != "cease")
  if !late.isEmpty then
    r := add r s!"cease_not_last: {late.length} flow traces after the cease-flow trace, first: {late.headD ""}"
  if !h.ceaseWithOpen.isEmpty then
    r := add r s!"cease_with_pending_task: cease-flow trace while {h.ceaseWithOpen} unanswered"
  for w in h.waits do
    if w.ret == some 1 && (w.pending > 0 || h.ceasePos.isEmpty) then
      r := add r s!"wait_true_before_cease: wait {w.id} returned true with {w.pending} task requests unanswered, cease traces in the run: {h.ceasePos.length}"
  let due := h.answered && !h.noquiesce
  if due && h.startAll == "blocked" then
    r := add r (if manyMonitors then s!"startall_blocks_two_starts: StartAll has not returned at quiescence ({n} start events, shape {shape})"
                else s!"startall_blocks: StartAll has not returned at quiescence ({n} start events)")
  if due && h.ceasePos.isEmpty && h.startAll != "blocked" then
    r := add r (if (scen == "missed" || explainedByLateSub) && !P.subBefore then
                  "never_completes_missed_start: every task answered, no token left, no cease-flow trace: the start event's flow trace was broadcast before the monitor subscribed"
                else if manyMonitors then
                  s!"never_completes_two_starts: every task answered, no cease-flow trace ({n} start events, one monitor per StartWith)"
                else "never_completes: every task answered, no token left, no cease-flow trace")
  -- waits that had to return true: issued (post) or still running (span) after the cease, long deadline
  let mut lateFalse : List Nat := []
  for w in h.waits do
    if w.tmo == "long" && w.ret == some 0 && ((w.phase == "post" && w.ceaseBeforeOp) || (w.phase == "span" && w.ceaseBeforeRet)) then
      lateFalse := lateFalse ++ [w.id]
  if !lateFalse.isEmpty then
    let firstFalse := (h.waits.find? (·.ret == some 0)).map (·.id)
    let expiredEarlier := match firstFalse with
      | some f => lateFalse.any (· != f) || (h.waits.any fun w => w.id == f && !(lateFalse.contains f))
      | none => false
    r := add r (if manyMonitors then s!"wait_never_true_second_monitor: waits {lateFalse} false after the cease-flow trace ({n} start events)"
                else if P.sigCap == 0 && expiredEarlier then
                  s!"wait_after_expired_wait_never_true: waits {lateFalse} false after the cease-flow trace; an earlier wait had ended by expiry"
                else s!"wait_false_after_cease: waits {lateFalse} false after the cease-flow trace")
  return { r with nontrivial := h.answered && !h.waits.isEmpty }

end Bpmn.Driver.C02
