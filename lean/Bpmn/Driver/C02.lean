import Bpmn.Driver.Util
import Bpmn.Model.Completion
import Bpmn.Gen.C02
/-! Driver for C02 (family `c02`).

One case = the chronological history of one instance: driver actions (`op …`), the instance's traces (`obs <trace>`),
the return of `StartAll` and of every `WaitUntilComplete` call.

(a) `specs`: the C02 predicate evaluated on what the IMPLEMENTATION did (independent of the model);
(b) `diffs`: the history replayed through `Bpmn.Model.Completion` at the facts extracted from /repo. Every line
    advances the model (driver actions move the starter to the hook point the harness enforced, observed traces are
    the token stream, `settle` lets the engine's own goroutines run); the model must be able to take every observed
    trace, must cease as often as observed, and must return what the calls returned. Done for enforced schedules and
    for free runs in which one monitor exists (otherwise the start-up race is not pinned by the history). -/
namespace Bpmn.Driver.C02
open Bpmn.Driver Bpmn.Model.Completion

def factsParams (n : Nat) : Params :=
  { subBefore := Bpmn.Gen.C02.subscribeBeforeTrigger.getD false
    perStart := Bpmn.Gen.C02.monitorPerStartWith.getD true
    sigCap := Bpmn.Gen.C02.waitSignalCap.getD 0
    subBuf := Bpmn.Gen.C02.subscribeBufCap.getD 10
    detached := Bpmn.Gen.C02.boundaryEndTraceDetached.getD true
    n := n }

def kv (ws : List String) (key : String) : Option String :=
  ws.findSome? fun w => if w.startsWith (key ++ "=") then some ((w.drop (key.length + 1)).toString) else none

def kvNat (ws : List String) (key : String) : Option Nat := (kv ws key).bind String.toNat?

/-- ids of start events are `s<digits>` (harness convention, checked against `prog starts`) -/
def isStartNode (id : String) : Bool :=
  id.startsWith "s" && id.length ≥ 2 && ((id.drop 1).toString.toNat?).isSome

/-! ## (b) lock-step replay -/

/-- what the goroutine running `StartAll` passes, in order: its instructions and the `process.startwith.*` schedule
points of /repo (layout of `StartWith`: with `subBefore` the monitor is created first) -/
inductive Ev
  | instr (i : SI)
  | hook (name : String)
deriving DecidableEq, Repr

def startWithEvents (P : Params) (withMonitor : Bool) : List Ev :=
  let monitor : List Ev := if withMonitor then [.instr .subscribe, .instr .lock] else []
  if P.subBefore then
    monitor ++ [.hook "after_monitor", .hook "before_trigger", .instr .trigger, .hook "after_trigger"]
  else
    [.hook "before_trigger", .instr .trigger, .hook "after_trigger"] ++ monitor ++ [.hook "after_monitor"]

def eventsFrom (P : Params) : Nat → Nat → List Ev
  | _, 0 => []
  | i, k + 1 => startWithEvents P (P.perStart || i == 0) ++ eventsFrom P (i + 1) k

def events (P : Params) : List Ev := eventsFrom P 0 P.n

def instrsOf (evs : List Ev) : List SI := evs.filterMap fun e => match e with | .instr i => some i | _ => none

structure LS where
  m : St
  evs : List Ev := []                -- what `StartAll`'s goroutine still has to pass
  started : Bool := false
  holds : List String := []          -- schedule points currently held by the harness
  parked : Option String := none     -- the starter is parked at this held point
  lagArmed : Bool := false
  heldHelper : Option Nat := none
  undecided : List Nat := []         -- tiny-timeout calls whose outcome is not known yet: their helper is not run
  owedTrue : List Nat := []          -- calls that returned true before the recorder had caught up
  delay : Nat := 0                   -- variant: after its next Trigger the starter lags behind by this many traces
  countdown : Option Nat := none
  waitIdx : List (Nat × Nat) := []   -- call id ↦ index in the model
  waitTmo : List (Nat × String) := []
  announced : List String := []      -- flow ids announced as forked children by a FlowTrace
  obsCease : Nat := 0
  diffs : List String := []

def LS.choices (ls : LS) : List Choice :=
  (internalChoices ls.m).filter fun c =>
    match c with
    | .starter => false
    | .strayTrace => false
    | .helper w => ls.heldHelper != some w && !ls.undecided.contains w
    | _ => true

/-- the starter runs on until it parks at a held point, blocks, lags, or returns -/
def advance (P : Params) : Nat → LS → LS
  | 0, ls => ls
  | fuel + 1, ls =>
    if !ls.started || ls.parked.isSome || ls.countdown.isSome then ls else
    match ls.evs with
    | [] => ls
    | .hook h :: r =>
      if ls.holds.contains h then { ls with parked := some h, evs := r } else advance P fuel { ls with evs := r }
    | .instr i :: r =>
      let m' := step P ls.m .starter
      if m' = ls.m then ls else
        let ls := { ls with m := m', evs := r }
        if i == .trigger && ls.lagArmed && ls.delay > 0 then
          { ls with lagArmed := false, countdown := some ls.delay }
        else advance P fuel ls

def settleLS (P : Params) : Nat → LS → LS
  | 0, ls => ls
  | fuel + 1, ls =>
    let ls1 := advance P (ls.evs.length + 1) ls
    let m' := ls1.choices.foldl (step P) ls1.m
    if m' = ls1.m && ls1.evs.length == ls.evs.length then ls1 else settleLS P fuel { ls1 with m := m' }

def fuelFor (ls : LS) : Nat := 60 + 8 * ls.m.waits.length + 4 * ls.m.mons.length + ls.evs.length

def LS.settle (P : Params) (ls : LS) : LS := settleLS P (fuelFor ls) ls

/-- `StartAll` has returned -/
def LS.returned (ls : LS) : Bool := ls.started && ls.evs.isEmpty && ls.parked.isNone

def LS.diff (ls : LS) (d : String) : LS := { ls with diffs := d :: ls.diffs }

/-- an environment choice the history demands; it must be enabled in the model -/
def LS.env (P : Params) (ls : LS) (c : Choice) (what : String) : LS :=
  let ls := ls.settle P
  let m' := step P ls.m c
  if m' = ls.m then ls.diff s!"the model cannot take `{what}` here (tracer stalled or no such token)"
  else { ls with m := m' }

def flowIds (lst : String) : List String := (commaList lst).map fun x => (x.splitOn ":").headD ""

def LS.trace1 (P : Params) (ls : LS) (ws : List String) : LS :=
  match ws with
  | ["instantiation"] => ls
  | ["cease"] =>
    let ls := ls.settle P
    let ls := { ls with obsCease := ls.obsCease + 1 }
    if ceases ls.m < ls.obsCease then ls.diff s!"cease #{ls.obsCease} observed where the model cannot emit it" else ls
  | ["newflow", f] =>
    let ls := if ls.announced.contains f then ls.env P .birth s!"newflow {f} (forked token)"
              else ls.env P .fire s!"newflow {f} (token of a start event)"
    ls.env P .other s!"newflow {f}"
  | ["flow", node, lst] =>
    let ls := { ls with announced := ls.announced ++ (flowIds lst) }
    if isStartNode node then ls.env P .startTrace s!"flow {node}"
    else ls.env P .other s!"flow {node}"
  | ["boundary", "1", _] =>
    -- sent by the activity's own goroutine while the token waits for it; that goroutine then forwards the answer and
    -- (fact `detached`) announces the end of the boundary phase on its own
    let ls := ls.env P .other "boundary 1"
    if P.detached then ls.env P .spawnStray "activity goroutine" else ls
  | ["boundary", "0", node] =>
    if P.detached then ls.env P .strayTrace s!"boundary 0 {node}" else ls.env P .other s!"boundary 0 {node}"
  | ["term", f, node] =>
    let ls := if isStartNode node then ls.env P .startTrace s!"term {f} {node}" else ls.env P .other s!"term {f} {node}"
    ls.env P .death s!"end of token {f}"
  | k :: _ => ls.env P .other k
  | [] => ls

/-- one observed trace; afterwards a lagging starter may catch up -/
def LS.trace (P : Params) (ls : LS) (ws : List String) : LS :=
  let ls := ls.trace1 P ws
  match ls.countdown with
  | some (k + 1) => if k == 0 then { ls with countdown := none }.settle P else { ls with countdown := some k }
  | _ => ls

def LS.widx (ls : LS) (id : Nat) : Option Nat := (ls.waitIdx.find? (·.1 == id)).map (·.2)

def LS.line (P : Params) (scen : String) (ls : LS) (ws : List String) : LS :=
  match ws with
  | "op" :: "hold" :: pt :: _ => { ls with holds := pt :: ls.holds }
  | "op" :: "startall" :: _ => { ls with started := true, lagArmed := scen == "free" }.settle P
  | "op" :: "release" :: pt :: _ =>
    let ls := { ls with holds := ls.holds.erase pt, parked := if ls.parked == some pt then none else ls.parked,
                        lagArmed := pt == "before_trigger" }
    ls.settle P
  | "op" :: "wait" :: id :: phase :: tmo :: _ =>
    match id.toNat? with
    | none => ls
    | some id =>
      let ls := ls.settle P
      let w := ls.m.waits.length
      let ls := { ls with m := step P ls.m .call, waitIdx := (id, w) :: ls.waitIdx, waitTmo := (id, tmo) :: ls.waitTmo }
      if phase == "held" then
        { ls with m := step P ls.m (.helper w), heldHelper := some w }
      else if tmo == "tiny" then { ls with undecided := w :: ls.undecided }
      else ls
  | "op" :: _ => ls.settle P
  | "obs" :: "startall" :: res :: _ =>
    let ls := ls.settle P
    if res == "returned" && !ls.returned then ls.diff "StartAll returned; the model's starter is still blocked"
    else if res == "blocked" && ls.returned then ls.diff "StartAll blocked at quiescence; the model's starter has returned"
    else ls
  | "obs" :: "wait" :: id :: rest =>
    match id.toNat?, kvNat rest "ret" with
    | some id, some ret =>
      match ls.widx id with
      | none => ls.diff s!"wait {id} returned but was never issued"
      | some w =>
        let heldOne := ls.heldHelper == some w
        -- a caller whose helper is parked, or whose tiny timeout won the race, gives up first
        let giveUp := heldOne || (ls.undecided.contains w && ret == 0)
        let ls := if giveUp then { ls with m := step P ls.m (.expire w) } else ls
        let ls := { ls with heldHelper := if heldOne then none else ls.heldHelper, undecided := ls.undecided.erase w }
        let ls := ls.settle P
        let got := (ls.m.waits[w]?.map (·.caller)) == some CPc.gotTrue
        if ret == 1 then
          -- the recorder may lag behind the caller: the model has until the end of the history
          if got then ls else { ls with owedTrue := w :: ls.owedTrue }
        else
          let ls := { ls with m := step P ls.m (.expire w) }
          if got then ls.diff s!"wait {id} returned false; the model's caller got true" else ls
    | _, _ => ls
  | "obs" :: "final" :: rest =>
    let ls := ls.settle P
    let ls := if ceases ls.m != ls.obsCease then
        ls.diff s!"cease emitted {ls.obsCease}x; the model emits it {ceases ls.m}x on this history" else ls
    let ls := ls.owedTrue.foldl (fun ls w =>
      if (ls.m.waits[w]?.map (·.caller)) == some CPc.gotTrue then ls
      else ls.diff s!"a wait (model index {w}) returned true; the model's caller never gets true on this history") ls
    match kv rest "startall" with
    | some "returned" => if !ls.returned then ls.diff "final: StartAll returned; model blocked" else ls
    | some "blocked" => if ls.returned then ls.diff "final: StartAll blocked; model returned" else ls
    | _ => ls
  | "obs" :: "hold" :: _ => ls
  | "obs" :: "noquiesce" :: _ => ls
  | "obs" :: "ret" :: _ => ls
  | "obs" :: t => ls.trace P t
  | _ => ls

def replay (P : Params) (scen : String) (delay : Nat) (lines : List (List String)) : LS :=
  lines.foldl (LS.line P scen) { m := init P, evs := events P, delay := delay }

/-- the start-up race is not pinned by the history in free runs and after the release of a `StartWith` that was held
BEFORE its Trigger: try every lag of the starter behind the token's traces; the smallest one that explains the
history wins -/
def searchDelay (P : Params) (scen : String) (lines : List (List String)) (maxDelay : Nat) : Option Nat :=
  (List.range (maxDelay + 1)).find? fun d => (replay P scen d lines).diffs.isEmpty

/-! ## (a) the property on the implementation's history -/

structure WaitRec where
  id : Nat
  phase : String
  tmo : String
  opPos : Nat
  ceaseBeforeOp : Bool
  ret : Option Nat := none
  pending : Nat := 0
  ceaseBeforeRet : Bool := false

structure Hist where
  n : Nat := 0
  ceasePos : List Nat := []          -- positions (line numbers) of cease traces
  afterCease : List String := []     -- flow traces of the instance recorded after the first cease
  openTasks : List String := []      -- task requests seen and not answered, at the current position
  ceaseWithOpen : List String := []
  waits : List WaitRec := []
  startAll : String := ""            -- returned | blocked | error …
  startPos : Option Nat := none      -- position of `op startall`
  startAgain : Option Nat := none    -- position of a second StartAll (scenario `twice`)
  taskAfterAgain : List String := [] -- task requests first seen after it
  startWiths : List Nat := []        -- positions of `op startwith <id>` (scenario `partial`: one per start event)
  startIds : List String := []       -- the start events fired so far
  answered : Bool := false
  noquiesce : Bool := false
  expiredBefore : Bool := false      -- some wait has returned false so far
  bad : List String := []

def Hist.line (h : Hist) (pos : Nat) (ws : List String) : Hist :=
  match ws with
  | ["prog", "starts", n, "shape", _] => { h with n := n.toNat?.getD 0 }
  | "op" :: "answer" :: node :: occ :: _ => { h with openTasks := h.openTasks.erase s!"{node}#{occ}" }
  | "op" :: "answered" :: _ => { h with answered := true }
  | "op" :: "startall" :: _ => { h with startPos := if h.startPos.isSome then h.startPos else some pos }
  | "op" :: "startwith" :: id :: _ =>
    -- (a repeated call for a start event that has fired already is not another start event firing)
    if h.startIds.contains id then h else { h with startWiths := h.startWiths ++ [pos], startIds := id :: h.startIds }
  | "op" :: "startagain" :: _ => { h with startAgain := some pos }
  | "op" :: "wait" :: id :: phase :: tmo :: _ =>
    { h with waits := h.waits ++ [{ id := id.toNat?.getD 0, phase, tmo, opPos := pos, ceaseBeforeOp := !h.ceasePos.isEmpty }] }
  | "op" :: _ => h
  | "obs" :: "wait" :: id :: rest =>
    let id := id.toNat?.getD 0
    let ret := kvNat rest "ret"
    { h with
      waits := h.waits.map fun w => if w.id == id then
        { w with ret := ret, pending := (kvNat rest "pending").getD 0, ceaseBeforeRet := !h.ceasePos.isEmpty } else w
      expiredBefore := h.expiredBefore || ret == some 0 }
  | "obs" :: "startall" :: res :: _ => { h with startAll := res }
  | "obs" :: "final" :: rest =>
    match kv rest "startall" with
    | some r => { h with startAll := r }
    | none => { h with bad := "final without startall" :: h.bad }
  | "obs" :: "noquiesce" :: _ => { h with noquiesce := true }
  | "obs" :: "hold" :: _ => h
  | "obs" :: "ret" :: _ => h
  | "obs" :: "instantiation" :: _ => h
  | "obs" :: "cease" :: _ =>
    { h with ceasePos := h.ceasePos ++ [pos],
             ceaseWithOpen := if h.ceasePos.isEmpty then h.openTasks else h.ceaseWithOpen }
  | "obs" :: "task" :: node :: occ :: _ =>
    let h := { h with openTasks := h.openTasks ++ [s!"{node}#{occ}"],
                      taskAfterAgain := if h.startAgain.isSome then h.taskAfterAgain ++ [s!"{node}#{occ}"] else h.taskAfterAgain }
    if h.ceasePos.isEmpty then h else { h with afterCease := h.afterCease ++ [s!"task {node}"] }
  | "obs" :: k :: rest =>
    if h.ceasePos.isEmpty then h else { h with afterCease := h.afterCease ++ [" ".intercalate (k :: rest)] }
  | "harness-error" :: _ => { h with bad := " ".intercalate ws :: h.bad }
  | _ => { h with bad := " ".intercalate ws :: h.bad }

def check (params lines : List String) : CaseResult := Id.run do
  let (shape, n, scen) ← match params with
    | shape :: n :: scen :: _ => pure (shape, n.toNat?.getD 0, scen)
    | _ => return { bad := ["c02 params"] }
  if n == 0 then return { bad := ["c02 params: number of start events"] }
  let toks := lines.map words
  let mut h : Hist := {}
  let mut pos := 0
  for ws in toks do
    h := h.line pos ws
    pos := pos + 1
  if !h.bad.isEmpty then return { bad := h.bad }
  if h.n != n then return { bad := [s!"prog starts {h.n} vs params {n}"] }
  let P := factsParams n
  if instrsOf (events P) != program P then return { bad := ["driver: events do not project to the model's program"] }
  let manyMonitors := P.monitorsPerStartAll > 1
  let mut r : CaseResult := {}
  -- ---- lock-step
  -- shape `bnd` (boundary listener flows) is outside the completion model's programs: judged by the predicate only
  -- (so is shape `subfork`: tokens inside an embedded sub-process are counted by the sub-process's own wait group)
  -- (and shape `bndskip`: an exclusive gateway and a branch that is never taken)
  -- (and scenario `prewait`: a wait issued before StartAll is not an instruction of the completion model's programs)
  -- (and scenario `partial`: start events fired one by one with StartWith, a wait in between)
  let pinned := (scen != "free" || !manyMonitors) && shape != "bnd" && shape != "bndskip" && shape != "subfork" && shape != "subnest" && scen != "prewait"
    && scen != "partial" && scen != "twice" && shape != "forkshort"   -- (forkshort: the forking token is consumed before its forked sibling's first trace — an order the completion model's programs never produce)
  let mut explainedByLateSub := false
  if pinned then
    let ls := replay P scen 0 toks
    if !ls.diffs.isEmpty && (scen == "free" || scen == "slow2") then
      let ntr := (toks.filter fun ws => ws.head? == some "obs").length
      match searchDelay P scen toks ntr with
      | some _ => explainedByLateSub := scen == "free"
      | none => r := { r with diffs := ls.diffs }
    else r := { r with diffs := ls.diffs }
  -- ---- the property on the implementation's history
  let add (r : CaseResult) (s : String) : CaseResult := { r with specs := s :: r.specs }
  if h.ceasePos.length > 1 then
    r := add r (if manyMonitors then s!"cease_twice_second_monitor: cease-flow trace emitted {h.ceasePos.length} times ({n} start events, one monitor per StartWith)"
                else s!"cease_twice: cease-flow trace emitted {h.ceasePos.length} times")
  let late := h.afterCease.filter (· != "cease")
  let lateBoundary := late.filter (·.startsWith "boundary 0 ")
  -- `pgin` (IncomingFlowProcessedTrace) is the parallel gateway's note that it HAS processed an incoming flow: it is
  -- sent after the gateway released the tokens ("if any action has been taken, it has already happened"), so a token
  -- released by a join in front of an end event can end the instance before the note is out. A note is not a token.
  let lateOther := late.filter (fun t => !t.startsWith "boundary 0 " && !t.startsWith "pgin ")
  if !lateOther.isEmpty then
    r := add r s!"cease_not_last: {lateOther.length} flow traces after the cease-flow trace, first: {lateOther.headD ""}"
  if !lateBoundary.isEmpty then
    r := add r (if P.detached then
        s!"boundary_end_trace_after_cease: {lateBoundary} recorded after the cease-flow trace (sent by the activity's goroutine after it forwarded the answer)"
      else s!"cease_not_last: {lateBoundary} after the cease-flow trace")
  if !h.ceaseWithOpen.isEmpty then
    r := add r s!"cease_with_pending_task: cease-flow trace while {h.ceaseWithOpen} unanswered"
  for w in h.waits do
    if w.ret == some 1 && (w.pending > 0 || h.ceasePos.isEmpty) then
      r := add r s!"wait_true_before_cease: wait {w.id} returned true with {w.pending} task requests unanswered, cease traces in the run: {h.ceasePos.length}"
  -- a wait issued BEFORE the instance is started: no start event has fired, it must not report completion
  for w in h.waits do
    if scen != "partial" && w.ret == some 1 && (match h.startPos with | some sp => w.opPos < sp | none => false) then
      r := add r s!"wait_true_before_start: wait {w.id}, issued before StartAll, returned true (no start event has fired)"
  -- start events fired one by one: completion may only be reported once the LAST of the n start events has fired
  if scen == "partial" then
    match h.startWiths.getLast? with
    | some lastStart =>
      if h.startWiths.length == n then
        for w in h.waits do
          if w.ret == some 1 && w.opPos < lastStart then
            r := add r s!"wait_true_before_all_starts: wait {w.id} returned true while only {(h.startWiths.filter (· < w.opPos)).length} of {n} start events had fired"
        match h.ceasePos.head? with
        | some cp =>
          if cp < lastStart then
            r := add r s!"cease_before_all_starts: the cease-flow trace was emitted while only {(h.startWiths.filter (· < cp)).length} of {n} start events had fired"
        | none => pure ()
      else r := { r with bad := s!"partial: {h.startWiths.length} startwith ops for {n} start events" :: r.bad }
    | none => r := { r with bad := "partial: no startwith op" :: r.bad }
  -- a second StartAll starts nothing: every task is requested as often as after one StartAll
  if scen == "twice" then
    let again := h.taskAfterAgain.filter (fun t => (t.splitOn "#").getD 1 "" != "1")
    if !again.isEmpty then
      r := add r s!"second_startall_starts_tokens: after StartAll was called again {again} were requested a second time"
  let due := h.answered && !h.noquiesce
  if due && h.startAll == "blocked" then
    r := add r (if manyMonitors then s!"startall_blocks_two_starts: StartAll has not returned at quiescence ({n} start events, shape {shape})"
                else s!"startall_blocks: StartAll has not returned at quiescence ({n} start events)")
  if due && h.ceasePos.isEmpty && h.startAll != "blocked" then
    r := add r (if (scen == "missed" || explainedByLateSub) && !P.subBefore then
                  "never_completes_missed_start: every task answered, no token left, no cease-flow trace: the start event's flow trace was broadcast before the monitor subscribed"
                else if manyMonitors then
                  s!"never_completes_two_starts: every task answered, no cease-flow trace ({n} start events, one monitor per StartWith)"
                else "never_completes: every task answered, no token left, no cease-flow trace")
  -- waits that had to return true: issued (post) or still running (span) after the cease, long deadline
  let mut lateFalse : List Nat := []
  for w in h.waits do
    if w.tmo == "long" && w.ret == some 0 && ((w.phase == "post" && w.ceaseBeforeOp) || (w.phase == "span" && w.ceaseBeforeRet)) then
      lateFalse := lateFalse ++ [w.id]
  if !lateFalse.isEmpty then
    let firstFalse := (h.waits.find? (·.ret == some 0)).map (·.id)
    let expiredEarlier := match firstFalse with
      | some f => lateFalse.any (· != f) || (h.waits.any fun w => w.id == f && !(lateFalse.contains f))
      | none => false
    r := add r (if manyMonitors then s!"wait_never_true_second_monitor: waits {lateFalse} false after the cease-flow trace ({n} start events)"
                else if P.sigCap == 0 && expiredEarlier then
                  s!"wait_after_expired_wait_never_true: waits {lateFalse} false after the cease-flow trace; an earlier wait had ended by expiry"
                else s!"wait_false_after_cease: waits {lateFalse} false after the cease-flow trace")
  return { r with nontrivial := h.answered && !h.waits.isEmpty }

/-- Family `c02obs`: an observer of the instance's tracer stops reading after the last answer (buffer `b`), then waits
itself; a second waiter waits too. Every start event has fired and the last token is gone (its remaining traces fit into
the tracers' buffers): both waits report completion, and the cease-flow trace is there once when the observer reads on. -/
def checkObs (params lines : List String) : CaseResult := Id.run do
  let mut r : CaseResult := { nontrivial := true }
  let b := params.getD 1 "?"
  let mut sawWait := false
  let mut sawCease := false
  for ln in lines do
    match words ln with
    | "harness-error" :: _ => r := { r with bad := ln :: r.bad }
    | ["obs", "answered", a, "of", k] =>
      r := { r with specs := s!"observer_run_stuck: {a} of {k} tasks could be answered" :: r.specs }
    | ["obs", "wait", w, o] =>
      sawWait := true
      if w != "worker=1" || o != "other=1" then
        r := { r with specs := s!"completion_waits_for_observer: every start event fired and the last token is gone, an observer with buffer {b} has stopped reading: WaitUntilComplete {w} {o} (expected both 1)" :: r.specs }
    | ["obs", "cease", n] =>
      sawCease := true
      if n != "1" then
        r := { r with specs := s!"cease_not_once_for_observer: the observer finds {n} cease-flow traces when it reads on" :: r.specs }
    | _ => pure ()
  if r.specs.isEmpty && r.bad.isEmpty && !(sawWait && sawCease) then
    r := { r with bad := ["c02obs: incomplete record"] }
  return r

end Bpmn.Driver.C02
