import Std.Data.HashMap
import Bpmn.Driver.Util
import Bpmn.Model.Xml
import Bpmn.Gen.C15
/-! Driver for C15 (XML round trip).

Three-way comparison per case: (o) the original model, (x) the tokenised `xml.Marshal` output,
(r) the re-parsed model — all as the implementation produced them — against the model's
`marshal` / `parse` run on (o); and the C15 predicate on the implementation's own data:
(o) ≡ (r) up to whitespace-only text, (o) unchanged by marshalling, every id found by `FindBy`,
same engine behaviour on (o) and (r). -/
namespace Bpmn.Driver.C15
open Bpmn.Driver Bpmn.Model.Xml


/-! ### strings -/

def hexVal (c : Char) : Option Nat :=
  if '0' ≤ c ∧ c ≤ '9' then some (c.toNat - '0'.toNat)
  else if 'a' ≤ c ∧ c ≤ 'f' then some (c.toNat - 'a'.toNat + 10)
  else none

/-- `=abc%20;def` → `abc def` -/
def unesc (tok : String) : Option String :=
  match tok.toList with
  | '=' :: cs =>
    let rec go (cs : List Char) (acc : String) (fuel : Nat) : Option String :=
      match fuel, cs with
      | 0, _ => none
      | _, [] => some acc
      | fuel + 1, '%' :: rest =>
        let hex := rest.takeWhile (· != ';')
        let rest' := (rest.dropWhile (· != ';')).drop 1
        match hex.foldl (fun a c => match a, hexVal c with
            | some n, some d => some (n * 16 + d) | _, _ => none) (some 0) with
        | some n => go rest' (acc.push (Char.ofNat n)) fuel
        | none => none
      | fuel + 1, c :: rest => go rest (acc.push c) fuel
    go cs "" (cs.length + 1)
  | _ => none

def isGoSpace (c : Char) : Bool :=
  c == ' ' || c == '\n' || c == '\t' || c == '\r' || c.toNat == 0x0b || c.toNat == 0x0c ||
  c.toNat == 0x85 || c.toNat == 0xa0 || c.toNat == 0x1680 || (0x2000 ≤ c.toNat && c.toNat ≤ 0x200a) ||
  c.toNat == 0x2028 || c.toNat == 0x2029 || c.toNat == 0x202f || c.toNat == 0x205f || c.toNat == 0x3000

/-- Go `strings.TrimSpace` -/
def goTrim (s : String) : String :=
  String.ofList ((s.toList.dropWhile isGoSpace).reverse.dropWhile isGoSpace).reverse

def short (s : String) : String := if s.length > 60 then (s.take 60).toString ++ "…" else s

/-! ### interning against the generated string tables -/

def mkIndex (l : List String) : Std.HashMap String Nat :=
  (l.zipIdx).foldl (fun m (s, i) => if m.contains s then m else m.insert s i) {}

def nameIdx : Std.HashMap String Nat := mkIndex Bpmn.Gen.C15.names
def nsIdx : Std.HashMap String Nat := mkIndex Bpmn.Gen.C15.namespaces
def pfxIdx : Std.HashMap String Nat := mkIndex Bpmn.Gen.C15.prefixes

def unknownId (s : String) : Nat := 1000000 + (hash s).toNat % 1000000

def nameId (s : String) : Nat := (nameIdx.get? s).getD (unknownId s)
def nsId (s : String) : Nat := (nsIdx.get? s).getD (unknownId s)
def pfxId (s : String) : Nat := if s == "-" then 0 else (pfxIdx.get? s).getD (unknownId s)

def nameStr (i : Nat) : String := (Bpmn.Gen.C15.names[i]?).getD s!"#{i}"
def pfxStr (i : Nat) : String := (Bpmn.Gen.C15.prefixes[i]?).getD s!"#{i}"
def nsStr (i : Nat) : String := (Bpmn.Gen.C15.namespaces[i]?).getD s!"#{i}"

def S : Schema := Bpmn.Gen.C15.schema

/-- type name → type id (struct index, or simple type id) -/
def tyIdx : Std.HashMap String Nat :=
  let m : Std.HashMap String Nat := (S.structs.zipIdx).foldl (fun m (st, i) => m.insert (nameStr st.name) i) {}
  (Bpmn.Gen.C15.simpleTypes.zipIdx).foldl (fun m ((n, _), i) => m.insert (nameStr n) (S.structs.length + i)) m

def tyStr (t : Nat) : String :=
  match S.struct? t with
  | some st => nameStr st.name
  | none => match Bpmn.Gen.C15.simpleTypes[t - S.structs.length]? with
    | some (n, _) => nameStr n
    | none => s!"#{t}"

/-! ### raw trees as the harness dumped them -/

structure Raw where
  field : String
  ty : String
  attrs : List (String × String)
  texts : List (String × String)
  kids : List Raw
deriving Inhabited

structure RawItem where
  depth : Nat
  field : String
  ty : String
  attrs : List (String × String) := []
  texts : List (String × String) := []

/-- siblings at depth `d` from a pre-order item list -/
partial def buildRaw (d : Nat) : List RawItem → List Raw × List RawItem
  | [] => ([], [])
  | it :: rest =>
    if it.depth < d then ([], it :: rest)
    else
      let (kids, rest') := buildRaw (d + 1) rest
      let (sibs, rest'') := buildRaw d rest'
      (⟨it.field, it.ty, it.attrs.reverse, it.texts.reverse, kids⟩ :: sibs, rest'')

structure XItem where
  depth : Nat
  name : QN
  text : String
  decls : List (Nat × Nat) := []
  attrs : List (QN × String) := []

partial def buildXml (d : Nat) : List XItem → List Xml × List XItem
  | [] => ([], [])
  | it :: rest =>
    if it.depth < d then ([], it :: rest)
    else
      let (kids, rest') := buildXml (d + 1) rest
      let (sibs, rest'') := buildXml d rest'
      (.elem it.name it.decls.reverse it.attrs.reverse kids it.text :: sibs, rest'')

/-! ### from raw trees to model nodes (through the schema table) -/

def fkey (f : FField) : String := tyStr f.owner ++ "." ++ nameStr f.f.go

partial def toNode (r : Raw) : Node :=
  let ty := (tyIdx.get? r.ty).getD (unknownId r.ty)
  if isStruct S ty then
    let fs := fieldsOf S ty
    let attrs := (fs.filter (·.f.kind == .attr)).map fun f => r.attrs.lookup (fkey f)
    let kids := (fs.filter (·.f.kind == .elem)).map fun f =>
      (r.kids.filter (·.field == fkey f)).map toNode
    let text := match fs.find? (·.f.kind == .chardata) with
      | some f => (r.texts.lookup (fkey f)).getD ""
      | none => ""
    .mk ty attrs kids text
  else
    .mk ty [] [] ((r.texts.lookup "-").getD "")

/-! ### printing / comparing -/

def qnStr (q : QN) : String := (if q.pfx == 0 then "" else pfxStr q.pfx ++ ":") ++ nameStr q.loc

partial def xmlDiff (path : String) : Xml → Xml → Option String
  | .elem n1 d1 a1 k1 t1, .elem n2 d2 a2 k2 t2 =>
    let here := path ++ "/" ++ qnStr n2
    if n1 != n2 then some s!"{here}: element name: model {qnStr n1}"
    else if d1 != d2 then some s!"{here}: namespace declarations: model {d1.map fun (p, n) => (pfxStr p, nsStr n)} impl {d2.map fun (p, n) => (pfxStr p, nsStr n)}"
    else if a1 != a2 then some s!"{here}: attributes: model {a1.map fun (q, v) => (qnStr q, v)} impl {a2.map fun (q, v) => (qnStr q, v)}"
    else if t1 != t2 then some s!"{here}: text: model {repr (short t1)} impl {repr (short t2)}"
    else if k1.length != k2.length then
      some s!"{here}: children: model {k1.map (qnStr ·.name)} impl {k2.map (qnStr ·.name)}"
    else (k1.zip k2).findSome? fun (a, b) => xmlDiff here a b

partial def nodeDiff (path : String) : Node → Node → Option String
  | .mk t1 a1 k1 x1, .mk t2 a2 k2 x2 =>
    let here := path ++ "/" ++ tyStr t2
    if t1 != t2 then some s!"{here}: type: model {tyStr t1}"
    else if a1 != a2 then some s!"{here}: attributes: model {a1} impl {a2}"
    else if x1 != x2 then some s!"{here}: text: model {repr (short x1)} impl {repr (short x2)}"
    else if k1.length != k2.length then some s!"{here}: field count {k1.length} vs {k2.length}"
    else (k1.zip k2).findSome? fun (ka, kb) =>
      if ka.length != kb.length then some s!"{here}: children of a field: model {ka.length} impl {kb.length}"
      else (ka.zip kb).findSome? fun (a, b) => nodeDiff here a b

/-- field facts for the classification of losses: is `Owner.Field` a VALUE field of type
`AnExpression` (encoded by default rules because the copy is not addressable) -/
def valExprFields : List String :=
  (S.structs.zipIdx).flatMap fun (st, i) =>
    (st.fields.filter fun f => f.kind == .elem && byDefaultRules S f && f.ty == S.anExprTy).map fun f =>
      tyStr i ++ "." ++ nameStr f.go

def normText (s : String) : String := goTrim s

/-- the `if out.F == "" { out.F = c }` defaults of a type, keyed as the harness prints fields -/
def defaultsOf (ty : String) : List (String × String) :=
  match tyIdx.get? ty with
  | some t => (marshalDefaults S t).map fun (go, d) => (ty ++ "." ++ nameStr go, d)
  | none => []

def applyDefaults (ty : String) (k v : String) : String :=
  match (defaultsOf ty).lookup k with
  | some d => if v == "" then d else v
  | none => v

/-- the C15 equivalence on the implementation's own dumps: `a` (before) versus `b` (after).
Returns spec lines (signature first). `what` distinguishes round trip from mutation check. -/
partial def rawDiff (sigPrefix : String) (path : String) (a b : Raw) : List String :=
  let here := path ++ "/" ++ (if a.field == "-" then "" else a.field ++ ":") ++ a.ty
  if a.ty != b.ty then
    if a.ty == "FormalExpression" && b.ty == "Expression" then
      [s!"{sigPrefix}formal_expression_became_informal: {here}"]
    else [s!"{sigPrefix}element_type_changed: {here}: {a.ty} → {b.ty}"]
  else
    let attrLoss := a.attrs.filterMap fun (k, v) =>
      match b.attrs.lookup k with
      | none => some s!"{sigPrefix}attribute_lost: {here} {k}={repr (short v)}"
      | some w => if v == w || applyDefaults a.ty k v == w then none else some s!"{sigPrefix}attribute_changed: {here} {k}: {repr (short v)} → {repr (short w)}"
    let attrGain := b.attrs.filterMap fun (k, v) =>
      match a.attrs.lookup k with
      | none => some s!"{sigPrefix}attribute_gained: {here} {k}={repr (short v)}"
      | some _ => none
    -- text: all chardata fields of the element together (a shadowed field is still the same text)
    let ta := normText (String.join (a.texts.map (·.2)))
    let tb := normText (String.join (b.texts.map (·.2)))
    let textDiff := if ta == tb then [] else [s!"{sigPrefix}text_changed: {here}: {repr (short ta)} → {repr (short tb)}"]
    let fields := (a.kids.map (·.field) ++ b.kids.map (·.field)).eraseDups
    let kidDiff := fields.flatMap fun f =>
      let ka := a.kids.filter (·.field == f)
      let kb := b.kids.filter (·.field == f)
      if valExprFields.contains f then
        -- one finding per value-typed expression field, whatever was lost inside it
        let same := ka.length == kb.length && (ka.zip kb).all fun (x, y) => (rawDiff sigPrefix here x y).isEmpty
        if same then [] else [s!"{sigPrefix}value_field_expression_lost: {here} {f}"]
      else if ka.length > kb.length then [s!"{sigPrefix}element_lost: {here} {f}: {ka.length} → {kb.length}"]
      else if ka.length < kb.length then [s!"{sigPrefix}element_gained: {here} {f}: {ka.length} → {kb.length}"]
      else (ka.zip kb).flatMap fun (x, y) => rawDiff sigPrefix here x y
    attrLoss ++ attrGain ++ textDiff ++ kidDiff

/-- does the tokenised output use a prefix that no enclosing element declares? -/
partial def undeclaredPrefixes (env : List Nat) : Xml → List Nat
  | .elem n decls attrs kids _ =>
    let env' := decls.map (·.1) ++ env
    let used := (if n.pfx == 0 then [] else [n.pfx]) ++ (attrs.filterMap fun (q, _) => if q.pfx == 0 then none else some q.pfx)
    (used.filter fun p => !env'.contains p) ++ kids.flatMap (undeclaredPrefixes env')

/-! ### one case -/

structure Acc where
  o : List RawItem := []
  m : List RawItem := []
  r : List RawItem := []
  x : List XItem := []
  finds : List (String × String × Bool × String × String) := []
  errs : List String := []
  eo : List String := []
  er : List String := []
  bad : List String := []

def pushNode (l : List RawItem) (it : RawItem) : List RawItem := it :: l

def updHead (l : List RawItem) (f : RawItem → RawItem) : List RawItem :=
  match l with
  | [] => []
  | h :: t => f h :: t

def accLine (a : Acc) (n : Nat) (ln : String) : Acc :=
  let w := words ln
  let badLine := { a with bad := s!"line {n}: {short ln}" :: a.bad }
  let sec (s : String) (f : List RawItem → List RawItem) : Acc :=
    if s == "o" then { a with o := f a.o } else if s == "m" then { a with m := f a.m } else { a with r := f a.r }
  match w with
  | [s, "n", d, field, ty] =>
    if ty == "nil" then a
    else if s == "o" || s == "m" || s == "r" then
      match d.toNat? with
      | some d => sec s fun l => ⟨d, field, ty, [], []⟩ :: l
      | none => badLine
    else badLine
  | [s, "a", key, v] =>
    match unesc v with
    | some v => sec s fun l => updHead l fun it => { it with attrs := (key, v) :: it.attrs }
    | none => badLine
  | [s, "t", key, v] =>
    if s == "x" then badLine else
    match unesc v with
    | some v => sec s fun l => updHead l fun it => { it with texts := (key, v) :: it.texts }
    | none => badLine
  | ["x", "e", d, p, loc, t] =>
    match d.toNat?, unesc t with
    | some d, some t => { a with x := ⟨d, ⟨pfxId p, nameId loc⟩, t, [], []⟩ :: a.x }
    | _, _ => badLine
  | ["x", "d", p, uri] =>
    match unesc uri, a.x with
    | some uri, h :: t => { a with x := { h with decls := (pfxId p, nsId uri) :: h.decls } :: t }
    | _, _ => badLine
  | ["x", "a", p, loc, v] =>
    match unesc v, a.x with
    | some v, h :: t => { a with x := { h with attrs := (⟨pfxId p, nameId loc⟩, v) :: h.attrs } :: t }
    | _, _ => badLine
  | ["f", ty, cls, found, fty, id] =>
    match parseBool? found, unesc id with
    | some f, some id => { a with finds := (ty, cls, f, fty, id) :: a.finds }
    | _, _ => badLine
  | ["err", stage, msg] => { a with errs := s!"{stage}: {(unesc msg).getD msg}" :: a.errs }
  | "eo" :: rest => { a with eo := " ".intercalate rest :: a.eo }
  | "er" :: rest => { a with er := " ".intercalate rest :: a.er }
  | _ => badLine

def firstRaw (l : List RawItem) : Option Raw := (buildRaw 0 l.reverse).1.head?

/-- params: `rt <source> <name>` | `engine <cond> <x>` | `load <source> <name>` -/
def check (params : List String) (lines : List String) : CaseResult := Id.run do
  let mut a : Acc := {}
  let mut n := 0
  for ln in lines do
    n := n + 1
    a := accLine a n ln
  let mut res : CaseResult := { bad := a.bad }
  let kind := params.headD "?"
  -- a failure of the real code (error or panic while loading, marshalling, parsing) is a finding
  for e in a.errs.reverse do
    res := { res with specs := s!"roundtrip_error: {e}" :: res.specs }
  if kind == "load" then return { res with nontrivial := false }
  if kind == "ids" then
    -- every id retrievable
    for (ty, cls, found, fty, id) in a.finds.reverse do
      if !found then
        let sig := if cls == "base" then "id_not_found:" else if cls == "di" then "id_not_retrievable_di:"
          else "id_not_retrievable_non_base_element:"
        res := { res with specs := s!"{sig} {ty} id={repr (short id)}" :: res.specs }
      else if cls == "base" && fty != ty then
        res := { res with specs := s!"id_finds_other_element: {ty} id={repr (short id)} found a {fty}" :: res.specs }
    return { res with nontrivial := !a.finds.isEmpty }
  let some o := firstRaw a.o | return { res with bad := "no original model" :: res.bad }
  let r? := firstRaw a.r
  -- (1) ≡ (3): the property on the implementation's own data
  let mut rtSpecs : List String := []
  if let some r := r? then
    rtSpecs := rawDiff "" "" o r
  if kind == "engine" then
    -- engine behaviour, original versus re-parsed
    -- the `done` flag (cease-flow trace seen) is not compared: whether an instance reports completion is C02's
    -- property, and the completion monitor can miss the start event under load (known finding of C02), which
    -- would make the comparison flaky for a reason that has nothing to do with the XML round trip
    let eo := a.eo.reverse.filter (fun x => !x.startsWith "done")
    let er := a.er.reverse.filter (fun x => !x.startsWith "done")
    if eo != er then
      let caused := rtSpecs.any (·.startsWith "formal_expression_became_informal:")
      let sig := if caused then "engine_behaviour_differs_formal_became_informal:" else "engine_behaviour_differs:"
      res := { res with specs := s!"{sig} original [{", ".intercalate eo}] re-parsed [{", ".intercalate er}]" :: res.specs }
    return { res with nontrivial := eo.any (·.startsWith "task") }
  res := { res with specs := rtSpecs.reverse ++ res.specs }
  -- marshalling must not change the model (text trimming aside)
  if let some m := firstRaw a.m then
    for d in rawDiff "marshal_mutates_model_" "" o m do
      res := { res with specs := s!"marshal_mutates_model: {d}" :: res.specs }
  -- model differential: marshal(o) = x, parse(marshal(o)) = r
  let on := toNode o
  let mx := marshal S goTrim on
  match (buildXml 0 a.x.reverse).1.head? with
  | none => if a.errs.isEmpty then res := { res with bad := "no xml" :: res.bad }
  | some ix =>
    if let some d := xmlDiff "" mx ix then
      res := { res with diffs := s!"marshal: {d}" :: res.diffs }
    -- the cause of a formal → informal change, for the signature to be specific
    let undecl := (undeclaredPrefixes [] ix).eraseDups
    if !undecl.isEmpty && !(rtSpecs.any (·.startsWith "formal_expression_became_informal:")) then
      res := { res with specs := s!"undeclared_prefix: {undecl.map pfxStr}" :: res.specs }
  if let some r := r? then
    match parse S mx with
    | none => res := { res with diffs := "parse: model fails on its own output" :: res.diffs }
    | some pn =>
      if let some d := nodeDiff "" pn (toNode r) then
        res := { res with diffs := s!"parse: {d}" :: res.diffs }
  return { res with nontrivial := !a.x.isEmpty && r?.isSome }

end Bpmn.Driver.C15
