import Bpmn.Driver.C01
/-! Driver for C17 (no data race, no panic under concurrent use; outcome allowed by the sequential token semantics).

The harness parent (`harness/cmd/vh/c17.go`) has already canonicalised what the race detector and the dead child
processes said; this driver turns every race pair / panic into a `spec` line whose signature is the canonical
call-site pair (`race:<funcA>|<funcB>`, `panic:<function>`, `fatal:<function>`, `crash:<why>`), so each known finding
is keyed on its specific pair and a race elsewhere is still reported. For `kind=prog` the recorded history (answers
of one concurrent batch recorded as `opnw`) is judged against the token game through `Bpmn.Driver.C01.judge`:
only a deviation no logged model cause explains, or a run that does not quiesce, is a C17 failure; deviations that
C01 attributes to its own known causes are reported as `info`. -/
namespace Bpmn.Driver.C17
open Bpmn.Driver Bpmn.Driver.Eng

def field (ws : List String) (key : String) : Nat :=
  ((kv ws key).bind String.toNat?).getD 0

def check (params : List String) (lines : List String) : CaseResult := Id.run do
  let kind := (kv params "kind").getD "?"
  let own := lines.filter (·.startsWith "c17 ")
  let rest := lines.filter (fun l => !(l.startsWith "c17 "))
  let mut r : CaseResult := {}
  let mut conc : Option (List String) := none
  for l in own do
    match words l with
    | "c17" :: "race" :: a :: b :: detail =>
      r := { r with specs := s!"race:{a}|{b}: data race between {a} and {b} ({" ".intercalate detail})" :: r.specs }
    | "c17" :: "raceoutside" :: a :: b :: detail =>
      r := { r with infos := s!"race report with no engine frame on either side: {a} {b} {" ".intercalate detail}" :: r.infos }
    | "c17" :: "panic" :: f :: msg =>
      r := { r with specs := s!"panic:{f}: engine goroutine panicked: {" ".intercalate msg}" :: r.specs }
    | "c17" :: "fatal" :: f :: msg =>
      r := { r with specs := s!"fatal:{f}: runtime fatal error: {" ".intercalate msg}" :: r.specs }
    | "c17" :: "crash" :: why :: msg =>
      let w := if why.startsWith "exit=" then "exit" else why
      r := { r with specs := s!"crash:{w}: child process died without a recognisable panic: {why} {" ".intercalate msg}" :: r.specs }
    | "c17" :: "stack" :: fr => r := { r with infos := s!"stack {" ".intercalate fr}" :: r.infos }
    | "c17" :: "conc" :: ws => conc := some ws
    | "c17" :: "note" :: _ => pure ()
    | ["c17", "ebgshot", _, d, q] =>
      -- event-based gateway with the determination raced: exactly one alternative wins
      if d != "determ=1" || q != "requests=1" then
        r := { r with specs := s!"ebg_not_one_winner: {d} {q} after the competing flows were released into the determination together" :: r.specs }
    | ["c17", "condroute", i, b, w, t] =>
      -- conditions evaluated by many tokens at once: each token takes the branch its own value selects
      if !((w == "wrote=1" && t == "took=Y") || (w == "wrote=0" && t == "took=N")) then
        r := { r with specs := s!"outcome:condition_crosstalk: {i} {b} {w} {t} — a token whose answer wrote that value took another branch while other tokens evaluated their conditions at the same instant" :: r.specs }
    | "c17" :: "mergecount" :: ws =>
      r := { r with specs := s!"outcome:merge_tokens_lost: {" ".intercalate ws} — every token of the fork must be requested at M, pass the catch event on the one signal, be requested at N, and the instance must complete" :: r.specs }
    | ["c17", "condincomplete"] =>
      r := { r with specs := "outcome:condition_crosstalk: an instance did not complete after every task was answered" :: r.specs }
    | "c17" :: "noquiesce" :: _ =>
      r := { r with specs := "outcome:noquiesce: the instance kept running (no quiescence) under concurrent use" :: r.specs }
    | "c17" :: "blocked" :: what =>
      r := { r with infos := s!"call blocked past its deadline (C06/C08/C11 territory): {" ".intercalate what}" :: r.infos }
    | "c17" :: "newprocess-error" :: e => r := { r with bad := s!"newprocess-error {" ".intercalate e}" :: r.bad }
    | "c17" :: "h" :: _ => pure ()
    | "c17" :: "op" :: _ => pure ()
    | _ => r := { r with bad := s!"unknown c17 line: {l}" :: r.bad }
  -- a child that died may not have printed its summary line: then only the death is judged
  match conc with
  | none =>
    if r.specs.isEmpty then r := { r with bad := "no `c17 conc` line" :: r.bad }
  | some ws =>
    let kindsBusy := ([field ws "conc_answers", field ws "dup_do", field ws "deliveries", field ws "subs",
                       field ws "reads", field ws "waits"].filter (· > 0)).length
    r := { r with nontrivial := field ws "batches" ≥ 1 && kindsBusy ≥ 3 }
  -- sequential token semantics for the C01-style programs
  if kind == "prog" && !(rest.any (·.startsWith "harness-error")) && conc.isSome then
    let c := parseCase rest
    let j := Bpmn.Driver.C01.judge c
    let hasIncl := c.proc.nodes.any (fun n => n.kind == Bpmn.Model.Engine.Kind.incl)
    for b in j.bad do r := { r with bad := b :: r.bad }
    for d in j.diffs do
      r := { r with infos := s!"engine model (C01 correspondence, not judged here): {d}" :: r.infos }
    for i in j.infos do r := { r with infos := i :: r.infos }
    for s in j.specs do
      let sig := ((s.splitOn ":").headD "").trimAscii.toString
      if sig == "engine_call_blocked" then
        r := { r with infos := s!"{s}" :: r.infos }
      else if sig == "engine_does_not_quiesce" then
        r := { r with specs := s!"outcome:noquiesce: {s}" :: r.specs }
      else if sig == "unexplained_deviation" then
        -- the engine model cannot resolve the races inside the inclusive gateway's tracker protocol (C01 tolerates them
        -- the same way); such a deviation is keyed on the presence of an inclusive gateway, anything else is unexplained
        let k := if hasIncl then "outcome:inclusive_gateway" else "outcome:unexplained_deviation"
        r := { r with specs := s!"{k}: not an outcome of the sequential token semantics: {s}" :: r.specs }
      else
        -- causes the engine model logs (C01's known deviations), re-keyed for this property
        let k := "+".intercalate ((sig.splitOn "+").map (fun p => "outcome:" ++ p))
        r := { r with specs := s!"{k}: deviation from the token game explained by a cause the engine model logs: {s}" :: r.specs }
  else
    for l in rest do
      if l.startsWith "harness-error" then r := { r with bad := l :: r.bad }
  return r

end Bpmn.Driver.C17
