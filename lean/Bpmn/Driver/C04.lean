import Bpmn.Driver.Util
import Bpmn.Driver.C01
import Bpmn.Model.Cond
import Bpmn.Gen.C04
/-! Driver for C04: condition differential (both expression engines against `Cond.eval`) and engine-level
exclusive-gateway runs. -/
namespace Bpmn.Driver.C04
open Bpmn.Driver Bpmn.Model

def showRes : CondResult → String
  | .yes => "yes" | .no => "no" | .error => "error"

/-- Does the XPath engine of the tree under check lose the variables when there are two or more (D24)? Read from the
regenerated fact `Bpmn.Gen.C04.xpathVarsReachable`: only `some true` (the repaired shape of
`XPath.EvaluateExpression`) switches the defect off in the model; an unreadable fact means today's behaviour. -/
def xpathLosesVars : Bool := Bpmn.Gen.C04.xpathVarsReachable != some true

/-- lines: `cond <rpn>`, `vars k=v,…`, `expr <yes|no|error|nonbool|panic>`, `xpath <…>` -/
def checkCond (_params lines : List String) : CaseResult := Id.run do
  let mut c : Cond := .unknown
  let mut vs : Vars := []
  let mut r : CaseResult := {}
  let mut n := 0
  for ln in lines do
    match words ln with
    | ["cond", rpn] => c := Cond.parse rpn
    | ["vars", v] => vs := Eng.parseVars v
    | [engine, res] =>
      n := n + 1
      -- a non-boolean result is reported by the flow as an error and counts as "does not flow"
      let res := if res == "nonbool" then "error" else res
      let truth := showRes (c.eval vs)
      -- the model of what the engine computes: expr is exact; XPath loses the variables when there are ≥ 2
      -- (unless the tree under check has the repaired shape, see `xpathLosesVars`)
      let lost := xpathLosesVars && engine == "xpath" && vs.length ≥ 2
      let m := if lost then
          (match c.evalXPathNoVars with | some true => "yes" | some false => "no" | none => "error")
        else truth
      if res == "panic" then
        r := { r with specs := s!"condition_eval_panics: {engine}" :: r.specs }
      else
        if m != res then
          r := { r with diffs := s!"{engine}: model {m} impl {res}" :: r.diffs }
        if truth != res then
          let sig := if lost && m == res then "xpath_variables_unreachable" else "condition_wrong_result"
          r := { r with specs := s!"{sig}: {engine} evaluated the condition to {res}, its value is {truth}" :: r.specs }
    | _ => r := { r with bad := ln :: r.bad }
  if c == .unknown then r := { r with bad := "condition not parsed" :: r.bad }
  return { r with nontrivial := n == 2 && (match c with | .tt => false | .ff => false | _ => true) }

/-- engine-level: the C01 judgement; non-trivial when the run was judged and some branch was taken -/
def checkEng (params lines : List String) : CaseResult :=
  let r := C01.check params lines
  { r with nontrivial := r.ok }

end Bpmn.Driver.C04
