import Bpmn.Driver.C01
import Bpmn.Props.C12Nest
import Bpmn.Props.C12Loop
/-! Driver for C12: a case holds two runs of one generated program — sub-process blocks wrapped in 1..3 levels of
embedded sub-process, then (after the line `variant inline`) the same program with the content inlined. Each run is
judged like a C01 run; in addition the two request histories must coincide answer by answer. -/
namespace Bpmn.Driver.C12
open Bpmn.Driver Bpmn.Driver.Eng

def splitVariants (lines : List String) : List String × List String :=
  let a := lines.takeWhile (· != "variant inline")
  let b := (lines.dropWhile (· != "variant inline")).drop 1
  (a, b)

/-- per segment, the sorted list of requested activities -/
def requestHistory (c : Case) : List (List String) :=
  c.segs.map (fun (obs, _) =>
    let xs := obs.filterMap (fun o => match words o with | "task" :: n :: _ => some n | _ => none)
    xs.toArray.qsort (· < ·) |>.toList)

def answers (c : Case) : List String :=
  c.segs.filterMap (fun (_, op) => op.map (" ".intercalate ·))

def check (_params : List String) (lines : List String) : CaseResult := Id.run do
  let (la, lb) := splitVariants lines
  if lb.isEmpty then return { bad := ["c12: second variant missing"] }
  let ca := parseCase la
  let cb := parseCase lb
  let ra := C01.judge ca
  let rb := C01.judge cb
  let mut r : CaseResult :=
    { diffs := ra.diffs.map ("wrapped: " ++ ·) ++ rb.diffs.map ("inline: " ++ ·),
      specs := ra.specs ++ rb.specs.map (fun s => s),
      bad := ra.bad ++ rb.bad, infos := ra.infos ++ rb.infos, skipped := ra.skipped || rb.skipped }
  let hasSub := ca.proc.nodes.any (·.kind == .sub)
  -- the wrapped program behaves like its content inlined: same requests after the same answers
  if !r.skipped && ra.specs.isEmpty && rb.specs.isEmpty then
    if requestHistory ca != requestHistory cb || answers ca != answers cb then
      r := { r with specs := s!"wrapped_differs_from_inline: wrapped {requestHistory ca} inline {requestHistory cb}" :: r.specs }
    let fa := (ca.final.map (" ".intercalate ·)).getD ""
    let fb := (cb.final.map (" ".intercalate ·)).getD ""
    if fa != fb then
      r := { r with specs := s!"wrapped_final_differs_from_inline: wrapped [{fa}] inline [{fb}]" :: r.specs }
  return { r with nontrivial := hasSub && r.diffs.isEmpty && r.specs.isEmpty && !r.skipped }

/-- the model's observations as the harness words them -/
def obsWords (os : List Bpmn.Model.Engine.Obs) : List String :=
  os.map (fun o => match o with
    | .req n => s!"task {n}"
    | .complete n => s!"complete {n}"
    | .err c => s!"error {c}")

/-- family c12nest: the real engine on the program `nestProc d K` of `Props/C12Nest` (same element names). The model's
steps — start, answer every innermost task, answer C — at the extracted configuration, on the very object the theorems are about, against the
recorded history: requests and completions of every step, in order; and the instance completes. -/
def checkNest (params lines : List String) : CaseResult := Id.run do
  let some (d, k) := (match params with
    | [d, k] => do let d ← d.toNat?; let k ← k.toNat?; pure (d, k)
    | _ => none) | return { bad := ["c12nest params"] }
  if d == 0 || k == 0 then return { bad := ["c12nest depth / length 0"] }
  let p := Bpmn.Props.C12Nest.nestProc d k
  let cfg := C01.faithful
  let s0 := Bpmn.Model.Engine.start cfg p []
  let names := Bpmn.Props.C12Nest.namesFrom (Bpmn.Props.C12Nest.nm 'T') 0 k ++ ["C"]
  let (steps, sf) := Bpmn.Props.C12Nest.traceC cfg p s0 (names.map (fun n => (n, [])))
  let model := obsWords s0.obs :: steps.map obsWords
  -- the recorded history, cut at the harness's answers
  let mut segs : List (List String) := []
  let mut cur : List String := []
  let mut done := ""
  let mut bad : List String := []
  for ln in lines do
    match words ln with
    | ["c12nest", "answer", _] => segs := segs ++ [cur]; cur := []
    | ["c12nest", "done", b] => done := b
    | "obs" :: "task" :: n :: _ => cur := cur ++ [s!"task {n}"]
    | ["obs", "complete", n] => if n == "e" then cur := cur ++ [s!"complete {n}"]
    -- (the completion trace of an INNER end event is emitted while the sub-process's relay is shutting down and may or may
    -- not reach the instance's tracer; the token's arrival at the inner end event always does)
    | ["obs", "visit", n] => if n.startsWith "E" then cur := cur ++ [s!"complete {n}"]
    | "obs" :: "error" :: c :: _ => cur := cur ++ [s!"error {c}"]
    | "obs" :: "norequest" :: rest => bad := bad ++ ["norequest " ++ " ".intercalate rest]
    | ["obs", "noquiesce"] => bad := bad ++ ["noquiesce"]
    | "harness-error" :: rest => bad := bad ++ ["harness-error " ++ " ".intercalate rest]
    | _ => pure ()
  segs := segs ++ [cur]
  let mut r : CaseResult := {}
  -- completions of start events and of the sub-process nodes themselves are not observations of the model
  let keep (xs : List String) : List String :=
    xs.filter (fun x => x.startsWith "task " || x.startsWith "error " || x.startsWith "complete E" || x == "complete e")
  let impl := segs.map keep
  if impl != model then
    r := { r with diffs := [s!"nest depth {d} chain {k}: engine {impl} model (nestProc {d} {k}) {model}"] }
  if !bad.isEmpty then
    r := { r with specs := bad.map (fun b => s!"nest_stuck: depth {d}: {b}") }
  if done != "1" && bad.isEmpty then
    r := { r with specs := s!"nest_not_complete: depth {d}: both tasks answered, the instance does not complete" :: r.specs }
  -- the model must itself say what the theorem says (a run-time echo of `nest_run`, not a proof)
  if sf.topLive p || s0.outOfScope.isSome || sf.outOfScope.isSome then
    r := { r with specs := s!"nest_model_incomplete: depth {d}: the model's run of nestProc {d} {k} does not complete" :: r.specs }
  return { r with nontrivial := r.diffs.isEmpty && r.specs.isEmpty }

/-- family c12loop: the real engine on the program `loopProc N` of `Props/C12Loop` (same element names); params `N v₁ v₂ …`:
the values the inner task is answered with, round after round. The model's run of `loopProc N` at the extracted configuration
against the recorded history, round by round. -/
def checkLoop (params lines : List String) : CaseResult := Id.run do
  let some nums := params.mapM String.toInt? | return { bad := ["c12loop params"] }
  let (N, vals) := match nums with
    | n :: vs => (n, vs)
    | [] => (0, [])
  if vals.isEmpty then return { bad := ["c12loop params"] }
  let p := Bpmn.Props.C12Loop.loopProc N
  let cfg := C01.faithful
  let s0 := Bpmn.Model.Engine.start cfg p [("c", 0)]
  let (steps, sf) := Bpmn.Props.C12Loop.roundsC cfg N 1 s0 vals
  let model := obsWords s0.obs :: steps.map obsWords
  let mut segs : List (List String) := []
  let mut cur : List String := []
  let mut done := ""
  let mut bad : List String := []
  for ln in lines do
    match words ln with
    | ["c12loop", "answer", _] => segs := segs ++ [cur]; cur := []
    | ["c12loop", "done", b] => done := b
    | "obs" :: "task" :: n :: _ => cur := cur ++ [s!"task {n}"]
    | ["obs", "complete", n] => if n == "e" then cur := cur ++ [s!"complete {n}"]
    | ["obs", "visit", n] => if n == "ue" then cur := cur ++ [s!"complete {n}"]
    | "obs" :: "error" :: c :: _ => cur := cur ++ [s!"error {c}"]
    | "obs" :: "norequest" :: rest => bad := bad ++ ["norequest " ++ " ".intercalate rest]
    | ["obs", "noquiesce"] => bad := bad ++ ["noquiesce"]
    | "harness-error" :: rest => bad := bad ++ ["harness-error " ++ " ".intercalate rest]
    | _ => pure ()
  segs := segs ++ [cur]
  let mut r : CaseResult := {}
  if segs != model then
    r := { r with diffs := [s!"loop bound {N} values {vals}: engine {segs} model (loopProc {N}) {model}"] }
  if !bad.isEmpty then
    r := { r with specs := bad.map (fun b => s!"loop_stuck: bound {N} values {vals}: {b}") }
  -- the last value is the one that leaves the loop: the instance completes
  let leaves := match vals.getLast? with | some v => !(v < N) | none => false
  if leaves && done != "1" && bad.isEmpty then
    r := { r with specs := s!"loop_not_complete: bound {N} values {vals}: the loop was left, the instance does not complete" :: r.specs }
  if leaves && (sf.topLive p || sf.outOfScope.isSome) then
    r := { r with specs := s!"loop_model_incomplete: bound {N} values {vals}: the model's run of loopProc {N} does not complete" :: r.specs }
  return { r with nontrivial := r.diffs.isEmpty && r.specs.isEmpty }

end Bpmn.Driver.C12
