import Bpmn.Driver.C01
/-! Driver for C12: a case holds two runs of one generated program — sub-process blocks wrapped in 1..3 levels of
embedded sub-process, then (after the line `variant inline`) the same program with the content inlined. Each run is
judged like a C01 run; in addition the two request histories must coincide answer by answer. -/
namespace Bpmn.Driver.C12
open Bpmn.Driver Bpmn.Driver.Eng

def splitVariants (lines : List String) : List String × List String :=
  let a := lines.takeWhile (· != "variant inline")
  let b := (lines.dropWhile (· != "variant inline")).drop 1
  (a, b)

/-- per segment, the sorted list of requested activities -/
def requestHistory (c : Case) : List (List String) :=
  c.segs.map (fun (obs, _) =>
    let xs := obs.filterMap (fun o => match words o with | "task" :: n :: _ => some n | _ => none)
    xs.toArray.qsort (· < ·) |>.toList)

def answers (c : Case) : List String :=
  c.segs.filterMap (fun (_, op) => op.map (" ".intercalate ·))

def check (_params : List String) (lines : List String) : CaseResult := Id.run do
  let (la, lb) := splitVariants lines
  if lb.isEmpty then return { bad := ["c12: second variant missing"] }
  let ca := parseCase la
  let cb := parseCase lb
  let ra := C01.judge ca
  let rb := C01.judge cb
  let mut r : CaseResult :=
    { diffs := ra.diffs.map ("wrapped: " ++ ·) ++ rb.diffs.map ("inline: " ++ ·),
      specs := ra.specs ++ rb.specs.map (fun s => s),
      bad := ra.bad ++ rb.bad, infos := ra.infos ++ rb.infos, skipped := ra.skipped || rb.skipped }
  let hasSub := ca.proc.nodes.any (·.kind == .sub)
  -- the wrapped program behaves like its content inlined: same requests after the same answers
  if !r.skipped && ra.specs.isEmpty && rb.specs.isEmpty then
    if requestHistory ca != requestHistory cb || answers ca != answers cb then
      r := { r with specs := s!"wrapped_differs_from_inline: wrapped {requestHistory ca} inline {requestHistory cb}" :: r.specs }
    let fa := (ca.final.map (" ".intercalate ·)).getD ""
    let fb := (cb.final.map (" ".intercalate ·)).getD ""
    if fa != fb then
      r := { r with specs := s!"wrapped_final_differs_from_inline: wrapped [{fa}] inline [{fb}]" :: r.specs }
  return { r with nontrivial := hasSub && r.diffs.isEmpty && r.specs.isEmpty && !r.skipped }

end Bpmn.Driver.C12
