import Bpmn.Driver.Util
import Bpmn.Model.ProcessSet
import Bpmn.Gen.C18
/-! Driver for C18 (process set).

Input: the history of one process-set run on the real engine (`harness/cmd/vh/c18.go`): the parsed definitions
(`set proc/node/flow`), every member process run by itself (`alone …`), the harness's actions (`op …`) and every
trace of the set's tracer (`obs <process>#<instance> …`, `obs set …`), wait results, a crash of the process.

1. `spec`: the C18 predicate evaluated on what the IMPLEMENTATION did (no model involved).
2. `diff`: is the recorded history a behaviour of the model (`Bpmn.Model.ProcessSet`) at the extracted facts?
   The replay follows the recorded order; the unobservable choices — after how many of its traces a member's watcher
   subscribed, and whether `run` handled messages at once or only when the instantiated process showed up — are
   searched (prompt first). What the search had to assume names the signature of a `spec` failure. -/
namespace Bpmn.Driver.C18
open Bpmn.Driver Bpmn.Model.ProcessSet

/-- the configuration the code has today, from the regenerated facts (unknown ⇒ assume the deviation) -/
def faithful : Cfg :=
  { subBeforeStart := Bpmn.Gen.C18.watcherSubscribesBeforeStart.getD false
    instSubBeforeStart := Bpmn.Gen.C18.instWatcherSubscribesBeforeStart.getD false
    closeOnce := Bpmn.Gen.C18.doneClosedOnce.getD false }

inductive Item where
  | startAll
  /-- a trace of member `label`; `some` when the set's watcher acts on it -/
  | trace (label : String) (tr : Option Tr)
  | waitCall (n : Nat)
  | waitRet (n : Nat) (r : Bool)
  | hold (p : String)
  | release (p : String)
  | ceaseSet
  | panic (cls : String)
deriving Repr

structure Case where
  procs : List (String × Bool) := []
  nodes : List (String × String × String) := []     -- process, node id, kind
  flows : List (String × String) := []
  alone : List (String × String) := []              -- process, normalised trace
  items : List Item := []
  memberLines : List (String × String) := []        -- label, normalised trace
  observed : List (Nat × String × String) := []     -- position, label, catch node of `observed` traces
  notes : List String := []
  bad : List String := []

def normTok (t : String) : String :=
  match t.toList with
  | 'F' :: rest =>
    let ds := rest.takeWhile Char.isDigit
    if ds.isEmpty then t else String.ofList ('F' :: rest.drop ds.length)
  | _ => t

def normLine (ws : List String) : String := " ".intercalate (ws.map normTok)

def Case.kindOf (c : Case) (n : String) : String := ((c.nodes.find? (·.2.1 == n)).map (·.2.2)).getD ""
def Case.pidOfNode (c : Case) (n : String) : String := ((c.nodes.find? (·.2.1 == n)).map (·.1)).getD ""
def Case.nodeIdx (c : Case) (n : String) : Nat := (c.nodes.findIdx? (·.2.1 == n)).getD c.nodes.length
def Case.nodeName (c : Case) (i : Nat) : String := ((c.nodes[i]?).map (·.2.1)).getD s!"#{i}"
def Case.execPids (c : Case) : List String := (c.procs.filter (·.2)).map (·.1)
def Case.waitPids (c : Case) : List String := (c.procs.filter (!·.2)).map (·.1)

def pidOfLabel (l : String) : String := (l.splitOn "#").headD l

def Case.relevant (c : Case) (ws : List String) : Option Tr :=
  match ws with
  | "flow" :: src :: _ => if c.kindOf src == "intermediateThrowEvent" then some (.ev (.throw (c.nodeIdx src))) else none
  | ["listening", n] => if c.kindOf n == "intermediateCatchEvent" then some (.ev (.listen (c.nodeIdx n))) else none
  | "cease" :: _ => some .cease
  | _ => none

def parseCase (lines : List String) : Case := Id.run do
  let mut c : Case := {}
  let mut pos := 0
  for ln in lines do
    pos := pos + 1
    match words ln with
    | ["set", "proc", p, e] => c := { c with procs := c.procs ++ [(p, e == "1")] }
    | ["set", "node", p, n, k] => c := { c with nodes := c.nodes ++ [(p, n, k)] }
    | ["set", "flow", a, b] => c := { c with flows := c.flows ++ [(a, b)] }
    | "alone" :: p :: rest => c := { c with alone := c.alone ++ [(p, normLine rest)] }
    | "sched" :: _ => pure ()
    | ["op", "startall"] => c := { c with items := c.items ++ [.startAll] }
    | "op" :: "answer" :: _ => pure ()
    | ["op", "wait", n] =>
      match n.toNat? with
      | some n => c := { c with items := c.items ++ [.waitCall (n - 1)] }
      | none => c := { c with bad := c.bad ++ [ln] }
    | ["op", "waitconc", k] =>
      match k.toNat? with
      | some k => c := { c with items := c.items ++ (List.range k).map .waitCall }
      | none => c := { c with bad := c.bad ++ [ln] }
    | ["op", "hold", p] => c := { c with items := c.items ++ [.hold p] }
    | ["op", "release", p] => c := { c with items := c.items ++ [.release p] }
    | ["obs", "wait", n, r] | ["obs", "waitconc", n, r] =>
      match n.toNat?, parseBool? r with
      | some n, some r => c := { c with items := c.items ++ [.waitRet (n - 1) r] }
      | _, _ => c := { c with bad := c.bad ++ [ln] }
    | "obs" :: "panic" :: cls :: _ => c := { c with items := c.items ++ [.panic cls] }
    | ["obs", "subtimeout"] => c := { c with notes := c.notes ++ ["subtimeout"] }
    | ["obs", "noquiesce"] => c := { c with notes := c.notes ++ ["noquiesce"] }
    | "obs" :: "startall" :: w :: _ => c := { c with notes := c.notes ++ ["startall_" ++ w] }
    | "obs" :: "ret" :: rest => c := { c with notes := c.notes ++ ["call_blocked " ++ " ".intercalate rest] }
    | "obs" :: "final" :: _ => pure ()
    | ["obs", "set", "ceaseset"] => c := { c with items := c.items ++ [.ceaseSet] }
    | "obs" :: "set" :: _ => pure ()
    | "obs" :: label :: rest =>
      if (label.splitOn "#").length == 2 then
        c := { c with items := c.items ++ [.trace label (c.relevant rest)],
                      memberLines := c.memberLines ++ [(label, normLine rest)] }
        match rest with
        | ["observed", n] => c := { c with observed := c.observed ++ [(c.items.length, label, n)] }
        | _ => pure ()
      else c := { c with bad := c.bad ++ [ln] }
    | "harness-error" :: rest => c := { c with bad := c.bad ++ ["harness-error " ++ " ".intercalate rest] }
    | _ => c := { c with bad := c.bad ++ [ln] }
  return c

def Case.labels (c : Case) : List String :=
  c.items.foldl (fun acc it => match it with
    | .trace l _ => if acc.contains l then acc else acc ++ [l]
    | _ => acc) []

def Case.stream (c : Case) (label : String) : List Tr :=
  c.items.filterMap (fun it => match it with
    | .trace l (some tr) => if l == label then some tr else none
    | _ => none)

def evsOf (ts : List Tr) : List Ev := ts.filterMap (fun t => match t with | .ev e => some e | .cease => none)

def Case.setup (c : Case) : Setup :=
  let labs := c.labels
  { execs := c.execPids.map (fun p => evsOf (c.stream (p ++ "#1")))
    waitings := c.waitPids.map (fun p =>
      ((labs.filter (pidOfLabel · == p)).map (fun l => evsOf (c.stream l))).foldl
        (fun best s => if s.length > best.length then s else best) [])
    flows := c.flows.filterMap (fun (a, b) =>
      let k := c.kindOf b
      if k == "startEvent" then
        match c.waitPids.findIdx? (· == c.pidOfNode b) with
        | some w => some (c.nodeIdx a, Target.start w)
        | none => none
      else if k == "intermediateCatchEvent" then some (c.nodeIdx a, Target.catch_ (c.nodeIdx b))
      else none) }

/-! ## 1. the property predicate on the implementation's history -/

structure Finding where
  /-- class: never_true | lost | early_inst | early_exec | panic_double | other signature (complete) -/
  cls : String
  text : String

def Case.hasCease (c : Case) (label : String) : Bool := (c.stream label).contains .cease

def Case.specFindings (c : Case) : List Finding := Id.run do
  let su := c.setup
  let items := c.items.toArray
  let mut out : List Finding := []
  let panicked := c.items.any (fun it => match it with | .panic _ => true | _ => false)
  for it in c.items do
    if let .panic cls := it then
      if cls == "double_close" then
        out := out ++ [⟨"panic_double", "a WaitUntilComplete call closed the already closed done channel (process crashed)"⟩]
      else out := out ++ [⟨"set_panics", s!"the process crashed: {cls}"⟩]
  -- walk the history: members seen / ceased so far, throws seen, instances seen
  let mut seen : List String := []
  let mut ceased : List String := []
  let mut throwsToStart : List (Nat × String) := []   -- (position, target process) of observed throws on start flows
  let mut anyTrue := false
  let mut ceaseSets := 0
  let mut i := 0
  let mut lastActivity := 0     -- position of the last member trace
  for it in c.items do
    i := i + 1
    match it with
    | .trace l tr =>
      lastActivity := i
      if !seen.contains l then seen := seen ++ [l]
      match tr with
      | some .cease => ceased := ceased ++ [l]
      | some (.ev (.throw id)) =>
        match su.target id with
        | some (.start w) => throwsToStart := throwsToStart ++ [(i, (c.waitPids[w]?).getD "?")]
        | _ => pure ()
      | _ => pure ()
    | .ceaseSet => ceaseSets := ceaseSets + 1
    | .waitRet n true =>
      anyTrue := true
      let open_ := seen.filter (fun l => !ceased.contains l)
      let execOpen := open_.filter (fun l => c.execPids.contains (pidOfLabel l))
      let instOpen := open_.filter (fun l => !c.execPids.contains (pidOfLabel l))
      -- throws whose instantiation has not shown up yet
      let pendingInst := c.waitPids.filter (fun p =>
        (throwsToStart.filter (·.2 == p)).length > (seen.filter (pidOfLabel · == p)).length)
      if !execOpen.isEmpty then
        out := out ++ [⟨"early_exec", s!"wait {n + 1} returned true while {execOpen} had not completed"⟩]
      if !instOpen.isEmpty || !pendingInst.isEmpty then
        out := out ++ [⟨"early_inst", s!"wait {n + 1} returned true while a message flow was still being delivered "
          ++ s!"(instantiated and running: {instOpen}; thrown and not yet instantiated: {pendingInst})"⟩]
    | _ => pure ()
  if ceaseSets > 1 then out := out ++ [⟨"cease_set_twice", s!"{ceaseSets} CeaseProcessSetTrace"⟩]
  if anyTrue && ceaseSets == 0 && !panicked then
    out := out ++ [⟨"cease_set_missing", "a wait returned true and no CeaseProcessSetTrace was emitted"⟩]
  -- liveness: a wait called after the last member trace, every member completed, every throw delivered
  let labs := c.labels
  let allCeased := labs.all c.hasCease && !labs.isEmpty
  let mut j := 0
  for it in c.items do
    j := j + 1
    if let .waitCall n := it then
      if j > lastActivity && allCeased then
        let r := c.items.findSome? (fun it => match it with | .waitRet m r => if m == n then some r else none | _ => none)
        if r == some false then
          out := out ++ [⟨"never_true", s!"every started process completed ({labs}) and wait {n + 1}, called afterwards, returned false"⟩]
  -- message flows, start events: one instance per throw
  if !panicked || true then
    for p in c.waitPids do
      let thrown := (throwsToStart.filter (·.2 == p)).length
      let inst := (labs.filter (pidOfLabel · == p)).length
      if inst < thrown && !panicked then
        out := out ++ [⟨"lost", s!"{thrown} throw(s) on message flows to the start event of {p}, {inst} instantiation(s)"⟩]
      if inst > thrown then
        out := out ++ [⟨"message_flow_not_once", s!"{thrown} throw(s) on message flows to the start event of {p}, {inst} instantiation(s)"⟩]
  -- message flows, catch events: a throw emitted while the catch event listens wakes it exactly once
  for (a, b) in c.flows do
    if c.kindOf b == "intermediateCatchEvent" then
      for l in labs do
        if pidOfLabel l == c.pidOfNode b then
          -- positions
          let mut listenAt : Option Nat := none
          let mut throwAfter := 0
          let mut obsCount := 0
          let mut k := 0
          for it in items do
            k := k + 1
            match it with
            | .trace l' (some (.ev (.listen cc))) => if l' == l && cc == c.nodeIdx b && listenAt.isNone then listenAt := some k
            | .trace _ (some (.ev (.throw id))) => if id == c.nodeIdx a && listenAt.isSome then throwAfter := throwAfter + 1
            | _ => pure ()
          obsCount := (c.observed.filter (fun (_, l', n) => l' == l && n == b)).length
          if obsCount > 1 then
            out := out ++ [⟨"message_flow_not_once", s!"catch event {b} of {l} was woken {obsCount} times"⟩]
          if throwAfter ≥ 1 && obsCount == 0 && !panicked then
            out := out ++ [⟨"lost", s!"{throwAfter} throw(s) of {a} while {b} of {l} was listening, and it was never woken"⟩]
  -- each member behaves as it does alone (compared once it has completed)
  for l in labs do
    if c.hasCease l then
      let inSet := ((c.memberLines.filter (·.1 == l)).map (·.2)).toArray.qsort (· < ·) |>.toList
      let alone := ((c.alone.filter (·.1 == pidOfLabel l)).map (·.2)).toArray.qsort (· < ·) |>.toList
      if inSet != alone then
        let extra := inSet.filter (fun x => !alone.contains x)
        let missing := alone.filter (fun x => !inSet.contains x)
        out := out ++ [⟨"member_process_behaviour_differs", s!"{l}: only in the set {extra.take 4}, only alone {missing.take 4} "
          ++ s!"({inSet.length} traces in the set, {alone.length} alone)"⟩]
  for n in c.notes do
    out := out ++ [⟨(if n == "noquiesce" then "engine_does_not_quiesce" else if n == "subtimeout" then "engine_hangs"
                     else if n.startsWith "startall" then n else "engine_call_blocked"), n⟩]
  return out

/-! ## 2. acceptance by the model -/

structure RS where
  s : State
  cnt : List Nat := []                 -- watched traces emitted so far, per model member
  lab : List (String × Nat) := []      -- implementation label ↦ model member
  frozen : Bool := false               -- `run` is parked inside an instantiation (enforced schedule)
  ceaseSets : Nat := 0
  fail : Option String := none

structure Policy where
  late : List Nat          -- per model member: number of its watched traces emitted before its watcher subscribes
  lazy : Bool              -- `run` handles a message only when the instantiated process shows up (or at the end)
deriving Repr

def listGet (l : List Nat) (i : Nat) : Nat := (l[i]?).getD 0

def runBlocked (su : Setup) (r : RS) : Bool :=
  r.frozen && (match r.s.mch with
    | id :: _ => (match su.target id with | some (.start _) => true | _ => false)
    | [] => false)

/-- eager internal steps, first enabled in a fixed priority, until nothing changes -/
def settle (cfg : Cfg) (su : Setup) (pol : Policy) (final : Bool) (r : RS) : RS := Id.run do
  let mut r := r
  for _ in [0:400] do
    let s := r.s
    let n := s.members.length
    let runOk := !runBlocked su r && (!pol.lazy || final)
    let cands : List Choice :=
      ((List.range n).filter (fun i => listGet r.cnt i ≥ listGet pol.late i)).map .subscribe
      ++ (List.range n).map .watcher
      ++ (if runOk then [.runMsg] else [])
      ++ [.runRegister]
      ++ (List.range s.wakers.length).map .waker
      ++ (List.range s.waits.length).map .closer
      ++ (if s.mch.isEmpty && !runBlocked su r then [.runDone] else [])
    match cands.findSome? (fun c => next cfg su s c) with
    | some s' => r := { r with s := s' }
    | none => break
  return r

def fresh (r : RS) (i : Nat) : Bool := !(r.lab.any (·.2 == i))

/-- model member for an implementation label (run steps on demand under the lazy policy) -/
def resolve (c : Case) (cfg : Cfg) (su : Setup) (r : RS) (label : String) : RS × Option Nat := Id.run do
  if let some (_, i) := r.lab.find? (·.1 == label) then return (r, some i)
  let pid := pidOfLabel label
  if let some e := c.execPids.findIdx? (· == pid) then
    if e < r.s.members.length && fresh r e then return ({ r with lab := r.lab ++ [(label, e)] }, some e)
    return (r, none)
  let some w := c.waitPids.findIdx? (· == pid) | return (r, none)
  let pick (r : RS) : Option Nat :=
    (List.range r.s.members.length).find? (fun i =>
      fresh r i && (match (r.s.members[i]?).bind (·.origin) with
        | some id => su.target id == some (.start w)
        | none => false))
  let mut r := r
  for _ in [0:20] do
    if let some i := pick r then return ({ r with lab := r.lab ++ [(label, i)] }, some i)
    if runBlocked su r then return (r, none)
    match next cfg su r.s .runRegister with
    | some s' => r := { r with s := s' }
    | none =>
      match next cfg su r.s .runMsg with
      | some s' => r := { r with s := s' }
      | none => return (r, none)
  return (r, none)

def bump (l : List Nat) (i : Nat) : List Nat :=
  let l := l ++ List.replicate (i + 1 - l.length) 0
  l.set i (listGet l i + 1)

/-- replay the recorded history under one policy -/
def replay (c : Case) (cfg : Cfg) (su : Setup) (pol : Policy) : RS := Id.run do
  let mut r : RS := { s := init su }
  let mut implPanic := false
  for it in c.items do
    if r.fail.isSome then break
    match it with
    | .startAll =>
      for _ in su.execs do
        r := { r with s := step cfg su (step cfg su r.s .saStart) .saRegister }
      r := settle cfg su pol false r
    | .trace label tr =>
      let (r', oi) := resolve c cfg su r label
      r := r'
      match oi with
      | none => r := { r with fail := some s!"{label}: the model has no such member at this point" }
      | some i =>
        -- a registered, lazily created member's watcher
        r := settle cfg su pol false r
        match tr with
        | none => pure ()
        | some tr =>
          match r.s.members[i]? with
          | none => r := { r with fail := some "member index" }
          | some m =>
            let expect : Tr := match m.todo with | e :: _ => .ev e | [] => .cease
            match next cfg su r.s (.proc i) with
            | none =>
              r := { r with fail := some s!"{label} emitted a trace while the model has it {if m.ceased then "completed" else "waiting at its catch event"}" }
            | some s' =>
              if expect != tr then r := { r with fail := some s!"{label}: stream mismatch" }
              else
                r := { r with s := s', cnt := bump r.cnt i }
                r := settle cfg su pol false r
    | .waitCall n =>
      if r.s.waits.length != n then r := { r with fail := some s!"wait numbering {n}" }
      else
        r := { r with s := step cfg su r.s .waitCall }
        r := settle cfg su pol false r
    | .waitRet n b =>
      r := settle cfg su pol false r
      if r.s.panicked then pure ()    -- the crash is matched at the `panic` item
      else if b then
        match next cfg su r.s (.waitReturn n) with
        | some s' => r := { r with s := s' }
        | none => r := { r with fail := some s!"wait {n + 1} returned true; in the model done is not closed" }
      else
        if r.s.closes ≥ 1 then r := { r with fail := some s!"wait {n + 1} returned false; in the model done is closed" }
        else r := { r with s := step cfg su r.s (.waitTimeout n) }
    | .hold p => if p == "process.startwith.before_trigger" then r := { r with frozen := true }
    | .release p =>
      if p == "process.startwith.before_trigger" then r := { r with frozen := false }
      r := settle cfg su pol false r
    | .ceaseSet => r := { r with ceaseSets := r.ceaseSets + 1 }
    | .panic _ =>
      implPanic := true
      r := settle cfg su pol false r
      if !r.s.panicked then r := { r with fail := some "the process crashed; the model does not panic" }
  if r.fail.isSome then return r
  r := settle cfg su pol true r
  if r.s.panicked != implPanic then
    return { r with fail := some s!"panic: model {r.s.panicked} implementation {implPanic}" }
  if !implPanic then
    if r.s.ceaseSet != r.ceaseSets then
      return { r with fail := some s!"CeaseProcessSetTrace: model {r.s.ceaseSet} implementation {r.ceaseSets}" }
    let unmapped := (List.range r.s.members.length).filter (fresh r)
    if !unmapped.isEmpty then
      return { r with fail := some s!"the model instantiated {unmapped.length} process(es) the implementation did not" }
  return r

/-- lateness vectors: member `i` may be late by `0 … bound i`; ordered by total lateness (prompt first) -/
def vectors : List Nat → List (List Nat)
  | [] => [[]]
  | b :: bs => (vectors bs).flatMap (fun v => (List.range (b + 1)).map (fun k => k :: v))

structure Verdict where
  accepted : Bool
  late : Bool := false
  lazy : Bool := false
  firstFail : String := ""

def judgeModel (c : Case) (cfg : Cfg) : Verdict := Id.run do
  let su := c.setup
  let labs := c.labels
  let instLabs := labs.filter (fun l => !c.execPids.contains (pidOfLabel l))
  -- bound of the lateness of each potential member: the number of watched traces of its stream
  let execB := su.execs.map (fun s => if cfg.subBeforeStart then 0 else s.length + 1)
  let wmax := su.waitings.foldl (fun a s => max a (s.length + 1)) 0
  let instB := (List.replicate (instLabs.length + 1) (if cfg.instSubBeforeStart then 0 else wmax))
  let vs := (vectors (execB ++ instB)).toArray.qsort (fun a b => a.foldl (· + ·) 0 < b.foldl (· + ·) 0) |>.toList
  let mut first := ""
  for lazy in [false, true] do
    for v in vs.take 3000 do
      let r := replay c cfg su { late := v, lazy }
      match r.fail with
      | none => return { accepted := true, late := v.any (· > 0), lazy }
      | some f => if first == "" then first := f
  return { accepted := false, firstFail := first }

/-! ## verdict -/

def check (_params : List String) (lines : List String) : CaseResult := Id.run do
  let c := parseCase lines
  if !c.bad.isEmpty then return { bad := c.bad.take 3 }
  if c.procs.isEmpty then return { bad := ["no processes"] }
  let mut r : CaseResult := {}
  let v := judgeModel c faithful
  if !v.accepted then
    r := { r with diffs := [s!"the recorded history is not a behaviour of the model at the extracted facts; under the prompt schedule: {v.firstFail}"] }
  let holdInst := c.items.any (fun it => match it with | .hold p => p == "process.startwith.before_trigger" | _ => false)
  for f in c.specFindings do
    let sig :=
      match f.cls with
      | "panic_double" => "set_double_wait_panics"
      | "never_true" => if v.accepted && v.late then "set_wait_never_true_fast_process" else "set_wait_never_true"
      | "lost" => if v.accepted && v.late then "message_flow_lost_late_watcher" else "message_flow_not_once"
      | "early_inst" => if v.accepted && (v.lazy || holdInst) then "set_complete_before_message_flow" else "set_wait_true_before_complete"
      | "early_exec" => "set_wait_true_before_complete"
      | s => s
    r := { r with specs := s!"{sig}: {f.text}" :: r.specs }
  let labs := c.labels
  let multi := c.items.filter (fun it => match it with | .waitCall _ => true | _ => false)
  return { r with nontrivial := !labs.isEmpty && (labs.length ≥ 2 || multi.length ≥ 2) }

end Bpmn.Driver.C18
