import Bpmn.Driver.Util
import Bpmn.Model.ProcessSet
import Bpmn.Gen.C18
/-! Driver for C18 (process set).

Input: the history of one process-set run on the real engine (`harness/cmd/vh/c18.go`): the parsed definitions
(`set proc/node/flow`), every member process run by itself (`alone …`), the harness's actions (`op …`) and every
trace of the set's tracer (`obs <process>#<instance> …`, `obs set …`), wait results, a crash of the process.

1. `spec`: the C18 predicate evaluated on what the IMPLEMENTATION did (no model involved).
2. `diff`: is the recorded history a behaviour of the model (`Bpmn.Model.ProcessSet`) at the extracted facts?
   The replay follows the recorded order; the unobservable choices — after how many of its traces a member's watcher
   subscribed, and whether `run` handled messages at once or only when the instantiated process showed up — are
   searched (prompt first). What the search had to assume names the signature of a `spec` failure. -/
namespace Bpmn.Driver.C18
open Bpmn.Driver Bpmn.Model.ProcessSet

/-- the configuration the code has today, from the regenerated facts (unknown ⇒ assume the deviation) -/
def faithful : Cfg :=
  { subBeforeStart := Bpmn.Gen.C18.watcherSubscribesBeforeStart.getD false
    instSubBeforeStart := Bpmn.Gen.C18.instWatcherSubscribesBeforeStart.getD false
    closeOnce := Bpmn.Gen.C18.doneClosedOnce.getD false
    addBeforeStart := Bpmn.Gen.C18.wgAddBeforeStart.getD false
    instAddBeforeStart := Bpmn.Gen.C18.instWgAddBeforeStart.getD false }

inductive Item where
  | startAll
  /-- a trace of member `label`; `some` when the set's watcher acts on it -/
  | trace (label : String) (tr : Option Tr)
  | waitCall (n : Nat)
  /-- `short`: the call had a deadline so short that `false` proves nothing -/
  | waitRet (n : Nat) (r : Bool) (short : Bool := false)
  | hold (p : String)
  | release (p : String)
  | ceaseSet
  | panic (cls : String)
deriving Repr

structure Case where
  procs : List (String × Bool) := []
  nodes : List (String × String × String) := []     -- process, node id, kind
  flows : List (String × String) := []
  alone : List (String × String) := []              -- process, normalised trace
  items : List Item := []
  memberLines : List (String × String) := []        -- label, normalised trace
  observed : List (Nat × String × String) := []     -- position, label, catch node of every wake-up (`leave` of a catch event)
  notes : List String := []
  bad : List String := []
  shortWaits : List Nat := []

def normTok1 (t : String) : String :=
  match t.toList with
  | 'F' :: rest =>
    let ds := rest.takeWhile Char.isDigit
    if ds.isEmpty then t else String.ofList ('F' :: rest.drop ds.length)
  | _ => t

/-- flow ids are numbered per run: `F12:e0_f1,F13:e0_f2` ↦ `F:e0_f1,F:e0_f2` -/
def normTok (t : String) : String := ",".intercalate ((t.splitOn ",").map normTok1)

/-- flow ids are renumbered; the occurrence number of a task request counts per node across all instances of a run -/
def normLine (ws : List String) : String :=
  match ws with
  | "task" :: n :: _occ :: rest => " ".intercalate ("task" :: n :: "_" :: rest)
  | _ => " ".intercalate (ws.map normTok)

def Case.kindOf (c : Case) (n : String) : String := ((c.nodes.find? (·.2.1 == n)).map (·.2.2)).getD ""
def Case.pidOfNode (c : Case) (n : String) : String := ((c.nodes.find? (·.2.1 == n)).map (·.1)).getD ""
def Case.nodeIdx (c : Case) (n : String) : Nat := (c.nodes.findIdx? (·.2.1 == n)).getD c.nodes.length
def Case.nodeName (c : Case) (i : Nat) : String := ((c.nodes[i]?).map (·.2.1)).getD s!"#{i}"
def Case.execPids (c : Case) : List String := (c.procs.filter (·.2)).map (·.1)
def Case.waitPids (c : Case) : List String := (c.procs.filter (!·.2)).map (·.1)

def pidOfLabel (l : String) : String := (l.splitOn "#").headD l

def Case.relevant (c : Case) (ws : List String) : Option Tr :=
  match ws with
  | "flow" :: src :: _ => if c.kindOf src == "intermediateThrowEvent" then some (.ev (.throw (c.nodeIdx src))) else none
  | ["listening", n] => if c.kindOf n == "intermediateCatchEvent" then some (.ev (.listen (c.nodeIdx n))) else none
  | "cease" :: _ => some .cease
  | _ => none

def parseCase (lines : List String) : Case := Id.run do
  let mut c : Case := {}
  let mut pos := 0
  for ln in lines do
    pos := pos + 1
    match words ln with
    | ["set", "proc", p, e] => c := { c with procs := c.procs ++ [(p, e == "1")] }
    | ["set", "node", p, n, k] => c := { c with nodes := c.nodes ++ [(p, n, k)] }
    | ["set", "flow", a, b] => c := { c with flows := c.flows ++ [(a, b)] }
    | "alone" :: _ :: "observed" :: _ => pure ()
    | "alone" :: p :: rest => c := { c with alone := c.alone ++ [(p, normLine rest)] }
    | "sched" :: _ => pure ()
    | ["op", "startall"] => c := { c with items := c.items ++ [.startAll] }
    | "op" :: "answer" :: _ => pure ()
    | ["op", "wait", n] =>
      match n.toNat? with
      | some n => c := { c with items := c.items ++ [.waitCall (n - 1)] }
      | none => c := { c with bad := c.bad ++ [ln] }
    | ["op", "wait", n, "short"] =>
      match n.toNat? with
      | some n => c := { c with items := c.items ++ [.waitCall (n - 1)], shortWaits := c.shortWaits ++ [n - 1] }
      | none => c := { c with bad := c.bad ++ [ln] }
    | ["op", "waitconc", k] =>
      match k.toNat? with
      | some k => c := { c with items := c.items ++ (List.range k).map .waitCall }
      | none => c := { c with bad := c.bad ++ [ln] }
    | ["op", "hold", p] => c := { c with items := c.items ++ [.hold p] }
    | ["op", "release", p] => c := { c with items := c.items ++ [.release p] }
    | ["obs", "wait", n, r] | ["obs", "waitconc", n, r] =>
      match n.toNat?, parseBool? r with
      | some n, some r => c := { c with items := c.items ++ [.waitRet (n - 1) r (c.shortWaits.contains (n - 1))] }
      | _, _ => c := { c with bad := c.bad ++ [ln] }
    | "obs" :: "panic" :: cls :: _ => c := { c with items := c.items ++ [.panic cls] }
    | ["obs", "subtimeout"] => c := { c with notes := c.notes ++ ["subtimeout"] }
    | ["obs", "noquiesce"] => c := { c with notes := c.notes ++ ["noquiesce"] }
    | "obs" :: "startall" :: w :: _ => c := { c with notes := c.notes ++ ["startall_" ++ w] }
    | "obs" :: "ret" :: rest => c := { c with notes := c.notes ++ ["call_blocked " ++ " ".intercalate rest] }
    | "obs" :: "final" :: _ => pure ()
    | ["obs", "set", "ceaseset"] => c := { c with items := c.items ++ [.ceaseSet] }
    | "obs" :: "set" :: _ => pure ()
    | "obs" :: label :: rest =>
      if (label.splitOn "#").length == 2 then
        -- `observed n` only says that catch event `n` looked at an event while listening — also one meant for another
        -- catch event of the same process (the set wakes a catch event by handing its message to the WHOLE process),
        -- which it ignores. A wake-up is a catch event that CONTINUES (`leave n`); `observed` traces are not part of
        -- the behaviour compared with the process running alone.
        let isObserved := match rest with | ["observed", _] => true | _ => false
        c := { c with items := c.items ++ [.trace label (c.relevant rest)],
                      memberLines := if isObserved then c.memberLines else c.memberLines ++ [(label, normLine rest)] }
        match rest with
        | ["leave", n] =>
          if c.kindOf n == "intermediateCatchEvent" then
            c := { c with observed := c.observed ++ [(c.items.length, label, n)] }
        | _ => pure ()
      else c := { c with bad := c.bad ++ [ln] }
    | "harness-error" :: rest => c := { c with bad := c.bad ++ ["harness-error " ++ " ".intercalate rest] }
    | _ => c := { c with bad := c.bad ++ [ln] }
  return c

def Case.labels (c : Case) : List String :=
  c.items.foldl (fun acc it => match it with
    | .trace l _ => if acc.contains l then acc else acc ++ [l]
    | _ => acc) []

def Case.stream (c : Case) (label : String) : List Tr :=
  c.items.filterMap (fun it => match it with
    | .trace l (some tr) => if l == label then some tr else none
    | _ => none)

def evsOf (ts : List Tr) : List Ev := ts.filterMap (fun t => match t with | .ev e => some e | .cease => none)

def Case.setup (c : Case) : Setup :=
  let labs := c.labels
  { execs := c.execPids.map (fun p => evsOf (c.stream (p ++ "#1")))
    waitings := c.waitPids.map (fun p =>
      ((labs.filter (pidOfLabel · == p)).map (fun l => evsOf (c.stream l))).foldl
        (fun best s => if s.length > best.length then s else best) [])
    flows := c.flows.filterMap (fun (a, b) =>
      let k := c.kindOf b
      if k == "startEvent" then
        match c.waitPids.findIdx? (· == c.pidOfNode b) with
        | some w => some (c.nodeIdx a, Target.start w)
        | none => none
      else if k == "intermediateCatchEvent" then some (c.nodeIdx a, Target.catch_ (c.nodeIdx b))
      else none) }

/-! ## 1. the property predicate on the implementation's history -/

structure Finding where
  /-- class: never_true | lost | early_inst | early_exec | panic_double | other signature (complete) -/
  cls : String
  text : String

def Case.hasCease (c : Case) (label : String) : Bool := (c.stream label).contains .cease

def Case.specFindings (c : Case) : List Finding := Id.run do
  let su := c.setup
  let items := c.items.toArray
  let mut out : List Finding := []
  let panicked := c.items.any (fun it => match it with | .panic _ => true | _ => false)
  for it in c.items do
    if let .panic cls := it then
      if cls == "double_close" then
        out := out ++ [⟨"panic_double", "a WaitUntilComplete call closed the already closed done channel (process crashed)"⟩]
      else out := out ++ [⟨"set_panics", s!"the process crashed: {cls}"⟩]
  -- walk the history: members seen / ceased so far, throws seen, instances seen
  let mut seen : List String := []
  let mut ceased : List String := []
  let mut throwsToStart : List (Nat × String) := []   -- (position, target process) of observed throws on start flows
  let mut anyTrue := false
  let mut ceaseSets := 0
  let mut i := 0
  let mut lastActivity := 0     -- position of the last member trace
  for it in c.items do
    i := i + 1
    match it with
    | .trace l tr =>
      lastActivity := i
      if !seen.contains l then seen := seen ++ [l]
      match tr with
      | some .cease => ceased := ceased ++ [l]
      | some (.ev (.throw id)) =>
        match su.target id with
        | some (.start w) => throwsToStart := throwsToStart ++ [(i, (c.waitPids[w]?).getD "?")]
        | _ => pure ()
      | _ => pure ()
    | .ceaseSet => ceaseSets := ceaseSets + 1
    | .waitRet n true _ =>
      anyTrue := true
      let open_ := seen.filter (fun l => !ceased.contains l)
      let execOpen := open_.filter (fun l => c.execPids.contains (pidOfLabel l))
      let instOpen := open_.filter (fun l => !c.execPids.contains (pidOfLabel l))
      -- throws whose instantiation has not shown up yet
      -- (a throw that is never delivered at all is reported as lost, not here)
      let pendingInst := c.waitPids.filter (fun p =>
        min (throwsToStart.filter (·.2 == p)).length (c.labels.filter (pidOfLabel · == p)).length
          > (seen.filter (pidOfLabel · == p)).length)
      if !execOpen.isEmpty then
        out := out ++ [⟨"early_exec", s!"wait {n + 1} returned true while {execOpen} had not completed"⟩]
      if !instOpen.isEmpty || !pendingInst.isEmpty then
        out := out ++ [⟨"early_inst", s!"wait {n + 1} returned true while a message flow was still being delivered "
          ++ s!"(instantiated and running: {instOpen}; thrown and not yet instantiated: {pendingInst})"⟩]
    | _ => pure ()
  if ceaseSets > 1 then out := out ++ [⟨"cease_set_twice", s!"{ceaseSets} CeaseProcessSetTrace"⟩]
  if anyTrue && ceaseSets == 0 && !panicked then
    out := out ++ [⟨"cease_set_missing", "a wait returned true and no CeaseProcessSetTrace was emitted"⟩]
  -- liveness: a wait called after the last member trace, every member completed, every throw delivered
  let labs := c.labels
  let allCeased := labs.all c.hasCease && !labs.isEmpty
  let mut j := 0
  for it in c.items do
    j := j + 1
    if let .waitCall n := it then
      if j > lastActivity && allCeased then
        let r := c.items.findSome? (fun it => match it with | .waitRet m r sh => if m == n && !sh then some r else none | _ => none)
        if r == some false then
          out := out ++ [⟨"never_true", s!"every started process completed ({labs}) and wait {n + 1}, called afterwards, returned false"⟩]
  -- message flows, start events: one instance per throw
  if !panicked || true then
    for p in c.waitPids do
      let thrown := (throwsToStart.filter (·.2 == p)).length
      let inst := (labs.filter (pidOfLabel · == p)).length
      if inst < thrown && !panicked then
        out := out ++ [⟨"lost", s!"{thrown} throw(s) on message flows to the start event of {p}, {inst} instantiation(s)"⟩]
      if inst > thrown then
        out := out ++ [⟨"message_flow_not_once", s!"{thrown} throw(s) on message flows to the start event of {p}, {inst} instantiation(s)"⟩]
  -- message flows, catch events: a throw emitted while the catch event listens wakes it exactly once
  for (a, b) in c.flows do
    if c.kindOf b == "intermediateCatchEvent" then
      for l in labs do
        if pidOfLabel l == c.pidOfNode b then
          -- positions
          let mut listenAt : Option Nat := none
          let mut throwAfter := 0
          let mut obsCount := 0
          let mut k := 0
          for it in items do
            k := k + 1
            match it with
            | .trace l' (some (.ev (.listen cc))) => if l' == l && cc == c.nodeIdx b && listenAt.isNone then listenAt := some k
            | .trace _ (some (.ev (.throw id))) => if id == c.nodeIdx a && listenAt.isSome then throwAfter := throwAfter + 1
            | _ => pure ()
          obsCount := (c.observed.filter (fun (_, l', n) => l' == l && n == b)).length
          if obsCount > 1 then
            out := out ++ [⟨"message_flow_not_once", s!"catch event {b} of {l} was woken {obsCount} times"⟩]
          if throwAfter ≥ 1 && obsCount == 0 && !panicked then
            out := out ++ [⟨"lost", s!"{throwAfter} throw(s) of {a} while {b} of {l} was listening, and it was never woken"⟩]
  -- each member behaves as it does alone (compared once it has completed)
  for l in labs do
    -- (a process whose completion monitor missed its own start never ceases, alone or in a set: that is C02's)
    if c.hasCease l && (c.alone.any (fun (p, t) => p == pidOfLabel l && t.startsWith "cease")) then
      let inSet := ((c.memberLines.filter (·.1 == l)).map (·.2)).toArray.qsort (· < ·) |>.toList
      let alone := ((c.alone.filter (·.1 == pidOfLabel l)).map (·.2)).toArray.qsort (· < ·) |>.toList
      if inSet != alone then
        let extra := inSet.filter (fun x => !alone.contains x)
        let missing := alone.filter (fun x => !inSet.contains x)
        out := out ++ [⟨"member_process_behaviour_differs", s!"{l}: only in the set {extra.take 4}, only alone {missing.take 4} "
          ++ s!"({inSet.length} traces in the set, {alone.length} alone)"⟩]
    -- a process that does NOT complete by itself (e.g. started at one of its two start events only: the completion monitor
    -- waits for the other one) was driven alone as far as it goes — every task answered, every message delivered — so
    -- inside a set an instance of it can do no more than that
    else if !(c.alone.any (fun (p, t) => p == pidOfLabel l && t.startsWith "cease")) &&
        (c.alone.any (fun (p, _) => p == pidOfLabel l)) then
      let inSet := (c.memberLines.filter (·.1 == l)).map (·.2)
      let alone := (c.alone.filter (·.1 == pidOfLabel l)).map (·.2)
      let extra := inSet.filter (fun x => !alone.contains x)
      if !extra.isEmpty then
        out := out ++ [⟨"member_process_does_more_than_alone", s!"{l}: {extra.take 6} happen in the set and never when the process is started by itself the same way"⟩]
  -- a throw is a token passing the throw event: every token that reaches one passes it (throws, moves on), in the
  -- set and alone
  if !panicked then
    for (_, n, k) in c.nodes do
      if k == "intermediateThrowEvent" then
        for l in labs do
          if c.hasCease l && pidOfLabel l == c.pidOfNode n then
            let mine := (c.memberLines.filter (·.1 == l)).map (·.2)
            let visits := (mine.filter (· == s!"visit {n}")).length
            let passes := (mine.filter (·.startsWith s!"flow {n} ")).length
            if passes < visits then
              out := out ++ [⟨"throw_event_swallows_token", s!"{visits} token(s) reached the throw event {n} of {l}, {passes} passed it (thrown); the others were consumed there"⟩]
  for n in c.notes do
    out := out ++ [⟨(if n == "noquiesce" then "engine_does_not_quiesce" else if n == "subtimeout" then "engine_hangs"
                     else if n.startsWith "startall" then n else "engine_call_blocked"), n⟩]
  return out

/-! ## 2. acceptance by the model -/

structure RS where
  s : State
  cnt : List Nat := []                 -- watched traces emitted so far, per model member
  lab : List (String × Nat) := []      -- implementation label ↦ model member
  frozen : Bool := false               -- the hook inside `StartWith` is held (enforced schedule)
  parked : Bool := false               -- `run` has reached the held hook
  ceaseSets : Nat := 0
  consumed : Array Bool := #[]         -- history items already replayed (pulled forward)
  fail : Option String := none

structure Policy where
  late : List Nat          -- per model member: number of its watched traces emitted before its watcher subscribes
  lazy : Bool              -- `run` handles a message only when the instantiated process shows up (or at the end)
deriving Repr

structure Env where
  c : Case
  cfg : Cfg
  su : Setup
  pol : Policy
  items : Array Item

def listGet (l : List Nat) (i : Nat) : Nat := (l[i]?).getD 0

/-- `run` is parked at the hook inside `StartWith` of an instantiation. When the watcher is registered before the start
(`instAddBeforeStart`) the message has been taken and the member exists (registered, not started); otherwise `run`
has not yet done anything the model can see, i.e. it is stuck in front of the message. -/
def runBlocked (cfg : Cfg) (su : Setup) (r : RS) : Bool :=
  r.frozen && (r.parked || (!cfg.instAddBeforeStart && (match r.s.mch with
    | id :: _ => (match su.target id with | some (.start _) => true | _ => false)
    | [] => false)))

/-- eager internal steps, first enabled in a fixed priority, until nothing changes -/
def settle (e : Env) (final : Bool) (r : RS) : RS := Id.run do
  let mut r := r
  for _ in [0:400] do
    let s := r.s
    let n := s.members.length
    let runOk := !runBlocked e.cfg e.su r && (!e.pol.lazy || final)
    let cands : List Choice :=
      ((List.range n).filter (fun i => listGet r.cnt i ≥ listGet e.pol.late i)).map .subscribe
      ++ (List.range n).map .watcher
      ++ (if runOk then [.runMsg] else [])
      ++ [.runRegister]
      ++ (List.range s.wakers.length).map .waker
      ++ (List.range s.waits.length).map .closer
      ++ (if s.mch.isEmpty && !runBlocked e.cfg e.su r then [.runDone] else [])
    match cands.findSome? (fun c => (next e.cfg e.su s c).map (fun s' => (c, s'))) with
    | some (c, s') =>
      let parks := r.frozen && c == Choice.runMsg && s'.members.length > s.members.length
      r := { r with s := s', parked := r.parked || parks }
    | none => break
  return r

def fresh (r : RS) (i : Nat) : Bool := !(r.lab.any (·.2 == i))

/-- model member for an implementation label (run steps on demand under the lazy policy) -/
def resolve (e : Env) (r : RS) (label : String) : RS × Option Nat := Id.run do
  if let some (_, i) := r.lab.find? (·.1 == label) then return (r, some i)
  let pid := pidOfLabel label
  if let some x := e.c.execPids.findIdx? (· == pid) then
    if x < r.s.members.length && fresh r x then return ({ r with lab := r.lab ++ [(label, x)] }, some x)
    return (r, none)
  let some w := e.c.waitPids.findIdx? (· == pid) | return (r, none)
  let pick (r : RS) : Option Nat :=
    (List.range r.s.members.length).find? (fun i =>
      fresh r i && (match (r.s.members[i]?).bind (·.origin) with
        | some id => e.su.target id == some (.start w)
        | none => false))
  let mut r := r
  for _ in [0:20] do
    if let some i := pick r then return ({ r with lab := r.lab ++ [(label, i)] }, some i)
    if runBlocked e.cfg e.su r then return (r, none)
    match next e.cfg e.su r.s .runRegister with
    | some s' => r := { r with s := s' }
    | none =>
      match next e.cfg e.su r.s .runMsg with
      | some s' => r := { r with s := s' }
      | none => return (r, none)
  return (r, none)

def bump (l : List Nat) (i : Nat) : List Nat :=
  let l := l ++ List.replicate (i + 1 - l.length) 0
  l.set i (listGet l i + 1)

/-- the first not yet replayed throw after `pos` whose event satisfies `p` -/
def findThrow (e : Env) (r : RS) (pos : Nat) (p : Nat → Bool) : Option (Nat × String) :=
  (List.range e.items.size).findSome? (fun j =>
    if j > pos && !(r.consumed[j]?).getD true then
      match e.items[j]? with
      | some (.trace l (some (.ev (.throw id)))) => if p id then some (j, l) else none
      | _ => none
    else none)

mutual
/-- The recorder sits behind one relay per member process: the order of traces of DIFFERENT members in the recording
is not causal. When a member shows an effect whose cause (a throw of another member) is recorded later, that
member's traces up to the throw are replayed first. -/
partial def pull (e : Env) (r : RS) (pos : Nat) (p : Nat → Bool) (depth : Nat) : RS × Bool :=
  match findThrow e r pos p with
  | none => (r, false)
  | some (j, l) => Id.run do
    let mut r := r
    for k in [pos + 1 : j + 1] do
      if !(r.consumed[k]?).getD true then
        match e.items[k]? with
        | some (.trace l2 tr2) =>
          if l2 == l then
            r := doTrace e { r with consumed := r.consumed.set! k true } k l2 tr2 (depth + 1)
        | _ => pure ()
    return (r, true)

partial def doTrace (e : Env) (r : RS) (pos : Nat) (label : String) (tr : Option Tr) (depth : Nat) : RS := Id.run do
  if r.fail.isSome then return r
  let mut (r, oi) := resolve e r label
  if oi.isNone && depth < 4 then
    if let some w := e.c.waitPids.findIdx? (· == pidOfLabel label) then
      let (r2, ok) := pull e r pos (fun id => e.su.target id == some (.start w)) depth
      if ok then
        let (r3, oi3) := resolve e (settle e false r2) label
        r := r3
        oi := oi3
  let some i := oi | return { r with fail := some s!"{label}: the model has no such member at this point" }
  r := settle e false r
  let some tr := tr | return r
  let some m := r.s.members[i]? | return { r with fail := some "member index" }
  if (next e.cfg e.su r.s (.proc i)).isNone && depth < 4 then
    if let some cidx := m.blocked then
      let (r2, ok) := pull e r pos (fun id => e.su.target id == some (.catch_ cidx)) depth
      if ok then r := settle e false r2
  let some m := r.s.members[i]? | return { r with fail := some "member index" }
  let expect : Tr := match m.todo with | x :: _ => .ev x | [] => .cease
  match next e.cfg e.su r.s (.proc i) with
  | none =>
    return { r with fail := some s!"{label} emitted a trace while the model has it {if m.ceased then "completed" else "waiting at its catch event"}" }
  | some s' =>
    if expect != tr then return { r with fail := some s!"{label}: stream mismatch" }
    return settle e false { r with s := s', cnt := bump r.cnt i }
end

/-- replay the recorded history under one policy -/
def replay (c : Case) (cfg : Cfg) (su : Setup) (pol : Policy) : RS := Id.run do
  let e : Env := { c, cfg, su, pol, items := c.items.toArray }
  let mut r : RS := { s := init su, consumed := Array.replicate c.items.length false }
  let mut implPanic := false
  let mut pos := 0
  for it in c.items do
    let here := pos
    pos := pos + 1
    if r.fail.isSome then break
    if (r.consumed[here]?).getD false then continue
    match it with
    | .startAll =>
      for _ in su.execs do
        r := { r with s := step cfg su (step cfg su r.s .saStart) .saRegister }
      r := settle e false r
    | .trace label tr => r := doTrace e r here label tr 0
    | .waitCall n =>
      if r.s.waits.length != n then r := { r with fail := some s!"wait numbering {n}" }
      else
        r := { r with s := step cfg su r.s .waitCall }
        r := settle e false r
    | .waitRet n b short =>
      r := settle e false r
      if r.s.panicked then pure ()    -- the crash is matched at the `panic` item
      else if b then
        match next cfg su r.s (.waitReturn n) with
        | some s' => r := { r with s := s' }
        | none => r := { r with fail := some s!"wait {n + 1} returned true; in the model done is not closed" }
      else
        if r.s.closes ≥ 1 && !short then r := { r with fail := some s!"wait {n + 1} returned false; in the model done is closed" }
        else r := { r with s := step cfg su r.s (.waitTimeout n) }
    | .hold p => if p == "process.startwith.before_trigger" then r := { r with frozen := true }
    | .release p =>
      if p == "process.startwith.before_trigger" then r := { r with frozen := false, parked := false }
      r := settle e false r
    | .ceaseSet => r := { r with ceaseSets := r.ceaseSets + 1 }
    | .panic _ =>
      implPanic := true
      r := settle e false r
      -- the crash loses the traces that were on their way to the recorder: a member whose recorded stream is
      -- exhausted may have emitted its cease-flow trace
      if !r.s.panicked then
        for i in [0:r.s.members.length] do
          match r.s.members[i]? with
          | some m =>
            if m.todo.isEmpty && !m.ceased && !r.s.panicked then
              r := { r with s := step cfg su r.s (.proc i), cnt := bump r.cnt i }
              r := settle e false r
          | none => pure ()
      -- … and more than that can be lost (the tail of several streams): with an unguarded close and two calls made,
      -- the model has a continuation that panics as soon as the wait group drains; only that is required
      if !r.s.panicked && !cfg.closeOnce && r.s.waits.length ≥ 2 then
        r := { r with s := { r.s with panicked := true } }
      if !r.s.panicked then r := { r with fail := some "the process crashed; the model does not panic" }
  if r.fail.isSome then return r
  r := settle e true r
  if r.s.panicked != implPanic then
    return { r with fail := some s!"panic: model {r.s.panicked} implementation {implPanic}" }
  if !implPanic then
    if r.s.ceaseSet != r.ceaseSets then
      return { r with fail := some s!"CeaseProcessSetTrace: model {r.s.ceaseSet} implementation {r.ceaseSets}" }
    let unmapped := (List.range r.s.members.length).filter (fresh r)
    if !unmapped.isEmpty then
      return { r with fail := some s!"the model instantiated {unmapped.length} process(es) the implementation did not" }
    for (l, i) in r.lab do
      let mw := (r.s.wakers.filter (fun wk => wk.member == i && wk.done)).length
      let iw := (c.observed.filter (fun (_, l', _) => l' == l)).length
      if mw != iw then
        return { r with fail := some s!"{l}: woken {mw} time(s) in the model, {iw} time(s) in the implementation" }
  return r

/-- lateness vectors: member `i` may be late by `0 … bound i`; ordered by total lateness (prompt first) -/
def vectors : List Nat → List (List Nat)
  | [] => [[]]
  | b :: bs => (vectors bs).flatMap (fun v => (List.range (b + 1)).map (fun k => k :: v))

structure Verdict where
  accepted : Bool
  late : Bool := false
  lazy : Bool := false
  firstFail : String := ""

def judgeModel (c : Case) (cfg : Cfg) : Verdict := Id.run do
  let su := c.setup
  let labs := c.labels
  let instLabs := labs.filter (fun l => !c.execPids.contains (pidOfLabel l))
  -- bound of the lateness of each potential member: the number of watched traces of its stream
  let execB := su.execs.map (fun s => if cfg.subBeforeStart then 0 else s.length + 1)
  let wmax := su.waitings.foldl (fun a s => max a (s.length + 1)) 0
  let instB := (List.replicate (instLabs.length + 1) (if cfg.instSubBeforeStart then 0 else wmax))
  let vs := (vectors (execB ++ instB)).toArray.qsort (fun a b => a.foldl (· + ·) 0 < b.foldl (· + ·) 0) |>.toList
  let mut first := ""
  for lazy in [false, true] do
    for v in vs.take 3000 do
      let r := replay c cfg su { late := v, lazy }
      match r.fail with
      | none => return { accepted := true, late := v.any (· > 0), lazy }
      | some f => if first == "" then first := f
  return { accepted := false, firstFail := first }

/-! ## verdict -/

def check (_params : List String) (lines : List String) : CaseResult := Id.run do
  let c := parseCase lines
  if !c.bad.isEmpty then return { bad := c.bad.take 3 }
  if c.procs.isEmpty then return { bad := ["no processes"] }
  let mut r : CaseResult := {}
  let v := judgeModel c faithful
  if !v.accepted then
    r := { r with diffs := [s!"the recorded history is not a behaviour of the model at the extracted facts; under the prompt schedule: {v.firstFail}"] }
  let holdInst := c.items.any (fun it => match it with | .hold p => p == "process.startwith.before_trigger" | _ => false)
  for f in c.specFindings do
    let sig :=
      match f.cls with
      | "panic_double" => "set_double_wait_panics"
      | "never_true" => if v.accepted && v.late then "set_wait_never_true_fast_process" else "set_wait_never_true"
      | "lost" => if v.accepted && v.late then "message_flow_lost_late_watcher" else "message_flow_not_once"
      | "early_inst" => if v.accepted && (v.lazy || holdInst) then "set_complete_before_message_flow" else "set_wait_true_before_complete"
      | "early_exec" => "set_wait_true_before_complete"
      | s => s
    r := { r with specs := s!"{sig}: {f.text}" :: r.specs }
  let labs := c.labels
  let multi := c.items.filter (fun it => match it with | .waitCall _ => true | _ => false)
  return { r with nontrivial := !labs.isEmpty && (labs.length ≥ 2 || multi.length ≥ 2) }

end Bpmn.Driver.C18
