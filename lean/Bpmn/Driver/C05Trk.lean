import Bpmn.Driver.Util
import Bpmn.Model.InclTracker
/-! Driver for family `c05trk`: the real flow tracker (`handleTrace`, `activeFlowsInCohort`, `reachedNode`) against the
Lean port, event by event. -/
namespace Bpmn.Driver.C05Trk
open Bpmn.Driver Bpmn.Model.InclTracker

def parsePairs? (s : String) : Option (List (Nat × Nat)) :=
  (commaList s).mapM fun p =>
    match p.splitOn ":" with
    | [a, b] => do pure ((← a.toNat?), (← b.toNat?))
    | _ => none

def sortNat (l : List Nat) : List Nat := (l.toArray.qsort (· < ·)).toList

def check (_params : List String) (lines : List String) : CaseResult := Id.run do
  let mut r : CaseResult := {}
  let mut log : List Tr := []
  let mut n := 0
  for ln in lines do
    n := n + 1
    match words ln with
    | ["e", "term", t] =>
      match t.toNat? with
      | some t => log := log ++ [.term t]
      | none => r := { r with bad := s!"line {n}: {ln}" :: r.bad }
    | ["e", "flow", src, incl, ps] =>
      match src.toNat?, parseBool? incl, parsePairs? ps with
      | some src, some incl, some ps => log := log ++ [.flow src incl ps]
      | _, _, _ => r := { r with bad := s!"line {n}: {ln}" :: r.bad }
    | ["r", reachedW, cs] =>
      match parseBool? reachedW, (cs.splitOn "|").mapM natList? with
      | some rb, some impl =>
        let m := track log
        let model := [1, 2, 3, 4].map fun t => sortNat (cohort m t)
        if model != impl then
          r := { r with diffs := s!"line {n}: cohorts after {log.length} traces: model {model} impl {impl}" :: r.diffs }
        if reached 7 log != rb then
          r := { r with diffs := s!"line {n}: reachedNode after {log.length} traces: model {reached 7 log} impl {rb}" :: r.diffs }
        if impl.any (·.length ≥ 2) then r := { r with nontrivial := true }
      | _, _ => r := { r with bad := s!"line {n}: {ln}" :: r.bad }
    | ["batch", pre, changed, notify] =>
      -- the model's records before and after the batch decide `changed` too (the tracker's map, ported): both must agree,
      -- and a batch that changes the records wakes the node
      match pre.toNat?, parseBool? changed, parseBool? notify with
      | some pre, some ch, some nt =>
        let before := track (log.take pre)
        let after := track log
        let norm (m : Bpmn.Model.InclTracker.Map) : List (Nat × Nat) :=
          (m.toArray.qsort (fun a b => a.1 < b.1 || (a.1 == b.1 && a.2 < b.2))).toList
        let mch := norm before != norm after
        if mch != ch then
          r := { r with diffs := s!"line {n}: batch after {pre} traces changes the records: model {mch} impl {ch}" :: r.diffs }
        if ch && !nt then
          r := { r with specs := s!"tracker_batch_not_notified: the batch of the last {log.length - pre} trace(s) changed the tracker's records (a token gone / recorded anew) and the node is not woken after it" :: r.specs }
      | _, _, _ => r := { r with bad := s!"line {n}: {ln}" :: r.bad }
    | "panic" :: rest => r := { r with specs := s!"tracker_panics: {" ".intercalate rest}" :: r.specs }
    | _ => r := { r with bad := s!"line {n}: {ln}" :: r.bad }
  return r

end Bpmn.Driver.C05Trk
