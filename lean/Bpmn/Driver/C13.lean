import Bpmn.Driver.Util
import Bpmn.Model.Timer
/-! Driver for C13: replays the operations the harness applied to the real timers over the real mock
clock through the model (firings with their clock reading, channel closed, armed wake-ups after each
operation) and evaluates the C13 predicate on what the IMPLEMENTATION did. -/
namespace Bpmn.Driver.C13
open Bpmn.Driver Bpmn.Model.Timer

/-- one recorded operation with what the implementation showed once quiescent again -/
structure Obs where
  op : String
  arg : Int
  fires : List Int
  closed : Bool
  armed : List Int

def parseObs (ln : String) : Option Obs :=
  match words ln with
  | ["o", op, arg, f, c, a] => do
    let arg ← parseInt? arg
    let f ← intList? f
    let c ← parseBool? c
    let a ← intList? a
    pure { op, arg, fires := f, closed := c, armed := a }
  | _ => none

def parseOpt (s : String) : Option (Option Int) :=
  if s == "-" then some none else (parseInt? s).map some

/-- let the goroutine run until blocked; the i-th select with several ready cases takes `cs[i]`
(the last element repeated) -/
def settleWith (d : Def) : List Nat → Nat → St → St
  | _, 0, s => s
  | cs, fuel + 1, s =>
    match step d (cs.headD 0) s with
    | none => s
    | some s' => settleWith d (if cs.length ≤ 1 then cs else cs.tail) fuel s'

def showInts (l : List Int) : String := if l.isEmpty then "-" else ",".intercalate (l.map toString)

/-- replay under one resolution of the selects; `none` = agrees, `some msg` = first difference -/
def replay (d : Def) (now0 : Int) (cs : List Nat) (obs : List Obs) : Option String := Id.run do
  let mut s := init d now0
  let mut first := true
  let mut n := 0
  for o in obs do
    n := n + 1
    let before := s.fired.length
    if first then
      if o.op != "new" then return some s!"op {n}: expected new"
      first := false
    else
      match o.op with
      | "set" => s := apply d s (.set o.arg)
      | "add" => s := apply d s (.advance o.arg)
      | "cancel" => s := apply d s .cancel
      | "racecancel" => s := apply d (apply d s (.set o.arg)) .cancel
      | _ => return some s!"op {n}: unknown operation {o.op}"
    s := settleWith d cs 16 s
    if !blocked d s then return some s!"op {n}: model not quiescent after 16 steps"
    let mf := (s.fired.drop before).map (·.clock)
    if mf != o.fires then
      return some s!"op {n} {o.op} {o.arg}: fires model {showInts mf} impl {showInts o.fires}"
    if closed s != o.closed then
      return some s!"op {n} {o.op} {o.arg}: closed model {closed s} impl {o.closed}"
    if armed s != o.armed then
      return some s!"op {n} {o.op} {o.arg}: armed model {showInts (armed s)} impl {showInts o.armed}"
  return none

def choiceLists (race : Bool) : List (List Nat) :=
  if race then
    [0, 1, 2].flatMap fun a => [0, 1, 2].flatMap fun b => [0, 1, 2].map fun c => [a, b, c]
  else [[0], [1]]

/-- the C13 predicate on the implementation's own history -/
def specs (d : Def) (now0 : Int) (race : Bool) (obs : List Obs) : List String × Bool := Id.run do
  let origin := d.origin now0
  let iv := d.interval
  let mut out : List String := []
  let mut now := now0
  let mut count : Nat := 0
  let mut last : Option Int := none       -- clock reading of the last firing
  let mut cancelled := false              -- a cancel has been issued at an EARLIER operation
  let mut closedBefore := false
  let mut afterCancelOps := 0
  for o in obs do
    match o.op with
    | "set" => now := o.arg
    | "add" => now := now + o.arg
    | "racecancel" => now := o.arg
    | _ => pure ()
    let wasCancelled := cancelled
    if o.op == "cancel" || o.op == "racecancel" then cancelled := true
    if wasCancelled then afterCancelOps := afterCancelOps + 1
    -- what had to happen at this operation (sequential histories only: the goroutine was
    -- quiescent when the operation was applied)
    if !race && !cancelled && !closedBefore then
      if !d.isCycle then
        if count == 0 && origin ≤ now && o.fires.length != 1 then
          out := s!"one_shot_once: clock {now} reached due time {origin}, fired {o.fires.length} times" :: out
      else
        let due := (last.getD origin) + iv
        let more := d.reps < 0 || (count : Int) < d.reps
        let beforeEnd := d.endB.all (fun e => decide (now < e))
        if more && origin ≤ now && due ≤ now && beforeEnd && 0 < iv && o.fires.isEmpty then
          out := s!"cycle_count: clock {now} reached next due time {due} before the end bound, {count} firings so far, none now" :: out
    for f in o.fires do
      if wasCancelled then
        out := s!"silent_after: fired at clock {f} after the cancellation had been observed" :: out
      if closedBefore then
        out := s!"silent_after: fired at clock {f} after the channel was closed" :: out
      if !d.isCycle then
        if f < origin then
          out := s!"never_early: fired at clock {f} before due time {origin}" :: out
        if count ≥ 1 then
          out := s!"one_shot_once: firing number {count + 1}" :: out
      else
        if f < origin + iv * ((count : Int) + 1) then
          out := s!"never_early: firing {count + 1} at clock {f} before due time {origin + iv * ((count : Int) + 1)}" :: out
        if 0 ≤ d.reps && (count : Int) ≥ d.reps then
          out := s!"cycle_count: firing number {count + 1} of a cycle with {d.reps} repetitions" :: out
        match last with
        | some l =>
          if f < l + iv then
            out := s!"cycle_spacing: firings at clock {l} and {f}, interval {iv}" :: out
        | none => pure ()
        match d.endB with
        | some e =>
          if e ≤ f then
            out := s!"cycle_end: fired at clock {f}, end bound {e}" :: out
        | none => pure ()
      count := count + 1
      last := some f
    if o.closed && !closedBefore then
      -- completion without cancellation and without an end bound means all n firings happened
      if d.isCycle && !cancelled && d.endB.isNone && 0 ≤ d.reps && (count : Int) != d.reps then
        out := s!"cycle_count: completed after {count} of {d.reps} firings" :: out
      if !d.isCycle && count != 1 then
        out := s!"one_shot_once: closed after {count} firings" :: out
    closedBefore := o.closed
  return (out, count > 0 || afterCancelOps > 0)

/-- params: mode(sync|race) via kind reps start interval end now0 ;
lines: `o <op> <arg> <fires> <closed> <armed>` | `stuck …` | `leak n` | `error …` -/
def check (params : List String) (lines : List String) : CaseResult := Id.run do
  let some (race, d, now0) := (match params with
      | [mode, _, kind, reps, start, iv, e, now0] => do
        let reps ← parseInt? reps
        let start ← parseOpt start
        let iv ← parseInt? iv
        let e ← parseOpt e
        let now0 ← parseInt? now0
        let d ← (match kind with
          | "date" => start.map Def.date
          | "duration" => some (Def.duration iv)
          | "cycle" => some (Def.cycle reps start iv e)
          | _ => none)
        pure (mode == "race", d, now0)
      | _ => none) | return { bad := ["c13 params"] }
  let mut r : CaseResult := {}
  let mut obsA : Array Obs := #[]
  let mut n := 0
  for ln in lines do
    n := n + 1
    match words ln with
    | "o" :: _ =>
      match parseObs ln with
      | some o => obsA := obsA.push o
      | none => r := { r with bad := s!"line {n}: {ln}" :: r.bad }
    | ["leak", k] =>
      -- after a racing cancel the inner goroutine of a cycle may stay parked on its internal channel
      -- (not a C13 matter); in a sequential history every goroutine must return on cancellation
      if !race then r := { r with specs := s!"cancel_not_observed: {k} timer goroutines still alive after the context was cancelled" :: r.specs }
    | _ => r := { r with bad := s!"line {n}: {ln}" :: r.bad }
  let obs := obsA.toList
  -- model / implementation: some resolution of the selects must reproduce every observation
  let mut firstDiff : Option String := none
  let mut agreed := false
  for cs in choiceLists race do
    if !agreed then
      match replay d now0 cs obs with
      | none => agreed := true
      | some msg => if firstDiff.isNone then firstDiff := some msg
  if !agreed then
    r := { r with diffs := (firstDiff.getD "no resolution of the selects reproduces the history") :: r.diffs }
  let (sp, nt) := specs d now0 race obs
  return { r with specs := sp, nontrivial := nt }

/-! ## c13e: the same definitions behind a timer catch event in a process run by the engine -/

/-- `e <op> <arg> <listening> <observed> <continued> <end completed> <errors> <armed>` -/
structure EObs where
  op : String
  arg : Int
  listen : Nat
  observed : Nat
  cont : Nat
  done : Nat
  errs : Nat
  armed : List Int

def parseEObs (ln : String) : Option EObs :=
  match words ln with
  | ["e", op, arg, l, o, c, dn, er, a] => do
    pure { op, arg := ← parseInt? arg, listen := ← l.toNat?, observed := ← o.toNat?, cont := ← c.toNat?,
           done := ← dn.toNat?, errs := ← er.toNat?, armed := ← intList? a }
  | _ => none

/-- model: the timer (as in `replay`) feeding a catch event that listens from the first operation
on and stops listening when it continues -/
def replayEngine (d : Def) (now0 : Int) (cs : List Nat) (obs : List EObs) : Option String := Id.run do
  let mut s := init d now0
  let mut first := true
  let mut active := false
  let mut n := 0
  for o in obs do
    n := n + 1
    let before := s.fired.length
    if first then
      if o.op != "new" then return some s!"op {n}: expected new"
      first := false
    else
      match o.op with
      | "set" => s := apply d s (.set o.arg)
      | "add" => s := apply d s (.advance o.arg)
      | "arrive" => pure ()      -- the token held in front of the catch event is released: no clock change
      | _ => return some s!"op {n}: unknown operation {o.op}"
    s := settleWith d cs 16 s
    if !blocked d s then return some s!"op {n}: model not quiescent after 16 steps"
    let f := s.fired.length - before
    -- a firing delivered while the event is not (yet) listening is dropped
    let seen := if active || o.listen > 0 then f else 0
    if o.listen > 0 then active := true
    let expObserved := if active then min seen 1 else 0
    let expCont := expObserved
    if o.observed != expObserved then
      return some s!"op {n} {o.op} {o.arg}: observed model {expObserved} impl {o.observed}"
    if o.cont != expCont then
      return some s!"op {n} {o.op} {o.arg}: continued model {expCont} impl {o.cont}"
    if expCont > 0 then active := false
    if armed s != o.armed then
      return some s!"op {n} {o.op} {o.arg}: armed model {showInts (armed s)} impl {showInts o.armed}"
  return none

def checkEngine (params : List String) (lines : List String) : CaseResult := Id.run do
  let some (d, now0) := (match params with
      | [_, _, kind, reps, start, iv, e, now0] => do
        let reps ← parseInt? reps
        let start ← parseOpt start
        let iv ← parseInt? iv
        let e ← parseOpt e
        let now0 ← parseInt? now0
        let d ← (match kind with
          | "date" => start.map Def.date
          | "duration" => some (Def.duration iv)
          | "cycle" => some (Def.cycle reps start iv e)
          | _ => none)
        pure (d, now0)
      | _ => none) | return { bad := ["c13e params"] }
  let mut r : CaseResult := {}
  let mut obsA : Array EObs := #[]
  let mut n := 0
  for ln in lines do
    n := n + 1
    match parseEObs ln with
    | some o => obsA := obsA.push o
    | none => r := { r with bad := s!"line {n}: {ln}" :: r.bad }
  let obs := obsA.toList
  let mut firstDiff : Option String := none
  let mut agreed := false
  for cs in choiceLists false do
    if !agreed then
      match replayEngine d now0 cs obs with
      | none => agreed := true
      | some msg => if firstDiff.isNone then firstDiff := some msg
  if !agreed then
    r := { r with diffs := (firstDiff.getD "no resolution of the selects reproduces the history") :: r.diffs }
  -- the clause of C13 about the process, on the implementation's own traces
  -- `engineloop`: the catch event sits in a loop without an end event; the token is sent round again (`arrive`) every time
  -- it has continued, so it may continue once per firing it was listening for, any number of times
  let inLoop := params.getD 1 "" == "engineloop"
  let mut sp : List String := []
  let mut active := false
  let mut total := 0
  for o in obs do
    if o.listen > 0 then active := true
    if o.errs > 0 then sp := s!"catch_once: {o.errs} error traces at {o.op} {o.arg}" :: sp
    let want := if active && o.observed > 0 then 1 else 0
    if o.cont != want then
      sp := s!"catch_once: at {o.op} {o.arg} the catch event observed {o.observed} firings while listening={active} and continued {o.cont} times" :: sp
    if o.done != o.cont && !inLoop then
      sp := s!"catch_once: continued {o.cont} times but the end event completed {o.done} times at {o.op} {o.arg}" :: sp
    if o.cont > 0 then active := false
    total := total + o.cont
  if total > 1 && !inLoop then sp := s!"catch_once: continued {total} times for one token" :: sp
  return { r with specs := sp, nontrivial := total > 0 }

/-! ## c13e2: several instances of the same process through one engine / fan-out / timer builder -/

/-- per instance, per operation: `i <k> <listening> <observed> <continued> <end completed> <errors>` -/
structure IObs where
  listen : Nat
  cont : Nat
  done : Nat
  errs : Nat
deriving Inhabited

/-- one operation `n <inst|set> <arg> <armed>` followed by one `i` line per existing instance -/
structure NObs where
  op : String
  arg : Int
  armed : List Int
  insts : List IObs
deriving Inhabited

def parseE2 (lines : List String) : Option (List NObs) := do
  let mut acc : Array NObs := #[]
  for ln in lines do
    match words ln with
    | ["n", op, arg, a] =>
      acc := acc.push { op, arg := ← parseInt? arg, armed := ← intList? a, insts := [] }
    | ["i", k, l, _, c, dn, er] =>
      if acc.isEmpty then none
      let last := acc.back!
      if (← k.toNat?) != last.insts.length then none
      let io : IObs := { listen := ← l.toNat?, cont := ← c.toNat?, done := ← dn.toNat?, errs := ← er.toNat? }
      acc := acc.pop.push { last with insts := last.insts ++ [io] }
    | _ => none
  return acc.toList

def mergeSorted : List Int → List Int → List Int
  | [], l => l
  | l, [] => l
  | a :: as, b :: bs => if a ≤ b then a :: mergeSorted as (b :: bs) else b :: mergeSorted (a :: as) bs

/-- model: one timer per instance, created at the clock reading of its `inst` operation, all on the
same clock; each feeds its own one-token catch event -/
def replayE2 (d : Def) (now0 : Int) (cs : List Nat) (obs : List NObs) : Option String := Id.run do
  let mut now := now0
  let mut ms : Array (St × Bool) := #[]     -- timer state, catch event listening
  let mut n := 0
  for o in obs do
    n := n + 1
    let before := ms.map (fun p => p.1.fired.length)
    match o.op with
    | "set" =>
      now := o.arg
      ms := ms.map (fun p => (settleWith d cs 16 (apply d p.1 (.set o.arg)), p.2))
    | "inst" => ms := ms.push (settleWith d cs 16 (init d now), true)
    | _ => return some s!"op {n}: unknown operation {o.op}"
    if o.insts.length != ms.size then return some s!"op {n}: {o.insts.length} instances reported, {ms.size} exist"
    let mut k := 0
    for io in o.insts do
      let (st, active) := ms.getD k (init d now, false)
      let f := st.fired.length - (before.getD k 0)
      let expCont := if active && f > 0 then 1 else 0
      let expListen := if o.op == "inst" && k + 1 == ms.size then 1 else 0
      if io.listen != expListen then
        return some s!"op {n} {o.op} {o.arg}: instance {k} listening model {expListen} impl {io.listen}"
      if io.cont != expCont then
        return some s!"op {n} {o.op} {o.arg}: instance {k} continued model {expCont} impl {io.cont}"
      if expCont > 0 then ms := ms.set! k (st, false)
      k := k + 1
    let ma := ms.foldl (fun acc p => mergeSorted acc (armed p.1)) []
    if ma != o.armed then
      return some s!"op {n} {o.op} {o.arg}: armed model {showInts ma} impl {showInts o.armed}"
  return none

def checkEngine2 (params : List String) (lines : List String) : CaseResult := Id.run do
  let some (d, now0) := (match params with
      | [_, _, kind, reps, start, iv, e, now0] => do
        let reps ← parseInt? reps
        let start ← parseOpt start
        let iv ← parseInt? iv
        let e ← parseOpt e
        let now0 ← parseInt? now0
        let d ← (match kind with
          | "date" => start.map Def.date
          | "duration" => some (Def.duration iv)
          | "cycle" => some (Def.cycle reps start iv e)
          | _ => none)
        pure (d, now0)
      | _ => none) | return { bad := ["c13e2 params"] }
  let some obs := parseE2 lines | return { bad := ["c13e2 lines"] }
  let mut r : CaseResult := {}
  let mut firstDiff : Option String := none
  let mut agreed := false
  for cs in choiceLists false do
    if !agreed then
      match replayE2 d now0 cs obs with
      | none => agreed := true
      | some msg => if firstDiff.isNone then firstDiff := some msg
  if !agreed then
    r := { r with diffs := (firstDiff.getD "no resolution of the selects reproduces the history") :: r.diffs }
  -- the property on the implementation's own traces, per instance: its catch event continues
  -- exactly once, at the first operation that brings the clock to ITS OWN first due time
  -- (its arming time + duration / + interval, or the date), never before
  let mut sp : List String := []
  let mut now := now0
  let mut armedAt : Array Int := #[]
  let mut contd : Array Nat := #[]
  for o in obs do
    if o.op == "set" then now := o.arg
    if o.op == "inst" then
      armedAt := armedAt.push now
      contd := contd.push 0
    let mut k := 0
    for io in o.insts do
      let due := d.origin (armedAt.getD k 0) + d.interval
      let which := if k == 0 then "first" else "second"
      if io.errs > 0 then sp := s!"catch_once: instance {k}: {io.errs} error traces at {o.op} {o.arg}" :: sp
      if io.cont > 0 && now < due then
        sp := s!"never_early_{which}_instance: instance {k} armed at {armedAt.getD k 0} continued at clock {now}, its own due time is {due}" :: sp
      if io.done != io.cont then
        sp := s!"catch_once: instance {k} continued {io.cont} times, end completed {io.done} times at {o.op} {o.arg}" :: sp
      let had := contd.getD k 0
      -- `0 ≤ reps` or unbounded with reps ≠ 0: the definition fires at least once
      let fires := !d.isCycle || d.reps != 0
      if fires && had == 0 && io.cont == 0 && due ≤ now && o.op == "set" then
        sp := s!"instance_misses_own_timer: instance {k} armed at {armedAt.getD k 0}, due {due}, did not continue at clock {now}" :: sp
      if had + io.cont > 1 then
        sp := s!"catch_once: instance {k} continued {had + io.cont} times for one token" :: sp
      contd := contd.set! k (had + io.cont)
      k := k + 1
  return { r with specs := sp, nontrivial := contd.toList.any (· > 0) }

/-- Family `c13many`: a cycle timer with an end bound on a clock that holds `n` other pending wake-ups; one clock change
passes the next repetition's due time, the bound and all of them. The first repetition (exactly at its due time) is
delivered every time; nothing is delivered once the clock reads beyond the bound. -/
def checkMany (params lines : List String) : CaseResult := Id.run do
  let mut r : CaseResult := { nontrivial := true }
  let n := params.getD 0 "?"
  let mut seen := false
  for ln in lines do
    match words ln with
    | "harness-error" :: _ => r := { r with bad := ln :: r.bad }
    | "obs" :: "stuck" :: _ =>
      r := { r with specs := s!"timer_neither_fires_nor_ends: after the clock passed the end bound ({n} other wake-ups pending)" :: r.specs }
    | ["obs", "first", f, "late", l, "of", k] =>
      seen := true
      if f != k then
        r := { r with specs := s!"cycle_first_repetition_missing: {f} of {k} first repetitions delivered at their due time" :: r.specs }
      if l != "0" then
        r := { r with specs := s!"fires_after_end_bound: a repetition was delivered in {l} of {k} attempts although the clock already read 60 s, end bound 25 s ({n} other wake-ups made due by the same clock change)" :: r.specs }
    | _ => pure ()
  if !seen && r.specs.isEmpty && r.bad.isEmpty then r := { r with bad := ["c13many: incomplete record"] }
  return r

/-- `key=value` among the words of a line -/
def kvTwo (ws : List String) (key : String) : Option String :=
  (ws.find? (·.startsWith (key ++ "="))).map (fun w => (w.drop (key.length + 1)).toString)

/-- Family `c13two`: k tokens wait at one timer catch event when its timer fires once at its due time: each of them was
listening for that firing, each continues exactly once. -/
def checkTwo (_params lines : List String) : CaseResult := Id.run do
  let mut r : CaseResult := { nontrivial := true }
  let mut seen := false
  for ln in lines do
    match words ln with
    | "harness-error" :: _ => r := { r with bad := ln :: r.bad }
    | "obs" :: "two" :: rest =>
      seen := true
      let k := (kvTwo rest "tokens").getD "?"
      if (kvTwo rest "visits").getD "" != k then
        r := { r with bad := s!"c13two: {(kvTwo rest "visits").getD "?"} of {k} tokens reached the catch event" :: r.bad }
      else if (kvTwo rest "continued").getD "" != k || (kvTwo rest "ended").getD "" != k then
        r := { r with specs := s!"catch_once_per_waiting_token: {k} tokens were waiting at the timer catch event when its timer fired at its due time; {(kvTwo rest "continued").getD "?"} continued, {(kvTwo rest "ended").getD "?"} reached the end event" :: r.specs }
    | _ => pure ()
  if !seen && r.bad.isEmpty then r := { r with bad := ["c13two: incomplete record"] }
  return r

end Bpmn.Driver.C13
