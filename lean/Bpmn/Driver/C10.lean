import Bpmn.Driver.Util
import Bpmn.Model.Boundary
import Bpmn.Spec.Boundary
import Bpmn.Gen.C10
/-!
Driver for C10 (family `c10`).

params: host(task|sub) kinds(one letter per boundary event: i|n) mode schedule
lines : `prog …` (the parsed definitions), `op|opnw answer <task> <occ> ok -`, `op|opnw deliver signal sig<k>`,
        `op hold|release <point>`, `obs task <node> <occ> …`, `obs cancelnode H`, `obs ret deliver sig<k> returned|blocked`,
        `obs final complete=<b> hostpending=<b> pending=<n>`, other `obs` trace lines (ignored here).

1. model vs implementation (`diff`): the set of model states is driven by the recorded driver actions. Before an action
   that was issued at quiescence the set is closed under internal steps, reduced to the states in which no (unblocked)
   internal step is enabled, and then to those that agree with what the implementation has shown so far (requests
   of the host, of the task on the normal path, of the task on each exception path, cancel messages handled by the host). Before an action issued WITHOUT
   waiting the set is closed under internal steps only (any intermediate state may be the one the action meets).
   `hold <point>` blocks the labels of the goroutines the schedule controller parks there. An empty set is a
   disagreement. At the end the model's `canComplete` is compared with `WaitUntilComplete`.
2. the property (`spec`): the reference of `Bpmn.Spec.Boundary` is run on the same actions (racing actions in every
   order); the implementation's totals must be among the admissible outcomes. Each kind of deviation has its own
   signature.
-/
namespace Bpmn.Driver.C10
open Bpmn.Driver Bpmn.Model.Boundary
open Bpmn.Spec.Boundary (Ideal Act Host)

/-- the model at the facts extracted from the current source -/
def cfg : Cfg :=
  { gated := Bpmn.Gen.C10.eventsGatedByActive.getD true
    once := Bpmn.Gen.C10.cancellationOnce.getD true
    refuse := Bpmn.Gen.C10.cancelRefusedWhilePending.getD true
    share := Bpmn.Gen.C10.listenersShareWaitGroup.getD true
    early := Bpmn.Gen.C10.activeSetBeforeNextAction.getD true
    resetFirst := Bpmn.Gen.C10.activeResetBeforeHandover.getD true }

structure Seen where
  h : Nat := 0
  n : Nat := 0
  x : List Nat := []
  /-- cancel messages the host activity handled (it traces CancellationFlowNodeTrace before it decides) -/
  c : Nat := 0
deriving BEq, Repr

def Seen.show (o : Seen) : String := s!"host={o.h} normal={o.n} exception={o.x} cancels={o.c}"

def stSeen (s : St) : Seen := { h := s.hreqs, n := s.normal, x := s.ls.map (·.conts), c := s.verdicts.length }

def showStates (ss : List St) : String :=
  let xs := ss.map (fun s => (stSeen s).show)
  let xs := xs.foldl (fun acc x => if acc.contains x then acc else acc ++ [x]) []
  "{" ++ " | ".intercalate xs ++ "}"

/-- labels of the goroutines parked at a held schedule point -/
def blockedBy (host : String) (points : List String) (l : Label) : Bool :=
  points.any (fun p =>
    if p == "tasktrace.process.forwarding" then l == .respond
    else if p == "flow.action" then
      (match l with
       | .transform _ => true
       | .hostTake => true
       | .activate => true
       | .respond => host == "sub"   -- the inner token must take the inner task's action first
       | _ => false)
    else if p == "harness.before_next_action" then
      -- the host's harness is parked between `active := 1` and `activity.NextAction`; the harness of the task on an
      -- exception path would park there too, so a listener that moves on shows nothing until the release
      (if cfg.early then
        (match l with
         | .harnessCall => true
         | .move _ => true
         | _ => false)
       else
        -- both activation statements have run; what is parked is the creation of the forwarder goroutine
        (match l with
         | .forward => true
         | _ => false))
    else if p == "tracer.broadcast" then
      -- the tracer goroutine is parked: every goroutine of the engine blocks at its next trace send. What can
      -- still happen: the request goroutine hands its action over and leaves the counter, the answer relay
      -- receives it and stores `active := 0` if that comes before its trace send (`Cfg.resetFirst`), the harness
      -- stores `active := 1`
      (match l with
       | .respond => host == "sub"
       | .decrement => false
       | .clear => false
       | .harnessActive => false
       | _ => true)
    else if p == "catch.process_event" then
      (match l with
       | .catchTake _ => true
       | _ => false)
    else false)

def sigIndex (name : String) : Option Nat :=
  if name.startsWith "sig" then ((name.drop 3).toString.toNat?).bind (fun k => if k ≥ 1 then some (k - 1) else none) else none

def xIndex (node : String) : Option Nat :=
  if node.startsWith "X" then ((node.drop 1).toString.toNat?).bind (fun k => if k ≥ 1 then some (k - 1) else none) else none

def parseKinds (s : String) : Option (List Bool) :=
  s.toList.mapM (fun c => if c == 'i' then some true else if c == 'n' then some false else none)

def kvNat (ws : List String) (key : String) : Option Nat :=
  ((ws.find? (·.startsWith (key ++ "="))).map (fun w => (w.drop (key.length + 1)).toString)).bind String.toNat?


/-- how the implementation's totals deviate from one admissible outcome `e` of the reference -/
def deviations (e : Ideal) (seen : Seen) (complete hostPending : Bool) (pendingLeft : Nat) : List String := Id.run do
  let nb := e.kinds.length
  let mut sigs : List String := []
  if seen.n > e.normal then
    if e.host == .interrupted then
      sigs := s!"interrupting_normal_flow_continues: the host was answered after an interrupting boundary event had fired and its normal flow continued ({seen.n} request(s) of N, expected {e.normal})" :: sigs
    else
      sigs := s!"normal_flow_twice: {seen.n} requests of N, expected {e.normal}" :: sigs
  if seen.n < e.normal then
    sigs := s!"normal_flow_missing: {seen.n} requests of N, expected {e.normal}" :: sigs
  for k in List.range nb do
    let got := seen.x.getD k 0
    let want := e.exc.getD k 0
    if got > want then
      let why := e.ign.getD k 0
      if why == 3 then
        sigs := s!"boundary_reacts_after_interruption: B{k+1} reacted ({got} request(s) of X{k+1}, expected {want}) to an event delivered after the host had been interrupted" :: sigs
      else if why == 2 then
        sigs := s!"boundary_reacts_after_completion: B{k+1} reacted ({got} request(s) of X{k+1}, expected {want}) to an event delivered after the host had completed" :: sigs
      else if why == 1 then
        sigs := s!"boundary_reacts_before_activation: B{k+1} reacted ({got} request(s) of X{k+1}, expected {want}) to an event delivered before the host was reached" :: sigs
      else
        sigs := s!"exception_flow_twice: {got} requests of X{k+1}, expected {want}" :: sigs
    if got < want then
      if got ≥ 1 then
        sigs := s!"non_interrupting_second_event_ignored: {want} events reached the non-interrupting B{k+1} while the host was waiting, the exception flow continued {got} time(s)" :: sigs
      else
        sigs := s!"exception_flow_missing: {want} event(s) reached B{k+1} while the host was waiting, X{k+1} was never requested" :: sigs
  if pendingLeft == 0 && e.mayComplete && !complete then
    let unfired := (List.range nb).filter (fun k => seen.x.getD k 0 == 0)
    let mut explained := false
    if e.host == .interrupted && hostPending then
      sigs := "interrupted_activity_keeps_waiting: the host was interrupted but its request stays open and its token keeps the instance from completing" :: sigs
      explained := true
    if e.host == .interrupted && seen.h == 0 then
      sigs := "interrupt_at_activation_strands_token: the interrupting event arrived while the host was being activated; the activity accepted the cancel before its first message and never ran, its token never leaves" :: sigs
      explained := true
    if !unfired.isEmpty then
      sigs := s!"armed_listener_blocks_completion: every task was answered, boundary event(s) {unfired.map (fun k => s!"B{k+1}")} never fired, the instance does not complete" :: sigs
      explained := true
    if !explained then
      sigs := "instance_not_complete: every task was answered and every boundary event fired, the instance does not complete" :: sigs
  if e.host == .waiting && seen.h == 0 && !hostPending then
    sigs := "host_never_requested: the token reached the host, no interrupting boundary event fired, and the host activity was never requested (its token is stranded)" :: sigs
  if pendingLeft == 0 && !e.mayComplete && complete then
    sigs := "completes_early: the instance completed although the host still waits for its answer" :: sigs
  return sigs

/-- deviations the code is known to show weigh 1, anything else 4: among the admissible outcomes of racing actions
the one that explains the implementation with the least weight is reported (a deviation of a kind that is NOT known is
reported whenever no admissible order explains the run without it) -/
def cost (sigs : List String) : Nat :=
  (sigs.map (fun s =>
    if s.startsWith "interrupting_normal_flow_continues:" || s.startsWith "armed_listener_blocks_completion:"
       || s.startsWith "interrupted_activity_keeps_waiting:" || s.startsWith "non_interrupting_second_event_ignored:"
       || s.startsWith "boundary_reacts_after_interruption:" || s.startsWith "interrupt_at_activation_strands_token:" then 1 else 4)).sum

def check (params lines : List String) : CaseResult := Id.run do
  let some (host, kinds) := (match params with
      | [h, k, _, _] => (parseKinds k).map (fun ks => (h, ks))
      | _ => none) | return { bad := ["c10 params"] }
  let hostTask := if host == "sub" then "HI" else "H"
  let nb := kinds.length
  let mut r : CaseResult := {}
  -- the parsed definitions must be the program the model is instantiated for
  let progB := lines.filterMap (fun ln =>
    match words ln with
    | "prog" :: "node" :: id :: "boundaryEvent" :: rest =>
      some (id, rest.contains "attached=H", rest.contains "interrupting=1")
    | _ => none)
  let expectB := (List.range nb).map (fun i => (s!"B{i+1}", true, kinds.getD i false))
  if progB != expectB then
    return { bad := [s!"parsed boundary events {progB} differ from the generated ones {expectB}"] }
  -- replay
  let mut ss : List St := [init kinds]
  let mut extra : List Label := []
  let mut held : List String := []
  let mut prevNoWait := false
  let mut seen : Seen := { x := kinds.map (fun _ => 0) }
  let mut stop := false
  let mut opNo := 0
  -- reference
  let mut ideal : List Ideal := [Ideal.init kinds]
  let mut batch : List Act := []
  let mut inHold := false
  let mut final : Option (Bool × Bool × Nat) := none
  let mut noQuiesce := false
  for ln in lines do
    let ws := words ln
    match ws with
    | "prog" :: _ => pure ()
    | "harness-error" :: rest => r := { r with bad := ("harness-error " ++ " ".intercalate rest) :: r.bad }
    | ["obs", "task", node, _, _] =>
      if node == hostTask then seen := { seen with h := seen.h + 1 }
      else if node == "N" then seen := { seen with n := seen.n + 1 }
      else if node == "P" then pure ()
      else match xIndex node with
        | some k => seen := { seen with x := Bpmn.Spec.Boundary.bump seen.x k }
        | none => r := { r with bad := s!"unexpected request {node}" :: r.bad }
    | ["obs", "cancelnode", node] =>
      if node == "H" then seen := { seen with c := seen.c + 1 }
    | ["obs", "ret", "deliver", name, res] =>
      if res != "returned" then
        r := { r with specs := s!"event_delivery_blocked: delivery of {name} did not return within its deadline" :: r.specs }
    | ["obs", "ret", "do", node, occ, "blocked"] =>
      r := { r with specs := s!"answer_blocked: Do of {node} {occ} did not return within its deadline" :: r.specs }
    | "obs" :: "panic" :: rest =>
      r := { r with specs := ("panic: " ++ " ".intercalate rest) :: r.specs }
    | ["obs", "noquiesce"] => noQuiesce := true
    | ["obs", "norequest", node] =>
      -- the host's request may legitimately be absent when the script wants to answer it (the interrupting event
      -- raced the activation and stranded the token, or the request is late): the answer is skipped, the case is judged
      if node == hostTask then r := { r with infos := s!"no request of {node} when the script wanted to answer it: answer skipped" :: r.infos }
      else r := { r with bad := s!"no request of {node} to answer" :: r.bad }
    | ["obs", "notarrived", pt] =>
      -- the enforced schedule did not come about (nothing reached the held point in time): the case cannot be judged
      r := { r with skipped := true, infos := s!"nothing parked at {pt} within the deadline: schedule not enforced, case skipped" :: r.infos }
    | "obs" :: "final" :: rest =>
      final := some ((kvNat rest "complete").getD 0 == 1, (kvNat rest "hostpending").getD 0 == 1, (kvNat rest "pending").getD 0)
    | "obs" :: _ => pure ()
    | kind :: rest =>
      if kind != "op" && kind != "opnw" then
        r := { r with bad := ln :: r.bad }
      else
        opNo := opNo + 1
        -- 1. the boundary before this action
        if !stop then
          let blocked := blockedBy host held
          let all := reachInternal cfg blocked extra ss
          if prevNoWait then
            ss := all
          else
            let q := all.filter (stuck cfg blocked extra)
            -- while the tracer is parked nothing the engine does is visible: no comparison at these boundaries
            let m := if held.contains "tracer.broadcast" then q else q.filter (fun s => stSeen s == seen)
            if m.isEmpty then
              r := { r with diffs := s!"before action {opNo} ({" ".intercalate rest}): implementation {seen.show}, model at quiescence {showStates q}" :: r.diffs }
              stop := true
            ss := m
        -- 2. the action
        let act : Option Act := match rest with
          | ["answer", node, _, "ok", _] =>
            if node == "P" then some .activate else if node == hostTask then some .answer else none
          | ["deliver", "signal", name] => (sigIndex name).map Act.deliver
          | _ => none
        match rest with
        | ["answer", node, _, "err", "1", _] =>
          -- an error answer whose handler asks for a retry: the token requests the host again and goes on waiting. For
          -- the boundary events nothing has happened (the activity is waiting for its answer before and after); the
          -- request that follows is the same activation's, not a new one
          if node == hostTask && seen.h > 0 then seen := { seen with h := seen.h - 1 }
        | ["hold", pt] =>
          held := pt :: held
          -- a parked tracer delays what is SEEN, not what the activity does: the actions stay in sequence
          inHold := pt != "tracer.broadcast"
        | ["release", pt] => held := held.filter (· != pt); inHold := false
        | _ => pure ()
        match act with
        | some .activate => extra := [.activate]
        | some (.deliver k) =>
          if !stop then ss := ss.filterMap (fun s => step cfg s (.deliver k))
        | some .answer =>
          if !stop then
            ss := ss.filterMap (fun s => step cfg s .answer)
            if ss.isEmpty then
              r := { r with diffs := s!"action {opNo}: the host was answered but is not waiting for an answer in any model state" :: r.diffs }
              stop := true
        | none => pure ()
        -- 3. the reference: racing actions form one batch
        match act with
        | some a =>
          batch := batch ++ [a]
        | none => pure ()
        if !(kind == "opnw") && !inHold then
          ideal := Bpmn.Spec.Boundary.afterBatch ideal batch
          batch := []
        prevNoWait := kind == "opnw"
    | [] => pure ()
  ideal := Bpmn.Spec.Boundary.afterBatch ideal batch
  let some (complete, hostPending, pendingLeft) := final | return { r with bad := "no final line" :: r.bad }
  -- the final boundary (the harness waited for quiescence)
  if !stop then
    let blocked := blockedBy host held
    let q := (reachInternal cfg blocked extra ss).filter (stuck cfg blocked extra)
    let m := q.filter (fun s => stSeen s == seen)
    if m.isEmpty then
      r := { r with diffs := s!"at the end: implementation {seen.show}, model at quiescence {showStates q}" :: r.diffs }
    else if pendingLeft == 0 then
      if !(m.any (fun s => canComplete cfg s == complete)) then
        r := { r with diffs := s!"at the end: WaitUntilComplete {complete}, model canComplete {m.map (canComplete cfg)} ({seen.show})" :: r.diffs }
      if !(m.any (fun s => (s.req == .pending) == hostPending)) then
        r := { r with diffs := s!"at the end: host request pending {hostPending}, model {m.map (fun s => repr s.req)}" :: r.diffs }
  -- the property on what the implementation did: the deviations from the admissible outcome that explains it best
  let spinning := !stop && noQuiesce && host == "sub" && ss.any (fun s => s.verdicts.contains true)
  if noQuiesce then
    if spinning then
      r := { r with specs := "accepted_cancel_spins_subprocess_tracer: the sub-process accepted the cancel, its run loop cancelled the inner tracer's context while inner senders are alive, and that tracer now polls in a busy loop" :: r.specs }
    else
      r := { r with specs := "no_quiescence: the engine kept running (busy loop)" :: r.specs }
  let cands := ideal.map (fun e => deviations e seen complete hostPending pendingLeft)
  let best := cands.foldl (fun (b : Option (List String)) c =>
    match b with
    | none => some c
    | some b0 => if cost c < cost b0 then some c else some b0) none
  r := { r with specs := (best.getD []) ++ r.specs }
  let reacted := seen.n > 0 || seen.x.any (· > 0)
  return { r with nontrivial := reacted }

/-- family c10noexc: boundary events WITHOUT an exception flow; params `host kinds script`. The plain statement of C10 for the
normal flow: the task behind the host (`N`) is requested only by the host's own completion — never before the host (for a
sub-process: its inner task) was answered, never twice. -/
def checkNoExc (params lines : List String) : CaseResult := Id.run do
  let host := params.headD "task"
  let hostTask := if host == "sub" then "HI" else "H"
  let mut r : CaseResult := {}
  let mut answered := false
  let mut nReq := 0
  let mut nBefore := 0
  let mut delivered := 0
  for ln in lines do
    match words ln with
    | ["obs", "task", node, _, _] =>
      if node == "N" then
        nReq := nReq + 1
        if !answered then nBefore := nBefore + 1
      else if node != "P" && node != hostTask then r := { r with bad := s!"unexpected request {node}" :: r.bad }
    | "op" :: "answer" :: node :: _ => if node == hostTask then answered := true
    | "op" :: "deliver" :: _ => delivered := delivered + 1
    | ["obs", "ret", "deliver", name, res] =>
      if res != "returned" then
        r := { r with specs := s!"event_delivery_blocked: delivery of {name} did not return within its deadline" :: r.specs }
    | "obs" :: "panic" :: rest => r := { r with specs := ("panic: " ++ " ".intercalate rest) :: r.specs }
    | ["obs", "noquiesce"] => r := { r with specs := "no_quiescence: the engine kept running (busy loop)" :: r.specs }
    | "harness-error" :: rest => r := { r with bad := ("harness-error " ++ " ".intercalate rest) :: r.bad }
    | _ => pure ()
  if nBefore > 0 then
    r := { r with specs := s!"normal_flow_without_answer: the task behind the host was requested {nBefore} time(s) although the host had not been answered (boundary events without an exception flow)" :: r.specs }
  if nReq > 1 then
    r := { r with specs := s!"normal_flow_twice: the task behind the host was requested {nReq} times for one activation of the host" :: r.specs }
  return { r with nontrivial := delivered > 0 }

/-- family c10two: two tokens waiting in one host activity (non-interrupting boundary event), one matching event while both
wait. The plain statement: the exception flow continues for that event (X requested, once, before any answer of the host), the
normal flow is taken once per answer (N twice), never before an answer. -/
def checkTwo (_params lines : List String) : CaseResult := Id.run do
  let mut r : CaseResult := {}
  let mut waiting := 0
  let mut delivered := false
  let mut answered := 0
  let mut xBefore := 0
  let mut nReq := 0
  let mut nEarly := 0
  for ln in lines do
    match words ln with
    | ["c10two", "waiting", k] => waiting := k.toNat?.getD 0
    | ["c10two", "delivered"] => delivered := true
    | ["obs", "task", node, _, _] =>
      if node == "X" && answered == 0 then xBefore := xBefore + 1
      if node == "N" then
        nReq := nReq + 1
        if answered == 0 then nEarly := nEarly + 1
    | "op" :: "answer" :: node :: _ => if node == "H" then answered := answered + 1
    | ["obs", "ret", "deliver", name, res] =>
      if res != "returned" then
        r := { r with specs := s!"event_delivery_blocked: delivery of {name} did not return within its deadline" :: r.specs }
    | "obs" :: "panic" :: rest => r := { r with specs := ("panic: " ++ " ".intercalate rest) :: r.specs }
    | ["obs", "noquiesce"] => r := { r with specs := "no_quiescence: the engine kept running (busy loop)" :: r.specs }
    | "harness-error" :: rest => r := { r with bad := ("harness-error " ++ " ".intercalate rest) :: r.bad }
    | _ => pure ()
  if waiting != 2 then return { r with bad := s!"c10two: {waiting} tokens waiting in the host, 2 expected" :: r.bad }
  if delivered && xBefore == 0 then
    r := { r with specs := "exception_flow_missing: two tokens were waiting in the host when its boundary event's signal was delivered, the exception flow did not continue" :: r.specs }
  if xBefore > 1 then
    r := { r with specs := s!"exception_flow_twice: one event, the exception flow continued {xBefore} times" :: r.specs }
  if nEarly > 0 then
    r := { r with specs := s!"normal_flow_without_answer: the task behind the host was requested {nEarly} time(s) before any answer of the host" :: r.specs }
  if answered == 2 && nReq != 2 then
    r := { r with specs := s!"normal_flow_count: the host was answered twice, the task behind it was requested {nReq} time(s)" :: r.specs }
  return { r with nontrivial := delivered }

end Bpmn.Driver.C10
