import Bpmn.Driver.Util
import Bpmn.Driver.C01
import Bpmn.Model.TaskTrace
import Bpmn.Gen.C08
/-! Driver for C08: the real `taskTrace` against the small-step model `TT` (family c08tt: the recorded outcome must be
one of the outcomes the model can reach under the case's scheduling constraints, explored exhaustively at the
extracted facts), the two declared-name filters and `Retry` as function differentials (c08filter, c08retry), and
engine runs with generated answer histories (c08eng: lock-step replay through the engine model plus the retry bound,
the error-trace-first rule, the data-output filter and visibility to later tasks on the recorded history). -/
namespace Bpmn.Driver.C08
open Bpmn.Driver Bpmn.Model Bpmn.Model.TaskTrace

/-- the facts of the current source (unknown ⇒ what the code had when the model was written; the proof side
`Props/C08Current.lean` does not build in that case, so the run fails anyway) -/
def faithful : Cfg :=
  { forwardCap := Bpmn.Gen.C08.forwardCap.getD 1
    responseCap := Bpmn.Gen.C08.responseCap.getD 1
    doSendHasDefault := Bpmn.Gen.C08.doSendHasDefault.getD false
    doSendHasDoneAlt := Bpmn.Gen.C08.doSendHasDoneAlt.getD false }

/-! ## c08tt: exhaustive exploration of the model under the constraints the harness enforced -/

structure Key where
  pcs : List Pc
  fwd : List Nat
  proc : Proc
  resp : List Val
  flags : List Bool
  cons : Cons
deriving BEq

def key (k : Nat) (s : St) : Key :=
  { pcs := (List.range k).map s.pc, fwd := s.fwd, proc := s.proc, resp := s.resp,
    flags := [s.done, s.ctxDone, s.timerFired], cons := s.cons }

/-- a stretch of the run during which only `allowed` acts happen. It ends in any state where `stop` holds, or where
nothing allowed is enabled (the harness waited for quiescence). `pre` are the harness's own acts at its start. -/
structure Phase where
  pre : List Act := []
  allowed : List Act
  stop : St → Bool := fun _ => false

/-- all states reachable through allowed acts -/
partial def closure (cfg : Cfg) (k : Nat) (allowed : List Act) (todo : List St) (seen : List (Key × St)) : List St :=
  match todo with
  | [] => seen.map (·.2)
  | s :: rest =>
    let ks := key k s
    if seen.any (·.1 == ks) then closure cfg k allowed rest seen
    else closure cfg k allowed (allowed.filterMap (step cfg s) ++ rest) ((ks, s) :: seen)

def dedup (k : Nat) (ss : List St) : List St :=
  ss.foldl (fun acc s => if acc.any (fun t => key k t == key k s) then acc else acc ++ [s]) []

def runPhase (cfg : Cfg) (k : Nat) (front : List St) (ph : Phase) : List St :=
  let front := front.map (fun s => run cfg s ph.pre)
  let all := closure cfg k ph.allowed front []
  dedup k (all.filter (fun s => ph.stop s || ph.allowed.all (fun a => (step cfg s a).isNone)))

/-- `process`, and the reader of `response` the harness runs from the start (it plays the task goroutine) -/
def procOnly : List Act := [.recv, .fireCtx, .fireTimeout, .respond, .close]
def callerActs (i : Nat) : List Act := [.check i, .send i, .bail i, .ret i]
def callersUpTo (n : Nat) : List Act := (List.range n).flatMap callerActs

/-- the scheduling constraints of a case (see harness/cmd/vh/c08.go) -/
def phases (k : Nat) (mode variant : String) : Option (List Phase) :=
  -- the reader of `response` (the harness plays the task goroutine) runs from the start, except in the `noreader`
  -- variants where it has left on ctx.Done()
  let noReader := (variant.splitOn "noreader").length > 1
  let procActs : List Act := if noReader then procOnly else procOnly ++ [.consume]
  let held : List Act := if noReader then [.recv] else [.recv, .consume]
  let envActs : List Act :=
    if variant.startsWith "cancel" then (if noReader then [.cancel, .leave] else [.cancel])
    else if variant.startsWith "timeout" then [.expire] else []
  let env : Phase := { pre := envActs, allowed := procActs }
  let before := if variant.endsWith "_before" then [env] else []
  let final : Phase := { allowed := callersUpTo k ++ procActs }
  let variantOk := ["none", "cancel_before", "timeout_before", "cancel_parked", "timeout_parked",
    "cancel_noreader_before", "cancel_noreader_parked"].contains variant
  if !variantOk then none else
  match mode with
  | "seq" =>
    some (before ++ (List.range k).map (fun i =>
      { allowed := callersUpTo (i + 1) ++ procActs, stop := fun s => s.pc i == .returned }) ++ [final])
  | "procheld" =>
    -- the process goroutine is parked between its receive and its send on `response`
    some (before ++ (List.range k).map (fun i =>
      { allowed := callersUpTo (i + 1) ++ held, stop := fun s => s.pc i == .returned }) ++
      [{ allowed := callersUpTo k ++ held }, final])
  | "conc" => some (before ++ [final])
  | "parked" =>
    some (before ++ [{ allowed := (List.range k).map Act.check ++ procActs }] ++
      (if variant.endsWith "_parked" then [env] else []) ++ [final])
  | _ => none

def showVal : Val → String
  | .val i => s!"val {i}"
  | .errCtx => "err ctx"
  | .errTimeout => "err timeout"

def outcomeOf (k : Nat) (s : St) : String :=
  let blocked := (List.range k).filter (fun i => s.pc i != .returned)
  let outs := (match s.cons with | .got v => [v] | _ => []) ++ s.resp
  s!"blocked={blocked} out={outs.map showVal}"

def modelOutcomes (cfg : Cfg) (k : Nat) (phs : List Phase) : List String :=
  let finals := phs.foldl (runPhase cfg k) [init]
  (finals.map (outcomeOf k)).eraseDups

/-- params: k mode variant -/
def checkTT (params lines : List String) : CaseResult := Id.run do
  let some (k, mode, variant) := (match params with
      | [k, m, v] => do pure ((← k.toNat?), m, v)
      | _ => none) | return { bad := ["c08tt params"] }
  let some phs := phases k mode variant | return { bad := [s!"c08tt mode {mode} {variant}"] }
  let cfg := faithful
  let mut r : CaseResult := {}
  let mut blocked : List Nat := []
  let mut returned : List Nat := []
  let mut outs : List String := []
  let mut hits : Option Nat := none
  for ln in lines do
    match words ln with
    | ["caps", f, rs, _d] =>
      if f.toNat? != some cfg.forwardCap || rs.toNat? != some cfg.responseCap then
        r := { r with diffs := s!"extracted capacities forward={cfg.forwardCap} response={cfg.responseCap}, cap() at run time {f} {rs}" :: r.diffs }
    | ["hits", _p, n] => hits := n.toNat?
    | ["do", i, "returned"] => match i.toNat? with
      | some i => returned := returned ++ [i]
      | none => r := { r with bad := ln :: r.bad }
    | ["do", i, "blocked"] => match i.toNat? with
      | some i => blocked := blocked ++ [i]
      | none => r := { r with bad := ln :: r.bad }
    | "out" :: rest => outs := outs ++ [" ".intercalate rest]
    | "dopanic" :: i :: rest =>
      r := { r with specs := s!"do_panics: Do call {i} panicked in the caller's goroutine ({" ".intercalate rest}) — a Do call returns, whatever options it is given" :: r.specs }
    | "harness-error" :: _ => r := { r with bad := ln :: r.bad }
    | _ => r := { r with bad := ln :: r.bad }
  if !r.bad.isEmpty then return r
  if (blocked ++ returned).length != k then return { r with bad := [s!"{(blocked ++ returned).length} do lines for {k} callers"] }
  -- the enforcement itself: every caller must have been parked behind the done check
  if mode == "parked" && !variant.endsWith "_before" && hits != some k then
    return { r with bad := [s!"schedule not enforced: {hits} callers reached the held point, expected {k}"] }
  -- 1. model against implementation: the recorded outcome is one the model reaches
  let impl := s!"blocked={blocked} out={outs}"
  let model := modelOutcomes cfg k phs
  if !model.contains impl then
    r := { r with diffs := s!"outcome {impl} is not a behaviour of the model at the extracted facts; model: {model}" :: r.diffs }
  -- 2. the property on what the implementation did
  if outs.length > 1 then
    r := { r with specs := s!"answered_twice: the response channel delivered {outs}" :: r.specs }
  let env := variant != "none"
  match outs with
  | [] =>
    -- without a reader an unbuffered response channel legitimately delivers nothing
    if (variant.splitOn "noreader").length ≤ 1 || cfg.responseCap > 0 then
      r := { r with specs := "no_answer: nothing was delivered on the response channel" :: r.specs }
  | o :: _ =>
    if env then
      let want := if variant.startsWith "cancel" then "err ctx" else "err timeout"
      if o != want then
        r := { r with specs := s!"late_do_had_effect: the request had already failed with {want}, delivered {o}" :: r.specs }
    else
      match words o with
      | ["val", i] =>
        if !((i.toNat?.map (fun i => decide (i < k))).getD false) then
          r := { r with specs := s!"answer_from_nowhere: delivered {o}" :: r.specs }
        if (mode == "seq" || mode == "procheld") && i != "0" then
          r := { r with specs := s!"first_do_not_decisive: calls were sequential, delivered {o}" :: r.specs }
      | _ => r := { r with specs := s!"answer_from_nowhere: delivered {o}" :: r.specs }
  if !blocked.isEmpty then
    if variant.endsWith "_before" then
      -- the request had failed and `done` was closed before the call was made at all
      r := { r with specs := s!"late_do_blocks: Do calls {blocked} of {k}, made after the request had failed by itself, never returned ({mode}, {variant})" :: r.specs }
    else if env then
      r := { r with specs := s!"do_blocks_caller_after_ctx_or_timeout: Do calls {blocked} of {k} never returned ({mode}, {variant})" :: r.specs }
    else
      r := { r with specs := s!"do_blocks_third_concurrent_caller: Do calls {blocked} of {k} never returned ({mode})" :: r.specs }
  return { r with nontrivial := k ≥ 2 || env }

/-! ## c08filter -/

def kvList (s : String) : List (String × String) :=
  (commaList s).filterMap (fun kvs =>
    match kvs.splitOn "=" with
    | k :: v :: rest => some (k, "=".intercalate (v :: rest))
    | _ => none)

def assocSet (m : List (String × String)) (k v : String) : List (String × String) :=
  if m.any (·.1 == k) then m.map (fun p => if p.1 == k then (k, v) else p) else m ++ [(k, v)]

def showKv (m : List (String × String)) : String :=
  let xs := m.map (fun (k, v) => s!"{k}={v}")
  let xs := xs.toArray.qsort (· < ·) |>.toList
  if xs.isEmpty then "-" else ",".intercalate xs

/-- params: kind(results|outputs) hasField ; lines: decl, supplied, stored -/
def checkFilter (params lines : List String) : CaseResult := Id.run do
  let some (kind, hasField) := (match params with
      | [k, h] => do pure (k, (← parseBool? h))
      | _ => none) | return { bad := ["c08filter params"] }
  let mut decl : List String := []
  let mut supplied : List (String × String) := []
  let mut stored : Option String := none
  let mut r : CaseResult := {}
  for ln in lines do
    match words ln with
    | ["decl", d] => decl := commaList d
    | ["supplied", s] => supplied := kvList s
    | ["stored", s] => stored := some s
    | "panic" :: rest => r := { r with specs := s!"filter_panics: {" ".intercalate rest}" :: r.specs }
    | _ => r := { r with bad := ln :: r.bad }
  let some st := stored | return { r with bad := "no stored line" :: r.bad }
  let model : List (String × String) :=
    if kind == "results" && !hasField then [] else restrictTo decl assocSet [] supplied
  if showKv model != st then
    r := { r with diffs := s!"{kind} declared {decl} supplied {showKv supplied}: model {showKv model} impl {st}" :: r.diffs }
  -- the property on the implementation's answer: exactly the declared names that were supplied, with their values
  let implKv := kvList st
  for (k, v) in implKv do
    if !decl.contains k then
      r := { r with specs := s!"undeclared_name_stored: {k} (declared {decl})" :: r.specs }
    else if (supplied.find? (·.1 == k)).map (·.2) != some v then
      r := { r with specs := s!"stored_value_differs: {k}={v}, supplied {showKv supplied}" :: r.specs }
  for (k, _) in supplied do
    if decl.contains k && (kind != "results" || hasField) && !implKv.any (·.1 == k) then
      r := { r with specs := s!"declared_name_dropped: {k}" :: r.specs }
  return { r with nontrivial := !decl.isEmpty && !supplied.isEmpty }

/-! ## c08retry -/

def checkRetry (_params lines : List String) : CaseResult := Id.run do
  let mut rt : Retry := {}
  let mut r : CaseResult := {}
  let mut n := 0
  let mut steps := 0
  for ln in lines do
    n := n + 1
    match words ln with
    | ["step"] => rt := rt.stepR; steps := steps + 1
    | ["reset", v] =>
      match parseInt? v with
      | some v => rt := rt.reset v
      | none => r := { r with bad := ln :: r.bad }
    | ["cont", b] =>
      match parseBool? b with
      | some b =>
        if rt.isContinue != b then
          r := { r with diffs := s!"line {n}: limit {rt.limit} attempts {rt.attempts}: model IsContinue {rt.isContinue} impl {b}" :: r.diffs }
        -- the property: continue iff unbounded or fewer attempts than the limit
        let want := rt.limit == -1 || rt.limit > rt.attempts
        if b != want then
          r := { r with specs := s!"retry_decision: limit {rt.limit} attempts {rt.attempts}: IsContinue {b}" :: r.specs }
      | none => r := { r with bad := ln :: r.bad }
    | _ => r := { r with bad := ln :: r.bad }
  return { r with nontrivial := steps ≥ 1 }

/-! ## c08eng -/

open Bpmn.Driver.Eng Bpmn.Model.Engine in
/-- `Eng.replay` with one addition: an error answer that the flow loop CONTINUES after (no handler, skip, a mode outside
the switch) stores the declared results it carries, exactly like a successful answer (flow.go applies
`res.variables` after the error switch). `extra` maps op index ↦ results carried by that error answer. -/
def replayWith (cfg : Engine.Cfg) (c : Case) (extra : List (Nat × Vars)) : Replay := Id.run do
  let p := c.proc
  let mut s := start cfg p c.vars
  let mut i := 0
  let mut reqs := 0
  for (obs, op) in c.segs do
    if let some why := s.outOfScope then return { oos := some why, failAt := i }
    let m := modelObs p s.obs
    let r := implObs p obs
    reqs := reqs + (m.filter (·.startsWith "req ")).length
    if m != r then
      return { mismatch := some (i, " ; ".intercalate m, " ; ".intercalate r), reqs, failAt := i }
    match op with
    | none => pure ()
    | some ws =>
      match parseAnswer ws with
      | some (n, occ, a) =>
        let continues := match a with
          | .err mode _ => mode != 1 && mode != 3
          | _ => false
        match extra.find? (·.1 == i), p.node? n with
        | some (_, res), some nd =>
          if continues then s := { s with vars := applyDeclared nd s.vars res }
        | _, _ => pure ()
        s := answer cfg p s n occ a
      | none => return { oos := some ("unsupported op " ++ " ".intercalate ws), failAt := i }
    i := i + 1
  if let some why := s.outOfScope then return { oos := some why, failAt := i }
  return { finalVars := s.vars, live := s.topLive p, reqs, failAt := i }

def setItem (m : Vars) (k : String) (v : Int) : Vars := m.set k v

def ansOf (ws : List String) : Option (String × Ans × Bool) :=
  match ws with
  | ["answer", n, _occ, "ok", _] => some (n, .ok, true)
  | ["answer", n, _occ, "err", mode, retries] =>
    match mode.toNat?, parseInt? retries with
    | some 0, some _ => some (n, .err .none, false)
    | some m, some r => some (n, .err (.mode m r), false)
    | _, _ => none
  | _ => none

open Bpmn.Driver.Eng in
def checkEng (params lines : List String) : CaseResult := Id.run do
  -- lines of this family's own (prefix `c08`), with the number of ops recorded before them
  let mut own : List (Nat × List String) := []
  let mut rest : List String := []
  let mut nops := 0
  for ln in lines do
    match words ln with
    | "c08" :: ws => own := own ++ [(nops, ws)]
    | "op" :: _ => rest := rest ++ [ln]; nops := nops + 1
    | _ => rest := rest ++ [ln]
  let c := parseCase rest
  if !c.bad.isEmpty then return { bad := c.bad }
  let errRes : List (Nat × Vars) := own.filterMap (fun (i, ws) =>
    match ws with
    | ["errres", kv] => some (i - 1, parseVars kv)
    | _ => none)
  let mut r : CaseResult := {}
  -- 1. engine model (and token game) against the implementation
  if errRes.isEmpty then
    r := C01.judge c
  else
    let m := replayWith C01.faithful c errRes
    let implVars := (C01.implFinalVars c).getD []
    match m.oos, m.mismatch with
    | some why, _ => r := { r with diffs := s!"engine model outside its domain: {why}" :: r.diffs }
    | none, some (k, mo, im) => r := { r with diffs := s!"segment {k}: model [{mo}] impl [{im}]" :: r.diffs }
    | none, none =>
      if !C01.sameVars m.finalVars implVars then
        r := { r with diffs := s!"final variables: model {showVars m.finalVars} impl {showVars implVars}" :: r.diffs }
  if r.skipped then return r
  -- 2. this property's own model of the token at a task: retry counter, error switch, events
  let ops : List (String × Ans × Bool) := c.segs.filterMap (fun (_, op) => op.bind ansOf)
  let allObs : List String := c.segs.flatMap (·.1)
  let reqCount (n : String) : Nat := (allObs.filter (fun o => match words o with
    | "task" :: m :: _ => m == n
    | _ => false)).length
  let nodesAnswered := (ops.map (·.1)).eraseDups
  let mut retry : Option Retry := none       -- `f.retry` of the single token
  for n in nodesAnswered do
    let answers := (ops.filter (·.1 == n)).map (·.2.1)
    let td := ((c.proc.node? n).map (·.retries)).getD 0
    -- the token may come back to the node (self-loop): every visit consumes answers until it continues or ends
    let start := retry
    let mut remaining := answers
    let mut modelReqs := 0
    let mut visits := 0
    for _ in List.range (answers.length + 1) do
      if !remaining.isEmpty then
        let (evs, retry') := tokenRun td retry remaining
        retry := retry'
        modelReqs := modelReqs + requests evs
        remaining := remaining.drop (requests evs)
        visits := visits + 1
    let implReqs := reqCount n
    if modelReqs != implReqs then
      r := { r with diffs := s!"task {n}: token model requests it {modelReqs} times for answers {repr answers}, impl {implReqs}" :: r.diffs }
    -- the retry bound below is per visit; histories in which the token revisits the node are judged by the models only
    if visits > 1 then continue
    -- retry bound on the implementation's history: at most max(n) additional requests (n ≥ 0 everywhere)
    let ns := answers.filterMap (fun a => match a with
      | .err (.mode 1 k) => some k
      | _ => none)
    if !ns.isEmpty && ns.all (· ≥ 0) then
      let bound := ns.foldl max 0
      if (implReqs : Int) - 1 > bound then
        r := { r with specs := s!"retry_bound: task {n} requested {implReqs} times, retry counts given {ns}" :: r.specs }
    -- exactly min(n, failures before the first answer that is not a retry) for a fresh token and a constant n
    let plan := own.filterMap (fun (_, ws) => match ws with
      | ["plan", m, p] => if m == n then some (commaList p) else none
      | _ => none)
    match plan, start with
    | [p], none =>
      let lead := p.takeWhile (·.startsWith "e1:")
      let counts := lead.filterMap (fun e => parseInt? (e.drop 3).toString)
      match counts with
      | k :: _ =>
        if counts.all (· == k) && lead.length < p.length then
          let f := lead.length
          let want : Nat := if k == -1 then f else min k.toNat f
          if implReqs != want + 1 then
            r := { r with specs := s!"retry_exact: task {n}: {f} failures planned with retry count {k}: expected {want} additional requests, got {implReqs - 1}" :: r.specs }
      | [] => pure ()
    | _, _ => pure ()
  -- 3. every error answer is followed by its error trace before the token does anything else
  let mut prevErr := false
  for (obs, op) in c.segs do
    if prevErr then
      let relevant := obs.filter (fun o => match words o with
        | w :: _ => ["error", "task", "flow", "visit", "leave", "term", "complete", "cease", "newflow"].contains w
        | [] => false)
      match relevant with
      | o :: _ =>
        if o != "error taskexecerror" then
          r := { r with specs := s!"error_trace_first: after an error answer the first trace was `{o}`" :: r.specs }
      | [] => r := { r with specs := "error_trace_first: an error answer produced no error trace" :: r.specs }
    prevErr := match op.bind ansOf with
      | some (_, .err _, _) => true
      | _ => false
  -- 4. data outputs: stored = supplied restricted to the declared outputs (for answers the token continues after)
  let declOutputs (n : String) : List String := (own.filterMap (fun (_, ws) => match ws with
    | ["decl", m, _, o] => if m == n then some (commaList ((o.drop 8).toString)) else none
    | _ => none)).headD []
  let opArr := c.segs.filterMap (·.2)
  let mut items : Vars := []
  let mut vars : Vars := c.vars
  let mut idx := 0
  let mut rt : Option Retry := none
  for ws in opArr do
    match ansOf ws with
    | some (n, a, _) =>
      let td := ((c.proc.node? n).map (·.retries)).getD 0
      let (_, o, rt') := onAnswer td rt a
      rt := rt'
      if o == .continue_ then
        let objs := (own.filterMap (fun (i, w) => match w with
          | ["objs", kv] => if i == idx + 1 then some (parseVars kv) else none
          | _ => none)).headD []
        items := restrictTo (declOutputs n) setItem items objs
        let res : Vars := match ws with
          | ["answer", _, _, "ok", kv] => parseVars kv
          | _ => ((errRes.find? (·.1 == idx)).map (·.2)).getD []
        match c.proc.node? n with
        | some nd => vars := Engine.applyDeclared nd vars res
        | none => pure ()
    | none => pure ()
    -- what later tasks saw must be what is stored now
    for (i, w) in own do
      match w with
      | ["seen", m, occ, props, objs] =>
        if i == idx + 1 then
          let ps := parseVars ((props.drop 6).toString)
          let os := parseVars ((objs.drop 5).toString)
          for (k, v) in ps do
            if (vars.get k).getD 0 != v then
              r := { r with specs := s!"result_not_visible_to_later_task: {m} {occ} read property {k}={v}, stored {showVars vars}" :: r.specs }
          if showVars os != showVars (items.filter (fun p => ["o1", "p"].contains p.1)) then
            r := { r with specs := s!"output_not_visible_to_later_task: {m} {occ} read data objects {showVars os}, stored {showVars items}" :: r.specs }
      | _ => pure ()
    idx := idx + 1
  for (_, w) in own do
    match w with
    | ["items", kv] =>
      let impl := parseVars kv
      if showVars impl != showVars items then
        r := { r with diffs := s!"data objects at the end: model {showVars items} impl {showVars impl}" :: r.diffs }
      for (k, _) in impl do
        if !(c.proc.nodes.any (fun nd => (declOutputs nd.id).contains k)) then
          r := { r with specs := s!"undeclared_output_stored: {k}" :: r.specs }
    | _ => pure ()
  -- further Do calls on an answered request: they must return (their lack of effect is what 1. checks: the models
  -- never saw them)
  for (_, w) in own do
    match w with
    | ["extra", n, occ, whn, "blocked"] =>
      r := { r with specs := s!"extra_do_blocked: a further Do ({whn}) on request {n} {occ} never returned" :: r.specs }
    | _ => pure ()
  let _ := params
  return { r with nontrivial := r.ok && (ops.length ≥ 2 || own.any (fun w => w.2.head? == some "extra")) }

/-- Family `c08kind`: a declared result stored twice with values of different kinds; the condition behind the second store
reads the new value. Expected: the token ends at `endDone`, no error trace, the instance ceases. -/
def checkKind (params lines : List String) : CaseResult := Id.run do
  let mut r : CaseResult := { nontrivial := true }
  let name := params.getD 1 "?"
  let mut ends : List String := []
  let mut ceased := false
  for ln in lines do
    match words ln with
    | "harness-error" :: _ => r := { r with bad := ln :: r.bad }
    | "obs" :: "error" :: rest =>
      r := { r with specs := s!"result_of_new_kind_not_seen: error trace after the second store ({name}): {" ".intercalate rest}" :: r.specs }
    | ["obs", "end", e] => ends := ends ++ [e]
    | ["obs", "cease"] => ceased := true
    | ["obs", "timeout"] => r := { r with specs := s!"result_kind_run_stuck: the instance does not finish ({name})" :: r.specs }
    | _ => pure ()
  if r.specs.isEmpty && r.bad.isEmpty then
    if ends != ["endDone"] then
      r := { r with specs := s!"result_of_new_kind_not_seen: the token ended at {ends}, expected [endDone]: the condition behind the second store did not read the stored value ({name})" :: r.specs }
    else if !ceased then
      r := { r with bad := ["c08kind: incomplete record"] }
  return r

end Bpmn.Driver.C08
