import Bpmn.Driver.Util
/-!
Line-protocol driver, generic part. stdin:
  case begin <family> <caseid> <params…>
  <family-specific lines>
  case end
stdout: one line per case (`case <id> ok [nontrivial]` | `case <id> diff …` | `case <id> spec …` | `case <id> bad …`)
and a final `summary …` line. Each property has its own executable (`lean/DriverCxx.lean`, target `driver_Cxx`) so
that a property's driver never depends on another property's modules.
-/
namespace Bpmn.Driver

abbrev Dispatch := String → List String → List String → CaseResult

structure Totals where
  cases : Nat := 0
  ok : Nat := 0
  diff : Nat := 0
  spec : Nat := 0
  bad : Nat := 0
  nontrivial : Nat := 0
  skipped : Nat := 0

def report (out : IO.FS.Stream) (cid : String) (r : CaseResult) (t : Totals) : IO Totals := do
  let mut t := { t with cases := t.cases + 1 }
  if r.nontrivial then t := { t with nontrivial := t.nontrivial + 1 }
  for d in r.infos.reverse do out.putStrLn s!"case {cid} info {d}"
  if r.skipped then
    t := { t with skipped := t.skipped + 1 }
    out.putStrLn s!"case {cid} skipped"
  else if r.ok then
    t := { t with ok := t.ok + 1 }
    out.putStrLn s!"case {cid} ok{if r.nontrivial then " nontrivial" else ""}"
  else
    for d in r.bad.reverse do out.putStrLn s!"case {cid} bad {d}"
    for d in r.diffs.reverse do out.putStrLn s!"case {cid} diff {d}"
    for d in r.specs.reverse do out.putStrLn s!"case {cid} spec {d}"
    if !r.bad.isEmpty then t := { t with bad := t.bad + 1 }
    if !r.diffs.isEmpty then t := { t with diff := t.diff + 1 }
    if !r.specs.isEmpty then t := { t with spec := t.spec + 1 }
  return t

partial def loop (dispatch : Dispatch) (inp out : IO.FS.Stream) (cur : Option (String × String × List String))
    (acc : Array String) (t : Totals) : IO Totals := do
  let line ← inp.getLine
  if line.isEmpty then return t
  let line := line.trimAsciiEnd.toString
  match words line with
  | "case" :: "begin" :: fam :: cid :: params => loop dispatch inp out (some (fam, cid, params)) #[] t
  | ["case", "end"] =>
    match cur with
    | some (fam, cid, params) =>
      let t ← report out cid (dispatch fam params acc.toList) t
      loop dispatch inp out none #[] t
    | none => loop dispatch inp out none #[] t
  | _ => loop dispatch inp out cur (acc.push line) t

def runDriver (dispatch : Dispatch) : IO UInt32 := do
  let inp ← IO.getStdin
  let out ← IO.getStdout
  let t ← loop dispatch inp out none #[] {}
  out.putStrLn s!"summary cases={t.cases} ok={t.ok} diff={t.diff} spec={t.spec} bad={t.bad} nontrivial={t.nontrivial} skipped={t.skipped}"
  return 0

end Bpmn.Driver
