import Bpmn.Driver.Util
import Bpmn.Model.Satisfier
/-! Driver for C14: replays implementation histories of `Satisfy` through the model and
evaluates the property predicate on what the implementation did. -/
namespace Bpmn.Driver.C14
open Bpmn.Driver Bpmn.Model.Satisfier

/-- params: kind(catch|throw) par(0|1) len ; lines: `ev <idx|-1> <matched> <chain>` -/
def check (params : List String) (lines : List String) : CaseResult := Id.run do
  let some (par, len) := (match params with
      | [_, p, l] => do let p ← parseBool? p; let l ← l.toNat?; pure (p, l)
      | _ => none) | return { bad := ["c14 params"] }
  let mut s := Sat.init len par
  let mut r : CaseResult := {}
  let mut hist : List (Option Nat) := []
  let mut implFires := 0
  let mut n := 0
  for ln in lines do
    n := n + 1
    match words ln with
    | ["ev", i, m, c] =>
      let some i := parseInt? i | r := { r with bad := s!"line {n}" :: r.bad }
      let some m := parseBool? m | r := { r with bad := s!"line {n}" :: r.bad }
      let some c := parseInt? c | r := { r with bad := s!"line {n}" :: r.bad }
      let ev : Option Nat := if i < 0 then none else some i.toNat
      let (s', m', c') := satisfy s ev
      if m' != m || c' != c then
        r := { r with diffs := s!"line {n}: ev {i}: model ({m'},{c'}) impl ({m},{c})" :: r.diffs }
      s := s'
      hist := hist ++ [ev]
      if m then implFires := implFires + 1
    | _ => r := { r with bad := s!"line {n}: {ln}" :: r.bad }
  -- property predicate on the implementation's own answers
  let counts := (List.range len).map (matchCount hist)
  if par && len ≥ 2 then
    let mn := counts.foldl min (counts.headD 0)
    if implFires > mn then
      r := { r with specs := s!"pm_bound: fired {implFires} > least matched {mn}" :: r.specs }
    if counts.all (· == mn) && implFires != mn then
      r := { r with specs := s!"pm_exact: all matched {mn} times, fired {implFires}" :: r.specs }
    r := { r with nontrivial := implFires > 0 }
  else
    let expect := (hist.filter Option.isSome).length
    if implFires != expect then
      r := { r with specs := s!"multiple_fires_on_any: fired {implFires}, matching events {expect}" :: r.specs }
    r := { r with nontrivial := expect > 0 }
  return r

end Bpmn.Driver.C14
