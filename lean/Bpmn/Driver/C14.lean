import Bpmn.Driver.Util
import Bpmn.Model.Satisfier
/-! Driver for C14: replays implementation histories of `Satisfy` through the model and
evaluates the property predicate on what the implementation did. -/
namespace Bpmn.Driver.C14
open Bpmn.Driver Bpmn.Model.Satisfier

/-- params: kind(catch|throw) par(0|1) len ; lines: `ev <idx|-1> <matched> <chain>` -/
def check (params : List String) (lines : List String) : CaseResult := Id.run do
  let some (par, len) := (match params with
      | [_, p, l] => do let p ← parseBool? p; let l ← l.toNat?; pure (p, l)
      | _ => none) | return { bad := ["c14 params"] }
  let mut s := Sat.init len par
  let mut r : CaseResult := {}
  let mut hist : List (Option Nat) := []
  let mut implFires := 0
  let mut n := 0
  for ln in lines do
    n := n + 1
    match words ln with
    | ["ev", i, m, c] =>
      let some i := parseInt? i | r := { r with bad := s!"line {n}" :: r.bad }
      let some m := parseBool? m | r := { r with bad := s!"line {n}" :: r.bad }
      let some c := parseInt? c | r := { r with bad := s!"line {n}" :: r.bad }
      let ev : Option Nat := if i < 0 then none else some i.toNat
      let (s', m', c') := satisfy s ev
      if m' != m || c' != c then
        r := { r with diffs := s!"line {n}: ev {i}: model ({m'},{c'}) impl ({m},{c})" :: r.diffs }
      s := s'
      hist := hist ++ [ev]
      if m then implFires := implFires + 1
    | ["hang", i] =>
      r := { r with specs := s!"satisfy_does_not_return: the Satisfy call for event {i} (after {hist.length} events) did not return within its deadline" :: r.specs }
    | _ => r := { r with bad := s!"line {n}: {ln}" :: r.bad }
  -- property predicate on the implementation's own answers
  let counts := (List.range len).map (matchCount hist)
  if par && len ≥ 2 then
    let mn := counts.foldl min (counts.headD 0)
    if implFires > mn then
      r := { r with specs := s!"pm_bound: fired {implFires} > least matched {mn}" :: r.specs }
    if counts.all (· == mn) && implFires != mn then
      r := { r with specs := s!"pm_exact: all matched {mn} times, fired {implFires}" :: r.specs }
    r := { r with nontrivial := implFires > 0 }
  else
    let expect := (hist.filter Option.isSome).length
    if implFires != expect then
      r := { r with specs := s!"multiple_fires_on_any: fired {implFires}, matching events {expect}" :: r.specs }
    r := { r with nontrivial := expect > 0 }
  return r

end Bpmn.Driver.C14

namespace Bpmn.Driver.C14
open Bpmn.Driver Bpmn.Model.Satisfier

/-- Engine-level family `c14eng`: a (parallel-)multiple catch event `C` inside a loop (`C → T → back to C`).
params: par d rounds. The model: the node listens from the arrival of the token until it fires; its satisfier
lives across activations (chains are NOT reset on re-entry — that is what keeps "fired k times when every
definition was matched k times" true over the whole history). -/
def checkEng (params : List String) (lines : List String) : CaseResult := Id.run do
  let some (par, d, rounds) := (match params with
      | [p, d, r] => do pure ((← parseBool? p), (← d.toNat?), (← r.toNat?))
      | _ => none) | return { bad := ["c14eng params"] }
  let mut r : CaseResult := {}
  -- segment the history: each op with the observations that follow it
  let mut segs : List (List String × List String) := []      -- (op words, obs lines after it)
  let mut cur : Option (List String) := none
  let mut acc : List String := []
  for ln in lines do
    match words ln with
    | "op" :: rest =>
      match cur with
      | some o => segs := segs ++ [(o, acc)]
      | none => pure ()
      cur := some rest
      acc := []
    | "obs" :: rest => acc := acc ++ [" ".intercalate rest]
    | "harness-error" :: _ => r := { r with bad := ln :: r.bad }
    | _ => r := { r with bad := ln :: r.bad }
  match cur with
  | some o => segs := segs ++ [(o, acc)]
  | none => pure ()
  let mut sat := Sat.init d par
  let mut listening := true
  let mut implListening := true
  let mut hist : List (Option Nat) := []       -- events observed while the implementation listened
  let mut implFires := 0
  let mut prefixReported := false
  let mut n := 0
  for (op, obs) in segs do
    n := n + 1
    let requested := obs.any (fun o => (words o).take 2 == ["task", "T"])
    if obs.any (fun o => (words o).getD 2 "" == "blocked") then
      r := { r with specs := s!"catch_delivery_blocked: op {n}" :: r.specs }
    match op with
    | ["deliver", _, name] =>
      let ev : Option Nat :=
        if name.startsWith "sig" then (match (name.drop 3).toString.toNat? with | some k => if k < d then some k else none | none => none)
        else none
      -- model
      let mut expect := false
      if listening then
        let (s', m, _) := satisfy sat ev
        sat := s'
        if m then
          expect := true
          listening := false
      if expect != requested then
        r := { r with diffs := s!"op {n} deliver {name}: model fires={expect} impl fires={requested}" :: r.diffs }
      -- property bookkeeping on the implementation's own behaviour
      if implListening then hist := hist ++ [ev]
      if requested then
        implFires := implFires + 1
        implListening := false
    | ["burst", names] =>
      -- events handed in back to back by one sender: the node sees them in that order; it stops listening when it fires
      let evs : List (Option Nat) := (names.splitOn ",").map (fun name =>
        if name.startsWith "sig" then (match (name.drop 3).toString.toNat? with | some k => if k < d then some k else none | none => none)
        else none)
      let mut expect := false
      let wasListening := implListening
      for ev in evs do
        if listening then
          let (s', m, _) := satisfy sat ev
          sat := s'
          if implListening then hist := hist ++ [ev]
          if m then
            expect := true
            listening := false
      if expect != requested then
        r := { r with diffs := s!"op {n} burst {names}: model fires={expect} impl fires={requested}" :: r.diffs }
      if !par && wasListening && !requested && evs.any (·.isSome) then
        r := { r with specs := s!"multiple_catch_ignores_matching_event: op {n}: the listening catch event was handed `{names}` by one sender, one of them matches a definition, it did not fire" :: r.specs }
      if requested then
        implFires := implFires + 1
        implListening := false
    | "answer" :: "T" :: occ :: _ =>
      let k := (occ.toNat?).getD 0
      -- "has fired exactly k times whenever every definition has been matched exactly k times" — at EVERY such moment of
      -- the history, not only at its end (evaluated when the token comes back: everything before has been observed)
      if par && d ≥ 2 && !prefixReported then
        let cs := (List.range d).map (matchCount hist)
        let mn := cs.foldl min (cs.headD 0)
        if cs.all (· == mn) && implFires != mn then
          r := { r with specs := s!"pm_exact_engine: every definition observed {mn} times after op {n - 1}, fired {implFires}" :: r.specs }
          prefixReported := true
      if requested then
        r := { r with specs := s!"catch_fired_without_event: op {n}" :: r.specs }
      if k < rounds then
        listening := true
        implListening := true
    | _ => r := { r with bad := s!"op {n}" :: r.bad }
  -- C14 over the whole history the node observed
  let counts := (List.range d).map (matchCount hist)
  if par && d ≥ 2 then
    let mn := counts.foldl min (counts.headD 0)
    if implFires > mn then
      r := { r with specs := s!"pm_bound_engine: fired {implFires} > least matched {mn}" :: r.specs }
    -- "exactly k" is only claimed at moments when all counts are equal; evaluate it at the end of the history
    -- provided the node was listening at the end or had just fired
    if counts.all (· == mn) && implFires != mn && (implListening || implFires > mn) then
      r := { r with specs := s!"pm_exact_engine: every definition observed {mn} times, fired {implFires}" :: r.specs }
  return { r with nontrivial := implFires ≥ 2 }

end Bpmn.Driver.C14
