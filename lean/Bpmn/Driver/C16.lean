import Bpmn.Driver.Util
import Bpmn.Model.Value
import Bpmn.Lemmas.Value
import Bpmn.Gen.C16
/-! Driver for C16: replays what the harness recorded of `schema.NewValue` / `ValueFrom` / `ValueFor`,
the variable store, `$name.path` references and the engine-level round trip through the model
(`Bpmn.Model.Value`, at the facts extracted from the current /repo tree), and evaluates the C16
predicate on the implementation's own outputs. -/
namespace Bpmn.Driver.C16
open Bpmn.Driver Bpmn.Model.Value

/-! ### facts: the model follows the current source -/

def currentCfg? : Option Cfg :=
  cfgOf Bpmn.Gen.C16.inferredSwitch Bpmn.Gen.C16.declaredIntKinds Bpmn.Gen.C16.declaredFloatSixDecimals
    Bpmn.Gen.C16.declaredFloatWidened Bpmn.Gen.C16.nilGuardArray Bpmn.Gen.C16.nilGuardObject
    Bpmn.Gen.C16.nilGuardValuePtr

/-! ### a small JSON text parser (for texts supplied by the user; numbers: integers only) -/

def skipWs : Text → Text
  | c :: r => if c == ' ' || c == '\n' || c == '\t' || c == '\r' then skipWs r else c :: r
  | [] => []

def hexVal (c : Char) : Option Nat :=
  if c.isDigit then some (c.toNat - 48)
  else if 'a'.toNat ≤ c.toNat && c.toNat ≤ 'f'.toNat then some (c.toNat - 87)
  else if 'A'.toNat ≤ c.toNat && c.toNat ≤ 'F'.toNat then some (c.toNat - 55) else none

partial def parseStrBody (acc : Text) : Text → Option (Text × Text)
  | '"' :: r => some (acc.reverse, r)
  | '\\' :: c :: r =>
    match c with
    | '"' => parseStrBody ('"' :: acc) r
    | '\\' => parseStrBody ('\\' :: acc) r
    | '/' => parseStrBody ('/' :: acc) r
    | 'n' => parseStrBody ('\n' :: acc) r
    | 't' => parseStrBody ('\t' :: acc) r
    | 'r' => parseStrBody ('\r' :: acc) r
    | 'b' => parseStrBody (Char.ofNat 8 :: acc) r
    | 'f' => parseStrBody (Char.ofNat 12 :: acc) r
    | 'u' => match r with
      | a :: b :: c :: d :: r' => do
        let v := (← hexVal a) * 4096 + (← hexVal b) * 256 + (← hexVal c) * 16 + (← hexVal d)
        parseStrBody (Char.ofNat v :: acc) r'
      | _ => none
    | _ => none
  | c :: r => if c.toNat < 32 then none else parseStrBody (c :: acc) r
  | [] => none

mutual
partial def parseJ (s : Text) : Option (Json × Text) :=
  match skipWs s with
  | 'n' :: 'u' :: 'l' :: 'l' :: r => some (.null, r)
  | 't' :: 'r' :: 'u' :: 'e' :: r => some (.bool true, r)
  | 'f' :: 'a' :: 'l' :: 's' :: 'e' :: r => some (.bool false, r)
  | '"' :: r => (parseStrBody [] r).map fun (t, r') => (.str t, r')
  | '[' :: r =>
    match skipWs r with
    | ']' :: r' => some (.arr .nil, r')
    | _ => (parseItems r).map fun (xs, r') => (.arr xs, r')
  | '{' :: r =>
    match skipWs r with
    | '}' :: r' => some (.obj .nil, r')
    | _ => (parseMembers r).map fun (kvs, r') => (.obj kvs, r')
  | c :: r =>
    let (neg, rest) := if c == '-' then (true, r) else (false, c :: r)
    let ds := rest.takeWhile Char.isDigit
    let r' := rest.dropWhile Char.isDigit
    if ds.isEmpty || (ds.length > 1 && ds.head? == some '0') then none
    else match r' with
      | '.' :: _ | 'e' :: _ | 'E' :: _ => none     -- decimals are not followed by the model
      | _ => some (.num neg (Nat.ofDigitChars 10 ds 0) 0, r')
  | [] => none
partial def parseItems (s : Text) : Option (JList × Text) := do
  let (x, r) ← parseJ s
  match skipWs r with
  | ',' :: r' => let (xs, r'') ← parseItems r'; pure (.cons x xs, r'')
  | ']' :: r' => pure (.cons x .nil, r')
  | _ => none
partial def parseMembers (s : Text) : Option (JFields × Text) := do
  match skipWs s with
  | '"' :: r =>
    let (k, r) ← parseStrBody [] r
    match skipWs r with
    | ':' :: r =>
      let (v, r) ← parseJ r
      match skipWs r with
      | ',' :: r' => let (kvs, r'') ← parseMembers r'; pure (.cons k v kvs, r'')
      | '}' :: r' => pure (.cons k v .nil, r')
      | _ => none
    | _ => none
  | _ => none
end

def parseJsonText (s : Text) : Option Json :=
  match parseJ s with
  | some (j, r) => if (skipWs r).isEmpty then some j else none
  | none => none

/-- the codec the driver runs the model with: marshalled texts are kept as documents (the harness hands
the implementation's texts over parsed), user texts go through `parseJsonText` -/
def codec : Codec := { T := Json, print := id, parse := fun j => some j.canon, parseText := fun s => (parseJsonText s).map Json.canon }

/-! ### token parsers -/

def cps? (s : String) : Option Text :=
  if s == "" then some [] else (s.splitOn ".").mapM fun t => t.toNat?.map Char.ofNat

def afterColon (s : String) : String := (s.splitOn ":").drop 1 |> ":".intercalate

def kindOfName (s : String) : Kind :=
  match s with
  | "bool" => .bool | "int" => .int | "int8" => .int8 | "int16" => .int16 | "int32" => .int32 | "int64" => .int64
  | "uint" => .uint | "uint8" => .uint8 | "uint16" => .uint16 | "uint32" => .uint32 | "uint64" => .uint64
  | "uintptr" => .uintptr | "float32" => .float32 | "float64" => .float64 | "complex" => .complex
  | "array" => .array | "slice" => .slice | "map" => .map | "struct" => .struct | "string" => .string
  | "pointer" => .pointer | _ => .other

def intKindOfName (s : String) : Option IntKind :=
  match s with
  | "int" => some .int | "int8" => some .int8 | "int16" => some .int16 | "int32" => some .int32 | "int64" => some .int64
  | "uint" => some .uint | "uint8" => some .uint8 | "uint16" => some .uint16 | "uint32" => some .uint32
  | "uint64" => some .uint64 | _ => none

def countAfter (pfx : String) (s : String) : Option Nat :=
  if s.startsWith pfx then (s.drop pfx.length).toNat? else none

mutual
partial def parseG (ts : List String) : Option (GoVal × List String) :=
  match ts with
  | [] => none
  | t :: r =>
    if t == "nil" then some (.nil, r)
    else if t == "b0" then some (.bool false, r)
    else if t == "b1" then some (.bool true, r)
    else if t == "nvp" then some (.nilValuePtr, r)
    else if t == "p" then (parseG r).map fun (v, r') => (.ptr v, r')
    else if t.startsWith "i:" then
      match t.splitOn ":" with
      | [_, k, n] => do let k ← intKindOfName k; let n ← parseInt? n; pure (.int k n, r)
      | _ => none
    else if t.startsWith "f:" then
      match t.splitOn ":" with
      | [_, w, neg, m, e, g, sh] => do
        let neg ← parseBool? neg; let m ← m.toNat?; let e ← parseInt? e; let g ← cps? g; let sh ← cps? sh
        pure (.float (w == "32") { neg, m, e, g } sh, r)
      | _ => none
    else if t.startsWith "s:" then (cps? (afterColon t)).map fun s => (.str s, r)
    else if t.startsWith "np:" then some (.nilPtr (kindOfName (afterColon t)), r)
    else if t.startsWith "op:" then some (.opaque (kindOfName (afterColon t)), r)
    else if t.startsWith "vp:" then
      match t.splitOn ":" with
      | [_, ty, s] => do let ty ← cps? ty; let s ← cps? s; pure (.valuePtr (itemTypeOfText ty) s, r)
      | _ => none
    else match countAfter "sl" t with
      | some n => (parseGList n r).map fun (xs, r') => (.slice xs, r')
      | none => match countAfter "mp" t with
        | some n => (parseGFields n r).map fun (kvs, r') => (.map kvs, r')
        | none => match countAfter "st" t with
          | some n => (parseGFields n r).map fun (kvs, r') => (.struct kvs, r')
          | none => none
partial def parseGList (n : Nat) (ts : List String) : Option (GList × List String) :=
  match n with
  | 0 => some (.nil, ts)
  | n + 1 => do let (x, r) ← parseG ts; let (xs, r') ← parseGList n r; pure (.cons x xs, r')
partial def parseGFields (n : Nat) (ts : List String) : Option (GFields × List String) :=
  match n, ts with
  | 0, _ => some (.nil, ts)
  | n + 1, k :: r => do
    if !k.startsWith "k:" then none
    let k ← cps? (afterColon k); let (v, r') ← parseG r; let (rest, r'') ← parseGFields n r'
    pure (.cons k v rest, r'')
  | _, [] => none
end

mutual
partial def parseD (ts : List String) : Option (Json × List String) :=
  match ts with
  | [] => none
  | t :: r =>
    if t == "z" then some (.null, r)
    else if t == "b0" then some (.bool false, r)
    else if t == "b1" then some (.bool true, r)
    else if t.startsWith "#" then
      match (t.drop 1).toString.splitOn ":" with
      | [neg, m, e] => do let neg ← parseBool? neg; let m ← m.toNat?; let e ← parseInt? e; pure (.num neg m e, r)
      | _ => none
    else if t.startsWith "s:" then (cps? (afterColon t)).map fun s => (.str s, r)
    else match countAfter "a" t with
      | some n => (parseDList n r).map fun (xs, r') => (.arr xs, r')
      | none => match countAfter "o" t with
        | some n => (parseDFields n r).map fun (kvs, r') => (.obj kvs, r')
        | none => none
partial def parseDList (n : Nat) (ts : List String) : Option (JList × List String) :=
  match n with
  | 0 => some (.nil, ts)
  | n + 1 => do let (x, r) ← parseD ts; let (xs, r') ← parseDList n r; pure (.cons x xs, r')
partial def parseDFields (n : Nat) (ts : List String) : Option (JFields × List String) :=
  match n, ts with
  | 0, _ => some (.nil, ts)
  | n + 1, k :: r => do
    if !k.startsWith "k:" then none
    let k ← cps? (afterColon k); let (v, r') ← parseD r; let (rest, r'') ← parseDFields n r'
    pure (.cons k v rest, r'')
  | _, [] => none
end

def parseGAll (ts : List String) : Option GoVal :=
  match parseG ts with
  | some (v, []) => some v
  | _ => none

def parseDAll (ts : List String) : Option Json :=
  match parseD ts with
  | some (v, []) => some v
  | _ => none

/-- what `Value()` returned on the implementation -/
inductive Back
  | nil | str (s : Text) | int (n : Int) | bool (b : Bool) | flt (neg : Bool) (m : Nat) (e : Int) | doc (j : Json)
  | nonfinite
deriving DecidableEq, Repr

def parseBack (ts : List String) : Option Back :=
  match ts with
  | ["nil"] => some .nil
  | ["b0"] => some (.bool false)
  | ["b1"] => some (.bool true)
  | ["f:nonfinite"] => some .nonfinite
  | "j" :: r => (parseDAll r).map .doc
  | [t] =>
    if t.startsWith "s:" then (cps? (afterColon t)).map .str
    else if t.startsWith "i:" then (parseInt? (afterColon t)).map .int
    else if t.startsWith "f:" then
      match t.splitOn ":" with
      | [_, neg, m, e] => do let neg ← parseBool? neg; let m ← m.toNat?; let e ← parseInt? e; pure (.flt neg m e)
      | _ => none
    else none
  | _ => none

/-! ### comparisons -/

def showText (s : Text) : String := String.ofList (s.map fun c => if c.toNat < 32 || c == ' ' then '_' else c)

def normF (m : Nat) (e : Int) : Nat × Int := normDy 1200 m e

/-- model read-back against implementation read-back -/
def backAgrees (r : RVal) (b : Back) : Bool :=
  match r, b with
  | .str s, .str s' => s == s'
  | .int n, .int n' => n == n'
  | .bool x, .bool y => x == y
  | .dec (some d), .flt neg m e => roundsTo d { neg, m, e, g := [] }
  | .dec none, .flt _ m _ => m == 0
  | .json .null, .doc .null => true
  | .json j, .doc j' => j == j'.canon
  | .opaque, _ => true
  | _, _ => false

/-- the C16 predicate on a read-back: does it denote the stored Go value in canonical form -/
partial def backDenotes (b : Back) (v : GoVal) : Bool :=
  match v with
  | .bool x => b == .bool x
  | .int _ n => b == .int n
  | .float _ f _ => match b with
    | .flt neg m e => neg == f.neg && normF m e == normF f.m f.e
    | _ => false
  | .str s => b == .str s
  | .slice _ | .map _ | .struct _ => match b with
    | .doc j => j.canon == v.toJson.canon
    | _ => false
  | .ptr w => backDenotes b w
  | _ => false

def supported (v : GoVal) : Bool :=
  match v with
  | .int _ n => -9223372036854775808 ≤ n && n ≤ 9223372036854775807
  | .ptr w => (GoVal.ptr w).itemType.isSome && supported w
  | _ => v.itemType.isSome

def kindWord (v : GoVal) : String :=
  match v with
  | .nil => "nil" | .bool _ => "bool"
  | .int k _ => if k.signed then "int" else "uint"
  | .float is32 _ _ => if is32 then "float32" else "float64"
  | .str _ => "string" | .slice _ => "slice" | .map _ => "map" | .struct _ => "struct"
  | .ptr w => "ptr_" ++ kindWord w
  | .nilPtr _ => "nilptr" | .valuePtr _ _ => "valueptr" | .nilValuePtr => "nil_value_pointer" | .opaque _ => "opaque"

/-- stable signature of a panic, naming the kind of input -/
def panicSig (decl : ItemType) (v : GoVal) : String :=
  let rec core : GoVal → GoVal
    | .ptr w => core w
    | w => w
  match decl, v, core v with
  | _, .nilValuePtr, _ => "panic_nil_value_pointer:"
  | .array, .nil, _ => "panic_typed_nil_array:"
  | .object, .nil, _ => "panic_typed_nil_object:"
  | .other _, _, .int k _ => if k.signed then "panic_newvalue_int:" else "panic_newvalue_uint:"
  | d, _, w => s!"panic_{showText (itemTypeText d)}_{kindWord w}:"

def declOf (s : String) : Option ItemType :=
  if s == "-" then some (.other []) else (cps? s).map itemTypeOfText

def isInferred : ItemType → Bool
  | .other _ => true
  | _ => false

/-- implementation's stored value: type, and text or parsed document -/
inductive OutVal | chars (ty : ItemType) (s : Text) | doc (ty : ItemType) (j : Json)

def parseOut (ts : List String) : Option OutVal :=
  match ts with
  | [ty, c] => do
    if !c.startsWith "c:" then none
    let ty ← declOf ty; let s ← cps? (afterColon c); pure (.chars ty s)
  | ty :: "j" :: r => do let ty ← declOf ty; let j ← parseDAll r; pure (.doc ty j)
  | _ => none

def valueAgrees (mv : Value Json) (o : OutVal) : Bool :=
  match mv.val, o with
  | .chars s, .chars ty s' => mv.ty == ty && s == s'
  | .chars s, .doc ty j => mv.ty == ty && (parseJsonText s).map Json.canon == some j.canon
  | .doc d, .doc ty j => mv.ty == ty && d.canon == j.canon
  | .doc _, .chars _ _ => false

def showVal (mv : Value Json) : String :=
  match mv.val with
  | .chars s => s!"({showText (itemTypeText mv.ty)},\"{showText s}\")"
  | .doc _ => s!"({showText (itemTypeText mv.ty)},<doc>)"

def outType : OutVal → ItemType
  | .chars ty _ => ty
  | .doc ty _ => ty

structure St where
  r : CaseResult := {}
  n : Nat := 0

def St.bad (s : St) (m : String) : St := { s with r := { s.r with bad := s!"line {s.n}: {m}" :: s.r.bad } }
def St.diff (s : St) (m : String) : St := { s with r := { s.r with diffs := s!"line {s.n}: {m}" :: s.r.diffs } }
def St.spec (s : St) (m : String) : St := { s with r := { s.r with specs := m :: s.r.specs } }

/-! ### fn cases -/

/-- judge one `in / out / back` triple -/
def judgeCall (cfg : Cfg) (st : St) (decl : ItemType) (v : GoVal) (out : Option OutVal) (back : Option Back)
    (what : String) : St := Id.run do
  let mut st := st
  let model := valueFrom cfg codec { ty := decl, val := .chars [] } v
  -- model against implementation
  match model, out with
  | .error _, none => pure ()
  | .error _, some _ => st := st.diff s!"{what}: model panics, implementation does not"
  | .ok _, none => st := st.diff s!"{what}: implementation panics, model does not"
  | .ok mv, some o =>
    if !valueAgrees mv o then st := st.diff s!"{what}: stored value differs, model {showVal mv}"
    match back with
    | some b => if !backAgrees (valueFor codec mv) b then st := st.diff s!"{what}: read-back differs from model"
    | none => st := st.bad "missing back"
  -- property predicate on the implementation's own outputs
  match out with
  | none => st := st.spec s!"{panicSig decl v} {what} panics"
  | some o =>
    match v.itemType with
    | some t =>
      -- under a declared type only a value of exactly that dynamic type is stored (pointers are not followed
      -- there; variables, results and data objects all go through the inferred branch)
      let isPtr := match v with | .ptr _ => true | _ => false
      if supported v && (isInferred decl || (decl == t && !isPtr)) then
        if outType o != t then
          st := st.spec s!"item_type_mismatch_{kindWord v}: {what} stored as {showText (itemTypeText (outType o))}"
        else match back with
          | some b =>
            if !backDenotes b v then
              let sig := match v, isInferred decl with
                | .float _ _ _, false => "float_declared_loses_value:"
                | _, _ => s!"roundtrip_lost_{kindWord v}:"
              st := st.spec s!"{sig} {what} does not read back as the stored value"
          | none => pure ()
    | none => pure ()
  return st

def checkFn (cfg : Cfg) (lines : List String) : CaseResult := Id.run do
  let mut st : St := {}
  let mut cur : Option (ItemType × GoVal × String) := none
  let mut curOut : Option (Option OutVal) := none
  let mut calls := 0
  for ln in lines do
    st := { st with n := st.n + 1 }
    match words ln with
    | "in" :: d :: g =>
      -- flush a pending panic call
      if let some (decl, v, what) := cur then
        if let some none := curOut then st := judgeCall cfg st decl v none none what
      match declOf d, parseGAll g with
      | some decl, some v =>
        cur := some (decl, v, s!"ValueFrom(decl={showText (itemTypeText decl)}, {kindWord v})"); curOut := none
        calls := calls + 1
      | _, _ => st := st.bad ln; cur := none
    | "out" :: "panic" :: _ => curOut := some none
    | "out" :: "ok" :: r =>
      match parseOut r with
      | some o => curOut := some (some o)
      | none => st := st.bad ln
    | "back" :: r =>
      match cur, curOut, parseBack r with
      | some (decl, v, what), some (some o), some b =>
        st := judgeCall cfg st decl v (some o) (some b) what
        cur := none; curOut := none
      | _, _, _ => st := st.bad ln
    | _ => st := st.bad ln
  if let some (decl, v, what) := cur then
    if let some none := curOut then st := judgeCall cfg st decl v none none what
  return { st.r with nontrivial := calls > 0 }

/-! ### store cases -/

structure StoreSt where
  heap : Heap Json := { stores := [] }
  locs : List Nat := []            -- harness locator index ↦ address
  clones : List Nat := []          -- harness clone index ↦ address
  /-- specification shadow: address ↦ key ↦ the Go value last stored there -/
  shadow : List (List (Text × GoVal)) := []

def shadowSet (m : List (Text × GoVal)) (k : Text) (v : GoVal) : List (Text × GoVal) :=
  (k, v) :: m.filter (·.1 != k)

def keyTok (s : String) : Option Text := if s.startsWith "k:" then cps? (afterColon s) else none

/-- a `got` line against the model and against the specification shadow -/
def judgeGot (st : St) (model : Option RVal) (sh : Option GoVal) (r : List String) (what : String) : St := Id.run do
  let mut st := st
  match r with
  | ["0"] =>
    if model.isSome then st := st.diff s!"{what}: model finds a value, implementation does not"
    if sh.isSome then st := st.spec s!"stored_value_missing: {what} not found although it was stored"
  | "1" :: b =>
    match parseBack b with
    | none => st := st.bad "got"
    | some b =>
      match model with
      | none => st := st.diff s!"{what}: implementation finds a value, model does not"
      | some mr => if !backAgrees mr b then st := st.diff s!"{what}: value differs from model"
      match sh with
      | none => st := st.spec s!"instances_not_isolated: {what} yields a value never stored there"
      | some v =>
        if supported v && !backDenotes b v then
          st := st.spec s!"instances_not_isolated: {what} does not yield the value last stored there ({kindWord v})"
  | "panic" :: _ => st := st.spec s!"panic_getvariable: {what} panics"
  | _ => st := st.bad "got"
  return st

def checkStore (cfg : Cfg) (lines : List String) : CaseResult := Id.run do
  let mut st : St := {}
  let mut s : StoreSt := {}
  let mut pendingSet : Option (Nat × Text × GoVal) := none
  let mut pendingGet : Option (Nat × Text × String) := none
  let mut isolationExercised := false
  for ln in lines do
    st := { st with n := st.n + 1 }
    match words ln with
    | ["new", _] =>
      let (a, h) := s.heap.new
      s := { s with heap := h, locs := s.locs ++ [a], shadow := s.shadow ++ [[]] }
    | "set" :: a :: k :: g =>
      match a.toNat?.bind (s.locs[·]?), keyTok k, parseGAll g with
      | some a, some k, some v => pendingSet := some (a, k, v)
      | _, _, _ => st := st.bad ln
    | "ret" :: r =>
      match pendingSet with
      | none => st := st.bad ln
      | some (a, k, v) =>
        pendingSet := none
        let model := newValue cfg codec v
        let implOk := r.head? == some "ok"
        match model with
        | .ok mv =>
          if !implOk then st := st.diff "SetVariable: implementation panics, model does not"
          else s := { s with heap := s.heap.write a k mv }
        | .error _ => if implOk then st := st.diff "SetVariable: model panics, implementation does not"
        if implOk then
          s := { s with shadow := s.shadow.set a (shadowSet (s.shadow.getD a []) k v) }
        else
          st := st.spec s!"{panicSig (.other []) v} SetVariable({kindWord v}) panics"
    | ["get", a, k] =>
      match a.toNat?.bind (s.locs[·]?), keyTok k with
      | some a, some k => pendingGet := some (a, k, s!"GetVariable({showText k})")
      | _, _ => st := st.bad ln
    | ["getmut", a, k] =>
      -- like `get`; afterwards the CALLER edits the value it was handed in place (keys set and deleted, elements
      -- overwritten): the store is not affected, every later read returns the stored value
      match a.toNat?.bind (s.locs[·]?), keyTok k with
      | some a, some k => pendingGet := some (a, k, s!"GetVariable({showText k}) [result edited by the caller afterwards]")
      | _, _ => st := st.bad ln
    | ["cget", c, k] =>
      match c.toNat?.bind (s.clones[·]?), keyTok k with
      | some a, some k => pendingGet := some (a, k, s!"clone[{showText k}]")
      | _, _ => st := st.bad ln
    | "got" :: r =>
      match pendingGet with
      | none => st := st.bad ln
      | some (a, k, what) =>
        pendingGet := none
        let sh := ((s.shadow.getD a []).find? (·.1 == k)).map (·.2)
        st := judgeGot st ((s.heap.read a k).map (valueFor codec)) sh r what
    | ["clone", a, _] =>
      match a.toNat?.bind (s.locs[·]?) with
      | some a =>
        let (c, h) := s.heap.clone a
        s := { s with heap := h, clones := s.clones ++ [c], shadow := s.shadow ++ [s.shadow.getD a []] }
        isolationExercised := true
      | none => st := st.bad ln
    | "cset" :: c :: k :: g =>
      match c.toNat?.bind (s.clones[·]?), keyTok k, parseGAll g with
      | some a, some k, some v =>
        match newValue cfg codec v with
        | .ok mv =>
          s := { s with heap := s.heap.write a k mv, shadow := s.shadow.set a (shadowSet (s.shadow.getD a []) k v) }
        | .error _ => st := st.bad "cset of a panicking value"
      | _, _, _ => st := st.bad ln
    | ["cdel", c, k] =>
      match c.toNat?.bind (s.clones[·]?), keyTok k with
      | some a, some k =>
        s := { s with heap := s.heap.erase a k, shadow := s.shadow.set a ((s.shadow.getD a []).filter (·.1 != k)) }
      | _, _ => st := st.bad ln
    | _ => st := st.bad ln
  return { st.r with nontrivial := isolationExercised }

/-! ### ref cases -/

def refTok (s : String) : Option Text := if s.startsWith "r:" then cps? (afterColon s) else none
def valTok (s : String) : Option Text := if s.startsWith "v:" then cps? (afterColon s) else none

/-- what gjson's `Value()` yields for a document -/
def docAsBack : Json → Back
  | .null => .nil
  | .bool b => .bool b
  | .num s m e => let (m', e') := round53 m e; .flt s m' e'
  | .str s => .str s
  | j => .doc j

def backEq (a b : Back) : Bool :=
  match a, b with
  | .flt s m e, .flt s' m' e' => s == s' && normF m e == normF m' e'
  | .doc j, .doc j' => j.canon == j'.canon
  | a, b => a == b

def checkRef (cfg : Cfg) (lines : List String) : CaseResult := Id.run do
  let mut st : St := {}
  let mut store : Store Json := []
  let mut inputs : List (Text × GoVal) := []
  let mut pendingSet : Option (Text × GoVal) := none
  let mut pending : Option (String × ItemType × Text × Text) := none   -- kind, type, default, ref
  let mut lookups := 0
  for ln in lines do
    st := { st with n := st.n + 1 }
    match words ln with
    | ["new", _] => pure ()
    | "set" :: _ :: k :: g =>
      match keyTok k, parseGAll g with
      | some k, some v => pendingSet := some (k, v)
      | _, _ => st := st.bad ln
    | "ret" :: r =>
      match pendingSet with
      | none => st := st.bad ln
      | some (k, v) =>
        pendingSet := none
        match newValue cfg codec v, r.head? == some "ok" with
        | .ok mv, true => store := store.set k mv; inputs := shadowSet inputs k v
        | .error _, false => st := st.spec s!"{panicSig (.other []) v} SetVariable({kindWord v}) panics"
        | _, _ => st := st.diff "SetVariable: panic behaviour differs from model"
    | ["ref", r] =>
      match refTok r with
      | some r => pending := some ("ref", .string, [], r); lookups := lookups + 1
      | none => st := st.bad ln
    | ["prop", ty, r] =>
      match declOf ty, refTok r with
      | some ty, some r => pending := some ("prop", ty, [], r)
      | _, _ => st := st.bad ln
    | ["hdr", v, r] =>
      match valTok v, refTok r with
      | some v, some r => pending := some ("hdr", .string, v, r)
      | _, _ => st := st.bad ln
    | "found" :: r =>
      match pending with
      | some ("ref", _, _, ref) =>
        pending := none
        let what := s!"locatorJSONGet({showText ref})"
        let model := locatorRef codec store ref
        match r with
        | "panic" :: _ => st := st.spec s!"panic_locator_ref: {what} panics"
        | f :: b =>
          match parseBool? f, parseBack b with
          | some f, some b =>
            let (mf, mb) : Bool × Back := match model with
              | none => (false, .nil)
              | some none => (true, .nil)
              | some (some j) => (true, docAsBack j)
            if mf != f || !backEq mb b then st := st.diff s!"{what}: model ({mf}) differs from implementation ({f})"
            -- predicate: a reference to an absent variable or path yields no value
            let present : Bool := match ref with
              | '$' :: rest => match splitAt '.' rest with
                | some (name, path) => match (inputs.find? (·.1 == name)).map (·.2) with
                  | some v => match pathGet v.toJson.canon (splitDots path) with
                    | some .null => false
                    | some _ => true
                    | none => false
                  | none => false
                | none => false
              | _ => false
            if !present && b != .nil then st := st.spec s!"missing_ref_returns_value: {what} yields a value for an absent path"
          | _, _ => st := st.bad ln
        | [] => st := st.bad ln
      | _ => st := st.bad ln
    | "pout" :: r =>
      match pending with
      | some ("prop", ty, _, ref) =>
        pending := none
        let what := s!"property(type={showText (itemTypeText ty)}, ref={showText ref})"
        let model := fetchProperty cfg codec store ty ref
        match r with
        | "panic" :: _ =>
          let sig := match ty with
            | .array => "panic_typed_nil_array:"
            | .object => "panic_typed_nil_object:"
            | t => s!"panic_property_{showText (itemTypeText t)}:"
          st := st.spec s!"{sig} FetchTaskDataInput {what} panics"
          if let .ok _ := model then st := st.diff s!"{what}: implementation panics, model does not"
        | "ok" :: o =>
          match parseOut o, model with
          | some o, .ok mv => if !valueAgrees mv o then st := st.diff s!"{what}: model {showVal mv} differs"
          | some _, .error _ => st := st.diff s!"{what}: model panics, implementation does not"
          | none, _ => st := st.bad ln
        | _ => st := st.bad ln
      | _ => st := st.bad ln
    | "hout" :: r =>
      match pending with
      | some ("hdr", _, dflt, ref) =>
        pending := none
        let what := s!"header(ref={showText ref})"
        match r with
        | "panic" :: _ => st := st.spec s!"panic_header_ref: {what} panics"
        | [v] =>
          let model : Text := match locatorRef codec store ref with
            | some (some (.str s)) => if ref.isEmpty then dflt else s
            | _ => dflt
          if valTok v != some model then st := st.diff s!"{what}: model \"{showText model}\" differs"
        | _ => st := st.bad ln
      | _ => st := st.bad ln
    | _ => st := st.bad ln
  return { st.r with nontrivial := lookups > 0 }

/-! ### engine cases (see harness/cmd/vh/c16engine.go) -/

/-- what `Value()` hands back, as the Go value `ValueFrom` then receives (property looked up by name) -/
def rvalAsGo : RVal → GoVal
  | .str s => .str s
  | .int n => .int .int64 n
  | .bool b => .bool b
  | .dec _ => .opaque .float64
  | .json j => jsonAsGo j
  | .opaque => .opaque .other

structure Inst where
  store : Store Json := []
  objs : Store Json := []
  shadow : List (Text × GoVal) := []      -- specification: the Go value last stored under each variable
  objShadow : List (Text × GoVal) := []   -- … and under each data object
  results : List (Text × GoVal) := []
  dobjs : List (Text × GoVal) := []
  applied : Bool := false                  -- results / data outputs already folded into store / objs
  seen : List Text := []                   -- variables reported by the implementation at the end
  crashPredicted : Bool := false

structure Decls where
  props : List (Text × ItemType × Text × Text) := []
  hdrs : List (Text × Text × Text) := []
  results : List Text := []
  outs : List Text := []

def isBlank (s : Text) : Bool := s.all fun c => c == ' ' || c == '\n' || c == '\t' || c == '\r'

/-- one olive property as `FetchTaskDataInput` assembles it -/
def modelProp (cfg : Cfg) (store : Store Json) (name : Text) (ty : ItemType) (value ref : Text) : Except Panic (Value Json) :=
  if !isBlank value then .ok { ty, val := .chars value }
  else if !ref.isEmpty then fetchProperty cfg codec store ty ref
  else match getVariable codec store name with
    | some r => valueFrom cfg codec { ty, val := .chars [] } (rvalAsGo r)
    | none => .ok { ty, val := .chars [] }

def modelHeader (store : Store Json) (value ref : Text) : Text :=
  if ref.isEmpty then value else
  match locatorRef codec store ref with
  | some (some (.str s)) => s
  | _ => value

/-- fold the task's answer into the instance (declared results / data outputs only) -/
def applyAnswer (cfg : Cfg) (d : Decls) (i : Inst) : Inst := Id.run do
  if i.applied then return i
  let mut i := { i with applied := true }
  for (k, v) in i.results.reverse do
    if d.results.contains k then
      match newValue cfg codec v with
      | .ok mv => i := { i with store := i.store.set k mv, shadow := shadowSet i.shadow k v }
      | .error _ => i := { i with crashPredicted := true }
  for (k, v) in i.dobjs.reverse do
    if d.outs.contains k then
      match newValue cfg codec v with
      | .ok mv => i := { i with objs := i.objs.set k mv, objShadow := shadowSet i.objShadow k v }
      | .error _ => i := { i with crashPredicted := true }
  return i

/-- give the generic store signatures of `judgeGot` the signature of the shared-option case -/
def renameIso (iso m : String) : String :=
  match m.splitOn ": " with
  | sig :: rest =>
    if sig == "instances_not_isolated" || sig == "stored_value_missing" then iso ++ " " ++ ": ".intercalate rest else m
  | [] => m

def checkEngine (cfg : Cfg) (lines : List String) (shared : Bool := false) : CaseResult := Id.run do
  -- isolation failures of instances created from one shared option slice get their own signature
  let iso := if shared then "instances_share_store_via_shared_option:" else "instances_not_isolated:"
  let mut st : St := {}
  let mut pendingGet : Option Text := none
  let mut d : Decls := {}
  let mut insts : Array Inst := #[]
  let mut cur : Nat := 0
  let mut pendingVar : Option (String × Text) := none
  let mut tasks := 0
  for ln in lines do
    st := { st with n := st.n + 1 }
    let inst := insts.getD cur {}
    match words ln with
    | ["propdecl", k, ty, v, r] =>
      match keyTok k, declOf ty, valTok v, refTok r with
      | some k, some ty, some v, some r => d := { d with props := d.props ++ [(k, ty, v, r)] }
      | _, _, _, _ => st := st.bad ln
    | ["hdrdecl", k, v, r] =>
      match keyTok k, valTok v, refTok r with
      | some k, some v, some r => d := { d with hdrs := d.hdrs ++ [(k, v, r)] }
      | _, _, _ => st := st.bad ln
    | ["resdecl", k] => match keyTok k with
      | some k => d := { d with results := d.results ++ [k] }
      | none => st := st.bad ln
    | ["outdecl", k] => match keyTok k with
      | some k => d := { d with outs := d.outs ++ [k] }
      | none => st := st.bad ln
    | ["inst", i] =>
      match i.toNat? with
      | some i =>
        cur := i
        while insts.size ≤ i do insts := insts.push {}
      | none => st := st.bad ln
    | tag :: k :: g =>
      if tag == "var" || tag == "obj" || tag == "result" || tag == "dobj" || tag == "setvar" then
        match keyTok k, parseGAll g with
        | some k, some v =>
          if tag == "var" || tag == "setvar" then
            match newValue cfg codec v with
            | .ok mv => insts := insts.setIfInBounds cur { inst with store := inst.store.set k mv, shadow := shadowSet inst.shadow k v }
            | .error _ => insts := insts.setIfInBounds cur { inst with crashPredicted := true }
          else if tag == "obj" then
            match newValue cfg codec v with
            | .ok mv => insts := insts.setIfInBounds cur { inst with objs := inst.objs.set k mv, objShadow := shadowSet inst.objShadow k v }
            | .error _ => insts := insts.setIfInBounds cur { inst with crashPredicted := true }
          else if tag == "result" then insts := insts.setIfInBounds cur { inst with results := (k, v) :: inst.results }
          else insts := insts.setIfInBounds cur { inst with dobjs := (k, v) :: inst.dobjs }
        | _, _ => st := st.bad ln
      else if tag == "tprop" then
        tasks := tasks + 1
        match keyTok k, parseOut g with
        | some k, some o =>
          match d.props.find? (·.1 == k) with
          | some (_, ty, v, r) =>
            match modelProp cfg inst.store k ty v r with
            | .ok mv =>
              if !valueAgrees mv o then
                st := st.diff s!"task property {showText k}: model {showVal mv} differs"
                -- the value handed to the task is the one ANOTHER instance of the case would get: the instances are not
                -- isolated from each other (a failing input for the property, not only a model / implementation difference)
                let others := (insts.toList.zipIdx.filter (·.2 != cur)).filter (fun (oi, _) =>
                  match modelProp cfg oi.store k ty v r with
                  | .ok ov => valueAgrees ov o
                  | .error _ => false)
                match others.head? with
                | some (_, j) =>
                  st := st.spec s!"instances_not_isolated: instance {cur} was handed, as task property {showText k}, the value instance {j} gets ({showVal mv} expected)"
                | none => pure ()
            | .error _ => st := st.diff s!"task property {showText k}: model panics"
          | none => st := st.diff s!"task property {showText k} was not declared"
        | _, _ => st := st.bad ln
      else if tag == "thdr" then
        match keyTok k, g with
        | some k, [v] =>
          match d.hdrs.find? (·.1 == k) with
          | some (_, dv, r) =>
            let m := modelHeader inst.store dv r
            if valTok v != some m then st := st.diff s!"task header {showText k}: model \"{showText m}\" differs"
          | none => st := st.diff s!"task header {showText k} was not declared"
        | _, _ => st := st.bad ln
      else if tag == "fvar" || tag == "fobj" then
        let inst := applyAnswer cfg d inst
        match keyTok k, parseOut g with
        | some k, some o =>
          let tbl := if tag == "fvar" then inst.store else inst.objs
          match tbl.get k with
          | some mv => if !valueAgrees mv o then st := st.diff s!"final {tag} {showText k}: model {showVal mv} differs"
          | none => st := st.diff s!"final {tag} {showText k}: not in the model's store"
          if tag == "fobj" && !(inst.objShadow.any (·.1 == k)) then
            st := st.spec s!"{iso} instance {cur} ends with data object {showText k} which it never stored"
          if tag == "fvar" then
            insts := insts.setIfInBounds cur { inst with seen := k :: inst.seen }
            pendingVar := some (tag, k)
          else
            insts := insts.setIfInBounds cur inst
            pendingVar := none
        | _, _ => st := st.bad ln
      else if tag == "fback" then
        match pendingVar, keyTok k, parseBack g with
        | some (_, k'), some k, some b =>
          pendingVar := none
          if k != k' then st := st.bad "fback key"
          match (inst.store.get k).map (valueFor codec) with
          | some mr => if !backAgrees mr b then st := st.diff s!"final variable {showText k}: read-back differs from model"
          | none => pure ()
          match (inst.shadow.find? (·.1 == k)).map (·.2) with
          | none => st := st.spec s!"{iso} instance {cur} ends with variable {showText k} which it never stored"
          | some v =>
            if supported v && !backDenotes b v then
              let sig := if shared then iso else s!"engine_roundtrip_lost_{kindWord v}:"
              st := st.spec s!"{sig} instance {cur} variable {showText k} does not read back as the value it stored ({kindWord v})"
        | _, _, _ => st := st.bad ln
      else if tag == "foback" then
        match keyTok k, parseBack g with
        | some k, some b =>
          match (inst.objShadow.find? (·.1 == k)).map (·.2) with
          | some v =>
            if supported v && !backDenotes b v then
              let sig := if shared then iso else s!"engine_roundtrip_lost_{kindWord v}:"
              st := st.spec s!"{sig} instance {cur} data object {showText k} does not read back as the value it stored ({kindWord v})"
          | none => pure ()
        | _, _ => st := st.bad ln
      else if tag == "gvar" then
        match keyTok k with
        | some k => insts := insts.setIfInBounds cur (applyAnswer cfg d inst); pendingGet := some k
        | none => st := st.bad ln
      else if tag == "got" then
        match pendingGet with
        | some key =>
          pendingGet := none
          let sh := (inst.shadow.find? (·.1 == key)).map (·.2)
          let before := st.r.specs.length
          st := judgeGot st ((inst.store.get key).map (valueFor codec)) sh (k :: g) s!"instance {cur} GetVariable({showText key})"
          if shared && st.r.specs.length > before then
            st := { st with r := { st.r with specs := st.r.specs.map (renameIso iso) } }
        | none => st := st.bad ln
      else if tag == "crash" then
        -- `crash <scenario> <0|1> <why>`: k is the scenario, g = [flag, why]
        let predicted := (insts.getD 0 {}).crashPredicted ||
          (applyAnswer cfg d (insts.getD 0 {})).crashPredicted ||
          d.props.any (fun (n, ty, v, r) => match modelProp cfg (insts.getD 0 {}).store n ty v r with | .error _ => true | .ok _ => false)
        match g with
        | f :: _ =>
          let crashed := f == "1"
          if crashed != predicted then st := st.diff s!"scenario {k}: model predicts crash={predicted}, implementation crash={crashed}"
          if crashed then st := st.spec s!"engine_crash_{k}: the process dies of a panic inside an engine goroutine"
          tasks := tasks + 1
        | [] => st := st.bad ln
      else if tag == "done" then
        if k != "1" then st := st.spec s!"engine_did_not_complete: instance {cur} did not complete"
      else st := st.bad ln
    | _ => st := st.bad ln
  -- every variable the model holds must have been reported
  let mut idx := 0
  for inst in insts do
    let inst := applyAnswer cfg d inst
    if !inst.seen.isEmpty || !inst.store.isEmpty then
      for (k, _) in inst.store do
        if !inst.seen.contains k && !(lines.any (·.startsWith "crash")) then
          st := st.spec s!"stored_value_missing: instance {idx} lost variable {showText k}"
    idx := idx + 1
  return { st.r with nontrivial := tasks > 0 }

def check (params lines : List String) : CaseResult :=
  -- when a fact cannot be read (the construct it is read from has been rewritten) the obligation `C16Current` is already
  -- broken; the histories are then judged against the configuration that SATISFIES the property (`Cfg.repaired`,
  -- `Props/C16.repaired_ok`), so that a failing input is still found and reported with the broken obligation
  let cfg := currentCfg?.getD Cfg.repaired
  (fun (r : CaseResult) => if currentCfg?.isNone then { r with infos := "facts unreadable: judged against Cfg.repaired" :: r.infos } else r) <|
    match params with
    | "fn" :: _ => checkFn cfg lines
    | "store" :: _ => checkStore cfg lines
    | "ref" :: _ => checkRef cfg lines
    | "engine" :: "shared" :: _ => checkEngine cfg lines true
    | "engine" :: _ => checkEngine cfg lines
    | "crash" :: _ => checkEngine cfg lines
    | _ => { bad := ["c16 params"] }

end Bpmn.Driver.C16
