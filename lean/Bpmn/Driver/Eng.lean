import Bpmn.Driver.Util
import Bpmn.Model.Engine
/-! Shared driver code for the engine-level families: parsing `prog`/`op`/`obs` lines, replaying the
engine model in lock-step with a recorded run, comparing per-segment observations. -/
namespace Bpmn.Driver.Eng
open Bpmn.Driver Bpmn.Model Bpmn.Model.Engine

def kv (ws : List String) (key : String) : Option String :=
  (ws.find? (·.startsWith (key ++ "="))).map (fun w => (w.drop (key.length + 1)).toString)

def parseKind (k : String) : Kind :=
  if k == "startEvent" then .start else if k == "endEvent" then .end_
  else if k == "exclusiveGateway" then .xor else if k == "parallelGateway" then .par
  else if k == "inclusiveGateway" then .incl else if k == "eventBasedGateway" then .ebg
  else if k == "intermediateCatchEvent" then .catch_ else if k == "intermediateThrowEvent" then .throw_
  else if k == "subProcess" then .sub else if k == "boundaryEvent" then .boundary
  else if ["task", "serviceTask", "userTask", "manualTask", "scriptTask", "sendTask", "receiveTask",
           "businessRuleTask", "callActivity"].contains k then .task
  else .other

def parseVars (s : String) : Vars :=
  (commaList s).filterMap (fun kvs =>
    match kvs.splitOn "=" with
    | [k, v] => (parseInt? v).map (fun n => (k, n))
    | _ => none)

structure Case where
  proc : Proc := { nodes := [], flows := [] }
  vars : Vars := []
  /-- the recorded run: per segment the observations, then the op that ends the segment;
      the flag says the op was issued without waiting for quiescence (`opnw`) -/
  segs : List (List String × Option (List String)) := []
  nowait : List Nat := []      -- indices of segments whose closing op was `opnw`
  final : Option (List String) := none
  bad : List String := []
  notes : List String := []      -- `obs noquiesce`, `obs ret … blocked`

def parseCase (lines : List String) : Case := Id.run do
  let mut c : Case := {}
  let mut cur : List String := []
  for ln in lines do
    match words ln with
    | "prog" :: "node" :: id :: kind :: rest =>
      let res := kv rest "results"
      -- a DATA OUTPUT `d` of the activity is modelled as a declared result named `@d` (the data object `d` as a
      -- variable `@d`): `ApplyTaskDataOutput` keeps exactly the declared outputs as `ApplyTaskResult` keeps exactly the
      -- declared result fields, and conditions read it through `getDataObject('d')` (operand `v:@d`)
      let outs := (commaList ((kv rest "outputs").getD "-")).map ("@" ++ ·)
      c := { c with proc := { c.proc with nodes := c.proc.nodes ++ [{
        id, kind := parseKind kind,
        ins := commaList ((kv rest "in").getD "-"), outs := commaList ((kv rest "out").getD "-"),
        dflt := kv rest "default", parent := (kv rest "parent").getD "-",
        results := commaList (res.getD "-") ++ outs, hasResults := res.isSome || !outs.isEmpty,
        retries := ((kv rest "retries").bind parseInt?).getD 0 }] } }
    | ["prog", "flow", id, src, dst, _parent, cond] =>
      c := { c with proc := { c.proc with flows := c.proc.flows ++ [{ id, src, dst, cond := Cond.parse cond }] } }
    | ["prog", "vars", vs] => c := { c with vars := parseVars vs }
    | "op" :: rest =>
      c := { c with segs := c.segs ++ [(cur, some rest)] }
      cur := []
    | "opnw" :: rest =>
      -- observations before and after an op issued without waiting belong to one segment
      c := { c with nowait := c.nowait ++ [c.segs.length + 1], segs := c.segs ++ [(cur, some rest)] }
      cur := []
    | "obs" :: "final" :: rest => c := { c with final := some rest }
    | ["obs", "noquiesce"] => c := { c with notes := c.notes ++ ["noquiesce"] }
    | "obs" :: "ret" :: rest => c := { c with notes := c.notes ++ [" ".intercalate rest] }
    | "obs" :: rest => cur := cur ++ [" ".intercalate rest]
    | "harness-error" :: rest => c := { c with bad := c.bad ++ ["harness-error " ++ " ".intercalate rest] }
    | _ => c := { c with bad := c.bad ++ [ln] }
  return { c with segs := c.segs ++ [(cur, none)] }

/-- canonical multiset of the comparable observations of a recorded segment -/
def implObs (p : Proc) (obs : List String) : List String :=
  let top (n : String) : Bool := ((p.node? n).map (·.parent == "-")).getD true
  let xs := obs.filterMap (fun o =>
    match words o with
    | "task" :: n :: _ => some s!"req {n}"
    | ["complete", n] => if top n then some s!"complete {n}" else none
    | ["error", cls] =>
      let cls := if cls == "invalidargumenterror" || cls == "exprerror" then "condition" else cls
      some s!"error {cls}"
    | _ => none)
  xs.toArray.qsort (· < ·) |>.toList

def modelObs (p : Proc) (obs : List Obs) : List String :=
  let top (n : String) : Bool := ((p.node? n).map (·.parent == "-")).getD true
  let xs := obs.filterMap (fun o =>
    match o with
    | .req n => some s!"req {n}"
    | .complete n => if top n then some s!"complete {n}" else none
    | .err cls => some s!"error {cls}")
  xs.toArray.qsort (· < ·) |>.toList

def parseAnswer (ws : List String) : Option (String × Nat × Answer) :=
  match ws with
  | ["answer", n, occ, "ok", res] => do
      let occ ← occ.toNat?
      pure (n, occ, .ok (parseVars res))
  | ["answer", n, occ, "err", mode, retries] => do
      let occ ← occ.toNat?
      let mode ← mode.toNat?
      let r ← parseInt? retries
      pure (n, occ, .err mode r)
  | _ => none

def showVars (vs : Vars) : String :=
  let xs := vs.map (fun (k, v) => s!"{k}={v}")
  ",".intercalate (xs.toArray.qsort (· < ·) |>.toList)

/-- Result of replaying a recorded run against the model under one configuration. -/
structure Replay where
  /-- index of the first segment whose observations differ, with (model, impl) -/
  mismatch : Option (Nat × String × String) := none
  causes : List String := []
  oos : Option String := none
  finalVars : Vars := []
  live : Bool := false
  reqs : Nat := 0
  /-- causes logged by the model up to and including each segment -/
  causesAt : List (List String) := []
  /-- segment at which the replay stopped (mismatch / out of scope) -/
  failAt : Nat := 0

/-- replay against any engine-shaped semantics (`start`/`answer` pair) -/
def replayWith (startF : Proc → Vars → St) (answerF : Proc → St → String → Nat → Answer → St) (c : Case) : Replay := Id.run do
  let p := c.proc
  let mut s := startF p c.vars
  let mut i := 0
  let mut reqs := 0
  let mut log : List (List String) := []
  let mut carryM : List Obs := []
  let mut carryR : List String := []
  for (obs, op) in c.segs do
    log := log ++ [s.causes]
    if let some why := s.outOfScope then
      return { oos := some why, causes := s.causes, causesAt := log, failAt := i }
    if c.nowait.contains i then
      -- no comparison at this boundary: carry the observations of both sides over to the next one
      carryM := carryM ++ s.obs
      carryR := carryR ++ obs
    else
      let m := modelObs p (carryM ++ s.obs)
      let r := implObs p (carryR ++ obs)
      carryM := []
      carryR := []
      reqs := reqs + (m.filter (·.startsWith "req ")).length
      if m != r then
        return { mismatch := some (i, " ; ".intercalate m, " ; ".intercalate r), causes := s.causes, reqs,
                 causesAt := log, failAt := i }
    match op with
    | none => pure ()
    | some ws =>
      match ws with
      | ["setvar", kvs] =>
        -- the HOST changes instance variables (Process.Locator().SetVariable) while tokens are parked: every later
        -- condition sees the new values
        s := { s with vars := (parseVars kvs).foldl (fun vs (k, v) => vs.set k v) s.vars, obs := [] }
      | _ =>
      match parseAnswer ws with
      | some (n, occ, a) => s := answerF p s n occ a
      | none => return { oos := some ("unsupported op " ++ " ".intercalate ws), causes := s.causes,
                         causesAt := log, failAt := i }
    i := i + 1
  log := log ++ [s.causes]
  if let some why := s.outOfScope then
    return { oos := some why, causes := s.causes, causesAt := log, failAt := i }
  return { causes := s.causes, finalVars := s.vars, live := s.topLive p, reqs, causesAt := log, failAt := i }

def replay (cfg : Cfg) (c : Case) : Replay := replayWith (start cfg) (answer cfg) c

end Bpmn.Driver.Eng
