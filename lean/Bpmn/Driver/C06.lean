import Bpmn.Driver.Util
import Bpmn.Model.EventGateway
import Bpmn.Gen.C06
import Std.Data.HashSet
/-! Driver for C06 (family `c06`): evaluates the C06 predicate on the history the real engine produced and compares
the run with the event-gateway model at the facts extracted from the current source:

* deliveries made one by one at quiescence (`seq`, and the late deliveries of every mode that settled
  deterministically) are replayed in lock-step — winner, how every loser went away, and for EVERY delivery whether
  it returned or blocked must be what the model computes;
* racy deliveries (`nw`, `conc`, the enforced witness replays `wit` / `wit0`, perturbed runs): the observed outcome
  (per alternative: continued / completed / terminated / still pending) must be the outcome of some schedule of the
  model (depth-first search over the model's interleavings, labelled a search; inconclusive beyond its state cap). -/
namespace Bpmn.Driver.C06
open Bpmn.Driver Bpmn.Model.EventGateway

def cfgOf (k incoming : Nat) : Cfg :=
  { k := k
    termCap := Bpmn.Gen.C06.ebgTermCap.getD 0
    mapReplaced := Bpmn.Gen.C06.ebgMapReplaced.getD true
    replyCap := Bpmn.Gen.C06.catchReplyCap.getD 0
    inboxCap := Bpmn.Gen.C06.catchInboxMul.getD 2 * incoming + Bpmn.Gen.C06.catchInboxAdd.getD 1 }

structure Alt where
  idx : Nat
  catch_ : String
  task : String
  event : String

structure Hist where
  alts : List Alt := []
  /-- (phase, words of the line) in recorded order; phases: 0 before the deliveries, 1 compete, 2 settle, 3 late -/
  evs : List (Nat × List String) := []
  complete : Option Bool := none
  incoming : Nat := 1
  bad : List String := []

def parse (lines : List String) : Hist := Id.run do
  let mut h : Hist := {}
  let mut ph := 0
  for ln in lines do
    match words ln with
    | "prog" :: "node" :: _ :: "intermediateCatchEvent" :: rest =>
      let ins := (rest.find? (·.startsWith "in=")).map (fun w => (commaList (w.drop 3).toString).length)
      h := { h with incoming := ins.getD 1 }
    | "prog" :: _ => pure ()
    | ["alt", j, c, t, _, name] =>
      match j.toNat? with
      | some j => h := { h with alts := h.alts ++ [{ idx := j, catch_ := c, task := t, event := name }] }
      | none => h := { h with bad := ln :: h.bad }
    | ["phase", "compete"] => ph := 1
    | ["phase", "settle"] => ph := 2
    | ["phase", "late"] => ph := 3
    | "note" :: _ => pure ()
    | ["obs", "final", c] => h := { h with complete := some (c == "complete=1") }
    | "obs" :: rest => h := { h with evs := h.evs ++ [(ph, "obs" :: rest)] }
    | "op" :: rest => h := { h with evs := h.evs ++ [(ph, "op" :: rest)] }
    | "opnw" :: rest => h := { h with evs := h.evs ++ [(ph, "opnw" :: rest)] }
    | "harness-error" :: _ => h := { h with bad := ln :: h.bad }
    | _ => h := { h with bad := ln :: h.bad }
  return h

def Hist.altOfEvent (h : Hist) (name : String) : Option Nat := (h.alts.find? (·.event == name)).map (·.idx)
def Hist.altOfCatch (h : Hist) (n : String) : Option Nat := (h.alts.find? (·.catch_ == n)).map (·.idx)
def Hist.altOfTask (h : Hist) (n : String) : Option Nat := (h.alts.find? (·.task == n)).map (·.idx)

/-- alternatives whose branch task was requested, one entry per request, in phases `ps` -/
def Hist.requests (h : Hist) (ps : List Nat) : List Nat :=
  h.evs.filterMap (fun (p, w) =>
    match w with
    | "obs" :: "task" :: t :: _ => if ps.contains p then h.altOfTask t else none
    | _ => none)

def Hist.completedAlts (h : Hist) (ps : List Nat) : List Nat :=
  h.evs.filterMap (fun (p, w) =>
    match w with
    | ["obs", "complete", n] => if ps.contains p then h.altOfCatch n else none
    | _ => none)

def Hist.termAlts (h : Hist) (ps : List Nat) : List Nat :=
  h.evs.filterMap (fun (p, w) =>
    match w with
    | ["obs", "term", _, n] => if ps.contains p then h.altOfCatch n else none
    | _ => none)

/-- per alternative: 5 continued, 7 completed, 6 terminated, 0 pending (the codes of `Pc.code`, pending collapsed) -/
def Hist.outcome (h : Hist) (k : Nat) : List Nat :=
  let req := h.requests [1, 2]
  let comp := h.completedAlts [1, 2]
  let term := h.termAlts [1, 2]
  (List.range k).map (fun j =>
    if req.contains j then 5 else if comp.contains j then 7 else if term.contains j then 6 else 0)

/-- every `newflow F` has its `term F …` by the time completion is awaited (before the late phase) -/
def allFlowsEnded (h : Hist) : Bool :=
  let born := h.evs.filterMap (fun (_, w) => match w with | ["obs", "newflow", f] => some f | _ => none)
  let dead := h.evs.filterMap (fun (p, w) =>
    match w with | ["obs", "term", f, _] => if p ≤ 2 then some f else none | _ => none)
  !born.isEmpty && born.all dead.contains

def outcomeOf (c : Cfg) (s : St) : List Nat :=
  (List.range c.k).map (fun j =>
    match s.pc j with
    | .continued => 5 | .completed => 7 | .terminated => 6 | _ => 0)

/-- deliveries of a set of phases: (alternative, issued without waiting, returned?) in the order they were issued;
the `ret` line of a delivery is the first later `ret` line with the same event name not yet used -/
def Hist.deliveries (h : Hist) (ps : List Nat) : List (Nat × Bool × Option Bool) := Id.run do
  let evs := h.evs.toArray
  let mut used : List Nat := []
  let mut out : List (Nat × Bool × Option Bool) := []
  for i in [0:evs.size] do
    let (p, w) := evs[i]!
    if !ps.contains p then continue
    match w with
    | [o, "deliver", _, name] =>
      if o == "op" || o == "opnw" then
        let mut ret : Option Bool := none
        for j in [i+1:evs.size] do
          if ret.isSome then break
          match evs[j]!.2 with
          | ["obs", "ret", "deliver", n, res] =>
            if n == name && !used.contains j then
              used := j :: used
              ret := some (res == "returned")
          | _ => pure ()
        match h.altOfEvent name with
        | some a => out := out ++ [(a, o == "opnw", ret)]
        | none => pure ()
    | _ => pure ()
  return out

/-- the search: is `goal` the outcome of a terminal state reachable by issuing the deliveries `todo` (in order when
`ordered`, else in any order) at arbitrary moments? returns (found, exhausted the space, states visited) -/
partial def search (c : Cfg) (goal : List Nat) (ordered : Bool) (cap : Nat)
    (stack : List (St × List Nat)) (seen : Std.HashSet (List Nat)) (n : Nat) : Bool × Bool × Nat :=
  match stack with
  | [] => (false, true, n)
  | (s, todo) :: rest =>
    if n ≥ cap then (false, false, n) else
    let en := enabledLabels c s
    if en.isEmpty && todo.isEmpty && outcomeOf c s == goal then (true, false, n + 1) else
    let issues : List (St × List Nat) :=
      if ordered then
        match todo with
        | [] => []
        | a :: tl => [(fire c s (.deliver a), tl)]
      else
        (todo.eraseDups).map (fun a => (fire c s (.deliver a), todo.erase a))
    let succs := en.map (fun l => (fire c s l, todo)) ++ issues
    let (stack', seen') := succs.foldl (fun (st, sn) (s', t') =>
      let ky := key c s' ++ [96] ++ t'
      if sn.contains ky then (st, sn) else ((s', t') :: st, sn.insert ky)) (rest, seen)
    search c goal ordered cap stack' seen' (n + 1)

def showOutcome (o : List Nat) : String :=
  " ".intercalate (o.zipIdx.map (fun (x, j) =>
    s!"{j}:" ++ (if x == 5 then "continued" else if x == 7 then "completed" else if x == 6 then "terminated" else "pending")))

def fuel : Nat := 4000

/-- params: k mode seq perturb -/
def check (params lines : List String) : CaseResult := Id.run do
  let some (k, mode) := (match params with
      | k :: mode :: _ => (k.toNat?).map (fun k => (k, mode))
      | _ => none) | return { bad := ["c06 params"] }
  let h := parse lines
  if !h.bad.isEmpty then return { bad := h.bad }
  if h.alts.length != k then return { bad := [s!"{h.alts.length} alt lines for k={k}"] }
  let some complete := h.complete | return { bad := ["no final line"] }
  let c := cfgOf k h.incoming
  let mut r : CaseResult := {}
  -- ------------------------------------------------ the C06 predicate on what the implementation did
  let listening := (h.evs.filter (fun (p, w) => p == 0 && w.take 2 == ["obs", "listening"])).length
  let req := h.requests [1, 2]
  let competing := h.deliveries [1]
  -- gateway inside an embedded sub-process (5th parameter 1): the termination trace of a withdrawn inner flow is not relayed
  -- to the instance's tracer; once the instance has completed every inner flow has ended (the sub-process waits for its own
  -- wait group), so an alternative with no trace of its own was withdrawn
  let inSub := params.getD 4 "0" == "1"
  let outcome := if inSub && complete then (h.outcome k).map (fun x => if x == 0 then 6 else x) else h.outcome k
  for (_, w) in h.evs do
    match w with
    | ["obs", "noquiesce"] => r := { r with specs := "ebg_does_not_quiesce: the engine keeps running without input" :: r.specs }
    | "obs" :: "panic" :: rest => r := { r with specs := s!"ebg_panic: {" ".intercalate rest}" :: r.specs }
    | _ => pure ()
  let observedAny := listening ≥ 1 && !competing.isEmpty
  let mut settledRun := false
  if observedAny then
    if req.isEmpty then
      r := { r with specs := s!"ebg_no_branch_continues: {competing.length} competing event(s) delivered ({mode}), no branch task was requested; outcome {showOutcome outcome}; instance complete={complete}" :: r.specs }
    else if req.length ≥ 2 then
      r := { r with specs := s!"ebg_two_branches_continue: branch tasks requested for alternatives {req}" :: r.specs }
    else if !complete && allFlowsEnded h then
      -- every flow the engine created has ended, so the wait group is at zero: completion was not REPORTED. That is
      -- the completion monitor missing the start event at instance start-up (property C02), not the gateway.
      r := { r with infos := "every flow ended but completion was not reported (start-up monitor race, property C02): completion not judged" :: r.infos }
      settledRun := true
    else if !complete then
      r := { r with specs := s!"ebg_instance_never_completes: the branch of alternative {req} continued and was answered, outcome {showOutcome outcome}, the instance does not complete" :: r.specs }
    else
      settledRun := true
  let blocked := (h.deliveries [1, 2, 3]).filter (fun (_, _, ret) => ret == some false)
  if !blocked.isEmpty then
    r := { r with specs := s!"ebg_late_event_blocks_delivery: {blocked.length} delivery call(s) did not return within the deadline (events of alternatives {blocked.map (·.1)})" :: r.specs }
  if settledRun then
    let eff := h.evs.filter (fun (p, w) =>
      p == 3 && (match w with
        | "obs" :: "ret" :: _ => false
        | "obs" :: "observed" :: _ => false
        | "obs" :: _ => true
        | _ => false))
    if !eff.isEmpty then
      r := { r with specs := s!"ebg_late_event_has_effect: after completion a late delivery produced {eff.map (fun e => " ".intercalate e.2)}" :: r.specs }
  -- ------------------------------------------------ model against implementation
  let s0 := if mode == "wit0" then init c else quiesce c fuel (init c)
  if mode == "seq" then
    -- lock-step: every delivery was made at quiescence
    let mut s := s0
    let mut i := 0
    for (a, _, ret) in h.deliveries [1, 2, 3] do
      i := i + 1
      let before := s.dels.length
      s := quiesce c fuel (fire c s (.deliver a))
      let returned := s.dels.length == before
      if ret != some returned then
        r := { r with diffs := s!"delivery {i} (alternative {a}): model {if returned then "returns" else "blocks"}, implementation {match ret with | some true => "returned" | some false => "blocked" | none => "no result recorded"}" :: r.diffs }
      if i == competing.length then
        if outcomeOf c s != outcome then
          r := { r with diffs := s!"after the competing deliveries: model {showOutcome (outcomeOf c s)} implementation {showOutcome outcome}" :: r.diffs }
    -- the token part of the late phase: the model's flows must not have moved either
    if outcomeOf c s != outcome then
      r := { r with diffs := s!"at the end: model {showOutcome (outcomeOf c s)} implementation {showOutcome outcome}" :: r.diffs }
  else
    -- the enforced replays of the Lean witness schedules (stated for winner 0 / loser 1 of two alternatives)
    let todo := competing.map (·.1)
    if k == 2 && (mode == "wit" || mode == "wit2") && todo == [0, 1] || k == 2 && mode == "wit0" then
      let sch := if mode == "wit" then deadlockWitness c
                 else if mode == "wit2" then bothInTransformerSched (c.replyCap != 0)
                 else lateSelectSched (c.replyCap != 0)
      let expected := outcomeOf c (quiesce c fuel (exec c (init c) sch))
      -- wit2 releases both flows into the compare-and-swap together: either may be first
      let alt := if mode == "wit2" then
          outcomeOf c (quiesce c fuel (exec c (init c) (sch.dropLast.dropLast ++ [.cas 1, .cas 0])))
        else expected
      if expected != outcome && alt != outcome then
        r := { r with diffs := s!"enforced replay of the Lean witness schedule ({mode}): model {showOutcome expected} implementation {showOutcome outcome}" :: r.diffs }
    let ordered := mode == "nw" || mode == "wit"
    let (found, exhausted, n) := search c outcome ordered 40000 [(s0, todo)] {} 0
    if found then pure ()
    else if exhausted then
      r := { r with diffs := s!"outcome {showOutcome outcome} of deliveries {todo} ({mode}) is not the outcome of any schedule of the model ({n} states)" :: r.diffs }
    else
      r := { r with infos := s!"search inconclusive after {n} states" :: r.infos }
  return { r with nontrivial := observedAny }

end Bpmn.Driver.C06

namespace Bpmn.Driver.C06
open Bpmn.Driver

/-- Family `c06loop`: the event-based gateway is re-entered through a loop. The C06 predicate, per activation, on the
implementation's own traces: in every round exactly one determination, exactly the delivered alternative's task
requested (once), nothing for the others — also when their events arrive while nobody listens; no delivery blocks, no
panic; after the leaving alternative the instance completes. -/
def checkLoop (_params lines : List String) : CaseResult := Id.run do
  let mut r : CaseResult := {}
  let mut alts : List (Nat × String) := []          -- alternative ↦ task
  let mut cur : Option (Nat × Nat) := none           -- (round, alternative)
  let mut determ := 0
  let mut tasks : List String := []
  let mut complete := false
  let mut rounds := 0
  let close := fun (r : CaseResult) (cur : Option (Nat × Nat)) (determ : Nat) (tasks : List String)
      (alts : List (Nat × String)) =>
    match cur with
    | none => r
    | some (k, e) =>
      let want := (alts.lookup e).getD "?"
      let r := if determ != 1 then
          { r with specs := s!"ebg_reentry_not_one_winner: activation {k + 1} (event of alternative {e}): {determ} determination(s)" :: r.specs }
        else r
      if tasks != [want] then
        { r with specs := s!"ebg_reentry_branch: activation {k + 1} (event of alternative {e}): requested {tasks}, expected [{want}]" :: r.specs }
      else r
  for ln in lines do
    match words ln with
    | "prog" :: _ => pure ()
    | ["alt", j, _, t, _, _, _] =>
      match j.toNat? with
      | some j => alts := alts ++ [(j, t)]
      | none => r := { r with bad := ln :: r.bad }
    | ["round", k, e] =>
      r := close r cur determ tasks alts
      match k.toNat?, e.toNat? with
      | some k, some e => cur := some (k, e); determ := 0; tasks := []; rounds := rounds + 1
      | _, _ => r := { r with bad := ln :: r.bad }
    | ["obs", "determ", _] => determ := determ + 1
    | "obs" :: "task" :: t :: _ => tasks := tasks ++ [t]
    | "obs" :: "ret" :: "deliver" :: n :: ["blocked"] =>
      r := { r with specs := s!"ebg_reentry_delivery_blocks: {n}" :: r.specs }
    | "obs" :: "panic" :: rest => r := { r with specs := s!"ebg_reentry_panic: {" ".intercalate rest}" :: r.specs }
    | ["obs", "noquiesce"] => r := { r with specs := "engine_does_not_quiesce:" :: r.specs }
    | ["obs", "final", c] => complete := c == "complete=1"
    | "harness-error" :: _ => r := { r with bad := ln :: r.bad }
    | _ => pure ()
  r := close r cur determ tasks alts
  if !complete && r.specs.isEmpty then
    r := { r with specs := s!"ebg_reentry_never_completes: after {rounds} activation(s)" :: r.specs }
  return { r with nontrivial := rounds ≥ 2 }

/-- Family `c06term`: one alternative of the gateway is terminal (its catch event has no outgoing flow); params
`k term seq`. The plain C06 predicate on the implementation's traces: the first delivered event decides — exactly one
determination in the whole run, exactly the winner's task requested (none if the winner is the terminal alternative), once;
nothing for later events; no delivery blocks; the instance completes. -/
def checkTerm (params lines : List String) : CaseResult := Id.run do
  let some (k, term) := (match params with
    | k :: t :: _ => do let k ← k.toNat?; let t ← t.toNat?; pure (k, t)
    | _ => none) | return { bad := ["c06term params"] }
  let _ := k
  let mut r : CaseResult := {}
  let mut first : Option Nat := none
  let mut determ := 0
  let mut tasks : List String := []
  let mut done := ""
  for ln in lines do
    match words ln with
    | ["c06term", "deliver", _, e] => if first.isNone then first := e.toNat?
    | ["c06term", "done", b] => done := b
    | ["obs", "determ", _] => determ := determ + 1
    | "obs" :: "task" :: t :: _ => tasks := tasks ++ [t]
    | ["obs", "ret", "deliver", n, res] =>
      if res != "returned" then
        r := { r with specs := s!"ebg_late_event_blocks_delivery: the delivery of {n} did not return within its deadline" :: r.specs }
    | "obs" :: "panic" :: rest => r := { r with specs := s!"ebg_panic: {" ".intercalate rest}" :: r.specs }
    | ["obs", "noquiesce"] => r := { r with specs := "ebg_does_not_quiesce: the engine keeps running without input" :: r.specs }
    | "harness-error" :: rest => r := { r with bad := ("harness-error " ++ " ".intercalate rest) :: r.bad }
    | _ => pure ()
  let some w := first | return { r with bad := "no delivery" :: r.bad }
  let want := if w == term then [] else [s!"T{w}"]
  if determ != 1 then
    r := { r with specs := s!"ebg_terminal_not_one_winner: the event of alternative {w} was delivered first (terminal alternative: {term}); {determ} determination(s) were made" :: r.specs }
  if tasks != want then
    r := { r with specs := s!"ebg_terminal_branch: winner {w} (terminal alternative: {term}): branch tasks requested {tasks}, expected {want}" :: r.specs }
  if done != "1" then
    r := { r with specs := s!"ebg_instance_never_completes: winner {w} (terminal alternative: {term}), the instance does not complete" :: r.specs }
  return { r with nontrivial := true }

/-- Family `c06burst`: the decisive event at the end of a burst of events that decide nothing, under back-pressure; params
`k w n g`. The plain C06 predicate: exactly one determination, exactly the task of alternative `w` requested, the burst
returns, the instance completes. -/
def checkBurst (params lines : List String) : CaseResult := Id.run do
  let w := (params.getD 1 "0").toNat?.getD 0
  let mut r : CaseResult := {}
  let mut determ := 0
  let mut tasks : List String := []
  let mut done := ""
  for ln in lines do
    match words ln with
    | ["c06burst", "done", b] => done := b
    | ["obs", "determ", _] => determ := determ + 1
    | "obs" :: "task" :: t :: _ => tasks := tasks ++ [t]
    | ["obs", "ret", "deliver", _, res] =>
      if res != "returned" then
        r := { r with specs := "ebg_late_event_blocks_delivery: the burst of deliveries did not return within its deadline" :: r.specs }
    | "obs" :: "panic" :: rest => r := { r with specs := s!"ebg_panic: {" ".intercalate rest}" :: r.specs }
    | ["obs", "noquiesce"] => r := { r with specs := "ebg_does_not_quiesce: the engine keeps running without input" :: r.specs }
    | "harness-error" :: rest => r := { r with bad := ("harness-error " ++ " ".intercalate rest) :: r.bad }
    | _ => pure ()
  if determ != 1 then
    r := { r with specs := s!"ebg_burst_not_one_winner: the event of alternative {w} came at the end of a burst of unrelated events while its catch event was listening; {determ} determination(s) were made" :: r.specs }
  if tasks != [s!"T{w}"] then
    r := { r with specs := s!"ebg_burst_branch: winner {w}: branch tasks requested {tasks}, expected [T{w}]" :: r.specs }
  if done != "1" then
    r := { r with specs := s!"ebg_instance_never_completes: winner {w} (burst), the instance does not complete" :: r.specs }
  return { r with nontrivial := true }

end Bpmn.Driver.C06
