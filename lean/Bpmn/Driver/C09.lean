import Bpmn.Driver.Util
import Bpmn.Model.Tracer
import Bpmn.Spec.Causal
import Bpmn.Gen.C09
/-! Driver for C09.

family `c09`  (actor differential of the real tracer): the witness subscriber's sequence is the global order; every
other subscription episode must have received a contiguous segment of it that starts inside the window in which
its `SubscribeChannel` call ran and — when it read to the end — reaches the end; every sender's traces appear in
program order; no call blocked. The operation sequence is then replayed through `Model.Tracer.step` (sends in the
witness order, every episode subscribing / unsubscribing at the positions the implementation showed, consumers
reading only when the broadcaster needs room) and what each episode received in the model is compared with what
it received from the implementation.

family `c09g` (causality grammar on engine histories): `Spec.causal` evaluated on the `obs` lines. -/
namespace Bpmn.Driver.C09
open Bpmn.Driver Bpmn.Model.Tracer

def kv (ws : List String) (key : String) : Option String :=
  (ws.find? (·.startsWith (key ++ "="))).map (fun w => (w.drop (key.length + 1)).toString)

def kvNat (ws : List String) (key : String) : Option Nat := (kv ws key).bind String.toNat?

def parseMsg (w : String) : Option Msg :=
  match w.splitOn ":" with
  | [a, b] => do let s ← a.toNat?; let q ← b.toNat?; pure ⟨s, q⟩
  | _ => none

def showMsg (m : Msg) : String := s!"{m.sender}:{m.seq}"

structure Episode where
  name : String
  cap : Nat
  a : Nat
  b : Nat
  full : Bool
  recv : Array Msg
  -- filled by the checks
  st : Nat := 0
  chan : Nat := 0
  subscribed : Bool := false
  gone : Bool := false
deriving Inhabited

def cfg : Cfg :=
  { unsubDrains := Bpmn.Gen.C09.unsubscribeDrains.getD true
    defaultCap := Bpmn.Gen.C09.subscribeDefaultCap.getD 10 }

/-- first index at which `r` differs from the segment of `w` starting at `st`; `none` = equal -/
def firstMismatch (w r : Array Msg) (st : Nat) : Option Nat := Id.run do
  for k in [0:r.size] do
    if w[st + k]? != some r[k]! then return some k
  return none

def classify (w r : Array Msg) (st k : Nat) (name : String) : String :=
  let m := r[k]!
  if (r.toList.take k).contains m then
    s!"subscriber_duplicate: {name} received {showMsg m} twice (second time as its trace number {k})"
  else match w.toList.idxOf? m with
    | none => s!"subscriber_foreign: {name} received {showMsg m}, which the witness never saw"
    | some p =>
      if p > st + k then
        s!"subscriber_gap: {name} jumped from global position {st + k - 1} to {p} ({p - (st + k)} traces dropped, first {(w[st + k]?.map showMsg).getD "?"})"
      else
        s!"subscriber_order: {name} received {showMsg m} (global position {p}) after global position {st + k - 1}"

structure Replay where
  s : St := init
  err : Option String := none

/-- The model keeps channels and sender counters as functions; every update wraps the previous function, so a long
replay would pay for the whole history at every lookup. `compact` replaces both by table lookups with the same
values (channels below `nchan`, senders below 16 — the harness uses at most 8). -/
def compact (s : St) : St :=
  let chans := ((List.range s.nchan).map s.chan).toArray
  let nexts := ((List.range 16).map s.next).toArray
  let dflt := s.chan s.nchan
  { s with chan := fun j => if h : j < chans.size then chans[j] else dflt,
           next := fun j => nexts[j]?.getD 0 }

def Replay.act (r : Replay) (a : Act) (ctx : String) : Replay :=
  match r.err with
  | some _ => r
  | none =>
    match step cfg r.s a with
    | some s' => { r with s := s' }
    | none => { r with err := some s!"model: action {repr a} is not enabled {ctx}" }

/-- replay through the model; returns per episode what the model's consumer received, or an error -/
def replay (w : Array Msg) (eps : Array Episode) : Except String (Array (List Msg)) := Id.run do
  let mut r : Replay := {}
  let mut eps := eps
  -- the witness: channel 0, a buffer that never fills
  r := r.act (.callSub (w.size + 64)) "witness"
  r := r.act (.recvSub 0) "witness"
  r := r.act (.subReturn 0) "witness"
  for p in [0:w.size + 1] do
    -- unsubscribe / subscribe / unsubscribe (an episode that took nothing leaves where it joined)
    for round in [0:3] do
      if round != 1 then
        for j in [0:eps.size] do
          let e := eps[j]!
          if e.subscribed && !e.gone && ((!e.full && e.st + e.recv.size == p) || (e.full && p == w.size)) then
            -- the consumer reads what it was still to get, then calls Unsubscribe
            let mut fuel := e.recv.size + 1
            while fuel > 0 && (r.s.chan e.chan).recvd.length < e.recv.size && r.err.isNone do
              r := r.act (.consume e.chan) s!"(episode {e.name} finishing at position {p})"
              fuel := fuel - 1
            r := r.act (.callUnsub e.chan) s!"(episode {e.name})"
            r := r.act (.recvUnsub e.chan) s!"(episode {e.name})"
            r := r.act (.takeOk e.chan) s!"(episode {e.name})"
            eps := eps.set! j { e with gone := true }
      else
        for j in [0:eps.size] do
          let e := eps[j]!
          if !e.subscribed && e.st == p then
            let c := r.s.nchan
            r := r.act (.callSub e.cap) s!"(episode {e.name})"
            r := r.act (.recvSub c) s!"(episode {e.name})"
            r := r.act (.subReturn c) s!"(episode {e.name})"
            eps := eps.set! j { e with subscribed := true, chan := c }
    if p < w.size then
      let x := w[p]!
      r := r.act (.callSend x.sender) s!"(position {p})"
      r := r.act (.recvTrace 0) s!"(position {p})"
      let mut fuel := 4 * (eps.size + 2)
      while fuel > 0 && r.err.isNone && (match r.s.pc with | .push _ _ => true | _ => false) do
        fuel := fuel - 1
        match r.s.pc with
        | .push _ i =>
          let d := r.s.subs[i]!
          let ch := r.s.chan d
          if ch.buf.length < ch.cap then r := r.act .push s!"(position {p}, subscriber index {i})"
          else r := r.act (.consume d) s!"(position {p}: the broadcaster is blocked on channel {d})"
        | _ => pure ()
    if r.err.isSome then break
    r := { r with s := compact r.s }
  match r.err with
  | some e => return .error e
  | none =>
    if r.s.log.toArray != w then return .error "model: the model's log differs from the witness order"
    return .ok (eps.map (fun e => (r.s.chan e.chan).recvd))

def checkTracer (_params : List String) (lines : List String) : CaseResult := Id.run do
  let mut r : CaseResult := {}
  let mut w : Array Msg := #[]
  let mut eps : Array Episode := #[]
  let mut sends := 0
  let mut blocked := false
  let mut final := false
  let mut n := 0
  for ln in lines do
    n := n + 1
    match words ln with
    | "plan" :: _ => pure ()
    | "w" :: ms =>
      for m in ms do
        match parseMsg m with
        | some x => w := w.push x
        | none => r := { r with bad := s!"line {n}: {m}" :: r.bad }
    | "sub" :: name :: rest =>
      match kvNat rest "cap", kvNat rest "a", kvNat rest "b", (kv rest "full").bind parseBool?, kv rest "recv" with
      | some cap, some a, some b, some full, some rv =>
        match (commaList rv).mapM parseMsg with
        | some ms => eps := eps.push { name, cap, a, b, full, recv := ms.toArray }
        | none => r := { r with bad := s!"line {n}: recv" :: r.bad }
      | _, _, _, _, _ => r := { r with bad := s!"line {n}: {ln}" :: r.bad }
    | "blocked" :: rest =>
      blocked := true
      r := { r with specs := s!"tracer_call_blocked: {" ".intercalate rest}" :: r.specs }
    | "final" :: rest =>
      final := true
      sends := (kvNat rest "sends").getD 0
    | _ => r := { r with bad := s!"line {n}: {ln}" :: r.bad }
  if !final then return { r with bad := "no final line" :: r.bad }
  if !r.bad.isEmpty || blocked then return r
  -- 1. the witness: every trace once, every sender in program order
  let mut next : Array Nat := Array.replicate 16 0
  let mut p := 0
  for m in w do
    let e := next[m.sender]?.getD 0
    if m.seq != e then
      r := { r with specs := s!"sender_order: global position {p} holds {showMsg m}, expected trace {e} of sender {m.sender}" :: r.specs }
      break
    next := next.setIfInBounds m.sender (e + 1)
    p := p + 1
  if r.specs.isEmpty && w.size != sends then
    r := { r with specs := s!"subscriber_gap: the witness received {w.size} of {sends} traces" :: r.specs }
  -- 2. every episode: a contiguous segment starting inside its subscription window
  let mut eps2 : Array Episode := #[]
  for e in eps do
    let mut e := e
    if e.recv.isEmpty then
      e := { e with st := e.b }
      if e.full && e.b < w.size then
        r := { r with specs := s!"subscriber_gap: {e.name} read to the end and received nothing, subscribed by position {e.b} of {w.size}" :: r.specs }
    else
      match w.toList.idxOf? e.recv[0]! with
      | none => r := { r with specs := s!"subscriber_foreign: {e.name} received {showMsg e.recv[0]!}, which the witness never saw" :: r.specs }
      | some st =>
        e := { e with st := st }
        match firstMismatch w e.recv st with
        | some k => r := { r with specs := classify w e.recv st k e.name :: r.specs }
        | none =>
          if st < e.a then
            r := { r with specs := s!"subscriber_before_subscription: {e.name} received global position {st}, the witness held {e.a} traces before its Subscribe call" :: r.specs }
          else if st > e.b then
            r := { r with specs := s!"subscriber_gap: {e.name} starts at global position {st}, but was subscribed by position {e.b} ({st - e.b} traces dropped at the start)" :: r.specs }
          else if e.full && st + e.recv.size != w.size then
            r := { r with specs := s!"subscriber_gap: {e.name} read to the end but stops at global position {st + e.recv.size} of {w.size}" :: r.specs }
    eps2 := eps2.push e
  -- 3. replay through the model
  if r.specs.isEmpty then
    match replay w eps2 with
    | .error e => r := { r with diffs := e :: r.diffs }
    | .ok got =>
      for j in [0:eps2.size] do
        let e := eps2[j]!
        if got[j]! != e.recv.toList then
          r := { r with diffs := s!"episode {e.name}: model received {(got[j]!).map showMsg}, implementation {e.recv.toList.map showMsg}" :: r.diffs }
  return { r with nontrivial := eps.any (fun e => !e.recv.isEmpty) }

/-! ## causality grammar on engine histories -/

open Bpmn.Spec in
def violText (names : Array String) : Viol → String
  | .newflowBeforeAnnouncement f => s!"causality_newflow_before_announcement: a trace of flow F{f} precedes the FlowTrace that announces it"
  | .flowBeforeNewflow f => s!"causality_flow_before_newflow: flow F{f} sends a FlowTrace or terminates before its NewFlowTrace"
  | .leaveBeforeVisit n => s!"causality_leave_before_visit: node {names[n]?.getD "?"} is left more often than it was visited"
  | .traceAfterTermination f => s!"causality_trace_after_termination: flow F{f} has a trace after its TerminationTrace / CancellationFlowTrace"
  | .ceaseNotLast => "cease_not_last: a flow trace follows the CeaseFlowTrace"

def flowNo (w : String) : Option Nat := if w.startsWith "F" then (w.drop 1).toNat? else none

/-- The grammar evaluated with the sub-process relay handled explicitly. Traces of nodes inside an embedded sub-process
reach the process's stream through a relay (`subProcess.run` subscribes to the inner tracer and forwards everything but
completion / termination traces), so the relayed part is the inner stream FROM THE RELAY'S SUBSCRIPTION on. When the
first inner traces are missing, the two rules that need them (`leave` needs the `visit`, a flow's `FlowTrace` needs its
`NewFlowTrace`) are repaired by inserting the missing trace right before its first use, the loss is counted, and the
scan goes on, so that every other rule is still judged on the whole history. Top-level traces are never repaired. -/
def scanRelayed (inner : Nat → Bool) (ts : List Bpmn.Spec.Trace) : Option Bpmn.Spec.Viol × Nat := Id.run do
  let mut s : Bpmn.Spec.Scan := {}
  let mut lost := 0
  for t in ts do
    match Bpmn.Spec.scanStep s t with
    | .ok s' => s := s'
    | .error v =>
      let repaired : Option Bpmn.Spec.Scan :=
        match v, t with
        | .leaveBeforeVisit n, .leave m =>
          if n == m && inner n then (Bpmn.Spec.scanStep { s with inside := n :: s.inside } t).toOption else none
        | .flowBeforeNewflow f, .flow src _ =>
          if inner src then (Bpmn.Spec.scanStep { s with started := f :: s.started } t).toOption else none
        | _, _ => none
      match repaired with
      | some s' => s := s'; lost := lost + 1
      | none => return (some v, lost)
  return (none, lost)

open Bpmn.Spec in
def checkGrammar (_params : List String) (lines : List String) : CaseResult := Id.run do
  let mut r : CaseResult := {}
  let mut names : Array String := #[]
  let mut innerNames : List String := []
  let mut ts : Array Trace := #[]
  let mut n := 0
  for ln in lines do
    n := n + 1
    let node (names : Array String) (x : String) : Array String × Nat :=
      match names.toList.idxOf? x with
      | some i => (names, i)
      | none => (names.push x, names.size)
    match words ln with
    | "prog" :: "node" :: id :: rest =>
      if (kv rest "parent").getD "-" != "-" then innerNames := id :: innerNames
    | ["obs", "newflow", f] =>
      match flowNo f with
      | some f => ts := ts.push (.newflow f)
      | none => r := { r with bad := s!"line {n}: {ln}" :: r.bad }
    | ["obs", "visit", x] => let (nm, i) := node names x; names := nm; ts := ts.push (.visit i)
    | ["obs", "leave", x] => let (nm, i) := node names x; names := nm; ts := ts.push (.leave i)
    | ["obs", "flow", src, fl] =>
      let (nm, i) := node names src
      names := nm
      match (commaList fl).mapM (fun e => flowNo ((e.splitOn ":").headD "")) with
      | some fs => ts := ts.push (.flow i fs)
      | none => r := { r with bad := s!"line {n}: {ln}" :: r.bad }
    | "obs" :: "term" :: f :: _ =>
      match flowNo f with
      | some f => ts := ts.push (.term f)
      | none => r := { r with bad := s!"line {n}: {ln}" :: r.bad }
    | "obs" :: "cancelflow" :: f :: _ =>
      match flowNo f with
      | some f => ts := ts.push (.cancel f)
      | none => r := { r with bad := s!"line {n}: {ln}" :: r.bad }
    | ["obs", "cease"] => ts := ts.push .cease
    | "obs" :: "final" :: _ => pure ()
    | "obs" :: "ret" :: _ => pure ()
    | ["obs", "noquiesce"] => pure ()
    | "obs" :: _ => ts := ts.push .other
    | "harness-error" :: rest => r := { r with bad := ("harness-error " ++ " ".intercalate rest) :: r.bad }
    | "lagged" :: rest =>
      -- a subscriber that kept the trace values and read them after the run: it must read what the prompt one read
      if (kv rest "at").getD "-1" != "-1" then
        r := { r with specs := s!"subscribers_read_different_traces: trace {(kv rest "at").getD "?"} of {(kv rest "n").getD "?"}: the prompt subscriber read [{(kv rest "prompt").getD ""}], a subscriber reading the same trace value after the run reads [{(kv rest "lagged").getD ""}]" :: r.specs }
    | _ => pure ()
  let inner (i : Nat) : Bool := innerNames.contains (names[i]?.getD "")
  if !causal ts.toList then
    let (v, lost) := scanRelayed inner ts.toList
    match v with
    | some v => r := { r with specs := violText names v :: r.specs }
    | none => pure ()
    if lost > 0 then
      r := { r with specs := s!"relay_lost_inner_prefix: {lost} trace(s) of nodes inside a sub-process are used but missing from the process's stream (the first inner traces were sent before the relay subscribed, or a second relay of the same inner tracer repeated them: two tokens in one sub-process node)" :: r.specs }
  let forks := ts.any (fun t => match t with | .flow _ fs => fs.length ≥ 2 | _ => false)
  return { r with nontrivial := forks }

/-- Family `c09x` (shutdown phase): params `<senders> <per sender> <cancel position> <subscribers>`; lines
`sub <i> cap=<c> pace=<p> recv=<s:q,…>`. Every subscriber was subscribed before the first send and stayed until its
channel was closed: each must hold ALL traces, all in the same order, each sender's traces in program order. -/
def checkShutdown (params : List String) (lines : List String) : CaseResult := Id.run do
  let (nSend, per) := match params with
    | a :: b :: _ => (a.toNat?.getD 0, b.toNat?.getD 0)
    | _ => (0, 0)
  let mut r : CaseResult := {}
  let mut subs : Array (String × List Msg) := #[]
  for ln in lines do
    match words ln with
    | "sub" :: i :: rest =>
      let rv := (kv rest "recv").getD "-"
      let ms := if rv == "-" then some [] else (rv.splitOn ",").mapM parseMsg
      match ms with
      | some ms => subs := subs.push (i, ms)
      | none => r := { r with bad := s!"unreadable {ln}" :: r.bad }
    | ["blocked", who] =>
      r := { r with specs := s!"shutdown_blocks: the {who} did not finish within 20 s of the tracer's context being cancelled" :: r.specs }
    | _ => r := { r with bad := s!"unknown line {ln}" :: r.bad }
  if !r.specs.isEmpty || !r.bad.isEmpty then return r
  match subs.toList with
  | [] => return { r with bad := ["no subscriber lines"] }
  | (_, w) :: rest =>
    if w.length != nSend * per then
      r := { r with specs := s!"shutdown_trace_dropped: subscriber 0 holds {w.length} of {nSend * per} traces when its channel is closed" :: r.specs }
    for (i, ms) in rest do
      if ms.map showMsg != w.map showMsg then
        r := { r with specs := s!"shutdown_subscribers_differ: subscriber {i} holds {ms.length} traces, subscriber 0 holds {w.length}; first difference at position {((ms.zip w).takeWhile (fun (a, b) => showMsg a == showMsg b)).length}" :: r.specs }
    for s in List.range nSend do
      let qs := (w.filter (·.sender == s)).map (·.seq)
      if qs != List.range qs.length then
        r := { r with specs := s!"shutdown_sender_order: traces of sender {s} arrive as {qs}" :: r.specs }
    return { r with nontrivial := subs.size ≥ 2 }

/-- Family `c09relay`: the context the process was created with is cancelled while its tokens go on (the context it was started
with is alive); params `k when`. Every trace sent afterwards still reaches the subscriber of the instance's tracer: all `k` tasks
are requested, the end event completes, the cease-flow trace arrives; a late subscriber can join and leave. -/
def checkRelay (params lines : List String) : CaseResult := Id.run do
  let k := (params.head?.bind String.toNat?).getD 0
  let mut r : CaseResult := {}
  let mut seen := false
  for ln in lines do
    match words ln with
    | "relay" :: "final" :: rest =>
      seen := true
      let tasks := (kvNat rest "tasks").getD 0
      let cease := (kvNat rest "cease").getD 0 == 1
      let endc := (kvNat rest "endcomplete").getD 0 == 1
      let joined := (kvNat rest "joined").getD 0 == 1
      let left := (kvNat rest "left").getD 0 == 1
      if tasks < k || !cease || !endc then
        r := { r with specs := s!"relay_drops_after_context_cancel: after the process's context was cancelled (its tokens still running) the subscriber of the instance's tracer saw {tasks} of {k} task requests, end event completed={endc}, cease-flow trace={cease}" :: r.specs }
      if !joined || !left then
        r := { r with specs := s!"tracer_call_blocked: after the process's context was cancelled a new subscriber joined={joined} left={left} within the deadline" :: r.specs }
    | "relay" :: _ => pure ()
    | "harness-error" :: rest => r := { r with bad := ("harness-error " ++ " ".intercalate rest) :: r.bad }
    | _ => pure ()
  if !seen then return { r with bad := "no final line" :: r.bad }
  return { r with nontrivial := true }

end Bpmn.Driver.C09
