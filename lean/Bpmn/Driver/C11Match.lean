import Bpmn.Driver.Util
import Bpmn.Model.EventMatch
/-! Driver for family `c11match`: the real `MatchesEventInstance` against the Lean port
(`matchesInst`), and the specification (`ident ∈ idents`) evaluated on the implementation's answers. -/
namespace Bpmn.Driver.C11Match
open Bpmn.Driver Bpmn.Model.EventMatch

def optNat? (s : String) : Option (Option Nat) :=
  if s == "-" then some none else s.toNat?.map some

def srcs? (s : String) : Option (List Nat) :=
  if s == "." then some [] else natList? s

def parseEv? : List String → Option Ev
  | ["end"] => some .endEv
  | ["none"] => some .noneEv
  | ["cancel"] => some .cancel
  | ["terminate"] => some .terminate
  | ["signal", r] => r.toNat?.map .signal
  | ["comp", a] => a.toNat?.map .compensation
  | ["message", r, o] => do pure (.message (← r.toNat?) (← optNat? o))
  | ["escalation", r] => r.toNat?.map .escalation
  | ["link", s, t] => do pure (.link (← srcs? s) (← optNat? t))
  | ["error", r] => r.toNat?.map .error
  | ["timer", i] => i.toNat?.map .timer
  | ["conditional", i] => i.toNat?.map .conditional
  | _ => none

def parseDef? : List String → Option Def
  | ["signal", r] => (optNat? r).map .signal
  | ["cancel"] => some .cancel
  | ["terminate"] => some .terminate
  | ["compensate"] => some .compensate
  | ["timer"] => some .timer
  | ["conditional"] => some .conditional
  | ["message", r, o] => do pure (.message (← optNat? r) (← optNat? o))
  | ["escalation", r] => (optNat? r).map .escalation
  | ["link", s, t] => do pure (.link (← srcs? s) (← optNat? t))
  | ["error", r] => (optNat? r).map .error
  | _ => none

/-- the specification, executable: the event's identity is among those of the instance -/
def specMatch (ev : Ev) (i : Inst) : Bool :=
  match ev.ident with
  | some x => i.idents.contains x
  | none => false

/-- params: the event; lines: `m <inst id> <definition words…> = <0|1>` -/
def check (params : List String) (lines : List String) : CaseResult := Id.run do
  let some ev := parseEv? params | return { bad := [s!"c11match event {params}"] }
  let mut r : CaseResult := {}
  let mut n := 0
  for ln in lines do
    n := n + 1
    match words ln with
    | "panic" :: rest => r := { r with specs := s!"matching_panics: {" ".intercalate rest}" :: r.specs }
    | "m" :: id :: rest =>
      let dw := rest.takeWhile (· != "=")
      let res := rest.dropWhile (· != "=")
      match id.toNat?, parseDef? dw, res with
      | some id, some d, ["=", b] =>
        match parseBool? b with
        | some b =>
          let i : Inst := ⟨id, d⟩
          let m := matchesInst ev i
          if m != b then
            r := { r with diffs := s!"line {n}: {" ".intercalate params} vs {" ".intercalate dw}#{id}: model {m} impl {b}" :: r.diffs }
          let s := specMatch ev i
          if b && !s then
            r := { r with specs := s!"nonmatching_listener_reacts: event [{" ".intercalate params}] matches definition [{" ".intercalate dw}]" :: r.specs }
          if !b && s then
            r := { r with specs := s!"matching_listener_ignored: event [{" ".intercalate params}] does not match definition [{" ".intercalate dw}]" :: r.specs }
          if b then r := { r with nontrivial := true }
        | none => r := { r with bad := s!"line {n}: {ln}" :: r.bad }
      | _, _, _ => r := { r with bad := s!"line {n}: {ln}" :: r.bad }
    | _ => r := { r with bad := s!"line {n}: {ln}" :: r.bad }
  return r

end Bpmn.Driver.C11Match
