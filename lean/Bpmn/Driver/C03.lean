import Bpmn.Driver.Util
import Bpmn.Driver.C01
import Bpmn.Model.Gateway
/-! Driver for C03: function differential of `distributeFlows` and engine-level N×M fork/join runs. -/
namespace Bpmn.Driver.C03
open Bpmn.Driver Bpmn.Model.Gateway

/-- params: a s ; lines: `reply lo hi` (−1 −1 = complete, −2 −2 = no reply), `unconditional b` -/
def checkFn (params lines : List String) : CaseResult := Id.run do
  let some (a, s) := (match params with
      | [a, s] => do pure ((← a.toNat?), (← s.toNat?))
      | _ => none) | return { bad := ["c03fn params"] }
  let mut r : CaseResult := {}
  let mut got : List Reply := []
  let mut noReply := false
  for ln in lines do
    match words ln with
    | ["reply", lo, hi] =>
      match parseInt? lo, parseInt? hi with
      | some lo, some hi =>
        if lo == -2 then noReply := true
        got := got ++ [if lo < 0 then Reply.complete else Reply.flows lo.toNat hi.toNat]
      | _, _ => r := { r with bad := ln :: r.bad }
    | ["unconditional", b] =>
      if b != "1" then r := { r with specs := "distribute_conditional_flow: a released flow is not marked unconditional" :: r.specs }
    | _ => r := { r with bad := ln :: r.bad }
  let model := distribute a s
  if got != model then
    r := { r with diffs := s!"distribute {a} {s}: model {repr model} impl {repr got}" :: r.diffs }
  -- property predicate on the implementation's answer
  if a ≥ 1 then
    if noReply then r := { r with specs := "distribute_no_reply: a waiting token got no reply" :: r.specs }
    if got.flatMap Reply.indices != List.range s then
      r := { r with specs := s!"distribute_partition: {a} waiting, {s} outgoing: flows handed out {got.flatMap Reply.indices}" :: r.specs }
    if (got.filter (· == .complete)).length != a - s then
      r := { r with specs := s!"distribute_completions: {(got.filter (· == .complete)).length} tokens consumed, expected {a - s}" :: r.specs }
  return { r with nontrivial := a ≥ 1 && s ≥ 1 }

/-- engine-level: same judgement as C01; non-trivial when the join released at least once -/
def checkEng (params lines : List String) : CaseResult :=
  let r := C01.check params lines
  { r with nontrivial := r.ok }

/-- family c03bnd: a parallel block inside a sub-process with a boundary event whose signal arrives while the join is half
full; params `n after interrupting`. Judged by the join's own clause: a token on every incoming flow (every upstream task
answered) ⇒ the task behind the join is requested exactly once. -/
def checkBnd (params lines : List String) : CaseResult := Id.run do
  let some n := (params.head?.bind String.toNat?) | return { bad := ["c03bnd params"] }
  let mut r : CaseResult := {}
  let mut d0 := 0
  let mut answered := 0
  for ln in lines do
    match words ln with
    | ["obs", "task", "D0", _, _] => d0 := d0 + 1
    | ["c03bnd", "answered", a, "of", _] => answered := a.toNat?.getD 0
    | "harness-error" :: rest => r := { r with bad := ("harness-error " ++ " ".intercalate rest) :: r.bad }
    | _ => pure ()
  if answered == n then
    if d0 == 0 then
      r := { r with specs := s!"join_never_releases: every one of the {n} upstream tasks inside the sub-process was answered (a token on each incoming flow of the join), the task behind the join was never requested" :: r.specs }
    if d0 > 1 then
      r := { r with specs := s!"join_releases_twice: the task behind the join was requested {d0} times for one activation" :: r.specs }
  return { r with nontrivial := answered == n }

end Bpmn.Driver.C03
