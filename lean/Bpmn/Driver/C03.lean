import Bpmn.Driver.Util
import Bpmn.Driver.C01
import Bpmn.Model.Gateway
/-! Driver for C03: function differential of `distributeFlows` and engine-level N×M fork/join runs. -/
namespace Bpmn.Driver.C03
open Bpmn.Driver Bpmn.Model.Gateway

/-- params: a s ; lines: `reply lo hi` (−1 −1 = complete, −2 −2 = no reply), `unconditional b` -/
def checkFn (params lines : List String) : CaseResult := Id.run do
  let some (a, s) := (match params with
      | [a, s] => do pure ((← a.toNat?), (← s.toNat?))
      | _ => none) | return { bad := ["c03fn params"] }
  let mut r : CaseResult := {}
  let mut got : List Reply := []
  let mut noReply := false
  for ln in lines do
    match words ln with
    | ["reply", lo, hi] =>
      match parseInt? lo, parseInt? hi with
      | some lo, some hi =>
        if lo == -2 then noReply := true
        got := got ++ [if lo < 0 then Reply.complete else Reply.flows lo.toNat hi.toNat]
      | _, _ => r := { r with bad := ln :: r.bad }
    | ["unconditional", b] =>
      if b != "1" then r := { r with specs := "distribute_conditional_flow: a released flow is not marked unconditional" :: r.specs }
    | _ => r := { r with bad := ln :: r.bad }
  let model := distribute a s
  if got != model then
    r := { r with diffs := s!"distribute {a} {s}: model {repr model} impl {repr got}" :: r.diffs }
  -- property predicate on the implementation's answer
  if a ≥ 1 then
    if noReply then r := { r with specs := "distribute_no_reply: a waiting token got no reply" :: r.specs }
    if got.flatMap Reply.indices != List.range s then
      r := { r with specs := s!"distribute_partition: {a} waiting, {s} outgoing: flows handed out {got.flatMap Reply.indices}" :: r.specs }
    if (got.filter (· == .complete)).length != a - s then
      r := { r with specs := s!"distribute_completions: {(got.filter (· == .complete)).length} tokens consumed, expected {a - s}" :: r.specs }
  return { r with nontrivial := a ≥ 1 && s ≥ 1 }

/-- engine-level: same judgement as C01; non-trivial when the join released at least once -/
def checkEng (params lines : List String) : CaseResult :=
  let r := C01.check params lines
  { r with nontrivial := r.ok }

end Bpmn.Driver.C03
