def hello := "world"
