import Bpmn.Model.Tracer
/-! Helper lemmas for C09: the inductive invariants of the tracer model (`Inv`: the segment invariant and its
supporting facts; `SInv`: sender program order) and their preservation by every step. Core Lean only. -/
namespace Bpmn.Model.Tracer

/-! ## lists -/

theorem swapRemove_perm {a b : List Nat} {c : Nat} (hc : c ∉ a) :
    (swapRemove (a ++ c :: b) ((a ++ c :: b).idxOf c)).Perm (a ++ b) := by
  have hidx : (a ++ c :: b).idxOf c = a.length := by
    rw [List.idxOf_append]; simp [hc]
  rw [hidx]
  unfold swapRemove
  rcases List.eq_nil_or_concat b with rfl | ⟨b', z, rfl⟩
  · have : (a ++ [c]).getLastD 0 = c := List.getLastD_concat
    rw [this, List.set_append]
    simp
  · have e1 : a ++ c :: b'.concat z = (a ++ c :: b') ++ [z] := by simp
    have : (a ++ c :: b'.concat z).getLastD 0 = z := by rw [e1]; exact List.getLastD_concat
    rw [this, List.set_append]
    simp only [Nat.lt_irrefl, if_false, Nat.sub_self, List.set_cons_zero, List.concat_eq_append]
    have e2 : a ++ z :: (b' ++ [z]) = (a ++ z :: b') ++ [z] := by simp
    rw [e2, List.dropLast_concat]
    exact List.Perm.append_left a (List.perm_append_comm (l₁ := [z]) (l₂ := b'))

theorem swapRemove_spec {l : List Nat} {c : Nat} (hc : c ∈ l) (hn : l.Nodup) :
    (swapRemove l (l.idxOf c)).Nodup ∧ ∀ y, y ∈ swapRemove l (l.idxOf c) ↔ (y ∈ l ∧ y ≠ c) := by
  obtain ⟨a, b, rfl⟩ := List.append_of_mem hc
  have hn' := hn
  rw [List.nodup_append] at hn'
  obtain ⟨ha, hcb, hab⟩ := hn'
  have hca : c ∉ a := fun h => hab c h c (by simp) rfl
  have hcb' : c ∉ b := (List.nodup_cons.mp hcb).1
  have hp := swapRemove_perm (b := b) hca
  constructor
  · rw [hp.nodup_iff, List.nodup_append]
    refine ⟨ha, (List.nodup_cons.mp hcb).2, ?_⟩
    intro x hx y hy
    exact hab x hx y (List.mem_cons_of_mem _ hy)
  · intro y
    rw [hp.mem_iff]
    simp only [List.mem_append, List.mem_cons]
    constructor
    · rintro (h | h)
      · exact ⟨Or.inl h, fun e => hca (e ▸ h)⟩
      · exact ⟨Or.inr (Or.inr h), fun e => hcb' (e ▸ h)⟩
    · rintro ⟨h | h | h, hne⟩
      · exact Or.inl h
      · exact absurd h hne
      · exact Or.inr h

/-- the last trace of the log is what a completed push adds to a segment -/
theorem segment_grow {log : List Msg} {x : Msg} {st : Nat} (hl : log.getLast? = some x)
    (hst : st ≤ log.length - 1) :
    (log.take log.length).drop st = (log.take (log.length - 1)).drop st ++ [x] := by
  obtain ⟨l0, rfl⟩ := List.getLast?_eq_some_iff.mp hl
  simp only [List.length_append, List.length_cons, List.length_nil, Nat.add_sub_cancel] at hst ⊢
  rw [List.take_left' rfl]
  have : List.take (l0.length + 1) (l0 ++ [x]) = l0 ++ [x] := by
    apply List.take_of_length_le; simp
  rw [this, List.drop_append_of_le_length hst]

theorem take_append_stable {log : List Msg} {x : Msg} {e : Nat} (he : e ≤ log.length) :
    (log ++ [x]).take e = log.take e := List.take_append_of_le_length he

theorem prefix_of_range {l1 l2 : List Nat} {n : Nat} (h : l1 ++ l2 = List.range n) :
    l1 = List.range l1.length := by
  have h1 : l1 = (l1 ++ l2).take l1.length := by simp
  rw [h, List.take_range] at h1
  have hl : l1.length ≤ n := by
    have := congrArg List.length h
    simp at this; omega
  rw [Nat.min_eq_left hl] at h1
  exact h1


/-! ## the state -/

@[simp] theorem upd_chan (s : St) (c : Nat) (f : Chan → Chan) (j : Nat) :
    (s.upd c f).chan j = if j = c then f (s.chan j) else s.chan j := rfl
@[simp] theorem upd_subs (s : St) (c : Nat) (f : Chan → Chan) : (s.upd c f).subs = s.subs := rfl
@[simp] theorem upd_pc (s : St) (c : Nat) (f : Chan → Chan) : (s.upd c f).pc = s.pc := rfl
@[simp] theorem upd_log (s : St) (c : Nat) (f : Chan → Chan) : (s.upd c f).log = s.log := rfl
@[simp] theorem upd_pending (s : St) (c : Nat) (f : Chan → Chan) : (s.upd c f).pending = s.pending := rfl
@[simp] theorem upd_next (s : St) (c : Nat) (f : Chan → Chan) : (s.upd c f).next = s.next := rfl
@[simp] theorem upd_misuse (s : St) (c : Nat) (f : Chan → Chan) : (s.upd c f).misuse = s.misuse := rfl
@[simp] theorem upd_nchan (s : St) (c : Nat) (f : Chan → Chan) : (s.upd c f).nchan = s.nchan := rfl

@[simp] theorem advance_chan (s : St) (x : Msg) (i : Nat) : (s.advance x i).chan = s.chan := by
  unfold St.advance; split <;> rfl
@[simp] theorem advance_subs (s : St) (x : Msg) (i : Nat) : (s.advance x i).subs = s.subs := by
  unfold St.advance; split <;> rfl
@[simp] theorem advance_log (s : St) (x : Msg) (i : Nat) : (s.advance x i).log = s.log := by
  unfold St.advance; split <;> rfl
@[simp] theorem advance_pending (s : St) (x : Msg) (i : Nat) : (s.advance x i).pending = s.pending := by
  unfold St.advance; split <;> rfl
@[simp] theorem advance_next (s : St) (x : Msg) (i : Nat) : (s.advance x i).next = s.next := by
  unfold St.advance; split <;> rfl
@[simp] theorem advance_misuse (s : St) (x : Msg) (i : Nat) : (s.advance x i).misuse = s.misuse := by
  unfold St.advance; split <;> rfl
@[simp] theorem advance_nchan (s : St) (x : Msg) (i : Nat) : (s.advance x i).nchan = s.nchan := by
  unfold St.advance; split <;> rfl
theorem advance_pc (s : St) (x : Msg) (i : Nat) :
    (s.advance x i).pc = if i + 1 < s.subs.length then .push x (i + 1) else .idle := by
  unfold St.advance; split <;> rfl

/-- in the broadcaster's list -/
def CStat.listed : CStat → Bool
  | .subAcked | .active | .unsubOffer => true
  | _ => false
/-- not yet appended -/
def CStat.fresh : CStat → Bool
  | .absent | .subWait => true
  | _ => false
/-- appended and removed again -/
def CStat.removed : CStat → Bool
  | .unsubWaitOk | .done => true
  | _ => false

/-- everything that ever entered the channel, in order: what the consumer took, what `Unsubscribe` drained, what
is still queued -/
def Chan.total (ch : Chan) : List Msg := ch.recvd ++ ch.drained ++ ch.buf

/-- The inductive invariant (for runs without misuse). `seg` is the segment invariant; the rest supports it. -/
structure Inv (s : St) : Prop where
  nodup : s.subs.Nodup
  listed : ∀ c, c ∈ s.subs ↔ (s.chan c).stat.listed = true
  stopNone : ∀ c, (s.chan c).stat.removed = false → (s.chan c).stop = none
  stopSome : ∀ c, (s.chan c).stat.removed = true → ∃ e, (s.chan c).stop = some e ∧ e ≤ s.log.length
  fresh : ∀ c, (s.chan c).stat.fresh = true → (s.chan c).total = []
  alloc : ∀ c, s.nchan ≤ c → (s.chan c).stat = .absent
  pcPush : ∀ x i, s.pc = .push x i → i < s.subs.length ∧ s.log.getLast? = some x
  ack : ∀ c, (s.chan c).stat = .unsubWaitOk ↔ s.pc = .ackUnsub c
  startLe : ∀ c, (s.chan c).stat.fresh = false → (s.chan c).start ≤ s.upto c
  seg : ∀ c, (s.chan c).stat.fresh = false → (s.chan c).total = s.segment c
  noDrain : ∀ c, ((s.chan c).stat = .subAcked ∨ (s.chan c).stat = .active) → (s.chan c).drained = []

theorem inv_init : Inv init := by
  refine ⟨?_, ?_, ?_, ?_, ?_, ?_, ?_, ?_, ?_, ?_, ?_⟩ <;> simp [init, CStat.listed, CStat.removed, CStat.fresh, Chan.total]

theorem upto_congr {s s' : St} {c : Nat} (h1 : (s'.chan c).stop = (s.chan c).stop) (h2 : s'.pc = s.pc)
    (h3 : s'.subs = s.subs) (h4 : s'.log = s.log) : s'.upto c = s.upto c := by
  unfold St.upto; rw [h1, h2, h3, h4]

theorem segment_congr {s s' : St} {c : Nat} (h1 : (s'.chan c).stop = (s.chan c).stop) (h2 : s'.pc = s.pc)
    (h3 : s'.subs = s.subs) (h4 : s'.log = s.log) (h5 : (s'.chan c).start = (s.chan c).start) :
    s'.segment c = s.segment c := by
  unfold St.segment; rw [upto_congr h1 h2 h3 h4, h4, h5]

/-- a client moves on inside its call: only the status of its channel changes, within its class -/
theorem inv_setStat {s : St} (h : Inv s) (c : Nat) (st' : CStat)
    (hl : st'.listed = (s.chan c).stat.listed) (hr : st'.removed = (s.chan c).stat.removed)
    (hf : st'.fresh = (s.chan c).stat.fresh)
    (hack : st' = .unsubWaitOk ↔ (s.chan c).stat = .unsubWaitOk)
    (hnd : (st' = .subAcked ∨ st' = .active) → (s.chan c).drained = [])
    (hc : (s.chan c).stat ≠ .absent) :
    Inv (s.upd c (fun ch => { ch with stat := st' })) := by
  have hup : ∀ j, (s.upd c (fun ch => { ch with stat := st' })).upto j = s.upto j := by
    intro j; apply upto_congr <;> simp <;> split <;> rfl
  have hsg : ∀ j, (s.upd c (fun ch => { ch with stat := st' })).segment j = s.segment j := by
    intro j; apply segment_congr <;> simp <;> split <;> rfl
  refine ⟨h.nodup, ?_, ?_, ?_, ?_, ?_, h.pcPush, ?_, ?_, ?_, ?_⟩
  · intro j; by_cases hj : j = c
    · subst hj; simp [hl, h.listed]
    · simp [hj, h.listed]
  · intro j; by_cases hj : j = c
    · subst hj; simp [hr]; exact h.stopNone j
    · simp [hj]; exact h.stopNone j
  · intro j; by_cases hj : j = c
    · subst hj; simp [hr]; exact h.stopSome j
    · simp [hj]; exact h.stopSome j
  · intro j; by_cases hj : j = c
    · subst hj; have := h.fresh j; simpa [hf, Chan.total] using this
    · simp [hj]; exact h.fresh j
  · intro j hn; by_cases hj : j = c
    · subst hj; exact absurd (h.alloc j hn) hc
    · simp [hj]; exact h.alloc j hn
  · intro j; by_cases hj : j = c
    · subst hj; simp [hack]; exact h.ack j
    · simp [hj]; exact h.ack j
  · intro j; rw [hup]; by_cases hj : j = c
    · subst hj; simp [hf]; exact h.startLe j
    · simp [hj]; exact h.startLe j
  · intro j; rw [hsg]; by_cases hj : j = c
    · subst hj; have := h.seg j; simpa [hf, Chan.total] using this
    · simp [hj]; exact h.seg j
  · intro j; by_cases hj : j = c
    · subst hj; simp; exact hnd
    · simp [hj]; exact h.noDrain j


theorem Inv.stop_removed {s : St} (h : Inv s) {c e : Nat} (hs : (s.chan c).stop = some e) :
    (s.chan c).stat.removed = true ∧ e ≤ s.log.length := by
  by_cases hr : (s.chan c).stat.removed = true
  · obtain ⟨e', h1, h2⟩ := h.stopSome c hr
    rw [hs] at h1; cases h1; exact ⟨hr, h2⟩
  · have := h.stopNone c (by simpa using hr)
    rw [hs] at this; cases this

theorem Inv.upto_le {s : St} (h : Inv s) (c : Nat) : s.upto c ≤ s.log.length := by
  unfold St.upto
  split
  · next e he => exact (h.stop_removed he).2
  · split
    · split <;> omega
    all_goals exact Nat.le_refl _

theorem stat_class (st : CStat) :
    (st.fresh = true ∧ st.listed = false ∧ st.removed = false) ∨
    (st.fresh = false ∧ st.listed = true ∧ st.removed = false) ∨
    (st.fresh = false ∧ st.listed = false ∧ st.removed = true) := by
  cases st <;> simp [CStat.fresh, CStat.listed, CStat.removed]

theorem inv_callSub {s : St} (h : Inv s) (cap : Nat) :
    Inv { s.upd s.nchan (fun _ => { cap := cap, stat := .subWait }) with nchan := s.nchan + 1 } := by
  have habs : (s.chan s.nchan).stat = .absent := h.alloc _ (Nat.le_refl _)
  have hnot : s.nchan ∉ s.subs := by
    rw [h.listed, habs]; simp [CStat.listed]
  have hup : ∀ j, j ≠ s.nchan →
      ({ s.upd s.nchan (fun _ => { cap := cap, stat := .subWait }) with nchan := s.nchan + 1 } : St).upto j = s.upto j := by
    intro j hj; apply upto_congr <;> simp [hj]
  have hsg : ∀ j, j ≠ s.nchan →
      ({ s.upd s.nchan (fun _ => { cap := cap, stat := .subWait }) with nchan := s.nchan + 1 } : St).segment j = s.segment j := by
    intro j hj; apply segment_congr <;> simp [hj]
  refine ⟨h.nodup, ?_, ?_, ?_, ?_, ?_, h.pcPush, ?_, ?_, ?_, ?_⟩
  · intro j; by_cases hj : j = s.nchan
    · subst hj; simp [CStat.listed, hnot]
    · simp [hj, h.listed]
  · intro j; by_cases hj : j = s.nchan
    · subst hj; simp
    · simp [hj]; exact h.stopNone j
  · intro j; by_cases hj : j = s.nchan
    · subst hj; simp [CStat.removed]
    · simp [hj]; exact h.stopSome j
  · intro j; by_cases hj : j = s.nchan
    · subst hj; simp [Chan.total]
    · simp [hj]; exact h.fresh j
  · intro j hn
    have hj : j ≠ s.nchan := by simp at hn; omega
    simp [hj]; exact h.alloc j (by simp at hn; omega)
  · intro j; by_cases hj : j = s.nchan
    · subst hj
      have := (h.ack s.nchan)
      simp [habs] at this
      simp; exact this
    · simp [hj]; exact h.ack j
  · intro j; by_cases hj : j = s.nchan
    · subst hj; simp [CStat.fresh]
    · rw [hup j hj]; simp [hj]; exact h.startLe j
  · intro j; by_cases hj : j = s.nchan
    · subst hj; simp [CStat.fresh]
    · rw [hsg j hj]; simp [hj]; exact h.seg j
  · intro j; by_cases hj : j = s.nchan
    · subst hj; simp
    · simp [hj]; exact h.noDrain j


/-- for a channel that was appended, the segment bound of an idle broadcaster -/
theorem upto_idle {s : St} (hpc : ∀ x i, s.pc ≠ .push x i) (c : Nat) :
    s.upto c = (s.chan c).stop.getD s.log.length := by
  unfold St.upto
  split
  · next e he => simp [he]
  · next he =>
    split
    · next x i hp => exact absurd hp (hpc x i)
    all_goals simp [he]

theorem inv_recvTrace {s : St} (h : Inv s) (hpc : s.pc = .idle) (x : Msg) (pend : List Msg) :
    Inv { s with pending := pend, log := s.log ++ [x], pc := if s.subs.isEmpty then .idle else .push x 0 } := by
  have hidle : ∀ y i, s.pc ≠ .push y i := by intro y i; rw [hpc]; simp
  -- the bound of every appended channel is unchanged
  have hup : ∀ j, (s.chan j).stat.fresh = false →
      ({ s with pending := pend, log := s.log ++ [x], pc := if s.subs.isEmpty then .idle else .push x 0 } : St).upto j
        = s.upto j := by
    intro j hf
    rw [upto_idle hidle]
    unfold St.upto
    simp only
    cases hs : (s.chan j).stop with
    | some e => simp
    | none =>
      simp only [Option.getD_none]
      have hl : j ∈ s.subs := by
        rw [h.listed]
        rcases stat_class (s.chan j).stat with ⟨a, _, _⟩ | ⟨_, b, _⟩ | ⟨_, _, c⟩
        · rw [hf] at a; cases a
        · exact b
        · obtain ⟨e, he, _⟩ := h.stopSome j c
          rw [hs] at he; cases he
      have hne : s.subs.isEmpty = false := by
        cases hsb : s.subs with
        | nil => rw [hsb] at hl; cases hl
        | cons a b => rfl
      simp [hne, hl]
  refine ⟨h.nodup, h.listed, h.stopNone, ?_, h.fresh, h.alloc, ?_, ?_, ?_, ?_, h.noDrain⟩
  · intro j hr
    obtain ⟨e, h1, h2⟩ := h.stopSome j hr
    exact ⟨e, h1, by simp; omega⟩
  · intro y i hp
    simp only at hp
    split at hp
    · cases hp
    · next hne =>
      cases hp
      constructor
      · cases hsb : s.subs with
        | nil => simp [hsb] at hne
        | cons a b => simp
      · simp
  · intro j
    have := h.ack j
    rw [hpc] at this
    simp only at this ⊢
    rw [this]
    split <;> simp
  · intro j hf
    rw [hup j hf]; exact h.startLe j hf
  · intro j hf
    have e1 := h.seg j hf
    show (s.chan j).total = _
    unfold St.segment
    rw [hup j hf]
    simp only
    rw [take_append_stable (h.upto_le j)]
    exact e1

theorem inv_recvSub {s : St} (h : Inv s) (hpc : s.pc = .idle) (c : Nat) (hst : (s.chan c).stat = .subWait) :
    Inv { s.upd c (fun ch => { ch with stat := .subAcked, start := s.log.length }) with subs := s.subs ++ [c] } := by
  have hidle : ∀ y i, s.pc ≠ .push y i := by intro y i; rw [hpc]; simp
  have hidle' : ∀ y i, ({ s.upd c (fun ch => { ch with stat := .subAcked, start := s.log.length }) with
      subs := s.subs ++ [c] } : St).pc ≠ .push y i := by intro y i; simp [hpc]
  have hnot : c ∉ s.subs := by rw [h.listed, hst]; simp [CStat.listed]
  have hfr := h.fresh c (by rw [hst]; rfl)
  have hsn := h.stopNone c (by rw [hst]; rfl)
  simp only [Chan.total, List.append_eq_nil_iff] at hfr
  refine ⟨?_, ?_, ?_, ?_, ?_, ?_, ?_, ?_, ?_, ?_, ?_⟩
  · simp only [List.nodup_append]
    refine ⟨h.nodup, by simp, ?_⟩
    intro a ha b hb
    simp at hb; subst hb
    exact fun e => hnot (e ▸ ha)
  · intro j; by_cases hj : j = c
    · subst hj; simp [CStat.listed]
    · simp [hj, h.listed]
  · intro j; by_cases hj : j = c
    · subst hj; simp [hsn]
    · simp [hj]; exact h.stopNone j
  · intro j; by_cases hj : j = c
    · subst hj; simp [CStat.removed]
    · simp [hj]; exact h.stopSome j
  · intro j; by_cases hj : j = c
    · subst hj; simp [CStat.fresh]
    · simp [hj]; exact h.fresh j
  · intro j hn; by_cases hj : j = c
    · subst hj
      have := h.alloc j hn
      rw [hst] at this; cases this
    · simp [hj]; exact h.alloc j hn
  · intro y i hp; simp [hpc] at hp
  · intro j; by_cases hj : j = c
    · subst hj; simp [hpc]
    · simp [hj]; exact h.ack j
  · intro j; rw [upto_idle hidle']; by_cases hj : j = c
    · subst hj; simp [hsn]
    · have := h.startLe j
      rw [upto_idle hidle] at this
      simp [hj]; exact this
  · intro j; unfold St.segment; rw [upto_idle hidle']; by_cases hj : j = c
    · subst hj; simp [hsn, Chan.total, hfr]
    · have := h.seg j
      unfold St.segment at this
      rw [upto_idle hidle] at this
      simp [hj]; exact this
  · intro j; by_cases hj : j = c
    · subst hj; simp [hfr]
    · simp [hj]; exact h.noDrain j

theorem inv_recvUnsub {s : St} (h : Inv s) (hpc : s.pc = .idle) (c : Nat) (hst : (s.chan c).stat = .unsubOffer) :
    Inv { s.upd c (fun ch => { ch with stat := .unsubWaitOk, stop := some s.log.length }) with
          subs := swapRemove s.subs (s.subs.idxOf c), pc := .ackUnsub c } := by
  have hidle : ∀ y i, s.pc ≠ .push y i := by intro y i; rw [hpc]; simp
  have hidle' : ∀ y i, ({ s.upd c (fun ch => { ch with stat := .unsubWaitOk, stop := some s.log.length }) with
          subs := swapRemove s.subs (s.subs.idxOf c), pc := .ackUnsub c } : St).pc ≠ .push y i := by intro y i; simp
  have hmem : c ∈ s.subs := by rw [h.listed, hst]; rfl
  obtain ⟨hnd, hm⟩ := swapRemove_spec hmem h.nodup
  have hsn := h.stopNone c (by rw [hst]; rfl)
  refine ⟨hnd, ?_, ?_, ?_, ?_, ?_, ?_, ?_, ?_, ?_, ?_⟩
  · intro j; simp only [hm]; by_cases hj : j = c
    · subst hj; simp [CStat.listed]
    · simp [hj, h.listed]
  · intro j; by_cases hj : j = c
    · subst hj; simp [CStat.removed]
    · simp [hj]; exact h.stopNone j
  · intro j; by_cases hj : j = c
    · subst hj; simp
    · simp [hj]; exact h.stopSome j
  · intro j; by_cases hj : j = c
    · subst hj; simp [CStat.fresh]
    · simp [hj]; exact h.fresh j
  · intro j hn; by_cases hj : j = c
    · subst hj
      have := h.alloc j hn
      rw [hst] at this; cases this
    · simp [hj]; exact h.alloc j hn
  · intro y i hp; simp at hp
  · intro j; by_cases hj : j = c
    · subst hj; simp
    · have := h.ack j
      rw [hpc] at this
      simp at this
      simp [hj, this]
      exact fun e => hj e.symm
  · intro j; rw [upto_idle hidle']; by_cases hj : j = c
    · subst hj
      have := h.startLe j (by rw [hst]; rfl)
      rw [upto_idle hidle, hsn] at this
      intro _; simpa using this
    · have := h.startLe j
      rw [upto_idle hidle] at this
      simp [hj]; exact this
  · intro j; unfold St.segment; rw [upto_idle hidle']; by_cases hj : j = c
    · subst hj
      have := h.seg j (by rw [hst]; rfl)
      unfold St.segment at this
      rw [upto_idle hidle, hsn] at this
      intro _; simpa [Chan.total] using this
    · have := h.seg j
      unfold St.segment at this
      rw [upto_idle hidle] at this
      simp [hj]; exact this
  · intro j; by_cases hj : j = c
    · subst hj; simp
    · simp [hj]; exact h.noDrain j


/-- where the range loop stands: `subs.drop i = d :: rest`, and `d` does not occur in `rest` -/
theorem drop_at {l : List Nat} {i d : Nat} (hn : l.Nodup) (hd : l[i]? = some d) :
    l.drop i = d :: l.drop (i + 1) ∧ d ∉ l.drop (i + 1) := by
  obtain ⟨hi, hd'⟩ := List.getElem?_eq_some_iff.mp hd
  have e : l.drop i = d :: l.drop (i + 1) := by rw [List.drop_eq_getElem_cons hi, hd']
  refine ⟨e, ?_⟩
  have : (l.drop i).Nodup := hn.sublist (List.drop_sublist i l)
  rw [e] at this
  exact (List.nodup_cons.mp this).1

theorem upto_deliver {s : St} (h : Inv s) {x : Msg} {i d : Nat} (hpc : s.pc = .push x i)
    (hd : s.subs[i]? = some d) (j : Nat) :
    (s.deliver d x i).upto j = if j = d then s.log.length else s.upto j := by
  obtain ⟨hdrop, hdn⟩ := drop_at h.nodup hd
  have hdm : d ∈ s.subs := List.mem_of_getElem? hd
  have hds : (s.chan d).stop = none := by
    apply h.stopNone
    have := (h.listed d).mp hdm
    rcases stat_class (s.chan d).stat with ⟨_, b, _⟩ | ⟨_, _, c⟩ | ⟨_, b, _⟩
    · rw [this] at b; cases b
    · exact c
    · rw [this] at b; cases b
  unfold St.upto St.deliver
  simp only [advance_chan, advance_subs, advance_log, upd_chan, upd_subs, upd_log, advance_pc, hpc]
  by_cases hlt : i + 1 < s.subs.length
  · simp only [hlt, if_true]
    by_cases hj : j = d
    · subst hj; simp [hds, hdn]
    · have hm : j ∈ s.subs.drop i ↔ j ∈ s.subs.drop (i + 1) := by
        rw [hdrop]; simp [hj]
      simp only [hj, if_false]
      cases (s.chan j).stop with
      | some e => rfl
      | none => simp only [hm]
  · simp only [hlt, if_false]
    have hnil : s.subs.drop (i + 1) = [] := List.drop_eq_nil_of_le (by omega)
    by_cases hj : j = d
    · subst hj; simp [hds]
    · simp only [hj, if_false]
      cases (s.chan j).stop with
      | some e => rfl
      | none => simp [hdrop, hnil, hj]

theorem inv_deliver {s : St} (h : Inv s) {x : Msg} {i d : Nat} (hpc : s.pc = .push x i)
    (hd : s.subs[i]? = some d) : Inv (s.deliver d x i) := by
  have hup := upto_deliver h hpc hd
  obtain ⟨hi, hlast⟩ := h.pcPush x i hpc
  have hdm : d ∈ s.subs := List.mem_of_getElem? hd
  have hdl : (s.chan d).stat.listed = true := (h.listed d).mp hdm
  have hdf : (s.chan d).stat.fresh = false := by
    rcases stat_class (s.chan d).stat with ⟨_, b, _⟩ | ⟨a, _, _⟩ | ⟨_, b, _⟩
    · rw [hdl] at b; cases b
    · exact a
    · rw [hdl] at b; cases b
  obtain ⟨hdrop, _⟩ := drop_at h.nodup hd
  have hupd : s.upto d = s.log.length - 1 := by
    have hds : (s.chan d).stop = none := by
      apply h.stopNone
      rcases stat_class (s.chan d).stat with ⟨_, b, _⟩ | ⟨_, _, c⟩ | ⟨_, b, _⟩
      · rw [hdl] at b; cases b
      · exact c
      · rw [hdl] at b; cases b
    unfold St.upto
    simp [hds, hpc, hdrop]
  have hnoack : ∀ j, (s.chan j).stat ≠ .unsubWaitOk := by
    intro j hj
    have := (h.ack j).mp hj
    rw [hpc] at this; cases this
  unfold St.deliver at hup ⊢
  refine ⟨by simpa using h.nodup, ?_, ?_, ?_, ?_, ?_, ?_, ?_, ?_, ?_, ?_⟩
  · intro j; by_cases hj : j = d
    · subst hj; simp [h.listed]
    · simp [hj, h.listed]
  · intro j; by_cases hj : j = d
    · subst hj; simp; exact h.stopNone j
    · simp [hj]; exact h.stopNone j
  · intro j; by_cases hj : j = d
    · subst hj; simp; exact h.stopSome j
    · simp [hj]; exact h.stopSome j
  · intro j; by_cases hj : j = d
    · subst hj; simp [hdf]
    · simp [hj]; exact h.fresh j
  · intro j hn; by_cases hj : j = d
    · subst hj; simp; exact h.alloc j (by simpa using hn)
    · simp [hj]; exact h.alloc j (by simpa using hn)
  · intro y k hp
    rw [advance_pc] at hp
    simp only [upd_subs, advance_subs, advance_log, upd_log] at hp ⊢
    by_cases hlt : i + 1 < s.subs.length
    · simp only [hlt, if_true] at hp; cases hp; exact ⟨hlt, hlast⟩
    · simp only [hlt, if_false] at hp; cases hp
  · intro j
    rw [advance_pc]
    have : (((s.upd d fun ch => { ch with buf := ch.buf ++ [x] }).advance x i).chan j).stat = (s.chan j).stat := by
      by_cases hj : j = d
      · subst hj; simp
      · simp [hj]
    rw [this]
    constructor
    · intro e; exact absurd e (hnoack j)
    · intro e; split at e <;> cases e
  · intro j hf
    rw [hup j]
    by_cases hj : j = d
    · subst hj
      have := h.startLe j hdf
      simp; omega
    · simp only [advance_chan, upd_chan, hj, if_false] at hf ⊢
      exact h.startLe j hf
  · intro j hf
    unfold St.segment
    rw [hup j]
    by_cases hj : j = d
    · subst hj
      have e1 := h.seg j hdf
      have e2 := h.startLe j hdf
      unfold St.segment at e1
      rw [hupd] at e1 e2
      simp only [advance_chan, upd_chan, if_true, advance_log, upd_log]
      rw [segment_grow hlast e2, ← e1]
      simp [Chan.total]
    · simp only [advance_chan, upd_chan, hj, if_false, advance_log, upd_log] at hf ⊢
      exact h.seg j hf
  · intro j; by_cases hj : j = d
    · subst hj; simp; exact h.noDrain j
    · simp [hj]; exact h.noDrain j

theorem inv_take {s s' : St} (h : Inv s) {c : Nat} {drain : Bool} (ht : s.take c drain = some s')
    (hdr : drain = false → (s.chan c).drained = [])
    (hst : drain = true → (s.chan c).stat ≠ .subAcked ∧ (s.chan c).stat ≠ .active) : Inv s' := by
  unfold St.take at ht
  cases hb : (s.chan c).buf with
  | nil => rw [hb] at ht; cases ht
  | cons m t =>
    rw [hb] at ht
    simp only [Option.some.injEq] at ht
    subst ht
    have hup : ∀ j, (s.upd c (fun ch => if drain then { ch with buf := t, drained := ch.drained ++ [m] }
        else { ch with buf := t, recvd := ch.recvd ++ [m] })).upto j = s.upto j := by
      intro j; apply upto_congr <;> simp <;> split <;> (try split) <;> rfl
    have hsg : ∀ j, (s.upd c (fun ch => if drain then { ch with buf := t, drained := ch.drained ++ [m] }
        else { ch with buf := t, recvd := ch.recvd ++ [m] })).segment j = s.segment j := by
      intro j; apply segment_congr <;> simp <;> split <;> (try split) <;> rfl
    have hstat : ∀ j, ((s.upd c (fun ch => if drain then { ch with buf := t, drained := ch.drained ++ [m] }
        else { ch with buf := t, recvd := ch.recvd ++ [m] })).chan j).stat = (s.chan j).stat := by
      intro j; simp; split <;> (try split) <;> rfl
    have hstop : ∀ j, ((s.upd c (fun ch => if drain then { ch with buf := t, drained := ch.drained ++ [m] }
        else { ch with buf := t, recvd := ch.recvd ++ [m] })).chan j).stop = (s.chan j).stop := by
      intro j; simp; split <;> (try split) <;> rfl
    have hstart : ∀ j, ((s.upd c (fun ch => if drain then { ch with buf := t, drained := ch.drained ++ [m] }
        else { ch with buf := t, recvd := ch.recvd ++ [m] })).chan j).start = (s.chan j).start := by
      intro j; simp; split <;> (try split) <;> rfl
    have htot : ∀ j, (s.chan j).stat.fresh = false → ((s.upd c (fun ch => if drain then { ch with buf := t, drained := ch.drained ++ [m] }
        else { ch with buf := t, recvd := ch.recvd ++ [m] })).chan j).total = (s.chan j).total := by
      intro j _; by_cases hj : j = c
      · subst hj
        cases drain with
        | true => simp [Chan.total, hb]
        | false => simp [Chan.total, hb, hdr rfl]
      · simp [hj]
    have hcf : (s.chan c).stat.fresh = false := by
      cases hf : (s.chan c).stat.fresh with
      | false => rfl
      | true =>
        have := h.fresh c hf
        simp [Chan.total, hb] at this
    refine ⟨h.nodup, ?_, ?_, ?_, ?_, ?_, h.pcPush, ?_, ?_, ?_, ?_⟩
    · intro j; rw [hstat]; exact h.listed j
    · intro j; rw [hstat, hstop]; exact h.stopNone j
    · intro j; rw [hstat, hstop]; exact h.stopSome j
    · intro j; rw [hstat]; intro hf
      by_cases hj : j = c
      · subst hj; rw [hcf] at hf; cases hf
      · simp [hj]; exact h.fresh j hf
    · intro j hn; rw [hstat]; exact h.alloc j hn
    · intro j; rw [hstat]; exact h.ack j
    · intro j; rw [hstat, hstart, hup]; exact h.startLe j
    · intro j; rw [hstat, hsg]; intro hf; rw [htot j hf]; exact h.seg j hf
    · intro j; rw [hstat]; intro hs
      by_cases hj : j = c
      · subst hj
        cases drain with
        | true => exact absurd hs (by have := hst rfl; intro e; rcases e with e | e; exact this.1 e; exact this.2 e)
        | false => simp; exact h.noDrain j hs
      · simp [hj]; exact h.noDrain j hs

theorem inv_takeOk {s : St} (h : Inv s) (c : Nat) (hpc : s.pc = .ackUnsub c) (hst : (s.chan c).stat = .unsubWaitOk) :
    Inv { s.upd c (fun ch => { ch with stat := .done }) with pc := .idle } := by
  have hup : ∀ j, ({ s.upd c (fun ch => { ch with stat := .done }) with pc := .idle } : St).upto j = s.upto j := by
    intro j; unfold St.upto; simp only [upd_chan, upd_subs, upd_log, hpc]
    by_cases hj : j = c
    · subst hj; simp
    · simp [hj]
  refine ⟨h.nodup, ?_, ?_, ?_, ?_, ?_, ?_, ?_, ?_, ?_, ?_⟩
  · intro j; by_cases hj : j = c
    · subst hj; have := h.listed j; rw [hst] at this; simpa [CStat.listed] using this
    · simp [hj, h.listed]
  · intro j; by_cases hj : j = c
    · subst hj; simp [CStat.removed]
    · simp [hj]; exact h.stopNone j
  · intro j; by_cases hj : j = c
    · subst hj; have := h.stopSome j (by rw [hst]; rfl); intro _; simpa using this
    · simp [hj]; exact h.stopSome j
  · intro j; by_cases hj : j = c
    · subst hj; simp [CStat.fresh]
    · simp [hj]; exact h.fresh j
  · intro j hn; by_cases hj : j = c
    · subst hj; have := h.alloc j hn; rw [hst] at this; cases this
    · simp [hj]; exact h.alloc j hn
  · intro y i hp; simp at hp
  · intro j; by_cases hj : j = c
    · subst hj; simp
    · have := h.ack j
      rw [hpc] at this
      simp [hj]
      intro e
      have := this.mp e
      simp at this
      exact hj this.symm
  · intro j; rw [hup]; by_cases hj : j = c
    · subst hj; have := h.startLe j (by rw [hst]; rfl); intro _; simpa using this
    · simp [hj]; exact h.startLe j
  · intro j; unfold St.segment; rw [hup]; by_cases hj : j = c
    · subst hj; have := h.seg j (by rw [hst]; rfl); unfold St.segment at this; intro _; simpa [Chan.total] using this
    · have := h.seg j; unfold St.segment at this; simp [hj]; exact this
  · intro j; by_cases hj : j = c
    · subst hj; simp
    · simp [hj]; exact h.noDrain j


/-! ## frames: what a step leaves alone -/

/-- the fields the sender-order invariant and the misuse flag live in -/
def St.same (s s' : St) : Prop :=
  s'.log = s.log ∧ s'.pending = s.pending ∧ s'.next = s.next ∧ s'.misuse = s.misuse ∧ s'.nchan = s.nchan ∧
  s'.subs = s.subs

theorem same_refl (s : St) : s.same s := ⟨rfl, rfl, rfl, rfl, rfl, rfl⟩

theorem same_trans {a b c : St} (h1 : a.same b) (h2 : b.same c) : a.same c := by
  obtain ⟨a1, a2, a3, a4, a5, a6⟩ := h1
  obtain ⟨b1, b2, b3, b4, b5, b6⟩ := h2
  exact ⟨b1.trans a1, b2.trans a2, b3.trans a3, b4.trans a4, b5.trans a5, b6.trans a6⟩

theorem same_upd (s : St) (c : Nat) (f : Chan → Chan) : s.same (s.upd c f) := ⟨rfl, rfl, rfl, rfl, rfl, rfl⟩

theorem same_deliver (s : St) (d : Nat) (x : Msg) (i : Nat) : s.same (s.deliver d x i) := by
  unfold St.deliver St.same; simp

theorem same_take {s s' : St} {c : Nat} {drain : Bool} (h : s.take c drain = some s') : s.same s' := by
  unfold St.take at h
  split at h
  · cases h; exact same_upd _ _ _
  · cases h

theorem offering_spec {s : St} {c : Nat} {x : Msg} {i : Nat} (h : s.offering c = some (x, i)) :
    s.pc = .push x i ∧ s.subs[i]? = some c := by
  unfold St.offering at h
  split at h
  · next y j hp =>
    split at h
    · next hs => cases h; exact ⟨hp, hs⟩
    · cases h
  · cases h

theorem same_read {s s' : St} {c : Nat} {drain : Bool} (h : s.read c drain = some s') : s.same s' := by
  unfold St.read at h
  split at h
  · next s1 h1 => cases h; exact same_take h1
  · split at h
    · next x i ho => exact same_trans (same_deliver _ _ _ _) (same_take h)
    · cases h

theorem inv_read {s s' : St} (h : Inv s) {c : Nat} {drain : Bool} (hr : s.read c drain = some s')
    (hdr : drain = false → (s.chan c).stat = .active)
    (hst : drain = true → (s.chan c).stat ≠ .subAcked ∧ (s.chan c).stat ≠ .active) : Inv s' := by
  unfold St.read at hr
  split at hr
  · next s1 h1 =>
    cases hr
    exact inv_take h h1 (fun e => h.noDrain c (Or.inr (hdr e))) hst
  · split at hr
    · next x i ho =>
      obtain ⟨hpc, hd⟩ := offering_spec ho
      have h1 := inv_deliver h hpc hd
      have hc : ((s.deliver c x i).chan c).stat = (s.chan c).stat := by unfold St.deliver; simp
      have hdd : ((s.deliver c x i).chan c).drained = (s.chan c).drained := by unfold St.deliver; simp
      refine inv_take h1 hr ?_ ?_
      · intro e; rw [hdd]; exact h.noDrain c (Or.inr (hdr e))
      · intro e; rw [hc]; exact hst e
    · cases hr

/-- fields the invariant does not read -/
theorem inv_frame {s : St} (h : Inv s) (p : List Msg) (n : Nat → Nat) (m : Bool) :
    Inv { s with pending := p, next := n, misuse := m } :=
  ⟨h.nodup, h.listed, h.stopNone, h.stopSome, h.fresh, h.alloc, h.pcPush, h.ack, h.startLe, h.seg, h.noDrain⟩

theorem inv_step {cfg : Cfg} {s s' : St} {a : Act} (h : Inv s) (hs : step cfg s a = some s')
    (hm : s'.misuse = false) : Inv s' := by
  cases a with
  | callSub cap => simp only [step, Option.some.injEq] at hs; subst hs; exact inv_callSub h cap
  | callUnsub c =>
    simp only [step] at hs
    split at hs
    · next hst =>
      cases hs
      exact inv_setStat h c .unsubOffer (by rw [hst]; rfl) (by rw [hst]; rfl) (by rw [hst]; rfl)
        (by rw [hst]; simp) (by simp) (by rw [hst]; simp)
    · cases hs; simp at hm
    · cases hs
  | callSend sd =>
    simp only [step] at hs
    split at hs
    · cases hs
    · cases hs; exact inv_frame h _ _ _
  | recvTrace k =>
    simp only [step] at hs
    split at hs
    · next hpc hx => cases hs; exact inv_recvTrace h hpc _ _
    · cases hs
  | recvSub c =>
    simp only [step] at hs
    split at hs
    · next hpc hst => cases hs; exact inv_recvSub h hpc c hst
    · cases hs
  | recvUnsub c =>
    simp only [step] at hs
    split at hs
    · next hpc hst =>
      split at hs
      · cases hs; exact inv_recvUnsub h hpc c hst
      · cases hs; exact h
    · cases hs
  | push =>
    simp only [step] at hs
    split at hs
    · next x i hpc =>
      split at hs
      · next d hd =>
        split at hs
        · cases hs; exact inv_deliver h hpc hd
        · cases hs
      · cases hs
    · cases hs
  | consume c =>
    simp only [step] at hs
    split at hs
    · next hst => exact inv_read h hs (fun _ => hst) (by intro e; cases e)
    · cases hs
  | drain c =>
    simp only [step] at hs
    split at hs
    · next hc =>
      refine inv_read h hs (by intro e; cases e) ?_
      intro _
      simp only [Bool.and_eq_true, Bool.or_eq_true, beq_iff_eq] at hc
      rcases hc.2 with e | e <;> rw [e] <;> simp
    · cases hs
  | subReturn c =>
    simp only [step] at hs
    split at hs
    · next hst =>
      cases hs
      exact inv_setStat h c .active (by rw [hst]; rfl) (by rw [hst]; rfl) (by rw [hst]; rfl)
        (by rw [hst]; simp) (fun _ => h.noDrain c (Or.inl hst)) (by rw [hst]; simp)
    · cases hs
  | takeOk c =>
    simp only [step] at hs
    split at hs
    · next d hpc hst =>
      split at hs
      · next e => subst e; cases hs; exact inv_takeOk h d hpc hst
      · cases hs
    · cases hs

theorem step_misuse {cfg : Cfg} {s s' : St} {a : Act} (hs : step cfg s a = some s') (hm : s.misuse = true) :
    s'.misuse = true := by
  cases a with
  | callSub cap => simp only [step, Option.some.injEq] at hs; subst hs; exact hm
  | callUnsub c =>
    simp only [step] at hs
    split at hs
    · cases hs; exact hm
    · cases hs; rfl
    · cases hs
  | callSend sd =>
    simp only [step] at hs
    split at hs
    · cases hs
    · cases hs; exact hm
  | recvTrace k =>
    simp only [step] at hs
    split at hs
    · cases hs; exact hm
    · cases hs
  | recvSub c =>
    simp only [step] at hs
    split at hs
    · cases hs; exact hm
    · cases hs
  | recvUnsub c =>
    simp only [step] at hs
    split at hs
    · split at hs
      · cases hs; exact hm
      · cases hs; exact hm
    · cases hs
  | push =>
    simp only [step] at hs
    split at hs
    · split at hs
      · split at hs
        · cases hs; rw [(same_deliver _ _ _ _).2.2.2.1]; exact hm
        · cases hs
      · cases hs
    · cases hs
  | consume c =>
    simp only [step] at hs
    split at hs
    · rw [(same_read hs).2.2.2.1]; exact hm
    · cases hs
  | drain c =>
    simp only [step] at hs
    split at hs
    · rw [(same_read hs).2.2.2.1]; exact hm
    · cases hs
  | subReturn c =>
    simp only [step] at hs
    split at hs
    · cases hs; exact hm
    · cases hs
  | takeOk c =>
    simp only [step] at hs
    split at hs
    · split at hs
      · cases hs; exact hm
      · cases hs
    · cases hs

theorem run_append (cfg : Cfg) (s : St) (l1 l2 : List Act) : run cfg s (l1 ++ l2) = run cfg (run cfg s l1) l2 := by
  unfold run; rw [List.foldl_append]

theorem step'_misuse {cfg : Cfg} {s : St} {a : Act} (hm : s.misuse = true) : (step' cfg s a).misuse = true := by
  unfold step'
  cases hs : step cfg s a with
  | none => exact hm
  | some s' => exact step_misuse hs hm

theorem inv_step' {cfg : Cfg} {s : St} {a : Act} (h : Inv s) (hm : (step' cfg s a).misuse = false) :
    Inv (step' cfg s a) := by
  unfold step' at hm ⊢
  cases hs : step cfg s a with
  | none => exact h
  | some s' => rw [hs] at hm; exact inv_step h hs hm

theorem inv_run_from (cfg : Cfg) (sched : List Act) : ∀ s : St, (s.misuse = false → Inv s) →
    (run cfg s sched).misuse = false → Inv (run cfg s sched) := by
  induction sched with
  | nil => intro s h hm; exact h hm
  | cons a l ih =>
    intro s h
    show (run cfg (step' cfg s a) l).misuse = false → Inv (run cfg (step' cfg s a) l)
    apply ih
    intro hm
    have hl : s.misuse = false := by
      cases hb : s.misuse with
      | false => rfl
      | true => rw [step'_misuse hb] at hm; cases hm
    exact inv_step' (h hl) hm

/-- every schedule: the invariant holds after it, unless `Unsubscribe` was misused on the way -/
theorem inv_run (cfg : Cfg) (sched : List Act) :
    (run cfg init sched).misuse = false → Inv (run cfg init sched) :=
  inv_run_from cfg sched init (fun _ => inv_init)


/-! ## sender program order -/

/-- the sequence numbers of sender `sd` in a list of traces -/
def seqsOf (sd : Nat) (l : List Msg) : List Nat := (l.filter (fun m => m.sender == sd)).map (·.seq)

theorem seqsOf_append (sd : Nat) (a b : List Msg) : seqsOf sd (a ++ b) = seqsOf sd a ++ seqsOf sd b := by
  simp [seqsOf]

/-- Sender-order invariant: what the broadcaster has taken from a sender, followed by that sender's blocked `Send`
(at most one), is `0, 1, …, next - 1`. -/
structure SInv (s : St) : Prop where
  order : ∀ sd, seqsOf sd s.log ++ seqsOf sd s.pending = List.range (s.next sd)
  one : ∀ sd, (seqsOf sd s.pending).length ≤ 1

theorem sinv_init : SInv init := by
  constructor <;> intro sd <;> simp [init, seqsOf]

theorem sinv_same {s s' : St} (h : SInv s) (hs : s.same s') : SInv s' := by
  obtain ⟨h1, h2, h3, _, _, _⟩ := hs
  constructor
  · intro sd; rw [h1, h2, h3]; exact h.order sd
  · intro sd; rw [h2]; exact h.one sd

theorem seqsOf_eraseIdx_self {l : List Msg} {k : Nat} {x : Msg} (hx : l[k]? = some x)
    (hone : (seqsOf x.sender l).length ≤ 1) :
    seqsOf x.sender l = [x.seq] ∧ seqsOf x.sender (l.eraseIdx k) = [] := by
  obtain ⟨hk, hx'⟩ := List.getElem?_eq_some_iff.mp hx
  have hsplit : l = l.take k ++ x :: l.drop (k + 1) := by
    rw [← hx', ← List.drop_eq_getElem_cons hk, List.take_append_drop]
  have he : l.eraseIdx k = l.take k ++ l.drop (k + 1) := List.eraseIdx_eq_take_drop_succ l k
  rw [he]
  rw [hsplit] at hone
  have hsx : seqsOf x.sender [x] = [x.seq] := by simp [seqsOf]
  have : seqsOf x.sender (l.take k ++ x :: l.drop (k + 1)) =
      seqsOf x.sender (l.take k) ++ [x.seq] ++ seqsOf x.sender (l.drop (k + 1)) := by
    rw [show l.take k ++ x :: l.drop (k + 1) = l.take k ++ [x] ++ l.drop (k + 1) by simp,
      seqsOf_append, seqsOf_append, hsx]
  rw [this] at hone
  simp only [List.length_append, List.length_cons, List.length_nil] at hone
  have ha : seqsOf x.sender (l.take k) = [] := List.eq_nil_of_length_eq_zero (by omega)
  have hb : seqsOf x.sender (l.drop (k + 1)) = [] := List.eq_nil_of_length_eq_zero (by omega)
  constructor
  · rw [hsplit, this, ha, hb]; rfl
  · rw [seqsOf_append, ha, hb]; rfl

theorem seqsOf_eraseIdx_other {l : List Msg} {k : Nat} {x : Msg} {sd : Nat} (hx : l[k]? = some x)
    (hne : x.sender ≠ sd) : seqsOf sd (l.eraseIdx k) = seqsOf sd l := by
  obtain ⟨hk, hx'⟩ := List.getElem?_eq_some_iff.mp hx
  have hsplit : l = l.take k ++ x :: l.drop (k + 1) := by
    rw [← hx', ← List.drop_eq_getElem_cons hk, List.take_append_drop]
  have he : l.eraseIdx k = l.take k ++ l.drop (k + 1) := List.eraseIdx_eq_take_drop_succ l k
  rw [he]
  conv => rhs; rw [hsplit]
  have hsx : seqsOf sd [x] = [] := by simp [seqsOf, hne]
  rw [show l.take k ++ x :: l.drop (k + 1) = l.take k ++ [x] ++ l.drop (k + 1) by simp,
    seqsOf_append, seqsOf_append, seqsOf_append, hsx]
  simp

theorem sinv_step {cfg : Cfg} {s s' : St} {a : Act} (h : SInv s) (hs : step cfg s a = some s') : SInv s' := by
  cases a with
  | callSub cap =>
    simp only [step, Option.some.injEq] at hs; subst hs
    exact ⟨h.order, h.one⟩
  | callUnsub c =>
    simp only [step] at hs
    split at hs
    · cases hs; exact ⟨h.order, h.one⟩
    · cases hs; exact ⟨h.order, h.one⟩
    · cases hs
  | callSend sd =>
    simp only [step] at hs
    split at hs
    · cases hs
    · next hany =>
      cases hs
      have hnone : seqsOf sd s.pending = [] := by
        simp only [seqsOf, List.map_eq_nil_iff, List.filter_eq_nil_iff]
        intro m hm hp
        apply hany
        simp only [List.any_eq_true]
        exact ⟨m, hm, hp⟩
      constructor
      · intro j
        simp only [seqsOf_append]
        by_cases hj : j = sd
        · subst hj
          have := h.order j
          rw [hnone] at this ⊢
          simp only [List.append_nil, List.nil_append] at this ⊢
          have hsx : seqsOf j [({ sender := j, seq := s.next j } : Msg)] = [s.next j] := by simp [seqsOf]
          simp only [if_true, List.range_succ, this, hsx]
        · have e : seqsOf j [({ sender := sd, seq := s.next sd } : Msg)] = [] := by
            simp [seqsOf]; exact fun e => hj e.symm
          simp only [hj, if_false, e, List.append_nil]
          exact h.order j
      · intro j
        simp only [seqsOf_append]
        by_cases hj : j = sd
        · subst hj; rw [hnone]; simp [seqsOf]
        · have e : seqsOf j [({ sender := sd, seq := s.next sd } : Msg)] = [] := by
            simp [seqsOf]; exact fun e => hj e.symm
          rw [e]; simpa using h.one j
  | recvTrace k =>
    simp only [step] at hs
    split at hs
    · next x hpc hx =>
      cases hs
      constructor
      · intro sd
        show seqsOf sd (s.log ++ [x]) ++ seqsOf sd (s.pending.eraseIdx k) = List.range (s.next sd)
        rw [seqsOf_append]
        by_cases hsd : x.sender = sd
        · subst hsd
          obtain ⟨e1, e2⟩ := seqsOf_eraseIdx_self hx (h.one x.sender)
          have := h.order x.sender
          rw [e1] at this
          rw [e2]
          have hsx : seqsOf x.sender [x] = [x.seq] := by simp [seqsOf]
          rw [hsx]; simpa using this
        · have hsx : seqsOf sd [x] = [] := by simp [seqsOf, hsd]
          rw [hsx, seqsOf_eraseIdx_other hx hsd]
          simpa using h.order sd
      · intro sd
        show (seqsOf sd (s.pending.eraseIdx k)).length ≤ 1
        by_cases hsd : x.sender = sd
        · subst hsd
          rw [(seqsOf_eraseIdx_self hx (h.one x.sender)).2]; simp
        · rw [seqsOf_eraseIdx_other hx hsd]; exact h.one sd
    · cases hs
  | recvSub c =>
    simp only [step] at hs
    split at hs
    · cases hs; exact ⟨h.order, h.one⟩
    · cases hs
  | recvUnsub c =>
    simp only [step] at hs
    split at hs
    · split at hs
      · cases hs; exact ⟨h.order, h.one⟩
      · cases hs; exact h
    · cases hs
  | push =>
    simp only [step] at hs
    split at hs
    · split at hs
      · split at hs
        · cases hs; exact sinv_same h (same_deliver _ _ _ _)
        · cases hs
      · cases hs
    · cases hs
  | consume c =>
    simp only [step] at hs
    split at hs
    · exact sinv_same h (same_read hs)
    · cases hs
  | drain c =>
    simp only [step] at hs
    split at hs
    · exact sinv_same h (same_read hs)
    · cases hs
  | subReturn c =>
    simp only [step] at hs
    split at hs
    · cases hs; exact ⟨h.order, h.one⟩
    · cases hs
  | takeOk c =>
    simp only [step] at hs
    split at hs
    · split at hs
      · cases hs; exact ⟨h.order, h.one⟩
      · cases hs
    · cases hs

theorem sinv_run_from (cfg : Cfg) (sched : List Act) : ∀ s : St, SInv s → SInv (run cfg s sched) := by
  induction sched with
  | nil => intro s h; exact h
  | cons a l ih =>
    intro s h
    show SInv (run cfg (step' cfg s a) l)
    apply ih
    unfold step'
    cases hs : step cfg s a with
    | none => exact h
    | some s' => exact sinv_step h hs

theorem sinv_run (cfg : Cfg) (sched : List Act) : SInv (run cfg init sched) :=
  sinv_run_from cfg sched init sinv_init


/-! ## a channel's `start` is written once -/

theorem take_chan {s s' : St} {c : Nat} {drain : Bool} (h : s.take c drain = some s') (j : Nat) :
    (s'.chan j).start = (s.chan j).start ∧ (s'.chan j).stat = (s.chan j).stat := by
  unfold St.take at h
  split at h
  · cases h
    by_cases hj : j = c
    · subst hj; cases drain <;> simp
    · simp [hj]
  · cases h

theorem deliver_chan (s : St) (d : Nat) (x : Msg) (i : Nat) (j : Nat) :
    ((s.deliver d x i).chan j).start = (s.chan j).start ∧ ((s.deliver d x i).chan j).stat = (s.chan j).stat := by
  unfold St.deliver
  by_cases hj : j = d
  · subst hj; simp
  · simp [hj]

theorem read_chan {s s' : St} {c : Nat} {drain : Bool} (h : s.read c drain = some s') (j : Nat) :
    (s'.chan j).start = (s.chan j).start ∧ (s'.chan j).stat = (s.chan j).stat := by
  unfold St.read at h
  split at h
  · next s1 h1 => cases h; exact take_chan h1 j
  · split at h
    · next x i ho =>
      obtain ⟨a, b⟩ := take_chan h j
      obtain ⟨c1, c2⟩ := deliver_chan s c x i j
      exact ⟨a.trans c1, b.trans c2⟩
    · cases h

/-- once a channel has been appended to the list (`fresh = false`), no step changes its `start` or makes it fresh -/
theorem step_start_stable {cfg : Cfg} {s s' : St} {a : Act} (h : Inv s) (hs : step cfg s a = some s') (c : Nat)
    (hc : (s.chan c).stat.fresh = false) :
    (s'.chan c).start = (s.chan c).start ∧ (s'.chan c).stat.fresh = false := by
  cases a with
  | callSub cap =>
    simp only [step, Option.some.injEq] at hs; subst hs
    have hne : c ≠ s.nchan := by
      intro e
      have := h.alloc c (by omega)
      rw [this] at hc; cases hc
    simp [hne, hc]
  | callUnsub d =>
    simp only [step] at hs
    split at hs
    · cases hs
      by_cases hj : c = d
      · subst hj; simp [CStat.fresh]
      · simp [hj, hc]
    · cases hs
      by_cases hj : c = d
      · subst hj; simp [CStat.fresh]
      · simp [hj, hc]
    · cases hs
  | callSend sd =>
    simp only [step] at hs
    split at hs
    · cases hs
    · cases hs; exact ⟨rfl, hc⟩
  | recvTrace k =>
    simp only [step] at hs
    split at hs
    · cases hs; exact ⟨rfl, hc⟩
    · cases hs
  | recvSub d =>
    simp only [step] at hs
    split at hs
    · next hpc hst =>
      cases hs
      have hne : c ≠ d := by
        intro e; subst e; rw [hst] at hc; cases hc
      simp [St.acceptSub, hne, hc]
    · cases hs
  | recvUnsub d =>
    simp only [step] at hs
    split at hs
    · split at hs
      · cases hs
        by_cases hj : c = d
        · subst hj; simp [St.removeSub, CStat.fresh]
        · simp [St.removeSub, hj, hc]
      · cases hs; exact ⟨rfl, hc⟩
    · cases hs
  | push =>
    simp only [step] at hs
    split at hs
    · split at hs
      · split at hs
        · cases hs
          obtain ⟨a, b⟩ := deliver_chan s _ _ _ c
          exact ⟨a, by rw [b]; exact hc⟩
        · cases hs
      · cases hs
    · cases hs
  | consume d =>
    simp only [step] at hs
    split at hs
    · obtain ⟨a, b⟩ := read_chan hs c
      exact ⟨a, by rw [b]; exact hc⟩
    · cases hs
  | drain d =>
    simp only [step] at hs
    split at hs
    · obtain ⟨a, b⟩ := read_chan hs c
      exact ⟨a, by rw [b]; exact hc⟩
    · cases hs
  | subReturn d =>
    simp only [step] at hs
    split at hs
    · cases hs
      by_cases hj : c = d
      · subst hj; simp [CStat.fresh]
      · simp [hj, hc]
    · cases hs
  | takeOk d =>
    simp only [step] at hs
    split at hs
    · split at hs
      · cases hs
        by_cases hj : c = d
        · subst hj; simp [St.finishUnsub, CStat.fresh]
        · simp [St.finishUnsub, hj, hc]
      · cases hs
    · cases hs

/-- before any `Send` has begun the log is empty -/
def Act.isSend : Act → Bool
  | .callSend _ => true
  | _ => false

theorem step_nosend {cfg : Cfg} {s s' : St} {a : Act} (ha : a.isSend = false) (hs : step cfg s a = some s')
    (h0 : s.log = [] ∧ s.pending = []) : s'.log = [] ∧ s'.pending = [] := by
  cases a with
  | callSub cap => simp only [step, Option.some.injEq] at hs; subst hs; exact h0
  | callUnsub d =>
    simp only [step] at hs
    split at hs
    · cases hs; exact h0
    · cases hs; exact h0
    · cases hs
  | callSend sd => cases ha
  | recvTrace k =>
    simp only [step] at hs
    split at hs
    · next x hpc hx => rw [h0.2] at hx; cases hx
    · cases hs
  | recvSub d =>
    simp only [step] at hs
    split at hs
    · cases hs; exact h0
    · cases hs
  | recvUnsub d =>
    simp only [step] at hs
    split at hs
    · split at hs
      · cases hs; exact h0
      · cases hs; exact h0
    · cases hs
  | push =>
    simp only [step] at hs
    split at hs
    · split at hs
      · split at hs
        · cases hs
          obtain ⟨a, b, _⟩ := same_deliver s _ _ _
          rw [a, b]; exact h0
        · cases hs
      · cases hs
    · cases hs
  | consume d =>
    simp only [step] at hs
    split at hs
    · obtain ⟨a, b, _⟩ := same_read hs
      rw [a, b]; exact h0
    · cases hs
  | drain d =>
    simp only [step] at hs
    split at hs
    · obtain ⟨a, b, _⟩ := same_read hs
      rw [a, b]; exact h0
    · cases hs
  | subReturn d =>
    simp only [step] at hs
    split at hs
    · cases hs; exact h0
    · cases hs
  | takeOk d =>
    simp only [step] at hs
    split at hs
    · split at hs
      · cases hs; exact h0
      · cases hs
    · cases hs

theorem run_nosend (cfg : Cfg) (pre : List Act) (hpre : ∀ a ∈ pre, a.isSend = false) :
    ∀ s : St, (s.log = [] ∧ s.pending = []) → (run cfg s pre).log = [] := by
  induction pre with
  | nil => intro s h; exact h.1
  | cons a l ih =>
    intro s h
    show (run cfg (step' cfg s a) l).log = []
    apply ih (fun b hb => hpre b (List.mem_cons_of_mem _ hb))
    unfold step'
    cases hs : step cfg s a with
    | none => exact h
    | some s' => exact step_nosend (hpre a (by simp)) hs h

/-- a channel that is in the list, with `start = 0`, keeps both through every schedule (unless misuse) -/
theorem start_zero_run (cfg : Cfg) (c : Nat) (post : List Act) : ∀ s : St,
    (s.misuse = false → Inv s ∧ (s.chan c).stat.fresh = false ∧ (s.chan c).start = 0) →
    (run cfg s post).misuse = false →
    Inv (run cfg s post) ∧ ((run cfg s post).chan c).stat.fresh = false ∧ ((run cfg s post).chan c).start = 0 := by
  induction post with
  | nil => intro s h hm; exact h hm
  | cons a l ih =>
    intro s h
    show (run cfg (step' cfg s a) l).misuse = false → _
    apply ih
    intro hm
    have hl : s.misuse = false := by
      cases hb : s.misuse with
      | false => rfl
      | true => rw [step'_misuse hb] at hm; cases hm
    obtain ⟨hinv, hf, hz⟩ := h hl
    unfold step' at hm ⊢
    cases hs : step cfg s a with
    | none => exact ⟨hinv, hf, hz⟩
    | some s' =>
      rw [hs] at hm
      obtain ⟨e1, e2⟩ := step_start_stable hinv hs c hf
      exact ⟨inv_step hinv hs hm, e2, by simp only [Option.getD_some]; rw [e1]; exact hz⟩

end Bpmn.Model.Tracer
