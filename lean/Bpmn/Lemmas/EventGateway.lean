import Bpmn.Model.EventGateway
/-!
Invariants of the event-gateway model (`Bpmn.Model.EventGateway`), preserved by every label, for every value of the
facts; sums over the alternatives; the progress measure.
-/
namespace Bpmn.Model.EventGateway

/-! ## schedules -/

theorem exec_nil (c : Cfg) (s : St) : exec c s [] = s := rfl

theorem exec_cons (c : Cfg) (s : St) (l : Lbl) (ls : List Lbl) :
    exec c s (l :: ls) = exec c (if enabled c s l then fire c s l else s) ls := by
  simp only [exec, List.foldl_cons, step]
  split <;> rfl

theorem exec_append (c : Cfg) (s : St) (a b : List Lbl) : exec c s (a ++ b) = exec c (exec c s a) b := by
  simp [exec, List.foldl_append]

/-- a predicate preserved by every enabled label holds along every schedule -/
theorem exec_induct (c : Cfg) (P : St → Prop)
    (hstep : ∀ s l, P s → enabled c s l = true → P (fire c s l)) :
    ∀ (sch : List Lbl) (s : St), P s → P (exec c s sch) := by
  intro sch
  induction sch with
  | nil => intro s h; exact h
  | cons l ls ih =>
    intro s h
    rw [exec_cons]
    by_cases he : enabled c s l = true
    · simp only [he, if_true]; exact ih _ (hstep s l h he)
    · simp only [he]; exact ih _ h

/-- strict runs are runs -/
theorem run_eq_exec (c : Cfg) : ∀ (sch : List Lbl) (s s' : St), run c s sch = some s' → exec c s sch = s' := by
  intro sch
  induction sch with
  | nil => intro s s' h; simp [run] at h; simp [exec_nil, h]
  | cons l ls ih =>
    intro s s' h
    simp only [run, step] at h
    rw [exec_cons]
    by_cases he : enabled c s l = true
    · simp only [he, if_true, Option.bind_some] at h ⊢
      exact ih _ _ h
    · simp [he] at h

/-! ## invariants, group A: the CAS flag, the program counters, the termination channels -/

theorem allClosed_iff (c : Cfg) (s : St) : allClosed c s = true ↔ ∀ t, t < c.k → s.closed t = true := by
  simp [allClosed, List.all_eq_true]

structure InvA (c : Cfg) (s : St) : Prop where
  lt_k : ∀ i, s.pc i ≠ .starting → i < c.k
  first_w : ∀ w, s.first = some w → (s.pc w).won = true
  won_first : ∀ i, (s.pc i).won = true → s.first = some i
  compl : ∀ i, s.pc i = .completed → s.first ≠ none
  closed0 : s.first = none → ∀ t, s.closed t = false
  tgt : ∀ t, s.target = some t → t < c.k ∧ s.closed t = false ∧ ∃ w, s.first = some w ∧ s.pc w = .notifying
  cont_closed : ∀ w, s.pc w = .continued → ∀ t, t < c.k → s.closed t = true
  buf0 : ∀ t, s.closed t = false → s.termBuf t = 0
  bufpos : 1 ≤ c.termCap → ∀ w t, s.first = some w → t ≠ w → s.closed t = true →
    (s.pc t = .starting ∨ s.pc t = .selecting) → 1 ≤ s.termBuf t
  mapgone : s.mapGone = true → c.mapReplaced = true
  nilc : ∀ i, s.nilChan i = true → c.mapReplaced = true

theorem invA_init (c : Cfg) : InvA c (init c) := by
  constructor <;> simp [init, Pc.won]

theorem invA_step (c : Cfg) (s : St) (l : Lbl) (h : InvA c s) (he : enabled c s l = true) :
    InvA c (fire c s l) := by
  obtain ⟨h1, h2, h3, h4, h5, h6, h7, h8, h9, h10, h11⟩ := h
  cases l <;> simp only [enabled, Bool.and_eq_true, decide_eq_true_eq, allClosed_iff] at he <;> simp only [fire]
  all_goals (constructor <;> grind [upd, Pc.won])

/-! ## invariants, group N: the catch nodes and the deliveries -/

theorem reg_not_mem_tail (l : List Msg) (h : Msg.reg ∉ l) : Msg.reg ∉ l.tail :=
  fun hm => h (List.mem_of_mem_tail hm)

theorem reg_count_tail (l : List Msg) (h : l.count Msg.reg ≤ 1) : l.tail.count Msg.reg ≤ 1 := by
  cases l with
  | nil => simp
  | cons a t =>
    simp only [List.tail_cons]
    have := List.count_le_count_cons (a := Msg.reg) (b := a) (l := t)
    omega

theorem reg_head_tail (l : List Msg) (hh : l.head? = some Msg.reg) (h : l.count Msg.reg ≤ 1) : Msg.reg ∉ l.tail := by
  cases l with
  | nil => simp at hh
  | cons a t =>
    simp only [List.head?_cons, Option.some.injEq] at hh
    subst hh
    simp only [List.count_cons_self] at h
    simp only [List.tail_cons]
    intro hm
    have := List.count_pos_iff.mpr hm
    omega

theorem reg_mem_of_tail (l : List Msg) (h : Msg.reg ∈ l.tail) : Msg.reg ∈ l := List.mem_of_mem_tail h

theorem reg_count_push_reg (l : List Msg) (h : Msg.reg ∉ l) : (l ++ [Msg.reg]).count Msg.reg ≤ 1 := by
  simp [List.count_append, List.count_eq_zero.mpr h]

theorem reg_count_push_ev (l : List Msg) (a : Nat) : (l ++ [Msg.ev a]).count Msg.reg = l.count Msg.reg := by
  simp [List.count_append]

theorem reg_mem_push_ev (l : List Msg) (a : Nat) : Msg.reg ∈ l ++ [Msg.ev a] ↔ Msg.reg ∈ l := by
  simp

theorem tail_ne_nil_of (l : List Msg) (h : l.tail ≠ []) : l ≠ [] := by
  intro hl; subst hl; simp at h

structure InvN (c : Cfg) (s : St) : Prop where
  start_node : ∀ j, s.pc j = .starting →
    s.active j = false ∧ s.npc j = .idle ∧ Msg.reg ∉ s.inbox j ∧ s.replyBuf j = 0
  send_active : ∀ j, s.npc j = .sending → s.active j = true
  active_reg : ∀ j, s.active j = true → Msg.reg ∉ s.inbox j ∧ s.replyBuf j = 0
  reg_once : ∀ j, (s.inbox j).count Msg.reg ≤ 1
  reg_buf : ∀ j, Msg.reg ∈ s.inbox j → s.replyBuf j = 0
  node_lt : ∀ j, (s.npc j = .sending ∨ s.active j = true ∨ s.inbox j ≠ []) → j < c.k

theorem invN_init (c : Cfg) : InvN c (init c) := by
  constructor <;> simp [init]

theorem invN_step (c : Cfg) (s : St) (l : Lbl) (h : InvN c s) (he : enabled c s l = true) :
    InvN c (fire c s l) := by
  obtain ⟨h1, h2, h3, h4, h5, h6⟩ := h
  cases l <;> simp only [enabled, Bool.and_eq_true, decide_eq_true_eq] at he <;> simp only [fire]
  case node j =>
    have h1j := h1 j; have h3j := h3 j; have h4j := h4 j; have h5j := h5 j
    rcases hl : s.inbox j with _ | ⟨m, rest⟩
    · simp [hl] at he
    · simp only [hl, List.tail_cons, List.head?_cons, Option.some.injEq] at h1j h3j h4j h5j ⊢
      have hc : m = Msg.reg → Msg.reg ∉ rest := by
        intro hm hr
        subst hm
        have := List.count_pos_iff.mpr hr
        simp only [List.count_cons_self] at h4j
        omega
      have hc2 : List.count Msg.reg rest ≤ 1 := by
        have := List.count_le_count_cons (a := Msg.reg) (b := m) (l := rest)
        omega
      have hc3 : Msg.reg ∈ rest → Msg.reg ∈ m :: rest := fun x => List.mem_cons_of_mem _ x
      have hc4 : m = Msg.reg → Msg.reg ∈ m :: rest := by intro hm; subst hm; exact List.mem_cons_self
      have hc5 : rest ≠ [] → s.inbox j ≠ [] := by intro _; rw [hl]; exact List.cons_ne_nil _ _
      have hc6 : s.inbox j ≠ [] := by rw [hl]; exact List.cons_ne_nil _ _
      constructor <;> grind [upd]
  all_goals (constructor <;> grind [upd, reg_count_push_reg, reg_count_push_ev, reg_mem_push_ev])

/-! ## the wait group counts the live flows -/

theorem countP_range_upd (p : Pc → Bool) (f : Nat → Pc) (i : Nat) (v : Pc) (n : Nat) :
    (List.range n).countP (fun j => p (upd f i v j)) + (if i < n ∧ p (f i) = true then 1 else 0)
      = (List.range n).countP (fun j => p (f j)) + (if i < n ∧ p v = true then 1 else 0) := by
  induction n with
  | zero => simp
  | succ n ih =>
    simp only [List.range_succ, List.countP_append, List.countP_cons, List.countP_nil]
    by_cases hin : i = n
    · subst hin
      have e : ∀ (g : Nat → Pc), (∀ j, j < i → g j = f j) →
          (List.range i).countP (fun j => p (g j)) = (List.range i).countP (fun j => p (f j)) := by
        intro g hg
        apply List.countP_congr
        intro j hj
        simp only [List.mem_range] at hj
        simp [hg j hj]
      rw [e (upd f i v) (fun j hj => by simp [upd, Nat.ne_of_lt hj])]
      simp only [upd_same, Nat.lt_succ_self, true_and]
      split <;> split <;> simp_all
    · have hu : upd f i v n = f n := by simp [upd, Ne.symm hin]
      rw [hu]
      have : (i < n + 1) = (i < n) := by
        apply propext; constructor
        · intro h; omega
        · intro h; omega
      simp only [this]
      omega

theorem liveCount_upd (c : Cfg) (s : St) (i : Nat) (v : Pc) :
    (List.range c.k).countP (fun j => !(upd s.pc i v j).gone) + (if i < c.k ∧ (!(s.pc i).gone) = true then 1 else 0)
      = liveCount c s + (if i < c.k ∧ (!v.gone) = true then 1 else 0) :=
  countP_range_upd (fun p => !p.gone) s.pc i v c.k

/-- the wait group restricted to the gateway's flows equals the number of flows still running -/
def InvW (c : Cfg) (s : St) : Prop := s.wg = liveCount c s

theorem invW_init (c : Cfg) : InvW c (init c) := by
  simp [InvW, init, liveCount, Pc.gone]

theorem invW_step (c : Cfg) (s : St) (l : Lbl) (h : InvW c s) (he : enabled c s l = true) :
    InvW c (fire c s l) := by
  unfold InvW at *
  cases l <;> simp only [enabled, Bool.and_eq_true, decide_eq_true_eq] at he <;> simp only [fire, liveCount]
  case enterSelect i => have := liveCount_upd c s i .selecting; simp_all [Pc.gone, liveCount]
  case send j =>
    split
    · have := liveCount_upd c s j .gotAction; simp_all [Pc.gone, liveCount]
    · exact h
  case takeAction j => have := liveCount_upd c s j .gotAction; simp_all [Pc.gone, liveCount]
  case enterTransformer i => have := liveCount_upd c s i .inTransformer; simp_all [Pc.gone, liveCount]
  case cas i =>
    by_cases hf : s.first = none
    · have := liveCount_upd c s i .notifying; simp_all [Pc.gone, liveCount]
    · have := liveCount_upd c s i .completed; simp_all [Pc.gone, liveCount]; omega
  case notify i t =>
    split
    · have := liveCount_upd c s t .terminated; simp_all [Pc.gone, liveCount]; omega
    · exact h
  case finish i => have := liveCount_upd c s i .continued; simp_all [Pc.gone, liveCount]
  case recvTerm t => have := liveCount_upd c s t .terminated; simp_all [Pc.gone, liveCount]; omega
  all_goals exact h

/-! ## deliveries in flight point at existing consumers -/

def InvD (c : Cfg) (s : St) : Prop := ∀ d ∈ s.dels, d.2 < c.k

theorem invD_init (c : Cfg) : InvD c (init c) := by simp [InvD, init]

theorem invD_step (c : Cfg) (s : St) (l : Lbl) (h : InvD c s) (he : enabled c s l = true) :
    InvD c (fire c s l) := by
  unfold InvD at *
  cases l <;> simp only [enabled, Bool.and_eq_true, decide_eq_true_eq] at he <;> simp only [fire]
  case deliver a =>
    intro d hd
    simp only [List.mem_append, List.mem_singleton] at hd
    rcases hd with hd | hd
    · exact h d hd
    · subst hd; simp only; omega
  case forward d =>
    intro x hx
    split at hx
    · exact h x (List.mem_of_mem_eraseIdx hx)
    · rcases List.mem_or_eq_of_mem_set hx with hx | hx
      · exact h x hx
      · subst hx; simp only; omega
  all_goals exact h

/-! ## sums over the alternatives -/

def sumTo : Nat → (Nat → Nat) → Nat
  | 0, _ => 0
  | n + 1, f => sumTo n f + f n

theorem sumTo_congr (n : Nat) (f g : Nat → Nat) (h : ∀ j, j < n → f j = g j) : sumTo n f = sumTo n g := by
  induction n with
  | zero => rfl
  | succ n ih =>
    simp only [sumTo]
    rw [ih (fun j hj => h j (Nat.lt_succ_of_lt hj)), h n (Nat.lt_succ_self n)]

theorem sumTo_upd {α : Type} (g : α → Nat) (f : Nat → α) (i : Nat) (v : α) (n : Nat) :
    sumTo n (fun j => g (upd f i v j)) + (if i < n then g (f i) else 0)
      = sumTo n (fun j => g (f j)) + (if i < n then g v else 0) := by
  induction n with
  | zero => simp [sumTo]
  | succ n ih =>
    simp only [sumTo]
    by_cases hin : i = n
    · subst hin
      rw [sumTo_congr i (fun j => g (upd f i v j)) (fun j => g (f j))
        (fun j hj => by simp [upd, Nat.ne_of_lt hj])]
      simp
      omega
    · have hu : upd f i v n = f n := by simp [upd, Ne.symm hin]
      rw [hu]
      by_cases h1 : i < n
      · have h2 : i < n + 1 := by omega
        simp only [h1, h2, if_true] at ih ⊢
        omega
      · have h2 : ¬ i < n + 1 := by omega
        simp only [h1, h2, if_false] at ih ⊢
        omega

theorem sum_map_eraseIdx (f : Nat × Nat → Nat) : ∀ (l : List (Nat × Nat)) (d : Nat), d < l.length →
    ((l.eraseIdx d).map f).sum + f (l[d]?.getD (0, 0)) = (l.map f).sum := by
  intro l
  induction l with
  | nil => intro d h; simp at h
  | cons x xs ih =>
    intro d h
    cases d with
    | zero => simp; omega
    | succ d =>
      simp only [List.eraseIdx_cons_succ, List.map_cons, List.sum_cons, List.getElem?_cons_succ]
      have := ih d (by simpa using h)
      omega

theorem sum_map_set (f : Nat × Nat → Nat) (y : Nat × Nat) : ∀ (l : List (Nat × Nat)) (d : Nat), d < l.length →
    ((l.set d y).map f).sum + f (l[d]?.getD (0, 0)) = (l.map f).sum + f y := by
  intro l
  induction l with
  | nil => intro d h; simp at h
  | cons x xs ih =>
    intro d h
    cases d with
    | zero => simp; omega
    | succ d =>
      simp only [List.set_cons_succ, List.map_cons, List.sum_cons, List.getElem?_cons_succ]
      have := ih d (by simpa using h)
      omega


/-! ## the progress measure -/

def Pc.rank : Pc → Nat
  | .starting => 7 | .selecting => 4 | .gotAction => 3 | .inTransformer => 2 | .notifying => 1
  | _ => 0

def NodePc.weight : NodePc → Nat
  | .sending => 1
  | .idle => 0

def closedWeight : Bool → Nat
  | true => 0
  | false => 2

def targetWeight : Option Nat → Nat
  | none => 1
  | some _ => 0

def delWeight (c : Cfg) (d : Nat × Nat) : Nat := 3 * (c.k - d.2)

/-- what is left to do: every internal step decreases it, a delivery adds `3·k` -/
def mu (c : Cfg) (s : St) : Nat :=
  sumTo c.k (fun i => (s.pc i).rank) + sumTo c.k (fun j => 2 * (s.inbox j).length)
    + sumTo c.k (fun j => (s.npc j).weight)
    + sumTo c.k (fun t => closedWeight (s.closed t)) + targetWeight s.target
    + (s.dels.map (delWeight c)).sum

theorem rank_vals : Pc.rank .starting = 7 ∧ Pc.rank .selecting = 4 ∧ Pc.rank .gotAction = 3 ∧
    Pc.rank .inTransformer = 2 ∧ Pc.rank .notifying = 1 ∧ Pc.rank .continued = 0 ∧ Pc.rank .terminated = 0 ∧
    Pc.rank .completed = 0 := ⟨rfl, rfl, rfl, rfl, rfl, rfl, rfl, rfl⟩

theorem mu_decreases (c : Cfg) (s : St) (l : Lbl) (h : InvA c s) (hl : l.isInput = false)
    (he : enabled c s l = true) : mu c (fire c s l) < mu c s := by
  obtain ⟨r0, r1, r2, r3, r4, r5, r6, r7⟩ := rank_vals
  have w1 : NodePc.weight .sending = 1 := rfl
  have w0 : NodePc.weight .idle = 0 := rfl
  have c1 : closedWeight true = 0 := rfl
  have c0 : closedWeight false = 2 := rfl
  cases l <;> simp only [enabled, Bool.and_eq_true, decide_eq_true_eq] at he <;> simp only [fire, mu]
  case enterSelect i =>
    obtain ⟨⟨hi, hp⟩, _⟩ := he
    have a := sumTo_upd Pc.rank s.pc i .selecting c.k
    have b := sumTo_upd (fun l : List Msg => 2 * l.length) s.inbox i (s.inbox i ++ [.reg]) c.k
    simp only [hi, if_true, hp, List.length_append, List.length_singleton] at a b
    omega
  case node j =>
    obtain ⟨⟨hj, hn⟩, hne⟩ := he
    have b := sumTo_upd (fun l : List Msg => 2 * l.length) s.inbox j (s.inbox j).tail c.k
    have hlen : (s.inbox j).tail.length + 1 = (s.inbox j).length := by
      cases hl' : s.inbox j with
      | nil => simp [hl'] at hne
      | cons m r => simp
    simp only [hj, if_true] at b
    split
    · have a := sumTo_upd NodePc.weight s.npc j .sending c.k
      simp only [hj, if_true, hn] at a
      omega
    · omega
  case send j =>
    obtain ⟨⟨hj, hn⟩, hx⟩ := he
    have a := sumTo_upd NodePc.weight s.npc j .idle c.k
    simp only [hj, if_true, hn] at a
    split
    · next h0 =>
      simp only [h0, if_true, decide_eq_true_eq] at hx
      have b := sumTo_upd Pc.rank s.pc j .gotAction c.k
      simp only [hj, if_true, hx] at b
      omega
    · omega
  case takeAction j =>
    obtain ⟨⟨hj, hp⟩, _⟩ := he
    have b := sumTo_upd Pc.rank s.pc j .gotAction c.k
    simp only [hj, if_true, hp] at b
    omega
  case enterTransformer i =>
    obtain ⟨hi, hp⟩ := he
    have b := sumTo_upd Pc.rank s.pc i .inTransformer c.k
    simp only [hi, if_true, hp] at b
    omega
  case cas i =>
    obtain ⟨hi, hp⟩ := he
    have b := sumTo_upd Pc.rank s.pc i (if s.first = none then .notifying else .completed) c.k
    simp only [hi, if_true, hp] at b
    by_cases hf : s.first = none
    · simp only [hf, if_true] at b ⊢
      omega
    · simp only [hf, if_false] at b ⊢
      omega
  case pick i t =>
    obtain ⟨⟨⟨⟨hi, ht⟩, hp⟩, htg⟩, hc⟩ := he
    simp only [htg, targetWeight]
    omega
  case notify i t =>
    obtain ⟨⟨⟨⟨⟨hi, ht⟩, hne⟩, hp⟩, htg⟩, hx⟩ := he
    have hcl := (h.tgt t htg).2.1
    have a := sumTo_upd closedWeight s.closed t true c.k
    simp only [ht, if_true, hcl] at a
    simp only [htg, targetWeight]
    split
    · next h0 =>
      simp only [h0, if_true, Bool.and_eq_true, decide_eq_true_eq] at hx
      have b := sumTo_upd Pc.rank s.pc t .terminated c.k
      simp only [ht, if_true, hx.1] at b
      omega
    · omega
  case closeOwn i =>
    obtain ⟨⟨hi, hp⟩, htg⟩ := he
    have hcl := (h.tgt i htg).2.1
    have a := sumTo_upd closedWeight s.closed i true c.k
    simp only [hi, if_true, hcl] at a
    simp only [htg, targetWeight]
    omega
  case finish i =>
    obtain ⟨⟨⟨hi, hp⟩, htg⟩, _⟩ := he
    have b := sumTo_upd Pc.rank s.pc i .continued c.k
    simp only [hi, if_true, hp] at b
    omega
  case recvTerm t =>
    obtain ⟨⟨⟨ht, hp⟩, _⟩, _⟩ := he
    have b := sumTo_upd Pc.rank s.pc t .terminated c.k
    simp only [ht, if_true, hp] at b
    omega
  case deliver a => simp [Lbl.isInput] at hl
  case forward d =>
    obtain ⟨⟨hd, hn⟩, hcap⟩ := he
    have b := sumTo_upd (fun l : List Msg => 2 * l.length) s.inbox (delAt s d).2
      (s.inbox (delAt s d).2 ++ [.ev (delAt s d).1]) c.k
    simp only [hn, if_true, List.length_append, List.length_singleton] at b
    have hw : delWeight c (delAt s d) = 3 * (c.k - (delAt s d).2) := rfl
    split
    · next hk =>
      have e := sum_map_eraseIdx (delWeight c) s.dels d hd
      change _ + delWeight c (delAt s d) = _ at e
      omega
    · next hk =>
      have e := sum_map_set (delWeight c) ((delAt s d).1, (delAt s d).2 + 1) s.dels d hd
      change _ + delWeight c (delAt s d) = _ + _ at e
      have hw2 : delWeight c ((delAt s d).1, (delAt s d).2 + 1) = 3 * (c.k - ((delAt s d).2 + 1)) := rfl
      omega

/-- an input adds at most `3·k` -/
theorem mu_deliver (c : Cfg) (s : St) (a : Nat) : mu c (fire c s (.deliver a)) = mu c s + 3 * c.k := by
  simp [fire, mu, delWeight, List.sum_append]
  omega

theorem mu_init (c : Cfg) : mu c (init c) = 9 * c.k + 1 := by
  have h1 : ∀ n, sumTo n (fun _ => 7) = 7 * n := by
    intro n; induction n with
    | zero => rfl
    | succ n ih => simp only [sumTo, ih]; omega
  have h2 : ∀ n, sumTo n (fun _ => 0) = 0 := by
    intro n; induction n with
    | zero => rfl
    | succ n ih => simp only [sumTo, ih]
  have h3 : ∀ n, sumTo n (fun _ => 2) = 2 * n := by
    intro n; induction n with
    | zero => rfl
    | succ n ih => simp only [sumTo, ih]; omega
  simp only [mu, init, Pc.rank, List.length_nil, NodePc.weight, closedWeight, targetWeight, List.map_nil,
    List.sum_nil, h1, h2, h3]
  omega

/-! ## all invariants together -/

structure Inv (c : Cfg) (s : St) : Prop where
  a : InvA c s
  n : InvN c s
  w : InvW c s
  d : InvD c s

theorem inv_init (c : Cfg) : Inv c (init c) := ⟨invA_init c, invN_init c, invW_init c, invD_init c⟩

theorem inv_step (c : Cfg) (s : St) (l : Lbl) (h : Inv c s) (he : enabled c s l = true) : Inv c (fire c s l) :=
  ⟨invA_step c s l h.a he, invN_step c s l h.n he, invW_step c s l h.w he, invD_step c s l h.d he⟩

theorem inv_exec (c : Cfg) (s : St) (h : Inv c s) (sch : List Lbl) : Inv c (exec c s sch) :=
  exec_induct c (Inv c) (fun s l hs he => inv_step c s l hs he) sch s h

theorem inv_reach (c : Cfg) (sch : List Lbl) : Inv c (exec c (init c) sch) := inv_exec c _ (inv_init c) sch

end Bpmn.Model.EventGateway
