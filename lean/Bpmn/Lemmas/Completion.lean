import Bpmn.Model.Completion
/-! Helper lemmas for C02: list update, the safety invariant of the completion model and its preservation. -/
namespace Bpmn.Model.Completion

/-! ## `upd`, `swapRemove` -/

@[simp] theorem upd_length {α : Type} (l : List α) (i : Nat) (f : α → α) : (upd l i f).length = l.length := by
  induction l generalizing i with
  | nil => simp [upd]
  | cons x xs ih => cases i <;> simp [upd, ih]

@[simp] theorem upd_eq_nil {α : Type} (l : List α) (i : Nat) (f : α → α) : upd l i f = [] ↔ l = [] := by
  cases l with
  | nil => simp [upd]
  | cons x xs => cases i <;> simp [upd]

theorem getElem?_upd {α : Type} (l : List α) (i j : Nat) (f : α → α) :
    (upd l i f)[j]? = if i = j then (l[j]?).map f else l[j]? := by
  induction l generalizing i j with
  | nil => simp [upd]
  | cons x xs ih =>
    cases i with
    | zero => cases j <;> simp [upd]
    | succ i =>
      cases j with
      | zero => simp [upd]
      | succ j => simp [upd, ih]

theorem getElem?_upd_self {α : Type} (l : List α) (i : Nat) (f : α → α) :
    (upd l i f)[i]? = (l[i]?).map f := by simp [getElem?_upd]

theorem getElem?_upd_ne {α : Type} (l : List α) {i j : Nat} (f : α → α) (h : i ≠ j) :
    (upd l i f)[j]? = l[j]? := by simp [getElem?_upd, h]

theorem mem_upd {α : Type} {l : List α} {i : Nat} {f : α → α} {x : α} (h : x ∈ upd l i f) :
    x ∈ l ∨ ∃ y, l[i]? = some y ∧ x = f y := by
  induction l generalizing i with
  | nil => simp [upd] at h
  | cons a as ih =>
    cases i with
    | zero =>
      simp [upd] at h
      rcases h with rfl | h
      · exact Or.inr ⟨a, by simp, rfl⟩
      · exact Or.inl (by simp [h])
    | succ i =>
      simp [upd] at h
      rcases h with rfl | h
      · exact Or.inl (by simp)
      · rcases ih h with h | ⟨y, hy, rfl⟩
        · exact Or.inl (by simp [h])
        · exact Or.inr ⟨y, by simpa using hy, rfl⟩

/-- a predicate on all elements survives an update that preserves it on the updated element -/
theorem forall_mem_upd {α : Type} {l : List α} {i : Nat} {f : α → α} {p : α → Prop}
    (h : ∀ x ∈ l, p x) (hf : ∀ y, l[i]? = some y → p (f y)) : ∀ x ∈ upd l i f, p x := by
  intro x hx
  rcases mem_upd hx with hx | ⟨y, hy, rfl⟩
  · exact h x hx
  · exact hf y hy

/-- an indexed predicate survives an update if it survives on the updated element -/
theorem forall_idx_upd {α : Type} {l : List α} {i : Nat} {f : α → α} {Φ : Nat → α → Prop}
    (hother : ∀ k m, k ≠ i → l[k]? = some m → Φ k m)
    (hself : ∀ m, l[i]? = some m → Φ i (f m)) :
    ∀ k m, (upd l i f)[k]? = some m → Φ k m := by
  intro k m hk
  rw [getElem?_upd] at hk
  split at hk
  · next e =>
    subst e
    cases hl : l[i]? with
    | none => simp [hl] at hk
    | some y => simp [hl] at hk; subst hk; exact hself y hl
  · next e => exact hother k m (fun h => e h.symm) hk

theorem countP_upd {α : Type} (l : List α) (i : Nat) (f : α → α) (p : α → Bool) (y : α) (hy : l[i]? = some y) :
    (upd l i f).countP p + (if p y then 1 else 0) = l.countP p + (if p (f y) then 1 else 0) := by
  induction l generalizing i with
  | nil => simp at hy
  | cons a as ih =>
    cases i with
    | zero =>
      simp at hy; subst hy
      simp [upd, List.countP_cons]; omega
    | succ i =>
      simp at hy
      have := ih i hy
      simp [upd, List.countP_cons]; omega

theorem countP_upd_same' {α : Type} {l : List α} {i : Nat} {f : α → α} {p : α → Bool} {y : α} (hy : l[i]? = some y)
    (hp : p (f y) = p y) : (upd l i f).countP p = l.countP p := by
  have := countP_upd l i f p y hy
  rw [hp] at this; omega

theorem getElem?_append_some {α : Type} {l r : List α} {k : Nat} {m : α} (h : l[k]? = some m) :
    (l ++ r)[k]? = some m := by
  obtain ⟨hlt, _⟩ := List.getElem?_eq_some_iff.mp h
  rw [List.getElem?_append_left hlt]; exact h

theorem swapRemove_perm (l : List Nat) (k : Nat) : (swapRemove l k).Perm (l.erase k) := by
  induction l with
  | nil => simp [swapRemove]
  | cons x xs ih =>
    unfold swapRemove
    by_cases h : x = k
    · subst h
      simp only [if_true, List.erase_cons_head]
      cases hl : xs.getLast? with
      | none => simp [List.getLast?_eq_none_iff] at hl; simp [hl]
      | some l =>
        have : xs = xs.dropLast ++ [l] := by
          rcases List.getLast?_eq_some_iff.mp hl with ⟨ys, rfl⟩
          simp
        simp only
        conv => rhs; rw [this]
        exact (List.perm_append_comm (l₁ := [l]) (l₂ := xs.dropLast))
    · simp only [h, if_false]
      rw [List.erase_cons_tail (by simpa using h)]
      exact List.Perm.cons _ ih

theorem swapRemove_nodup {l : List Nat} (k : Nat) (h : l.Nodup) : (swapRemove l k).Nodup :=
  (swapRemove_perm l k).nodup_iff.mpr (h.erase k)

theorem mem_swapRemove {l : List Nat} {k j : Nat} (h : j ∈ swapRemove l k) : j ∈ l :=
  List.mem_of_mem_erase ((swapRemove_perm l k).mem_iff.mp h)

/-! ## Vocabulary of the invariants -/

def starts (b : List Trace) : Nat := b.count .start

/-- how often the start trace being broadcast is still owed to subscriber `k` -/
def pendFor (s : St) (k : Nat) : Nat :=
  match s.pending with
  | some (.start, ks) => ks.count k
  | _ => 0

def trigCount (p : List SI) : Nat := p.count .trigger
def subCount (p : List SI) : Nat := p.count .subscribe

/-- the monitor goroutine runs and has not released the completion lock -/
def MPc.holds : MPc → Bool
  | .counting | .unsub | .wgwait | .ceasing | .unlocking => true
  | _ => false

/-- the monitor has left the counting loop (it saw as many start traces as there are start events) -/
def MPc.counted : MPc → Bool
  | .unsub | .wgwait => true
  | _ => false

/-- the monitor has seen the wait group at zero -/
def MPc.pastWg : MPc → Bool
  | .ceasing | .unlocking | .done => true
  | _ => false

/-- the monitor has emitted its cease trace -/
def MPc.pastCease : MPc → Bool
  | .unlocking | .done => true
  | _ => false

/-- shape of a (remaining) starter program: every `lock` directly follows its `subscribe` -/
def wf : List SI → Bool
  | [] => true
  | .trigger :: r => wf r
  | .subscribe :: .lock :: r => wf r
  | _ => false

/-- newest-first log: after the first cease nothing but cease traces — and traces of goroutines outside the wait group -/
def LogOk : List Trace → Prop
  | [] => True
  | t :: r => (Trace.cease ∈ r → t = .cease ∨ t = .stray) ∧ LogOk r

end Bpmn.Model.Completion
