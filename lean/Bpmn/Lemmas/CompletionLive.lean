import Bpmn.Lemmas.CompletionSafety
/-! Liveness of the completion protocol as bounded progress, under the three facts that exclude the witnesses:
the monitor subscribes before the first start event is triggered, `StartAll` creates one monitor, the signal channel
of `WaitUntilComplete` is buffered. -/
namespace Bpmn.Model.Completion

structure LiveHyp (P : Params) : Prop where
  sub : P.subBefore = true
  one : P.monitorsPerStartAll = 1
  cap : 1 ≤ P.sigCap
  buf : 1 ≤ P.subBuf
  n : 1 ≤ P.n

theorem programFrom_noMon (P : Params) (hps : P.perStart = false) (i k : Nat) (hi : 1 ≤ i) :
    programFrom P i k = List.replicate k .trigger := by
  induction k generalizing i with
  | zero => simp [programFrom]
  | succ k ih =>
    have hne : (i == 0) = false := by simp; omega
    simp [programFrom, startWithAt, startWith, hps, hne, ih (i + 1) (by omega), List.replicate_succ]

theorem program_live {P : Params} (h : LiveHyp P) : program P = .subscribe :: .lock :: List.replicate P.n .trigger := by
  unfold program
  obtain ⟨k, hk⟩ : ∃ k, P.n = k + 1 := ⟨P.n - 1, by have := h.n; omega⟩
  rw [hk]
  cases hps : P.perStart with
  | false =>
    simp [programFrom, startWithAt, startWith, h.sub, programFrom_noMon P hps 1 k (by omega), List.replicate_succ]
  | true =>
    have : P.n = 1 := by have := h.one; simpa [Params.monitorsPerStartAll, hps] using this
    have hk0 : k = 0 := by omega
    subst hk0
    simp [programFrom, startWithAt, startWith, h.sub]

/-! ## Who holds the lock exists and can move; a sent signal is there for the caller -/

structure WLive (s : St) : Prop where
  sig : ∀ x ∈ s.waits, x.helper = .done → x.caller = .waiting → x.sig = true
  lockH : ∀ w, s.lock = some (.helper w) → ∃ x, s.waits[w]? = some x ∧ x.helper = .holding
  lockM : ∀ k, s.lock = some (.mon k) → ∃ m, s.mons[k]? = some m ∧ m.pc.holds = true

theorem wLive_init (P : Params) : WLive (init P) := by
  constructor <;> simp [init]

theorem wLive_step {P : Params} {s : St} (hK : LockInv s) (h : WLive s) (c : Choice) : WLive (step P s c) := by
  obtain ⟨h1, h2, h3⟩ := h
  cases c with
  | starter =>
    simp only [step, stepStarter]
    split
    · exact ⟨h1, h2, h3⟩
    · exact ⟨h1, h2, h3⟩
    · split
      · refine ⟨h1, h2, ?_⟩
        intro k hk
        obtain ⟨m, hm, hh⟩ := h3 k hk
        exact ⟨m, getElem?_append_some hm, hh⟩
      · exact ⟨h1, h2, h3⟩
    · next r hpr =>
      split
      · refine ⟨h1, by simp, ?_⟩
        intro k hk
        simp at hk; subst hk
        have hne : s.mons ≠ [] := by
          rcases hK.wfp with hp | ⟨r', _, _, h⟩
          · simp [hpr, wf] at hp
          · exact h
        have hlt : s.mons.length - 1 < s.mons.length := by
          have := List.length_pos_iff.mpr hne; omega
        refine ⟨{ s.mons[s.mons.length - 1] with pc := .counting }, ?_, rfl⟩
        rw [getElem?_upd_self, List.getElem?_eq_getElem hlt]; rfl
      · exact ⟨h1, h2, h3⟩
  | mon k0 =>
    simp only [step, stepMon]
    split
    · exact ⟨h1, h2, h3⟩
    · next m0 hm0 =>
      -- a pc update that keeps a holding pc holding
      have keep : ∀ (f : Mon → Mon) (s' : St), s'.mons = upd s.mons k0 f → s'.lock = s.lock → s'.waits = s.waits →
          (m0.pc.holds = true → (f m0).pc.holds = true) → WLive s' := by
        intro f s' e1 e2 e3 hf
        refine ⟨e3 ▸ h1, by rw [e2, e3]; exact h2, ?_⟩
        intro k hk
        rw [e2] at hk
        obtain ⟨m, hm, hh⟩ := h3 k hk
        by_cases e : k0 = k
        · subst e; rw [hm0] at hm; cases hm
          exact ⟨f m0, by rw [e1, getElem?_upd_self, hm0]; rfl, hf hh⟩
        · exact ⟨m, by rw [e1, getElem?_upd_ne _ _ e]; exact hm, hh⟩
      split
      · exact ⟨h1, h2, h3⟩
      · next hpc =>
        split
        · exact keep _ _ rfl rfl rfl (fun _ => rfl)
        · split
          · exact ⟨h1, h2, h3⟩
          · exact keep _ _ rfl rfl rfl (fun h => h)
      · next hpc =>
        split
        · exact keep _ _ rfl rfl rfl (fun _ => rfl)
        · split
          · exact ⟨h1, h2, h3⟩
          · exact keep _ _ rfl rfl rfl (fun h => h)
      · split
        · exact keep _ _ rfl rfl rfl (fun _ => rfl)
        · exact ⟨h1, h2, h3⟩
      · split
        · exact keep _ _ rfl rfl rfl (fun _ => rfl)
        · exact ⟨h1, h2, h3⟩
      · exact ⟨h1, by simp, by simp⟩
      · exact ⟨h1, h2, h3⟩
  | deliver =>
    simp only [step, stepDeliver]
    split
    · exact ⟨h1, h2, h3⟩
    · exact ⟨h1, h2, h3⟩
    · next t k0 ks hpe =>
      split
      · exact ⟨h1, h2, h3⟩
      · next m0 hm0 =>
        split
        · refine ⟨h1, h2, ?_⟩
          intro k hk
          obtain ⟨m, hm, hh⟩ := h3 k hk
          by_cases e : k0 = k
          · subst e; rw [hm0] at hm; cases hm
            exact ⟨{ m0 with buf := m0.buf ++ [t] }, by simp [getElem?_upd_self, hm0], hh⟩
          · exact ⟨m, by simp only; rw [getElem?_upd_ne _ _ e]; exact hm, hh⟩
        · exact ⟨h1, h2, h3⟩
  | helper w0 =>
    simp only [step, stepHelper]
    split
    · exact ⟨h1, h2, h3⟩
    · next x0 hx0 =>
      have hx0m : x0 ∈ s.waits := List.mem_of_getElem? hx0
      split
      · next hpc =>
        split
        · refine ⟨?_, ?_, by simp⟩
          · apply forall_mem_upd (p := fun x : Wait => x.helper = .done → x.caller = .waiting → x.sig = true) h1
            intro y _ hd; simp at hd
          · intro w hw; simp at hw; subst hw
            exact ⟨{ x0 with helper := .holding }, by simp [getElem?_upd_self, hx0], rfl⟩
        · exact ⟨h1, h2, h3⟩
      · split
        · refine ⟨?_, by simp, by simp⟩
          apply forall_mem_upd (p := fun x : Wait => x.helper = .done → x.caller = .waiting → x.sig = true) h1
          intro y _ _ _; rfl
        · split
          · refine ⟨?_, by simp, by simp⟩
            apply forall_mem_upd (p := fun x : Wait => x.helper = .done → x.caller = .waiting → x.sig = true) h1
            intro y _ _ hc; simp at hc
          · exact ⟨h1, h2, h3⟩
      · exact ⟨h1, h2, h3⟩
  | recv w0 =>
    simp only [step, stepRecv]
    split
    · exact ⟨h1, h2, h3⟩
    · next x0 hx0 =>
      split
      · refine ⟨?_, ?_, h3⟩
        · apply forall_mem_upd (p := fun x : Wait => x.helper = .done → x.caller = .waiting → x.sig = true) h1
          intro y _ _ hc; simp at hc
        · intro w hw
          obtain ⟨x, hx, hh⟩ := h2 w hw
          by_cases e : w0 = w
          · subst e; rw [hx0] at hx; cases hx
            exact ⟨{ x0 with caller := .gotTrue, sig := false }, by simp [getElem?_upd_self, hx0], hh⟩
          · exact ⟨x, by simp only; rw [getElem?_upd_ne _ _ e]; exact hx, hh⟩
      · exact ⟨h1, h2, h3⟩
  | expire w0 =>
    simp only [step, stepExpire]
    split
    · exact ⟨h1, h2, h3⟩
    · next x0 hx0 =>
      split
      · refine ⟨?_, ?_, h3⟩
        · apply forall_mem_upd (p := fun x : Wait => x.helper = .done → x.caller = .waiting → x.sig = true) h1
          intro y _ _ hc; simp at hc
        · intro w hw
          obtain ⟨x, hx, hh⟩ := h2 w hw
          by_cases e : w0 = w
          · subst e; rw [hx0] at hx; cases hx
            exact ⟨{ x0 with caller := .expired }, by simp [getElem?_upd_self, hx0], hh⟩
          · exact ⟨x, by simp only; rw [getElem?_upd_ne _ _ e]; exact hx, hh⟩
      · exact ⟨h1, h2, h3⟩
  | call =>
    simp only [step]
    refine ⟨?_, ?_, h3⟩
    · intro x hx; simp at hx
      rcases hx with hx | rfl
      · exact h1 x hx
      · intro hd; simp at hd
    · intro w hw
      obtain ⟨x, hx, hh⟩ := h2 w hw
      exact ⟨x, getElem?_append_some hx, hh⟩
  | fire => simp only [step]; split <;> exact ⟨h1, h2, h3⟩
  | startTrace => simp only [step]; split <;> exact ⟨h1, h2, h3⟩
  | other => simp only [step]; split <;> exact ⟨h1, h2, h3⟩
  | strayTrace => simp only [step]; split <;> exact ⟨h1, h2, h3⟩
  | birth => simp only [step]; split <;> exact ⟨h1, h2, h3⟩
  | spawnStray => simp only [step]; split <;> exact ⟨h1, h2, h3⟩
  | death => simp only [step]; split <;> exact ⟨h1, h2, h3⟩

/-! ## The single monitor sees every start trace -/

/-- the monitor is in the tracer's subscriber list -/
def MPc.subscribed : MPc → Bool
  | .wantLock | .counting | .unsub => true
  | _ => false

structure LCore (P : Params) (s : St) (m : Mon) : Prop where
  progW : m.pc = .wantLock → s.prog = .lock :: List.replicate P.n .trigger
  progR : m.pc ≠ .wantLock → ∃ j, s.prog = List.replicate j .trigger
  /-- nothing was missed: every start trace sent so far is counted, buffered, or on its way -/
  seen : (m.pc = .wantLock ∨ m.pc = .counting) → s.sent ≤ m.count + starts m.buf + pendFor s 0
  subs : s.subs = if m.pc.subscribed then [0] else []
  pend : ∀ t ks, s.pending = some (t, ks) → ks = [0] ∧ m.pc.subscribed = true

def LInv (P : Params) (s : St) : Prop :=
  (s.prog = program P ∧ s.mons = [] ∧ s.subs = [] ∧ s.pending = none) ∨ ∃ m, s.mons = [m] ∧ LCore P s m

theorem lInv_init (P : Params) : LInv P (init P) := Or.inl ⟨rfl, rfl, rfl, rfl⟩

theorem lInv_congr {P : Params} {s s' : St} (h : LInv P s) (e1 : s'.prog = s.prog) (e2 : s'.mons = s.mons)
    (e3 : s'.subs = s.subs) (e4 : s'.pending = s.pending) (e5 : s'.sent = s.sent) : LInv P s' := by
  rcases h with ⟨a, b, c, d⟩ | ⟨m, hm, hc⟩
  · exact Or.inl ⟨e1 ▸ a, e2 ▸ b, e3 ▸ c, e4 ▸ d⟩
  · refine Or.inr ⟨m, e2 ▸ hm, ?_⟩
    obtain ⟨c1, c2, c3, c4, c5⟩ := hc
    exact ⟨fun h => e1 ▸ c1 h, fun h => e1 ▸ c2 h, fun h => by rw [e5, pendFor_congr e4]; exact c3 h,
      e3 ▸ c4, fun t ks hp => c5 t ks (e4 ▸ hp)⟩

theorem replicate_trigger_cons {j : Nat} {r : List SI} {x : SI} (h : List.replicate j SI.trigger = x :: r) :
    x = .trigger ∧ r = List.replicate (j - 1) .trigger := by
  cases j with
  | zero => simp at h
  | succ j => simp [List.replicate_succ] at h; exact ⟨h.1.symm, by simpa using h.2.symm⟩

theorem lInv_step {P : Params} {s : St} (hL : LiveHyp P) (hC : Cnt P s) (h : LInv P s) (c : Choice) :
    LInv P (step P s c) := by
  have hprog := program_live hL
  rcases h with ⟨a, b, cc, d⟩ | ⟨m, hm, ⟨c1, c2, c3, c4, c5⟩⟩
  · -- before the monitor exists
    have htr : s.triggered = 0 := by
      have := hC.c3; rw [a, hprog] at this; simp [trigCount] at this; omega
    have hs0 : s.sent = 0 := by have := hC.c1; have := hC.c2; omega
    have pre : LInv P s := Or.inl ⟨a, b, cc, d⟩
    cases c with
    | starter =>
      simp only [step, stepStarter]
      rw [a, hprog]
      simp only [d, Option.isNone_none, if_true, b, cc]
      refine Or.inr ⟨{}, rfl, ?_⟩
      exact ⟨fun _ => rfl, fun h => by simp at h, fun _ => by simp [hs0], by simp [MPc.subscribed],
        fun t ks hp => by simp [d] at hp⟩
    | mon k => simp only [step, stepMon, b]; simp; exact pre
    | deliver => simp only [step, stepDeliver, d]; exact pre
    | helper w => have e := stepHelper_frame P s w; exact lInv_congr pre e.1 e.2.2.2.2.2.1 e.2.2.2.2.2.2.1 e.2.2.2.2.2.2.2.1 e.2.2.2.1
    | recv w => have e := stepRecv_frame s w; exact lInv_congr pre e.1 e.2.2.2.2.2.1 e.2.2.2.2.2.2.1 e.2.2.2.2.2.2.2.1 e.2.2.2.1
    | expire w => have e := stepExpire_frame s w; exact lInv_congr pre e.1 e.2.2.2.2.2.1 e.2.2.2.2.2.2.1 e.2.2.2.2.2.2.2.1 e.2.2.2.1
    | call => exact lInv_congr pre rfl rfl rfl rfl rfl
    | fire => simp only [step]; split <;> exact lInv_congr pre rfl rfl rfl rfl rfl
    | birth => simp only [step]; split <;> exact lInv_congr pre rfl rfl rfl rfl rfl
    | spawnStray => simp only [step]; split <;> exact lInv_congr pre rfl rfl rfl rfl rfl
    | death => simp only [step]; split <;> exact lInv_congr pre rfl rfl rfl rfl rfl
    | startTrace =>
      simp only [step]; split
      · exact Or.inl ⟨a, b, cc, by simp [mkPending, cc]⟩
      · exact pre
    | other =>
      simp only [step]; split
      · exact Or.inl ⟨a, b, cc, by simp [mkPending, cc]⟩
      · exact pre
    | strayTrace =>
      simp only [step]; split
      · exact Or.inl ⟨a, b, cc, by simp [mkPending, cc]⟩
      · exact pre
  · -- the monitor exists
    have cur : LInv P s := Or.inr ⟨m, hm, ⟨c1, c2, c3, c4, c5⟩⟩
    cases c with
    | helper w => have e := stepHelper_frame P s w; exact lInv_congr cur e.1 e.2.2.2.2.2.1 e.2.2.2.2.2.2.1 e.2.2.2.2.2.2.2.1 e.2.2.2.1
    | recv w => have e := stepRecv_frame s w; exact lInv_congr cur e.1 e.2.2.2.2.2.1 e.2.2.2.2.2.2.1 e.2.2.2.2.2.2.2.1 e.2.2.2.1
    | expire w => have e := stepExpire_frame s w; exact lInv_congr cur e.1 e.2.2.2.2.2.1 e.2.2.2.2.2.2.1 e.2.2.2.2.2.2.2.1 e.2.2.2.1
    | call => exact lInv_congr cur rfl rfl rfl rfl rfl
    | fire => simp only [step]; split <;> exact lInv_congr cur rfl rfl rfl rfl rfl
    | birth => simp only [step]; split <;> exact lInv_congr cur rfl rfl rfl rfl rfl
    | spawnStray => simp only [step]; split <;> exact lInv_congr cur rfl rfl rfl rfl rfl
    | death => simp only [step]; split <;> exact lInv_congr cur rfl rfl rfl rfl rfl
    | starter =>
      simp only [step, stepStarter]
      split
      · exact cur
      · next r hpr =>
        have hnw : m.pc ≠ .wantLock := by intro h; have := c1 h; simp [hpr] at this
        obtain ⟨j, hj⟩ := c2 hnw
        have hr := (replicate_trigger_cons (hj.symm.trans hpr)).2
        exact Or.inr ⟨m, hm, ⟨fun h => absurd h hnw, fun _ => ⟨j - 1, hr⟩, fun h => by simpa [pendFor] using c3 h, c4, c5⟩⟩
      · next r hpr =>
        exfalso
        by_cases hw : m.pc = .wantLock
        · have := c1 hw; simp [hpr] at this
        · obtain ⟨j, hj⟩ := c2 hw
          have := (replicate_trigger_cons (hj.symm.trans hpr)).1; simp at this
      · next r hpr =>
        have hw : m.pc = .wantLock := by
          by_cases hw : m.pc = .wantLock
          · exact hw
          · obtain ⟨j, hj⟩ := c2 hw
            have := (replicate_trigger_cons (hj.symm.trans hpr)).1; simp at this
        have hr : r = List.replicate P.n .trigger := by have := c1 hw; simpa [hpr] using this
        split
        · refine Or.inr ⟨{ m with pc := .counting }, by simp [hm, upd], ?_⟩
          exact ⟨fun h => by simp at h, fun _ => ⟨P.n, hr⟩, fun _ => by simpa [pendFor] using c3 (Or.inl hw),
            by simpa [MPc.subscribed, hw] using c4, fun t ks hp => ⟨(c5 t ks hp).1, rfl⟩⟩
        · exact cur
    | mon k =>
      cases k with
      | succ k => simp only [step, stepMon, hm]; simp; exact cur
      | zero =>
        simp only [step, stepMon, hm, List.getElem?_cons_zero]
        split
        · exact cur
        · next hpc =>
          have hnw : m.pc ≠ .wantLock := by simp [hpc]
          split
          · refine Or.inr ⟨{ m with pc := .unsub }, by simp [upd], ?_⟩
            exact ⟨fun h => by simp at h, fun _ => c2 hnw, fun h => by simp at h,
              by simpa [MPc.subscribed, hpc] using c4, fun t ks hp => ⟨(c5 t ks hp).1, rfl⟩⟩
          · split
            · exact cur
            · next t r hb =>
              refine Or.inr ⟨{ m with buf := r, count := m.count + isStart t }, by simp [upd], ?_⟩
              refine ⟨fun h => by simp [hpc] at h, fun _ => c2 hnw, fun _ => ?_, c4, c5⟩
              have := c3 (Or.inr hpc)
              rw [hb, starts_cons] at this
              simp only [pendFor] at this ⊢
              omega
        · next hpc =>
          have hnw : m.pc ≠ .wantLock := by simp [hpc]
          split
          · next hpn =>
            refine Or.inr ⟨{ m with buf := [], pc := .wgwait }, by simp [upd], ?_⟩
            have hsub : s.subs = [0] := by simpa [MPc.subscribed, hpc] using c4
            simp at hpn
            exact ⟨fun h => by simp at h, fun _ => c2 hnw, fun h => by simp at h,
              by simp [hsub, swapRemove, MPc.subscribed], fun t ks hp => by simp [hpn] at hp⟩
          · split
            · exact cur
            · next t r hb =>
              refine Or.inr ⟨{ m with buf := r }, by simp [upd], ?_⟩
              exact ⟨fun h => by simp [hpc] at h, fun _ => c2 hnw, fun h => by simp [hpc] at h, c4, c5⟩
        · next hpc =>
          have hnw : m.pc ≠ .wantLock := by simp [hpc]
          split
          · refine Or.inr ⟨{ m with pc := .ceasing }, by simp [upd], ?_⟩
            exact ⟨fun h => by simp at h, fun _ => c2 hnw, fun h => by simp at h,
              by simpa [MPc.subscribed, hpc] using c4, fun t ks hp => by have := (c5 t ks hp).2; simp [hpc, MPc.subscribed] at this⟩
          · exact cur
        · next hpc =>
          have hnw : m.pc ≠ .wantLock := by simp [hpc]
          have hsub : s.subs = [] := by simpa [MPc.subscribed, hpc] using c4
          split
          · refine Or.inr ⟨{ m with pc := .unlocking }, by simp [upd], ?_⟩
            exact ⟨fun h => by simp at h, fun _ => c2 hnw, fun h => by simp at h,
              by simp [MPc.subscribed, hsub], fun t ks hp => by simp [mkPending, hsub] at hp⟩
          · exact cur
        · next hpc =>
          have hnw : m.pc ≠ .wantLock := by simp [hpc]
          refine Or.inr ⟨{ m with pc := .done }, by simp [upd], ?_⟩
          exact ⟨fun h => by simp at h, fun _ => c2 hnw, fun h => by simp at h,
            by simpa [MPc.subscribed, hpc] using c4, fun t ks hp => by have := (c5 t ks hp).2; simp [hpc, MPc.subscribed] at this⟩
        · exact cur
    | deliver =>
      simp only [step, stepDeliver]
      split
      · exact cur
      · next t hpe => have := (c5 t [] hpe).1; simp at this
      · next t k ks hpe =>
        obtain ⟨hks, hsubd⟩ := c5 t (k :: ks) hpe
        simp at hks
        obtain ⟨rfl, rfl⟩ := hks
        simp only [hm, List.getElem?_cons_zero]
        split
        · refine Or.inr ⟨{ m with buf := m.buf ++ [t] }, by simp [upd], ?_⟩
          refine ⟨c1, c2, fun h => ?_, c4, fun t' ks' hp => by simp at hp⟩
          have := c3 h
          simp only [pendFor, hpe] at this
          simp only [pendFor]
          cases t <;> simp_all [starts_append, isStart] <;> omega
        · exact cur
    | startTrace =>
      simp only [step]; split
      · next hc =>
        simp at hc
        refine Or.inr ⟨m, hm, ⟨c1, c2, fun h => ?_, c4, fun t ks hp => ?_⟩⟩
        · have := c3 h
          have hsub : s.subs = [0] := by
            rcases h with h | h <;> simpa [MPc.subscribed, h] using c4
          simp only [pendFor, hc.2] at this
          simp only [pendFor, mkPending, hsub]
          simp; omega
        · cases hs : m.pc.subscribed with
          | true => rw [c4, hs] at hp; simp [mkPending] at hp; exact ⟨hp.2.symm, rfl⟩
          | false => rw [c4, hs] at hp; simp [mkPending] at hp
      · exact cur
    | other =>
      simp only [step]; split
      · next hc =>
        simp at hc
        refine Or.inr ⟨m, hm, ⟨c1, c2, fun h => ?_, c4, fun t ks hp => ?_⟩⟩
        · have := c3 h
          simp only [pendFor, hc.2] at this
          simp only [pendFor, mkPending]
          split <;> simp_all
        · cases hs : m.pc.subscribed with
          | true => rw [c4, hs] at hp; simp [mkPending] at hp; exact ⟨hp.2.symm, rfl⟩
          | false => rw [c4, hs] at hp; simp [mkPending] at hp
      · exact cur
    | strayTrace =>
      simp only [step]; split
      · next hc =>
        simp at hc
        refine Or.inr ⟨m, hm, ⟨c1, c2, fun h => ?_, c4, fun t ks hp => ?_⟩⟩
        · have := c3 h
          simp only [pendFor, hc.2] at this
          simp only [pendFor, mkPending]
          split <;> simp_all
        · cases hs : m.pc.subscribed with
          | true => rw [c4, hs] at hp; simp [mkPending] at hp; exact ⟨hp.2.symm, rfl⟩
          | false => rw [c4, hs] at hp; simp [mkPending] at hp
      · exact cur

/-! ## The progress measure -/

def pendMu (s : St) : Nat :=
  match s.pending with
  | some (_, ks) => 2 * ks.length
  | none => 0

def monMu (m : Mon) : Nat :=
  match m.pc with
  | .wantLock => 6 + m.buf.length
  | .counting => 5 + m.buf.length
  | .unsub => 4 + m.buf.length
  | .wgwait => 3
  | .ceasing => 2
  | .unlocking => 1
  | .done => 0

def helperMu : HPc → Nat
  | .wantLock => 2
  | .holding => 1
  | .done => 0

def waitMu (x : Wait) : Nat := helperMu x.helper + (if x.caller = .waiting then 1 else 0)

/-- an upper bound on the number of moves the engine's goroutines still have to make -/
def mu (s : St) : Nat := pendMu s + (s.mons.map monMu).sum + (s.waits.map waitMu).sum + 4 * s.strays

theorem sum_map_upd {α : Type} (l : List α) (i : Nat) (f : α → α) (g : α → Nat) (y : α) (hy : l[i]? = some y) :
    ((upd l i f).map g).sum + g y = (l.map g).sum + g (f y) := by
  induction l generalizing i with
  | nil => simp at hy
  | cons a as ih =>
    cases i with
    | zero => simp at hy; subst hy; simp [upd]; omega
    | succ i => simp at hy; have := ih i hy; simp [upd]; omega

structure LiveCtx (P : Params) (s : St) : Prop where
  hyp : LiveHyp P
  inv : Inv P s
  linv : LInv P s
  wl : WLive s
  q : quiet P s

theorem liveCtx_step {P : Params} {s : St} (h : LiveCtx P s) (c : Choice) : LiveCtx P (step P s c) :=
  ⟨h.hyp, inv_step h.inv c, lInv_step h.hyp h.inv.cnt h.linv c, wLive_step h.inv.lock h.wl c, quiet_step h.inv.cnt h.q c⟩

theorem liveCtx_run {P : Params} {s : St} (h : LiveCtx P s) (sched : List Choice) : LiveCtx P (run P s sched) := by
  induction sched generalizing s with
  | nil => exact h
  | cons c cs ih => exact ih (liveCtx_step h c)

theorem liveCtx_of_reachable {P : Params} (hL : LiveHyp P) {s : St} (hr : Reachable P s) (hq : quiet P s) :
    LiveCtx P s := by
  obtain ⟨sched, rfl⟩ := hr
  have : ∀ (sched : List Choice) (s0 : St), Inv P s0 → LInv P s0 → WLive s0 →
      Inv P (run P s0 sched) ∧ LInv P (run P s0 sched) ∧ WLive (run P s0 sched) := by
    intro sched
    induction sched with
    | nil => intro s0 a b c; exact ⟨a, b, c⟩
    | cons c cs ih =>
      intro s0 a b d
      exact ih _ (inv_step a c) (lInv_step hL a.cnt b c) (wLive_step a.lock d c)
  obtain ⟨a, b, c⟩ := this sched (init P) (inv_init P hL.n) (lInv_init P) (wLive_init P)
  exact ⟨hL, a, b, c, hq⟩

/-- in a quiet state `StartAll` has returned and the one monitor runs -/
theorem liveCtx_shape {P : Params} {s : St} (h : LiveCtx P s) :
    s.prog = [] ∧ ∃ m, s.mons = [m] ∧ m.pc ≠ .wantLock ∧ LCore P s m := by
  obtain ⟨hL, I, hl, _, hq⟩ := h
  have htc : trigCount s.prog = 0 := by
    have := I.cnt.c3; have := I.cnt.c2; have := hq.1; omega
  have hn := hL.n
  rcases hl with ⟨a, _, _, _⟩ | ⟨m, hm, hc⟩
  · rw [a, program_live hL] at htc; simp [trigCount] at htc; omega
  · have hnw : m.pc ≠ .wantLock := by
      intro hw; rw [hc.progW hw] at htc; simp [trigCount] at htc; omega
    obtain ⟨j, hj⟩ := hc.progR hnw
    rw [hj] at htc; simp [trigCount] at htc
    exact ⟨by rw [hj, htc]; rfl, m, hm, hnw, hc⟩

/-! ## Every move of an engine goroutine counts the measure down -/

theorem live_decrease {P : Params} {s : St} (h : LiveCtx P s) (c : Choice) (hc : c.internal = true) :
    step P s c = s ∨ mu (step P s c) < mu s := by
  obtain ⟨hp, m, hm, hnw, ⟨_, _, c3, c4, c5⟩⟩ := liveCtx_shape h
  have hq := h.q
  cases c with
  | fire => simp [Choice.internal] at hc
  | startTrace => simp [Choice.internal] at hc
  | other => simp [Choice.internal] at hc
  | strayTrace =>
    simp only [step]
    split
    · next hst =>
      right
      simp at hst
      cases hs : m.pc.subscribed <;> simp [mu, pendMu, hst.2, mkPending, c4, hs] <;> omega
    · exact Or.inl rfl
  | birth => simp [Choice.internal] at hc
  | spawnStray => simp [Choice.internal] at hc
  | death => simp [Choice.internal] at hc
  | call => simp [Choice.internal] at hc
  | expire w => simp [Choice.internal] at hc
  | starter => left; simp [step, stepStarter, hp]
  | mon k =>
    cases k with
    | succ k => left; simp [step, stepMon, hm]
    | zero =>
      simp only [step, stepMon, hm, List.getElem?_cons_zero]
      split
      · exact Or.inl rfl
      · next hpc =>
        split
        · right; simp [mu, pendMu, upd, monMu, hm, hpc]
        · split
          · exact Or.inl rfl
          · next t r hb => right; simp [mu, pendMu, upd, monMu, hm, hpc, hb]
      · next hpc =>
        split
        · next hpn =>
          simp at hpn
          right; simp [mu, pendMu, upd, monMu, hm, hpc, hpn]; omega
        · split
          · exact Or.inl rfl
          · next t r hb => right; simp [mu, pendMu, upd, monMu, hm, hpc, hb]
      · next hpc =>
        split
        · right; simp [mu, pendMu, upd, monMu, hm, hpc]
        · exact Or.inl rfl
      · next hpc =>
        split
        · next hpn =>
          have hsub : s.subs = [] := by simpa [MPc.subscribed, hpc] using c4
          simp at hpn
          right; simp [mu, pendMu, upd, monMu, hm, hpc, hpn, mkPending, hsub]
        · exact Or.inl rfl
      · next hpc => right; simp [mu, pendMu, upd, monMu, hm, hpc]
      · exact Or.inl rfl
  | deliver =>
    simp only [step, stepDeliver]
    split
    · exact Or.inl rfl
    · next t hpe => have := (c5 t [] hpe).1; simp at this
    · next t k ks hpe =>
      obtain ⟨hks, hsubd⟩ := c5 t (k :: ks) hpe
      simp at hks
      obtain ⟨rfl, rfl⟩ := hks
      simp only [hm, List.getElem?_cons_zero]
      split
      · right
        cases hpc : m.pc <;> simp [hpc, MPc.subscribed] at hsubd hnw <;>
          simp [mu, pendMu, upd, monMu, hm, hpc, hpe, hm] <;> omega
      · exact Or.inl rfl
  | helper w =>
    simp only [step, stepHelper]
    split
    · exact Or.inl rfl
    · next x hx =>
      split
      · next hpc =>
        split
        · right
          have := sum_map_upd s.waits w (fun x => { x with helper := HPc.holding }) waitMu x hx
          simp only [waitMu, hpc, helperMu] at this
          simp only [mu, pendMu]
          omega
        · exact Or.inl rfl
      · next hpc =>
        have hcap := h.hyp.cap
        simp only [hcap, if_true]
        right
        have := sum_map_upd s.waits w (fun x => { x with helper := HPc.done, sig := true }) waitMu x hx
        simp only [waitMu, hpc, helperMu] at this
        simp only [mu, pendMu]
        omega
      · exact Or.inl rfl
  | recv w =>
    simp only [step, stepRecv]
    split
    · exact Or.inl rfl
    · next x hx =>
      split
      · next hcw =>
        right
        have := sum_map_upd s.waits w (fun x => { x with caller := CPc.gotTrue, sig := false }) waitMu x hx
        simp only [waitMu, hcw.1] at this
        simp at this
        simp only [mu, pendMu]
        omega
      · exact Or.inl rfl

/-- in a quiet state the token stream is over: its choices change nothing -/
theorem quiet_env_noop {P : Params} {s : St} (I : Inv P s) (hq : quiet P s) :
    step P s .fire = s ∧ step P s .startTrace = s ∧ step P s .other = s ∧ step P s .birth = s ∧ step P s .death = s ∧
    step P s .spawnStray = s := by
  obtain ⟨q1, q2, q3⟩ := hq
  have := I.cnt.c2; have := I.cnt.c3
  refine ⟨?_, ?_, ?_, ?_, ?_, ?_⟩ <;> simp only [step] <;> split <;> first | rfl | omega

theorem live_call {P : Params} (s : St) : mu (step P s .call) = mu s + 3 := by
  simp [step, mu, pendMu, waitMu, helperMu]; omega

theorem live_expire {P : Params} (s : St) (w : Nat) : mu (step P s (.expire w)) ≤ mu s := by
  simp only [step, stepExpire]
  split
  · exact Nat.le_refl _
  · next x hx =>
    split
    · next hcw =>
      have := sum_map_upd s.waits w (fun x => { x with caller := CPc.expired }) waitMu x hx
      simp only [waitMu, hcw] at this
      simp at this
      simp only [mu, pendMu]
      omega
    · exact Nat.le_refl _

/-! ## Someone can always move until the protocol is finished -/

theorem le_sum_of_mem {α : Type} {l : List α} {g : α → Nat} {x : α} (h : x ∈ l) : g x ≤ (l.map g).sum := by
  induction l with
  | nil => simp at h
  | cons a as ih =>
    simp at h
    rcases h with rfl | h
    · simp
    · have := ih h; simp; omega

theorem live_enabled {P : Params} {s : St} (h : LiveCtx P s) (hnf : ¬ Finished s) :
    ∃ c, c.internal = true ∧ step P s c ≠ s := by
  obtain ⟨hp, m, hm, hnw, ⟨_, _, c3, c4, c5⟩⟩ := liveCtx_shape h
  obtain ⟨q1, q2, q3⟩ := h.q
  have hbuf := h.hyp.buf
  have hm0 : s.mons[0]? = some m := by simp [hm]
  -- the tracer can hand the pending trace to the monitor whenever its buffer is empty
  have deliverMoves : ∀ t ks, s.pending = some (t, ks) → m.buf = [] → step P s .deliver ≠ s := by
    intro t ks hpe hb e
    obtain ⟨rfl, _⟩ := c5 t ks hpe
    have := congrArg St.pending e
    have hlt : (0 : Nat) < P.subBuf := hbuf
    simp [step, stepDeliver, hpe, hm, hb, hlt] at this
  cases hpc : m.pc with
  | wantLock => exact absurd hpc hnw
  | counting =>
    by_cases hcn : m.count = P.n
    · refine ⟨.mon 0, rfl, fun e => ?_⟩
      have := congrArg St.mons e
      simp [step, stepMon, hm, hpc, hcn, upd] at this
      have := congrArg Mon.pc this; simp [hpc] at this
    · cases hb : m.buf with
      | cons t r =>
        refine ⟨.mon 0, rfl, fun e => ?_⟩
        have := congrArg St.mons e
        simp [step, stepMon, hm, hpc, hcn, hb, upd] at this
        have := congrArg (fun x => x.buf.length) this; simp [hb] at this
      | nil =>
        have h1 := c3 (Or.inr hpc)
        have h2 := h.inv.mon.cnt 0 m hm0
        have hpf : 1 ≤ pendFor s 0 := by simp [hb, starts] at h1 h2; omega
        cases hpe : s.pending with
        | none => simp [pendFor, hpe] at hpf
        | some p => exact ⟨.deliver, rfl, deliverMoves p.1 p.2 (by simp [hpe]) hb⟩
  | unsub =>
    cases hpe : s.pending with
    | none =>
      refine ⟨.mon 0, rfl, fun e => ?_⟩
      have := congrArg St.mons e
      simp [step, stepMon, hm, hpc, hpe, upd] at this
      have := congrArg Mon.pc this; simp [hpc] at this
    | some p =>
      cases hb : m.buf with
      | cons t r =>
        refine ⟨.mon 0, rfl, fun e => ?_⟩
        have := congrArg St.mons e
        simp [step, stepMon, hm, hpc, hpe, hb, upd] at this
        have := congrArg (fun x => x.buf.length) this; simp [hb] at this
      | nil => exact ⟨.deliver, rfl, deliverMoves p.1 p.2 (by simp [hpe]) hb⟩
  | wgwait =>
    refine ⟨.mon 0, rfl, fun e => ?_⟩
    have := congrArg St.mons e
    simp [step, stepMon, hm, hpc, q3, upd] at this
    have := congrArg Mon.pc this; simp [hpc] at this
  | ceasing =>
    have hpe : s.pending = none := by
      cases hpe : s.pending with
      | none => rfl
      | some p => have := (c5 p.1 p.2 (by simp [hpe])).2; simp [hpc, MPc.subscribed] at this
    refine ⟨.mon 0, rfl, fun e => ?_⟩
    have := congrArg St.mons e
    simp [step, stepMon, hm, hpc, hpe, upd] at this
    have := congrArg Mon.pc this; simp [hpc] at this
  | unlocking =>
    refine ⟨.mon 0, rfl, fun e => ?_⟩
    have := congrArg St.mons e
    simp [step, stepMon, hm, hpc, upd] at this
    have := congrArg Mon.pc this; simp [hpc] at this
  | done =>
    have hcease : Trace.cease ∈ s.log := by
      have : 0 < ceases s := by rw [h.inv.log.cnt, hm]; simp [hpc, MPc.pastCease]
      exact List.count_pos_iff.mp this
    cases hl : s.lock with
    | some o =>
      cases o with
      | mon k =>
        obtain ⟨m', hm', hh⟩ := h.wl.lockM k hl
        cases k with
        | zero => rw [hm0] at hm'; cases hm'; simp [hpc, MPc.holds] at hh
        | succ k => simp [hm] at hm'
      | helper w =>
        obtain ⟨x, hx, hh⟩ := h.wl.lockH w hl
        refine ⟨.helper w, rfl, fun e => ?_⟩
        have := congrArg St.lock e
        simp [step, stepHelper, hx, hh, h.hyp.cap, hl] at this
    | none =>
      have : ∃ x ∈ s.waits, ¬ (x.helper = .done ∧ x.caller ≠ .waiting) := by
        apply Classical.byContradiction; intro hne
        apply hnf; refine ⟨hcease, hl, fun x hx => ?_⟩
        apply Classical.byContradiction; intro hb; exact hne ⟨x, hx, hb⟩
      obtain ⟨x, hx, hbad⟩ := this
      obtain ⟨w, hw⟩ := List.getElem?_of_mem hx
      cases hh : x.helper with
      | wantLock =>
        refine ⟨.helper w, rfl, fun e => ?_⟩
        have := congrArg St.lock e
        simp [step, stepHelper, hw, hh, hl] at this
      | holding => have := h.inv.lock.helper w x hw hh; simp [hl] at this
      | done =>
        have hcw : x.caller = .waiting := by
          by_cases hcw : x.caller = .waiting
          · exact hcw
          · exact absurd ⟨hh, hcw⟩ hbad
        have hsig := h.wl.sig x hx hh hcw
        refine ⟨.recv w, rfl, fun e => ?_⟩
        have := congrArg St.waits e
        simp [step, stepRecv, hw, hcw, hsig] at this
        have := congrArg (fun l => (l[w]?).map (·.caller)) this
        simp [getElem?_upd_self, hw, hcw] at this

theorem live_progress {P : Params} {s : St} (h : LiveCtx P s) (hnf : ¬ Finished s) :
    ∃ c, c.internal = true ∧ mu (step P s c) < mu s := by
  obtain ⟨c, hc, hne⟩ := live_enabled h hnf
  rcases live_decrease h c hc with e | e
  · exact absurd e hne
  · exact ⟨c, hc, e⟩

theorem finished_of_mu_zero {P : Params} {s : St} (h : LiveCtx P s) (hz : mu s = 0) : Finished s := by
  obtain ⟨hp, m, hm, hnw, ⟨_, _, c3, c4, c5⟩⟩ := liveCtx_shape h
  have hm0 : s.mons[0]? = some m := by simp [hm]
  simp only [mu, hm, List.map_cons, List.map_nil, List.sum_cons, List.sum_nil] at hz
  have hmm : monMu m = 0 := by omega
  have hws : (s.waits.map waitMu).sum = 0 := by omega
  have hpc : m.pc = .done := by
    cases hpc : m.pc <;> first | rfl | (simp [monMu, hpc] at hmm)
  have hcease : Trace.cease ∈ s.log := by
    have : 0 < ceases s := by rw [h.inv.log.cnt, hm]; simp [hpc, MPc.pastCease]
    exact List.count_pos_iff.mp this
  have hall : ∀ x ∈ s.waits, x.helper = .done ∧ x.caller ≠ .waiting := by
    intro x hx
    have := le_sum_of_mem (g := waitMu) hx
    rw [hws] at this
    simp only [waitMu] at this
    constructor
    · cases hh : x.helper <;> simp [hh, helperMu] at this ⊢
    · intro hcw; simp [hcw] at this
  refine ⟨hcease, ?_, hall⟩
  cases hl : s.lock with
  | none => rfl
  | some o =>
    cases o with
    | mon k =>
      obtain ⟨m', hm', hh⟩ := h.wl.lockM k hl
      cases k with
      | zero => rw [hm0] at hm'; cases hm'; simp [hpc, MPc.holds] at hh
      | succ k => simp [hm] at hm'
    | helper w =>
      obtain ⟨x, hx, hh⟩ := h.wl.lockH w hl
      have := (hall x (List.mem_of_getElem? hx)).1
      simp [hh] at this

/-! ## Bounded progress over schedules -/

/-- number of choices of the engine's goroutines in a schedule that actually moved -/
def effective (P : Params) : St → List Choice → Nat
  | _, [] => 0
  | s, c :: cs => (if c.internal = true ∧ step P s c ≠ s then 1 else 0) + effective P (step P s c) cs

/-- number of new `WaitUntilComplete` calls in a schedule -/
def calls (sched : List Choice) : Nat := sched.count .call

theorem live_bound_internal {P : Params} {s : St} (h : LiveCtx P s) (c : Choice) (hc : c.internal = true) :
    mu (step P s c) + (if c.internal = true ∧ step P s c ≠ s then 1 else 0) ≤ mu s := by
  rcases live_decrease h c hc with e | e
  · simp [e]
  · split <;> omega

theorem live_bound {P : Params} {s : St} (h : LiveCtx P s) (sched : List Choice) :
    mu (run P s sched) + effective P s sched ≤ mu s + 3 * calls sched := by
  induction sched generalizing s with
  | nil => simp [run, effective, calls]
  | cons c cs ih =>
    have ih' := ih (liveCtx_step h c)
    have hrun : run P s (c :: cs) = run P (step P s c) cs := rfl
    rw [hrun]
    simp only [effective, calls, List.count_cons] at ih' ⊢
    have noop := quiet_env_noop h.inv h.q
    by_cases hc : c.internal = true
    · have a := live_bound_internal h c hc
      have b : (if (c == Choice.call) = true then 1 else 0) = 0 := by cases c <;> simp [Choice.internal] at hc ⊢
      omega
    · have hz : (if c.internal = true ∧ step P s c ≠ s then 1 else 0) = 0 := by simp [hc]
      rw [hz]
      cases c with
      | starter | mon _ | deliver | helper _ | recv _ => simp [Choice.internal] at hc
      | call => have := live_call (P := P) s; simp at ih' ⊢; omega
      | expire w => have := live_expire (P := P) s w; simp at ih' ⊢; omega
      | fire => simp only [noop.1] at ih' ⊢; simp at ih' ⊢; omega
      | startTrace => simp only [noop.2.1] at ih' ⊢; simp at ih' ⊢; omega
      | other => simp only [noop.2.2.1] at ih' ⊢; simp at ih' ⊢; omega
      | strayTrace => simp [Choice.internal] at hc
      | birth => simp only [noop.2.2.2.1] at ih' ⊢; simp at ih' ⊢; omega
      | spawnStray => simp only [noop.2.2.2.2.2] at ih' ⊢; simp at ih' ⊢; omega
      | death => simp only [noop.2.2.2.2.1] at ih' ⊢; simp at ih' ⊢; omega

/-! ## Completion and the return of `StartAll` are reachable (consequences of bounded progress) -/

theorem live_can_finish_aux {P : Params} : ∀ (n : Nat) {s : St}, LiveCtx P s → mu s ≤ n →
    ∃ sched, Finished (run P s sched) := by
  intro n
  induction n with
  | zero => intro s h hm; exact ⟨[], finished_of_mu_zero (s := s) h (by omega)⟩
  | succ n ih =>
    intro s h hm
    by_cases hf : Finished s
    · exact ⟨[], hf⟩
    · obtain ⟨c, _, hlt⟩ := live_progress h hf
      obtain ⟨sched, hs⟩ := ih (liveCtx_step h c) (by omega)
      exact ⟨c :: sched, hs⟩

theorem live_can_finish {P : Params} {s : St} (h : LiveCtx P s) : ∃ sched, Finished (run P s sched) :=
  live_can_finish_aux (mu s) h (Nat.le_refl _)

structure StartCtx (P : Params) (s : St) : Prop where
  hyp : LiveHyp P
  inv : Inv P s
  linv : LInv P s
  wl : WLive s

theorem startCtx_step {P : Params} {s : St} (h : StartCtx P s) (c : Choice) : StartCtx P (step P s c) :=
  ⟨h.hyp, inv_step h.inv c, lInv_step h.hyp h.inv.cnt h.linv c, wLive_step h.inv.lock h.wl c⟩

theorem startCtx_run {P : Params} {s : St} (h : StartCtx P s) (sched : List Choice) : StartCtx P (run P s sched) := by
  induction sched generalizing s with
  | nil => exact h
  | cons c cs ih => exact ih (startCtx_step h c)

theorem startCtx_of_reachable {P : Params} (hL : LiveHyp P) {s : St} (hr : Reachable P s) : StartCtx P s := by
  obtain ⟨sched, rfl⟩ := hr
  exact startCtx_run ⟨hL, inv_init P hL.n, lInv_init P, wLive_init P⟩ sched

/-- the goroutine running `StartAll` can always be brought one instruction further -/
theorem starter_advance {P : Params} {s : St} (h : StartCtx P s) {x : SI} {r : List SI} (hp : s.prog = x :: r) :
    ∃ pre, (run P s pre).prog = r := by
  rcases h.linv with ⟨a, _, _, d⟩ | ⟨m, hm, hc⟩
  · -- `subscribe` with an idle tracer
    refine ⟨[.starter], ?_⟩
    have hprog := program_live h.hyp
    rw [a, hprog] at hp
    simp at hp
    obtain ⟨rfl, rfl⟩ := hp
    simp [run, step, stepStarter, a, hprog, d]
  · by_cases hw : m.pc = .wantLock
    · have hpl := hc.progW hw
      rw [hpl] at hp; simp at hp
      obtain ⟨rfl, rfl⟩ := hp
      cases hl : s.lock with
      | none => exact ⟨[.starter], by simp [run, step, stepStarter, hpl, hl]⟩
      | some o =>
        cases o with
        | mon k =>
          obtain ⟨m', hm', hh⟩ := h.wl.lockM k hl
          cases k with
          | zero => simp [hm] at hm'; subst hm'; simp [hw, MPc.holds] at hh
          | succ k => simp [hm] at hm'
        | helper w =>
          obtain ⟨y, hy, hh⟩ := h.wl.lockH w hl
          refine ⟨[.helper w, .starter], ?_⟩
          have hcap := h.hyp.cap
          simp [run, step, stepHelper, hy, hh, hcap, stepStarter, hpl]
    · obtain ⟨j, hj⟩ := hc.progR hw
      have := replicate_trigger_cons (hj.symm.trans hp)
      obtain ⟨rfl, _⟩ := this
      exact ⟨[.starter], by simp [run, step, stepStarter, hp]⟩

theorem live_can_return_aux {P : Params} : ∀ (n : Nat) {s : St}, StartCtx P s → s.prog.length ≤ n →
    ∃ sched, (run P s sched).returned = true := by
  intro n
  induction n with
  | zero =>
    intro s _ hl
    exact ⟨[], by simp [run, St.returned, List.length_eq_zero_iff.mp (Nat.le_zero.mp hl)]⟩
  | succ n ih =>
    intro s h hl
    cases hp : s.prog with
    | nil => exact ⟨[], by simp [run, St.returned, hp]⟩
    | cons x r =>
      obtain ⟨pre, hpre⟩ := starter_advance h hp
      obtain ⟨sched, hs⟩ := ih (startCtx_run h pre) (by rw [hpre]; rw [hp] at hl; simp at hl; omega)
      exact ⟨pre ++ sched, by rw [run_append]; exact hs⟩

theorem live_can_return {P : Params} {s : St} (h : StartCtx P s) : ∃ sched, (run P s sched).returned = true :=
  live_can_return_aux s.prog.length h (Nat.le_refl _)

end Bpmn.Model.Completion
