import Bpmn.Model.Boundary
/-!
Invariants of the boundary-event model (`Bpmn.Model.Boundary`), for every configuration, every number of boundary
events and every schedule. `Reach cfg kinds s`: `s` is reachable from the initial state by some run.
-/
namespace Bpmn.Model.Boundary

inductive Reach (cfg : Cfg) (kinds : List Bool) : St → Prop
  | init : Reach cfg kinds (init kinds)
  | step {s s' : St} {l : Label} : Reach cfg kinds s → step cfg s l = some s' → Reach cfg kinds s'

theorem run_cons (cfg : Cfg) (s : St) (l : Label) (tr : List Label) :
    run cfg s (l :: tr) = (step cfg s l).bind (fun s' => run cfg s' tr) := rfl

theorem run_append (cfg : Cfg) (s : St) (t1 t2 : List Label) :
    run cfg s (t1 ++ t2) = (run cfg s t1).bind (fun s' => run cfg s' t2) := by
  induction t1 generalizing s with
  | nil => simp [run]
  | cons l t ih =>
    simp only [List.cons_append, run_cons]
    cases h : step cfg s l with
    | none => simp
    | some s' => simp [ih]

theorem reach_run {cfg : Cfg} {kinds : List Bool} {s s' : St} (h : Reach cfg kinds s) (tr : List Label)
    (hr : run cfg s tr = some s') : Reach cfg kinds s' := by
  induction tr generalizing s with
  | nil => simp [run] at hr; subst hr; exact h
  | cons l t ih =>
    rw [run_cons] at hr
    cases hs : step cfg s l with
    | none => simp [hs] at hr
    | some s1 =>
      simp [hs] at hr
      exact ih (Reach.step h hs) hr

theorem reach_of_run {cfg : Cfg} {kinds : List Bool} {tr : List Label} {s : St}
    (h : run cfg (init kinds) tr = some s) : Reach cfg kinds s := reach_run Reach.init tr h

/-! ### per-listener invariant -/

/-- the exception flow has continued exactly when the listener's flow has left the boundary event; every forwarded
event is still in the inbox, was dropped, or is the one that fired -/
def LInv (l : Listener) : Prop :=
  l.conts = (if l.phase = .moved then 1 else 0) ∧
  l.got = l.inbox + l.dropped + (if 3 ≤ l.phase.rank then 1 else 0)

theorem linv_start (l : Listener) (h : LInv l) : LInv (startListener l) := by
  unfold startListener
  split
  · next hp => simp_all [LInv, LPhase.rank]
  · exact h

theorem linv_step (cfg : Cfg) (s s' : St) (lb : Label) (h : step cfg s lb = some s')
    (hi : ∀ l ∈ s.ls, LInv l) : ∀ l ∈ s'.ls, LInv l := by
  cases lb <;> simp only [step] at h <;> (repeat' split at h) <;> (try cases h) <;> (try exact hi)
  · intro l hl
    simp only [List.mem_map] at hl
    obtain ⟨a, ha, rfl⟩ := hl
    exact linv_start a (hi a ha)
  all_goals
    intro l hl
    rcases List.mem_or_eq_of_mem_set hl with hm | rfl
    · exact hi l hm
    · have hl0 := hi _ (List.mem_of_getElem? (by assumption))
      simp_all [LInv, LPhase.rank]
      try omega

theorem reach_linv {cfg : Cfg} {kinds : List Bool} {s : St} (h : Reach cfg kinds s) : ∀ l ∈ s.ls, LInv l := by
  induction h with
  | init =>
    intro l hl
    simp only [init, List.mem_map] at hl
    obtain ⟨b, _, rfl⟩ := hl
    simp [LInv, LPhase.rank]
  | step _ hs ih => exact linv_step _ _ _ _ hs ih

/-! ### the request's progress -/

structure GInv0 (s : St) : Prop where
  normal : s.normal = (if s.req = .done then 1 else 0)
  hreqs : s.hreqs = (if 4 ≤ s.req.rank then 1 else 0)
  counted : s.counted = true → 4 ≤ s.req.rank

theorem ginv0_step (cfg : Cfg) (s s' : St) (lb : Label) (h : step cfg s lb = some s') (hi : GInv0 s) : GInv0 s' := by
  obtain ⟨h1, h2, h6⟩ := hi
  cases lb <;> simp only [step] at h <;> (repeat' split at h) <;> (try cases h) <;>
    (constructor <;> simp_all [Req.rank] <;> try omega)

/-- how far the harness's two activation statements have come, against the request's progress -/
structure StageInv (cfg : Cfg) (s : St) : Prop where
  stage : 7 ≤ s.req.rank → s.hStage = 2
  stage2 : s.hStage ≤ 2
  stage3 : 2 ≤ s.req.rank → (if cfg.early = true then s.hStage = 2 else 1 ≤ s.hStage)
  stage4 : s.hStage = 2 → 2 ≤ s.req.rank
  stage5 : cfg.early = false → 1 ≤ s.hStage → 2 ≤ s.req.rank

theorem stage_step (cfg : Cfg) (s s' : St) (lb : Label) (h : step cfg s lb = some s') (hi : StageInv cfg s) :
    StageInv cfg s' := by
  obtain ⟨h1, h2, h3, h4, h5⟩ := hi
  cases lb <;> simp only [step] at h <;> (repeat' split at h) <;> (try cases h) <;>
    (first
      | exact ⟨h1, h2, h3, h4, h5⟩
      | (constructor <;> simp_all [Req.rank] <;> try omega))

/-- with `active := 0` before the hand-over, the token never holds the answer while the harness is still active -/
structure ActiveInv (cfg : Cfg) (s : St) : Prop where
  handed : cfg.resetFirst = true → 7 ≤ s.req.rank → s.cleared = true
  clear : s.cleared = true → 6 ≤ s.req.rank ∧ s.hActive = false ∧ s.hStage = 2

theorem active_step (cfg : Cfg) (s s' : St) (lb : Label) (h : step cfg s lb = some s') (hs : StageInv cfg s)
    (hi : ActiveInv cfg s) : ActiveInv cfg s' := by
  obtain ⟨h3, h4⟩ := hi
  obtain ⟨g1, g2, g3, g4, g5⟩ := hs
  cases lb <;> simp only [step] at h <;> (repeat' split at h) <;> (try cases h) <;>
    (first
      | exact ⟨h3, h4⟩
      | (constructor <;> simp_all [Req.rank] <;> try omega))

structure GInv (cfg : Cfg) (s : St) : Prop where
  normal : s.normal = (if s.req = .done then 1 else 0)
  hreqs : s.hreqs = (if 4 ≤ s.req.rank then 1 else 0)
  clear : s.cleared = true → 6 ≤ s.req.rank ∧ s.hActive = false ∧ s.hStage = 2
  handed : cfg.resetFirst = true → 7 ≤ s.req.rank → s.cleared = true
  stage : 7 ≤ s.req.rank → s.hStage = 2
  stage2 : s.hStage ≤ 2
  stage3 : 2 ≤ s.req.rank → (if cfg.early = true then s.hStage = 2 else 1 ≤ s.hStage)
  stage4 : s.hStage = 2 → 2 ≤ s.req.rank
  stage5 : cfg.early = false → 1 ≤ s.hStage → 2 ≤ s.req.rank
  counted : s.counted = true → 4 ≤ s.req.rank

theorem reach_ginv {cfg : Cfg} {kinds : List Bool} {s : St} (h : Reach cfg kinds s) : GInv cfg s := by
  have h0 : GInv0 s ∧ StageInv cfg s ∧ ActiveInv cfg s := by
    induction h with
    | init =>
      refine ⟨?_, ?_, ?_⟩ <;> constructor <;> simp [init, Req.rank]
    | step _ hs ih =>
      exact ⟨ginv0_step _ _ _ _ hs ih.1, stage_step _ _ _ _ hs ih.2.1, active_step _ _ _ _ hs ih.2.1 ih.2.2⟩
  obtain ⟨⟨a1, a2, a4⟩, ⟨b1, b2, b3, b4, b5⟩, ⟨c1, c2⟩⟩ := h0
  exact ⟨a1, a2, c2, c1, b1, b2, b3, b4, b5, a4⟩

/-- before the token reaches the host nothing has started -/
def IdleInv (s : St) : Prop := s.req = .none → ∀ l ∈ s.ls, l.phase = .idle

theorem idle_step (cfg : Cfg) (s s' : St) (lb : Label) (h : step cfg s lb = some s') (hi : IdleInv s) : IdleInv s' := by
  unfold IdleInv at *
  cases lb <;> simp only [step] at h <;> (repeat' split at h) <;> (try cases h) <;> (try exact hi) <;>
    (try (intro hr; simp_all; done))
  all_goals
    intro hr l hl
    rcases List.mem_or_eq_of_mem_set hl with hm | rfl
    · exact hi hr l hm
    · have hl0 := hi hr _ (List.mem_of_getElem? (by assumption))
      simp_all

theorem reach_idle {cfg : Cfg} {kinds : List Bool} {s : St} (h : Reach cfg kinds s) : IdleInv s := by
  induction h with
  | init =>
    intro _ l hl
    simp only [init, List.mem_map] at hl
    obtain ⟨b, _, rfl⟩ := hl
    rfl
  | step _ hs ih => exact idle_step _ _ _ _ hs ih

/-- a listener that waits for the verdict has its cancel message in the activity's inbox -/
def CancelInv (s : St) : Prop := ∀ j l, s.ls[j]? = some l → l.phase = .cancelling → TMsg.cancel j ∈ s.tq

theorem cancel_step (cfg : Cfg) (s s' : St) (lb : Label) (h : step cfg s lb = some s') (hi : CancelInv s) : CancelInv s' := by
  unfold CancelInv at *
  cases lb <;> simp only [step] at h <;> (repeat' split at h) <;> (try cases h) <;> (try exact hi)
  all_goals
    intro j l hj hp
    simp only [List.getElem?_set, List.getElem?_map] at hj
  · -- activate
    cases hl : s.ls[j]? with
    | none => simp [hl] at hj
    | some a =>
      simp only [hl, Option.map_some, Option.some.injEq] at hj
      subst hj
      have : a.phase = .cancelling := by
        unfold startListener at hp
        split at hp
        · simp at hp
        · exact hp
      exact hi j a hl this
  all_goals
    first
    | (split at hj
       · split at hj
         · cases hj
           subst_vars
           first
           | (simp at hp; done)
           | (have := hi _ _ (by assumption) (by simpa using hp); simp_all; done)
           | (simp_all; done)
         · cases hj
       · have := hi j l hj hp
         simp_all
         done)
    | (have := hi j l hj hp
       simp_all
       done)
    | skip
  · -- taskTake, cancel i, listener i was waiting
    rename_i i rest htq _ li hli _ hpi
    split at hj
    · split at hj
      · cases hj; simp at hp
      · cases hj
    · next hne =>
      have := hi j l hj hp
      rw [htq] at this
      simp only [List.mem_cons, TMsg.cancel.injEq] at this
      rcases this with h | h
      · exact absurd h.symm hne
      · exact h
  · rename_i i rest htq _ li hli _ hpi
    have hne : i ≠ j := by
      intro e; subst e
      rw [hli] at hj; cases hj
      exact hpi hp
    have := hi j l hj hp
    rw [htq] at this
    simp only [List.mem_cons, TMsg.cancel.injEq] at this
    rcases this with h | h
    · exact absurd h.symm hne
    · exact h
  · rename_i i rest htq _ hli
    have hne : i ≠ j := by
      intro e; subst e
      rw [hli] at hj; cases hj
    have := hi j l hj hp
    rw [htq] at this
    simp only [List.mem_cons, TMsg.cancel.injEq] at this
    rcases this with h | h
    · exact absurd h.symm hne
    · exact h

def nc (tq : List TMsg) : Nat := tq.countP TMsg.isCancel

/-- with the `cancellation` once: at most one cancel message ever, and while it is in the activity's inbox the
activity's run loop is alive (or about to be started) -/
structure OnceInv (s : St) : Prop where
  le : nc s.tq ≤ 1
  unused : s.cancelUsed = false → nc s.tq = 0
  alive : 1 ≤ nc s.tq → s.tRun = true ∨ s.req = .atHarness
  dead : s.tRun = false → s.req.rank ≤ 1 ∨ (s.cancelUsed = true ∧ nc s.tq = 0)

theorem once_taskTake_cancel (s : St) (i : Nat) (rest : List TMsg) (htq : s.tq = .cancel i :: rest) (hi : OnceInv s)
    (ls' : List Listener) (v : List Bool) (tr : Bool) :
    OnceInv { s with tq := rest, ls := ls', verdicts := v, tRun := tr } := by
  obtain ⟨h1, h2, h3, h4⟩ := hi
  have hnc : nc s.tq = 1 + nc rest := by rw [htq]; simp [nc, TMsg.isCancel, List.countP_cons]; omega
  have hcu : s.cancelUsed = true := by
    cases hu : s.cancelUsed with
    | true => rfl
    | false => have := h2 hu; omega
  have hr0 : nc rest = 0 := by omega
  refine ⟨?_, ?_, ?_, ?_⟩
  · show nc rest ≤ 1; omega
  · intro _; exact hr0
  · intro h; exfalso; have : 1 ≤ nc rest := h; omega
  · intro _; exact Or.inr ⟨hcu, hr0⟩

theorem once_step (cfg : Cfg) (hc : cfg.once = true) (s s' : St) (lb : Label) (h : step cfg s lb = some s')
    (hidle : IdleInv s) (hi : OnceInv s) : OnceInv s' := by
  obtain ⟨h1, h2, h3, h4⟩ := hi
  cases lb <;> simp only [step] at h <;> (repeat' split at h) <;> (try cases h) <;>
    (try (constructor <;> simp_all [nc, TMsg.isCancel, Req.rank] <;> (try omega); done))
  case h_1.isTrue.refl =>
    rename_i i _ l hl _ hp hg
    have hcu : s.cancelUsed = false := by
      cases hu : s.cancelUsed <;> simp_all
    have hn0 : nc s.tq = 0 := h2 hcu
    have hreq : 1 ≤ s.req.rank := by
      cases hr : s.req <;> simp [Req.rank]
      have := hidle hr l (List.mem_of_getElem? hl)
      rw [hp] at this; cases this
    have hal : s.tRun = true ∨ s.req = .atHarness := by
      cases ht : s.tRun with
      | true => exact Or.inl rfl
      | false =>
        rcases h4 ht with h | h
        · right; cases hr : s.req <;> simp [hr, Req.rank] at h hreq ⊢
        · rw [hcu] at h; cases h.1
    constructor
    · simp only [nc, List.countP_append] at hn0 ⊢; simp [TMsg.isCancel, hn0]
    · intro h; cases h
    · intro _; exact hal
    · intro ht
      rcases hal with h | h
      · rw [ht] at h; cases h
      · left; simp [h, Req.rank]
  all_goals exact once_taskTake_cancel s _ _ (by assumption) ⟨h1, h2, h3, h4⟩ _ _ _

theorem quiet_listener (cfg : Cfg) (s : St) (hq : quiet cfg s = true) (i : Nat) (l : Listener) (hl : s.ls[i]? = some l) :
    l.inbox = 0 ∧ l.phase ≠ .starting ∧ l.phase ≠ .fired ∧ l.phase ≠ .ready := by
  unfold quiet at hq
  simp only [Bool.and_eq_true, List.all_eq_true] at hq
  have := hq.2 l (List.mem_of_getElem? hl)
  unfold Listener.quiet at this
  simp only [Bool.and_eq_true, beq_iff_eq] at this
  refine ⟨this.1, ?_, ?_, ?_⟩ <;> (intro hp; rw [hp] at this; simp at this)

theorem quiet_no_internal (cfg : Cfg) (s : St) (hq : quiet cfg s = true) (l : Label) (hint : l.internal = true) :
    step cfg s l = none := by
  have hq' := hq
  unfold quiet at hq'
  simp only [Bool.and_eq_true, Bool.not_eq_true', Bool.and_eq_false_iff, Bool.not_eq_false',
    Bool.or_eq_false_iff] at hq'
  obtain ⟨⟨⟨⟨⟨⟨⟨h1, h2⟩, h3⟩, h4⟩, h5⟩, h6⟩, h7⟩, _⟩ := hq'
  cases l <;> simp [Label.internal] at hint <;> simp only [step]
  case harnessActive =>
    cases hr : s.req <;> cases he : cfg.early <;> rcases hst : s.hStage with _ | _ | _ | n <;> simp_all
  case harnessCall =>
    cases hr : s.req <;> cases he : cfg.early <;> rcases hst : s.hStage with _ | _ | _ | n <;> simp_all
  case reqStart => cases hr : s.req <;> simp_all
  case respond => cases hr : s.req <;> simp_all
  case forward =>
    cases hr : s.req <;> rcases hst : s.hStage with _ | _ | _ | n <;> cases hrf : cfg.resetFirst <;>
      cases hcl : s.cleared <;> simp_all
  case hostTake => cases hr : s.req <;> simp_all
  case decrement => cases hr : s.req <;> cases hc : s.counted <;> simp_all
  case clear =>
    cases hr : s.req <;> rcases hst : s.hStage with _ | _ | _ | n <;> cases hrf : cfg.resetFirst <;>
      cases hcl : s.cleared <;> simp_all
  case taskTake => cases ht : s.tRun <;> cases htq : s.tq <;> simp_all
  all_goals
    rename_i i
    cases hl : s.ls[i]? with
    | none => rfl
    | some l =>
      obtain ⟨q1, q2, q3, q4⟩ := quiet_listener cfg s hq i l hl
      cases hp : l.phase <;> simp_all

theorem internal_none_quiet (cfg : Cfg) (s : St) (h : ∀ l : Label, l.internal = true → step cfg s l = none) :
    quiet cfg s = true := by
  have a1 := h .harnessActive rfl
  have a0 := h .harnessCall rfl
  have a2 := h .taskTake rfl
  have a3 := h .reqStart rfl
  have a4 := h .respond rfl
  have a5 := h .decrement rfl
  have a6 := h .forward rfl
  have a7 := h .clear rfl
  have a8 := h .hostTake rfl
  simp only [step] at a0 a1 a2 a3 a4 a5 a6 a7 a8
  unfold quiet
  simp only [Bool.and_eq_true, List.all_eq_true]
  refine ⟨⟨⟨⟨⟨⟨⟨?_, ?_⟩, ?_⟩, ?_⟩, ?_⟩, ?_⟩, ?_⟩, ?_⟩
  · cases hr : s.req <;> simp_all
  · cases hr : s.req <;> cases he : cfg.early <;> rcases hst : s.hStage with _ | _ | _ | n <;> simp_all
  · cases he : cfg.early <;> rcases hst : s.hStage with _ | _ | _ | n <;> simp_all
  · clear a0 a1 a2 a3 a4 a5 a8
    cases hr : s.req <;> simp only [hr, Bool.false_and, Bool.not_false, Bool.true_and]
    rcases hst : s.hStage with _ | _ | _ | n <;> simp
    exfalso
    cases hrf : cfg.resetFirst <;> cases hcl : s.cleared <;> simp [hr, hst, hrf, hcl] at a6 a7
  · clear a0 a1 a2 a3 a4 a5 a6 a8
    cases hcl : s.cleared <;> cases hrf : cfg.resetFirst <;> simp
    cases hr : s.req <;> simp [hr, hcl, hrf] at a7 ⊢
  · cases ht : s.tRun <;> cases htq : s.tq <;> simp_all
    rename_i hd tl
    cases hd <;> simp_all
  · cases hr : s.req <;> cases hc : s.counted <;> simp_all
  · intro l hl
    obtain ⟨i, hi⟩ := List.mem_iff_getElem?.mp hl
    have b1 := h (.arm i) rfl
    have b2 := h (.catchTake i) rfl
    have b3 := h (.transform i) rfl
    have b4 := h (.move i) rfl
    simp only [step, hi] at b1 b2 b3 b4
    unfold Listener.quiet
    cases hp : l.phase <;> cases hb : l.inbox <;> simp_all
    all_goals (split at b3 <;> simp at b3)

theorem start_mono (a : Listener) : a.phase.rank ≤ (startListener a).phase.rank ∧ (startListener a).interrupting = a.interrupting := by
  unfold startListener
  split
  · next hp => simp [hp, LPhase.rank]
  · exact ⟨Nat.le_refl _, rfl⟩

theorem step_listener_mono (cfg : Cfg) (s s' : St) (lb : Label) (h : step cfg s lb = some s') (i : Nat) (a : Listener)
    (ha : s.ls[i]? = some a) :
    ∃ b, s'.ls[i]? = some b ∧ a.phase.rank ≤ b.phase.rank ∧ b.interrupting = a.interrupting := by
  have hlen : i < s.ls.length := by
    rcases Nat.lt_or_ge i s.ls.length with h | h
    · exact h
    · rw [List.getElem?_eq_none h] at ha; cases ha
  cases lb <;> simp only [step] at h <;> (repeat' split at h) <;> (try cases h) <;>
    (try (exact ⟨a, ha, Nat.le_refl _, rfl⟩))
  · exact ⟨startListener a, by simp [List.getElem?_map, ha], (start_mono a).1, (start_mono a).2⟩
  all_goals
    simp only [List.getElem?_set]
    split
    · next hij =>
      subst hij
      simp only [hlen, if_true]
      refine ⟨_, rfl, ?_, ?_⟩ <;> simp_all [LPhase.rank]
    · exact ⟨a, ha, Nat.le_refl _, rfl⟩


theorem reach_cancel {cfg : Cfg} {kinds : List Bool} {s : St} (h : Reach cfg kinds s) : CancelInv s := by
  induction h with
  | init =>
    intro j l hj hp
    simp only [init, List.getElem?_map] at hj
    cases hb : kinds[j]? with
    | none => simp [hb] at hj
    | some b => simp [hb] at hj; subst hj; cases hp
  | step _ hs ih => exact cancel_step _ _ _ _ hs ih

theorem reach_once {cfg : Cfg} (hc : cfg.once = true) {kinds : List Bool} {s : St} (h : Reach cfg kinds s) : OnceInv s := by
  induction h with
  | init => constructor <;> simp [init, nc, Req.rank]
  | step hr hs ih => exact once_step cfg hc _ _ _ hs (reach_idle hr) ih

/-- `quiet` says exactly that no internal label is enabled -/
theorem quiet_iff (cfg : Cfg) (s : St) : quiet cfg s = true ↔ ∀ l : Label, l.internal = true → step cfg s l = none :=
  ⟨fun hq l hl => quiet_no_internal cfg s hq l hl, internal_none_quiet cfg s⟩

theorem run_listener_mono (cfg : Cfg) (tr : List Label) (s s' : St) (h : run cfg s tr = some s') (i : Nat) (a : Listener)
    (ha : s.ls[i]? = some a) :
    ∃ b, s'.ls[i]? = some b ∧ a.phase.rank ≤ b.phase.rank ∧ b.interrupting = a.interrupting := by
  induction tr generalizing s a with
  | nil => simp [run] at h; subst h; exact ⟨a, ha, Nat.le_refl _, rfl⟩
  | cons l t ih =>
    rw [run_cons] at h
    cases hs : step cfg s l with
    | none => simp [hs] at h
    | some s1 =>
      simp [hs] at h
      obtain ⟨b, hb, hr, hi⟩ := step_listener_mono cfg s s1 l hs i a ha
      obtain ⟨c, hc, hr2, hi2⟩ := ih s1 h b hb
      exact ⟨c, hc, Nat.le_trans hr hr2, hi2.trans hi⟩

/-- the activity's run loop exits only by accepting a cancel; its first message sits in its inbox until handled -/
structure RunInv (s : St) : Prop where
  exited : s.tRun = false → s.req.rank ≤ 1 ∨ true ∈ s.verdicts
  queued : s.req = .atTask → TMsg.next ∈ s.tq

theorem runinv_step (cfg : Cfg) (s s' : St) (lb : Label) (h : step cfg s lb = some s') (hi : RunInv s) : RunInv s' := by
  obtain ⟨h1, h2⟩ := hi
  cases lb <;> simp only [step] at h <;> (repeat' split at h) <;> (try cases h) <;>
    (constructor <;> simp_all [Req.rank] <;> (try omega) <;>
      (try (intro hh; cases hr : cfg.refuse <;> cases hcn : s.counted <;> simp_all)))

theorem reach_runinv {cfg : Cfg} {kinds : List Bool} {s : St} (h : Reach cfg kinds s) : RunInv s := by
  induction h with
  | init => constructor <;> simp [init, Req.rank]
  | step _ hs ih => exact runinv_step _ _ _ _ hs ih

/-- once the run loop has exited with the first message unhandled, nothing ever changes that -/
theorem stranded_step (cfg : Cfg) (s s' : St) (lb : Label) (h : step cfg s lb = some s') (h1 : s.req = .atTask)
    (h2 : s.tRun = false) : s'.req = .atTask ∧ s'.tRun = false ∧ s'.hreqs = s.hreqs ∧ s'.normal = s.normal := by
  cases lb <;> simp only [step] at h <;> (repeat' split at h) <;> (try cases h) <;> simp_all

theorem stranded_forever (cfg : Cfg) (tr : List Label) (s s' : St) (h : run cfg s tr = some s') (h1 : s.req = .atTask)
    (h2 : s.tRun = false) : s'.req = .atTask ∧ s'.hreqs = s.hreqs ∧ s'.normal = s.normal := by
  induction tr generalizing s with
  | nil => simp [run] at h; subst h; exact ⟨h1, rfl, rfl⟩
  | cons l t ih =>
    rw [run_cons] at h
    cases hs : step cfg s l with
    | none => simp [hs] at h
    | some s1 =>
      simp [hs] at h
      obtain ⟨a, b, c, d⟩ := stranded_step cfg s s1 l hs h1 h2
      obtain ⟨e, f, g⟩ := ih s1 h a b
      exact ⟨e, f.trans c, g.trans d⟩

/-- consequences of quiescence used by the property proofs -/
theorem quiet_req (cfg : Cfg) (s : St) (hq : quiet cfg s = true) :
    s.req ≠ .spawned ∧ s.req ≠ .answered ∧ s.req ≠ .forwarded := by
  have a := quiet_no_internal cfg s hq .reqStart rfl
  have b := quiet_no_internal cfg s hq .respond rfl
  have c := quiet_no_internal cfg s hq .hostTake rfl
  simp only [step] at a b c
  refine ⟨?_, ?_, ?_⟩ <;> (intro h; simp [h] at a b c)

theorem quiet_tq (cfg : Cfg) (s : St) (hq : quiet cfg s = true) : s.tRun = false ∨ s.tq = [] := by
  have a := quiet_no_internal cfg s hq .taskTake rfl
  simp only [step] at a
  cases ht : s.tRun with
  | false => exact Or.inl rfl
  | true =>
    right
    cases htq : s.tq with
    | nil => rfl
    | cons hd tl => cases hd <;> simp [ht, htq] at a

theorem quiet_clear (cfg : Cfg) (s : St) (hq : quiet cfg s = true) (hd : s.req = .done) :
    s.cleared = true ∨ cfg.resetFirst = true := by
  have a := quiet_no_internal cfg s hq .clear rfl
  simp only [step, hd] at a
  cases hc : s.cleared <;> cases hr : cfg.resetFirst <;> simp_all

/-- with `active := 1` stored AFTER `activity.NextAction` and events gated by `active`: nothing reaches a boundary
event before the activity has its first message, so that message is the first in the activity's inbox -/
structure LateInv (s : St) : Prop where
  inactive : s.hStage ≤ 1 → s.hActive = false
  calm : s.hStage ≤ 1 → ∀ l ∈ s.ls, l.inbox = 0 ∧ l.phase.rank ≤ 2
  empty : s.hStage = 0 → s.tq = [] ∧ s.req.rank ≤ 1
  started : s.req.rank ≤ 1 → s.hStage = 0
  first : s.req = .atTask → s.tRun = true ∧ ∃ rest, s.tq = .next :: rest

theorem late_step (cfg : Cfg) (he : cfg.early = false) (hg : cfg.gated = true) (s s' : St) (lb : Label)
    (h : step cfg s lb = some s') (hi : LateInv s) : LateInv s' := by
  obtain ⟨h1, h2, h3, h4, h5⟩ := hi
  cases lb <;> simp only [step] at h <;> (repeat' split at h) <;> (try cases h) <;>
    (try (constructor <;> simp_all [Req.rank] <;> (try omega); done))
  · -- activate
    constructor <;> simp_all [Req.rank]
    intro l hl
    have := h2 l hl
    unfold startListener
    split <;> simp_all [LPhase.rank]
  all_goals
    have hmem := List.mem_of_getElem? (by assumption : s.ls[_]? = some _)
    constructor
    · exact h1
    · intro hs l hl
      have hc := h2 hs _ hmem
      rcases List.mem_or_eq_of_mem_set hl with hm | rfl
      · exact h2 hs l hm
      · simp_all [LPhase.rank]
    · intro hs
      have hc := h2 (by simp only at hs; omega) _ hmem
      have := h3 hs
      simp_all [LPhase.rank]
    · exact h4
    · intro hr
      obtain ⟨ht, rest, hq⟩ := h5 hr
      first
      | exact ⟨ht, rest, hq⟩
      | exact ⟨ht, rest ++ [_], by simp [hq]⟩
      | (simp_all; done)

theorem reach_late {cfg : Cfg} (he : cfg.early = false) (hg : cfg.gated = true) {kinds : List Bool} {s : St}
    (h : Reach cfg kinds s) : LateInv s := by
  induction h with
  | init =>
    constructor <;> simp [init, Req.rank]
    intro a h
    rcases h with ⟨_, rfl⟩ | ⟨_, rfl⟩ <;> simp [LPhase.rank]
  | step _ hs ih => exact late_step cfg he hg _ _ _ hs ih

end Bpmn.Model.Boundary
