import Bpmn.Model.Cancel
/-! List bookkeeping and the step invariants of the cancellation protocol model (C07). -/
namespace Bpmn.Model.Cancel

theorem sum_map_eraseIdx {α} (f : α → Nat) :
    ∀ (l : List α) (i : Nat) (a : α), l[i]? = some a → ((l.eraseIdx i).map f).sum + f a = (l.map f).sum
  | [], i, a, h => by simp at h
  | x :: xs, 0, a, h => by
    simp at h; subst h; simp [List.eraseIdx]; omega
  | x :: xs, i + 1, a, h => by
    simp at h
    have := sum_map_eraseIdx f xs i a h
    simp [List.eraseIdx]; omega

theorem sum_map_set {α} (f : α → Nat) :
    ∀ (l : List α) (i : Nat) (a b : α), l[i]? = some a → ((l.set i b).map f).sum + f a = (l.map f).sum + f b
  | [], i, a, b, h => by simp at h
  | x :: xs, 0, a, b, h => by
    simp at h; subst h; simp [List.set]; omega
  | x :: xs, i + 1, a, b, h => by
    simp at h
    have := sum_map_set f xs i a b h
    simp only [List.set, List.map_cons, List.sum_cons]; omega

theorem countP_eraseIdx {α} (p : α → Bool) :
    ∀ (l : List α) (i : Nat) (a : α), l[i]? = some a →
      (l.eraseIdx i).countP p + (if p a then 1 else 0) = l.countP p
  | [], i, a, h => by simp at h
  | x :: xs, 0, a, h => by
    simp at h; subst h
    by_cases hp : p x = true <;> simp [List.eraseIdx, List.countP_cons, hp]
  | x :: xs, i + 1, a, h => by
    simp at h
    have := countP_eraseIdx p xs i a h
    by_cases hp : p x = true <;> simp [List.eraseIdx, List.countP_cons, hp] <;> omega

theorem countP_set {α} (p : α → Bool) :
    ∀ (l : List α) (i : Nat) (a b : α), l[i]? = some a → p b = p a → (l.set i b).countP p = l.countP p
  | [], i, a, b, h, _ => by simp at h
  | x :: xs, 0, a, b, h, hb => by
    simp at h; subst h; simp [List.set, List.countP_cons, hb]
  | x :: xs, i + 1, a, b, h, hb => by
    simp at h
    have := countP_set p xs i a b h hb
    simp [List.set, List.countP_cons, this]

theorem mem_of_getElem? {α} {l : List α} {i : Nat} {a : α} (h : l[i]? = some a) : a ∈ l := by
  rw [List.getElem?_eq_some_iff] at h
  obtain ⟨hi, rfl⟩ := h
  exact List.getElem_mem hi

/-! ### the invariant of a cancelled instance whose table is fine -/

def Actor.good (a : Actor) : Prop :=
  a.registered = a.callsDone ∧
  ∀ act ∈ a.todo, match act with
    | .block o => o.passable = true
    | .send => a.registered = true

structure Inv (s : St) : Prop where
  cancelled : s.cancelled = true
  good : ∀ a ∈ s.live, a.good
  count : s.pending = s.live.countP (fun a => a.registered)
  done : s.tracerDone = true → s.pending = 0
  closed : s.tracerDone = true → s.subsClosed = true

theorem measure_eq_zero {s : St} : measure s = 0 ↔ s.live = [] := by
  unfold measure
  cases h : s.live with
  | nil => simp
  | cons a l => simp <;> omega

theorem inv_enabled {s : St} (h : Inv s) {a : Actor} (ha : a ∈ s.live) : a.enabled s = true := by
  have hg := h.good a ha
  unfold Actor.enabled
  cases ht : a.todo with
  | nil => rfl
  | cons act rest =>
    have hact := hg.2 act (by simp [ht])
    cases act with
    | block o =>
      simp only at hact ⊢
      simp [Op.passable] at hact
      simp [h.cancelled]
      exact hact
    | send =>
      simp only at hact ⊢
      have hpos : 0 < s.live.countP (fun a => a.registered) :=
        List.countP_pos_iff.mpr ⟨a, ha, hact⟩
      have : s.tracerDone ≠ true := by
        intro hd
        have := h.done hd
        have := h.count
        omega
      simpa using this

theorem no_deadlock {s : St} (h : Inv s) {i : Nat} (hi : i < s.live.length) : (stepActor s i).isSome = true := by
  unfold stepActor
  have hget : s.live[i]? = some s.live[i] := List.getElem?_eq_getElem hi
  rw [hget]
  simp only
  have he := inv_enabled h (List.getElem_mem hi)
  rw [if_pos he]
  cases s.live[i].todo <;> rfl

theorem inv_step {s s' : St} (h : Inv s) {i : Nat} (hs : stepActor s i = some s') :
    Inv s' ∧ measure s' + 1 = measure s := by
  unfold stepActor at hs
  cases hget : s.live[i]? with
  | none => simp [hget] at hs
  | some a =>
    rw [hget] at hs
    simp only at hs
    have ha : a ∈ s.live := mem_of_getElem? hget
    have hg := h.good a ha
    by_cases he : a.enabled s = true
    · rw [if_pos he] at hs
      cases ht : a.todo with
      | nil =>
        rw [ht] at hs
        simp only [Option.some.injEq] at hs
        subst hs
        have hc := countP_eraseIdx (fun a : Actor => a.registered) s.live i a hget
        have hm := sum_map_eraseIdx (fun a : Actor => a.todo.length + 1) s.live i a hget
        refine ⟨⟨h.cancelled, ?_, ?_, ?_, h.closed⟩, ?_⟩
        · intro b hb
          exact h.good b (List.mem_of_mem_eraseIdx hb)
        · have hcnt := h.count
          simp only
          have hrc := hg.1
          by_cases hr : a.registered = true
          · have hcd : a.callsDone = true := by rw [← hrc]; exact hr
            simp [hr, hcd] at hc ⊢
            omega
          · have hr' : a.registered = false := by simpa using hr
            simp [hr'] at hc ⊢
            omega
        · intro hd
          have := h.done hd
          simp only
          split <;> omega
        · simp only [measure] at hm ⊢
          rw [ht] at hm
          simpa using hm
      | cons act rest =>
        rw [ht] at hs
        simp only [Option.some.injEq] at hs
        subst hs
        have hc := countP_set (fun a : Actor => a.registered) s.live i a { a with todo := rest } hget rfl
        have hm := sum_map_set (fun a : Actor => a.todo.length + 1) s.live i a { a with todo := rest } hget
        refine ⟨⟨h.cancelled, ?_, ?_, h.done, h.closed⟩, ?_⟩
        · intro b hb
          rcases List.mem_or_eq_of_mem_set hb with hb | hb
          · exact h.good b hb
          · subst hb
            refine ⟨hg.1, ?_⟩
            intro act' hact'
            exact hg.2 act' (by rw [ht]; exact List.mem_cons_of_mem _ hact')
        · simp only
          rw [hc]; exact h.count
        · dsimp only at hm
          rw [ht] at hm
          simp only [List.length_cons] at hm
          simp only [measure]
          omega
    · rw [if_neg he] at hs
      simp at hs

theorem stepActor_polls {s s' : St} {i : Nat} (hst : stepActor s i = some s') : s'.polls = s.polls := by
  unfold stepActor at hst
  cases hget : s.live[i]? with
  | none => simp [hget] at hst
  | some a0 =>
    rw [hget] at hst
    simp only at hst
    by_cases he : a0.enabled s = true
    · rw [if_pos he] at hst
      cases ht : a0.todo with
      | nil => rw [ht] at hst; simp only [Option.some.injEq] at hst; subst hst; rfl
      | cons x r => rw [ht] at hst; simp only [Option.some.injEq] at hst; subst hst; rfl
    · rw [if_neg he] at hst; simp at hst

theorem inv_poll {s : St} (h : Inv s) : Inv (poll s) ∧ measure (poll s) = measure s := by
  unfold poll
  split
  · exact ⟨h, rfl⟩
  · split
    · next hp =>
      exact ⟨⟨h.cancelled, h.good, h.count, fun _ => hp, fun _ => rfl⟩, rfl⟩
    · exact ⟨⟨h.cancelled, h.good, h.count, h.done, h.closed⟩, rfl⟩

theorem poll_done_of_empty {s : St} (h : Inv s) (he : s.live = []) :
    (poll s).tracerDone = true ∧ (poll s).subsClosed = true ∧ (poll s).live = [] := by
  have hp : s.pending = 0 := by rw [h.count, he]; rfl
  unfold poll
  by_cases hd : s.tracerDone = true
  · simp [h.cancelled, hd, h.closed hd, he]
  · have hd' : s.tracerDone = false := by simpa using hd
    simp [h.cancelled, hd', hp, he]

theorem run_inv {s : St} (h : Inv s) : ∀ (ls : List Label) {s' : St}, run s ls = some s' →
    Inv s' ∧ measure s' + actorSteps ls = measure s := by
  intro ls
  induction ls generalizing s with
  | nil =>
    intro s' hr
    simp [run] at hr
    subst hr
    exact ⟨h, by simp [actorSteps]⟩
  | cons l ls ih =>
    intro s' hr
    cases l with
    | actor i =>
      simp only [run, step] at hr
      cases hst : stepActor s i with
      | none => simp [hst] at hr
      | some s1 =>
        rw [hst] at hr
        have ⟨h1, hm1⟩ := inv_step h hst
        have ⟨h2, hm2⟩ := ih h1 hr
        refine ⟨h2, ?_⟩
        have : actorSteps (Label.actor i :: ls) = actorSteps ls + 1 := by
          simp [actorSteps, List.filter_cons]
        omega
    | poll =>
      simp only [run, step] at hr
      have ⟨h1, hm1⟩ := inv_poll h
      have ⟨h2, hm2⟩ := ih h1 hr
      refine ⟨h2, ?_⟩
      have : actorSteps (Label.poll :: ls) = actorSteps ls := by
        simp [actorSteps, List.filter_cons]
      omega

theorem drain_spec : ∀ (n : Nat) {s : St}, Inv s → measure s ≤ n →
    (drain n s).live = [] ∧ (drain n s).tracerDone = true ∧ (drain n s).subsClosed = true := by
  intro n
  induction n with
  | zero =>
    intro s h hm
    have he : s.live = [] := measure_eq_zero.mp (by omega)
    have := poll_done_of_empty h he
    simp only [drain]
    exact ⟨this.2.2, this.1, this.2.1⟩
  | succ n ih =>
    intro s h hm
    unfold drain
    cases hl : s.live with
    | nil =>
      have := poll_done_of_empty h hl
      simp only
      exact ⟨this.2.2, this.1, this.2.1⟩
    | cons a l =>
      simp only
      have hi : 0 < s.live.length := by rw [hl]; simp
      have hsome := no_deadlock h hi
      cases hst : stepActor s 0 with
      | none => simp [hst] at hsome
      | some s1 =>
        simp only
        have ⟨h1, hm1⟩ := inv_step h hst
        exact ih h1 (by omega)

theorem drainRR_spec : ∀ (n : Nat) {s : St}, Inv s → measure s ≤ n →
    (drainRR n s).live = [] ∧ (drainRR n s).tracerDone = true ∧ (drainRR n s).subsClosed = true ∧
    (drainRR n s).polls ≤ s.polls + measure s := by
  intro n
  induction n with
  | zero =>
    intro s h hm
    have he : s.live = [] := measure_eq_zero.mp (by omega)
    have := poll_done_of_empty h he
    have hp : s.pending = 0 := by rw [h.count, he]; rfl
    simp only [drainRR]
    refine ⟨this.2.2, this.1, this.2.1, ?_⟩
    unfold poll; split
    · omega
    · simp [hp]
  | succ n ih =>
    intro s h hm
    unfold drainRR
    cases hl : s.live with
    | nil =>
      have := poll_done_of_empty h hl
      have hp : s.pending = 0 := by rw [h.count, hl]; rfl
      simp only
      refine ⟨this.2.2, this.1, this.2.1, ?_⟩
      unfold poll; split
      · omega
      · simp [hp]
    | cons a l =>
      simp only
      have hi : 0 < s.live.length := by rw [hl]; simp
      have hsome := no_deadlock h hi
      cases hst : stepActor s 0 with
      | none => simp [hst] at hsome
      | some s1 =>
        simp only
        have ⟨h1, hm1⟩ := inv_step h hst
        have ⟨h2, hm2⟩ := inv_poll h1
        have hr := ih h2 (by omega)
        refine ⟨hr.1, hr.2.1, hr.2.2.1, ?_⟩
        have hpolls : (poll s1).polls ≤ s1.polls + 1 := by
          unfold poll; split
          · omega
          · split <;> simp
        have hs1 : s1.polls = s.polls := stepActor_polls hst
        have := hr.2.2.2
        omega

end Bpmn.Model.Cancel
