import Bpmn.Model.CatchEvent
/-! Helper lemmas for C11 (core Lean only). -/
namespace Bpmn.Model.CatchEvent
open Bpmn.Model.Satisfier

/-! ## the satisfier of a plain (not parallel-multiple, or single-definition) catch event -/

/-- not parallel multiple, or a single definition: every matching event satisfies, nothing is remembered -/
def Plain (n : Node) : Prop := n.sat.par = false ∨ n.sat.len = 1

theorem satisfy_none (s : Sat) : satisfy s none = (s, false, didNotMatch) := rfl

theorem satisfy_plain (s : Sat) (i : Nat) (h : s.par = false ∨ s.len = 1) : satisfy s (some i) = (s, true, 0) := by
  unfold satisfy
  rcases h with h | h <;> simp [h]

theorem matchIdx_nil (e : Ev) : matchIdx [] e = none := rfl

/-! ## one reader step -/

theorem handle_kind (n : Node) (m : Msg) : (handle n m).1.kind = n.kind := by
  unfold handle
  cases hk : n.kind <;> cases m <;> simp <;> (repeat' split) <;> simp [hk]

theorem handle_loopStarted (n : Node) (m : Msg) : (handle n m).1.loopStarted = n.loopStarted := by
  unfold handle
  cases hk : n.kind <;> cases m <;> simp <;> (repeat' split) <;> simp

theorem handle_inbox (n : Node) (m : Msg) : (handle n m).1.inbox = n.inbox := by
  unfold handle
  cases hk : n.kind <;> cases m <;> simp <;> (repeat' split) <;> simp

theorem handle_incoming (n : Node) (m : Msg) : (handle n m).1.incoming = n.incoming := by
  unfold handle
  cases hk : n.kind <;> cases m <;> simp <;> (repeat' split) <;> simp

/-- an event handled while the catch event is not activated changes nothing and shows nothing -/
theorem handle_event_inactive (n : Node) (e : Ev) (hk : n.kind = .catch_) (ha : n.activated = false) :
    handle n (.event e) = (n, []) := by
  simp [handle, hk, ha]

/-- an event matching no definition: only the observation trace; the state is untouched -/
theorem handle_event_nomatch (n : Node) (e : Ev) (hk : n.kind = .catch_) (hm : matchIdx n.defs e = none) :
    (handle n (.event e)).1 = n ∧ releasedOf (handle n (.event e)).2 = [] := by
  unfold handle
  by_cases ha : n.activated = true
  · simp [hk, ha, hm, satisfy_none, releasedOf]
    cases n; simp_all
  · simp [hk, ha, releasedOf]

/-- a matching event at a listening plain catch event: ALL waiting tokens get their flowAction, once -/
theorem handle_event_match (n : Node) (e : Ev) (i : Nat) (hk : n.kind = .catch_) (ha : n.activated = true)
    (hp : Plain n) (hm : matchIdx n.defs e = some i) :
    handle n (.event e) = ({ n with parked := [], activated := false }, [.observed, .released n.parked]) := by
  unfold handle
  simp [hk, ha, hm, satisfy_plain n.sat i hp]

/-- conservation in one step: released ++ still waiting = waiting before ++ newly arrived -/
theorem handle_conserve (n : Node) (m : Msg) (hk : n.kind = .catch_) :
    releasedOf (handle n m).2 ++ (handle n m).1.parked = n.parked ++ arrivalsOf [m] := by
  unfold handle
  cases m with
  | event e =>
    by_cases ha : n.activated = true
    · by_cases hs : (satisfy n.sat (matchIdx n.defs e)).2.1 = true
      · simp [hk, ha, hs, releasedOf, arrivalsOf]
      · simp [hk, ha, hs, releasedOf, arrivalsOf]
    · simp [hk, ha, releasedOf, arrivalsOf]
  | next t =>
    by_cases ha : n.activated = true <;> simp [hk, ha, releasedOf, arrivalsOf]
  | start => simp [hk, releasedOf, arrivalsOf]

theorem releasedOf_append (a b : List Out) : releasedOf (a ++ b) = releasedOf a ++ releasedOf b := by
  induction a with
  | nil => rfl
  | cons o os ih => cases o <;> simp [releasedOf, ih]

theorem arrivalsOf_append (a b : List Msg) : arrivalsOf (a ++ b) = arrivalsOf a ++ arrivalsOf b := by
  induction a with
  | nil => rfl
  | cons m ms ih => cases m <;> simp [arrivalsOf, ih]

theorem arrivalsOf_cons (m : Msg) (ms : List Msg) : arrivalsOf (m :: ms) = arrivalsOf [m] ++ arrivalsOf ms := by
  cases m <;> simp [arrivalsOf]

/-! ## the reader over a sequence of messages -/

theorem runMsgs_kind (n : Node) (ms : List Msg) : (runMsgs n ms).1.kind = n.kind := by
  induction ms generalizing n with
  | nil => rfl
  | cons m ms ih => simp [runMsgs, ih, handle_kind]

theorem runMsgs_loopStarted (n : Node) (ms : List Msg) : (runMsgs n ms).1.loopStarted = n.loopStarted := by
  induction ms generalizing n with
  | nil => rfl
  | cons m ms ih => simp [runMsgs, ih, handle_loopStarted]

theorem runMsgs_inbox (n : Node) (ms : List Msg) : (runMsgs n ms).1.inbox = n.inbox := by
  induction ms generalizing n with
  | nil => rfl
  | cons m ms ih => simp [runMsgs, ih, handle_inbox]

theorem runMsgs_append (n : Node) (a b : List Msg) :
    runMsgs n (a ++ b) = ((runMsgs (runMsgs n a).1 b).1, (runMsgs n a).2 ++ (runMsgs (runMsgs n a).1 b).2) := by
  induction a generalizing n with
  | nil => simp [runMsgs]
  | cons m ms ih => simp [runMsgs, ih, List.append_assoc]

/-- token conservation over ANY message sequence -/
theorem runMsgs_conserve (n : Node) (ms : List Msg) (hk : n.kind = .catch_) :
    releasedOf (runMsgs n ms).2 ++ (runMsgs n ms).1.parked = n.parked ++ arrivalsOf ms := by
  induction ms generalizing n with
  | nil => simp [runMsgs, releasedOf, arrivalsOf]
  | cons m ms ih =>
    have h1 := handle_conserve n m hk
    have h2 := ih (handle n m).1 (by rw [handle_kind, hk])
    simp only [runMsgs, releasedOf_append]
    rw [arrivalsOf_cons, List.append_assoc, h2, ← List.append_assoc, h1, List.append_assoc]

/-- events worked off while the catch event is not activated leave no trace at all -/
theorem runMsgs_events_inactive (n : Node) (ms : List Msg) (hk : n.kind = .catch_) (ha : n.activated = false)
    (hev : ∀ m ∈ ms, ∃ e, m = .event e) : runMsgs n ms = (n, []) := by
  induction ms with
  | nil => rfl
  | cons m ms ih =>
    obtain ⟨e, rfl⟩ := hev m (by simp)
    simp only [runMsgs, handle_event_inactive n e hk ha]
    rw [ih (fun m hm => hev m (by simp [hm]))]
    rfl

/-! ## `ConsumeEvent` on one node and `ForwardEvent` over the consumers -/

theorem consume_blocks_iff (f : InboxFacts) (n : Node) (e : Ev) :
    consume f n e = .blocks ↔
      (n.loopStarted = false ∧ f.sendOnlyWhenRunning = false ∧ f.cap n.incoming ≤ n.inbox.length ∧
        f.sendNonBlocking = false) := by
  unfold consume
  by_cases h1 : n.loopStarted = true
  · simp [h1]
  · by_cases h2 : f.sendOnlyWhenRunning = true
    · simp [h1, h2]
    · by_cases h3 : n.inbox.length < f.cap n.incoming
      · simp [h1, h2, h3]
        intro h; omega
      · by_cases h4 : f.sendNonBlocking = true
        · simp [h1, h2, h3, h4]
        · simp [h1, h2, h3, h4]
          omega

/-- what one consumer that the delivery got to looks like afterwards -/
def Reached (e : Ev) (n n' : Node) (o : List Out) : Prop :=
  (n.loopStarted = true ∧ (n', o) = handle n (.event e)) ∨
  (n.loopStarted = false ∧ o = [] ∧ (n' = n ∨ n' = { n with inbox := n.inbox ++ [.event e] }))

theorem consume_reached (f : InboxFacts) (n : Node) (e : Ev) :
    match consume f n e with
    | .blocks => True
    | .handled n' o => Reached e n n' o
    | .queued n' => Reached e n n' []
    | .dropped => Reached e n n [] := by
  unfold consume Reached
  by_cases h1 : n.loopStarted = true
  · simp [h1]
  · by_cases h2 : f.sendOnlyWhenRunning = true
    · simp [h1, h2]
    · by_cases h3 : n.inbox.length < f.cap n.incoming
      · simp [h1, h2, h3]
      · by_cases h4 : f.sendNonBlocking = true
        · simp [h1, h2, h3, h4]
        · simp [h1, h2, h3, h4]

theorem forward_lengths (f : Facts) (e : Ev) (ns : List Node) :
    (forward f e ns).nodes.length = ns.length ∧ (forward f e ns).outs.length = ns.length := by
  induction ns with
  | nil => simp [forward]
  | cons n ns ih =>
    unfold forward
    cases hc : consume (f.of n.kind) n e <;> simp [ih.1, ih.2]

/-- every consumer in front of the blocking one (all of them, if none blocks) got exactly one copy -/
theorem forward_pointwise (f : Facts) (e : Ev) :
    ∀ (ns : List Node) (i : Nat) (n : Node), ns[i]? = some n →
      (∀ b, (forward f e ns).blocked = some b → i < b) →
      ∃ n' o, (forward f e ns).nodes[i]? = some n' ∧ (forward f e ns).outs[i]? = some o ∧ Reached e n n' o := by
  intro ns
  induction ns with
  | nil => intro i n h; simp at h
  | cons m ms ih =>
    intro i n hi hb
    have hr := consume_reached (f.of m.kind) m e
    unfold forward at hb ⊢
    cases hc : consume (f.of m.kind) m e with
    | blocks =>
      simp [hc] at hb
    | handled m' o =>
      simp only [hc] at hb hr ⊢
      cases i with
      | zero => simp at hi; subst hi; exact ⟨m', o, by simp, by simp, hr⟩
      | succ j =>
        simp at hi
        obtain ⟨n', o', h1, h2, h3⟩ := ih j n hi (by
          intro b hbb
          have := hb (b + 1) (by simp [hbb])
          omega)
        exact ⟨n', o', by simpa using h1, by simpa using h2, h3⟩
    | queued m' =>
      simp only [hc] at hb hr ⊢
      cases i with
      | zero => simp at hi; subst hi; exact ⟨m', [], by simp, by simp, hr⟩
      | succ j =>
        simp at hi
        obtain ⟨n', o', h1, h2, h3⟩ := ih j n hi (by
          intro b hbb
          have := hb (b + 1) (by simp [hbb])
          omega)
        exact ⟨n', o', by simpa using h1, by simpa using h2, h3⟩
    | dropped =>
      simp only [hc] at hb hr ⊢
      cases i with
      | zero => simp at hi; subst hi; exact ⟨m, [], by simp, by simp, hr⟩
      | succ j =>
        simp at hi
        obtain ⟨n', o', h1, h2, h3⟩ := ih j n hi (by
          intro b hbb
          have := hb (b + 1) (by simp [hbb])
          omega)
        exact ⟨n', o', by simpa using h1, by simpa using h2, h3⟩

/-- the blocking consumer and everything registered after it is untouched and shows nothing -/
theorem forward_beyond (f : Facts) (e : Ev) :
    ∀ (ns : List Node) (b i : Nat), (forward f e ns).blocked = some b → b ≤ i →
      (forward f e ns).nodes[i]? = ns[i]? ∧ (forward f e ns).outs[i]? = (ns[i]?).map (fun _ => []) := by
  intro ns
  induction ns with
  | nil => intro b i h; simp [forward] at h
  | cons m ms ih =>
    intro b i hb hbi
    unfold forward at hb ⊢
    cases hc : consume (f.of m.kind) m e with
    | blocks =>
      cases i <;> simp [List.getElem?_map]
    | handled m' o =>
      simp only [hc] at hb ⊢
      cases hb' : (forward f e ms).blocked with
      | none => simp [hb'] at hb
      | some b' =>
        simp [hb'] at hb
        cases i with
        | zero => omega
        | succ j =>
          have := ih b' j hb' (by omega)
          simpa using this
    | queued m' =>
      simp only [hc] at hb ⊢
      cases hb' : (forward f e ms).blocked with
      | none => simp [hb'] at hb
      | some b' =>
        simp [hb'] at hb
        cases i with
        | zero => omega
        | succ j =>
          have := ih b' j hb' (by omega)
          simpa using this
    | dropped =>
      simp only [hc] at hb ⊢
      cases hb' : (forward f e ms).blocked with
      | none => simp [hb'] at hb
      | some b' =>
        simp [hb'] at hb
        cases i with
        | zero => omega
        | succ j =>
          have := ih b' j hb' (by omega)
          simpa using this

/-- the consumer a delivery blocks on: reader not running, buffer full, no escape in `ConsumeEvent` -/
theorem forward_blocked_at (f : Facts) (e : Ev) :
    ∀ (ns : List Node) (b : Nat), (forward f e ns).blocked = some b →
      ∃ n, ns[b]? = some n ∧ consume (f.of n.kind) n e = .blocks := by
  intro ns
  induction ns with
  | nil => intro b h; simp [forward] at h
  | cons m ms ih =>
    intro b hb
    unfold forward at hb
    cases hc : consume (f.of m.kind) m e with
    | blocks => simp [hc] at hb; subst hb; exact ⟨m, by simp, hc⟩
    | handled m' o =>
      simp only [hc] at hb
      cases hb' : (forward f e ms).blocked with
      | none => simp [hb'] at hb
      | some b' =>
        simp [hb'] at hb; subst hb
        obtain ⟨n, h1, h2⟩ := ih b' hb'
        exact ⟨n, by simpa using h1, h2⟩
    | queued m' =>
      simp only [hc] at hb
      cases hb' : (forward f e ms).blocked with
      | none => simp [hb'] at hb
      | some b' =>
        simp [hb'] at hb; subst hb
        obtain ⟨n, h1, h2⟩ := ih b' hb'
        exact ⟨n, by simpa using h1, h2⟩
    | dropped =>
      simp only [hc] at hb
      cases hb' : (forward f e ms).blocked with
      | none => simp [hb'] at hb
      | some b' =>
        simp [hb'] at hb; subst hb
        obtain ⟨n, h1, h2⟩ := ih b' hb'
        exact ⟨n, by simpa using h1, h2⟩

/-- no consumer can block ⇒ the delivery returns after exactly one completed `ConsumeEvent` per consumer -/
theorem forward_returns (f : Facts) (e : Ev) :
    ∀ (ns : List Node), (∀ n ∈ ns, consume (f.of n.kind) n e ≠ .blocks) →
      (forward f e ns).blocked = none ∧ (forward f e ns).sends = ns.length := by
  intro ns
  induction ns with
  | nil => intro _; simp [forward]
  | cons m ms ih =>
    intro h
    have hm := h m (by simp)
    have := ih (fun n hn => h n (by simp [hn]))
    unfold forward
    cases hc : consume (f.of m.kind) m e with
    | blocks => exact absurd hc hm
    | handled m' o => simp [this.1, this.2]
    | queued m' => simp [this.1, this.2]
    | dropped => simp [this.1, this.2]

/-! ## node-local predicates that every operation keeps -/

/-- a predicate on nodes kept by everything that can happen to a node -/
structure Stable (P : Node → Prop) : Prop where
  handle : ∀ n m, P n → P (handle n m).1
  enqueue : ∀ n e, P n → P { n with inbox := n.inbox ++ [Msg.event e] }
  startReader : ∀ n, P n → P { n with loopStarted := true, inbox := [] }

theorem runMsgs_stable {P : Node → Prop} (hP : Stable P) (n : Node) (ms : List Msg) (h : P n) : P (runMsgs n ms).1 := by
  induction ms generalizing n with
  | nil => exact h
  | cons m ms ih => exact ih _ (hP.handle n m h)

theorem consume_handled {f : InboxFacts} {n : Node} {e : Ev} {n' : Node} {o : List Out}
    (h : consume f n e = .handled n' o) : n' = (handle n (.event e)).1 ∧ o = (handle n (.event e)).2 := by
  unfold consume at h
  split at h
  · simp at h; exact ⟨h.1.symm, h.2.symm⟩
  · split at h
    · simp at h
    · split at h
      · simp at h
      · split at h <;> simp at h

theorem consume_queued {f : InboxFacts} {n : Node} {e : Ev} {n' : Node}
    (h : consume f n e = .queued n') : n' = { n with inbox := n.inbox ++ [Msg.event e] } := by
  unfold consume at h
  split at h
  · simp at h
  · split at h
    · simp at h
    · split at h
      · simp at h; exact h.symm
      · split at h <;> simp at h

theorem forward_stable {P : Node → Prop} (hP : Stable P) (f : Facts) (e : Ev) :
    ∀ ns : List Node, (∀ n ∈ ns, P n) → ∀ n ∈ (forward f e ns).nodes, P n := by
  intro ns
  induction ns with
  | nil => intro _ n hn; simp [forward] at hn
  | cons m ms ih =>
    intro h n hn
    have hm := h m (by simp)
    have hms := ih (fun n hn => h n (by simp [hn]))
    unfold forward at hn
    cases hc : consume (f.of m.kind) m e with
    | blocks => simp only [hc] at hn; exact h n hn
    | handled m' o =>
      simp only [hc, List.mem_cons] at hn
      rcases hn with rfl | hn
      · rw [(consume_handled hc).1]; exact hP.handle m _ hm
      · exact hms n hn
    | queued m' =>
      simp only [hc, List.mem_cons] at hn
      rcases hn with rfl | hn
      · rw [consume_queued hc]; exact hP.enqueue m e hm
      · exact hms n hn
    | dropped =>
      simp only [hc, List.mem_cons] at hn
      rcases hn with rfl | hn
      · exact hm
      · exact hms n hn

theorem forwardFrom_stable {P : Node → Prop} (hP : Stable P) (f : Facts) (e : Ev) (k : Nat) (s : Sys)
    (h : ∀ n ∈ s.nodes, P n) : ∀ n ∈ (forwardFrom f e k s).1.nodes, P n := by
  intro n hn
  simp only [forwardFrom, List.mem_append] at hn
  rcases hn with hn | hn
  · exact h n (List.mem_of_mem_take hn)
  · exact forward_stable hP f e _ (fun n hn => h n (List.mem_of_mem_drop hn)) n hn

theorem mem_set_cases {α : Type} {l : List α} {i : Nat} {a x : α} (h : x ∈ l.set i a) : x = a ∨ x ∈ l := by
  induction l generalizing i with
  | nil => simp at h
  | cons y ys ih =>
    cases i with
    | zero => simp at h; rcases h with h | h <;> simp [h]
    | succ j =>
      simp at h
      rcases h with h | h
      · simp [h]
      · rcases ih h with h | h <;> simp [h]

theorem wake_stable {P : Node → Prop} (hP : Stable P) (f : Facts) (i : Nat) :
    ∀ (ws : List Waiting) (s : Sys) (acc : Tagged), (∀ n ∈ s.nodes, P n) →
      ∀ n ∈ (wake f i ws s acc).1.nodes, P n := by
  intro ws
  induction ws with
  | nil => intro s acc h; simpa [wake] using h
  | cons w ws ih =>
    intro s acc h
    unfold wake
    cases hn : s.nodes[i]? with
    | none => simpa using h
    | some m =>
      simp only
      apply ih
      apply forwardFrom_stable hP
      intro n hn'
      rcases mem_set_cases hn' with rfl | hn'
      · exact hP.handle m _ (h m (List.mem_of_getElem? hn))
      · exact h n hn'

theorem arrive_stable {P : Node → Prop} (hP : Stable P) (f : Facts) (i : Nat) (t : TokId) (s : Sys)
    (h : ∀ n ∈ s.nodes, P n) : ∀ n ∈ (arrive f i t s).1.nodes, P n := by
  unfold arrive
  cases hn : s.nodes[i]? with
  | none => simpa using h
  | some m =>
    simp only
    have hm : P m := h m (List.mem_of_getElem? hn)
    have h1 : ∀ n ∈ (s.nodes.set i (runMsgs { m with loopStarted := true, inbox := [] } m.inbox).1), P n := by
      intro n hn'
      rcases mem_set_cases hn' with rfl | hn'
      · exact runMsgs_stable hP _ _ (hP.startReader m hm)
      · exact h n hn'
    have h2 := wake_stable hP f i (s.waiting.filter (fun w => w.pos == i))
      { nodes := s.nodes.set i (runMsgs { m with loopStarted := true, inbox := [] } m.inbox).1,
        waiting := s.waiting.filter (fun w => w.pos != i) }
      ((runMsgs { m with loopStarted := true, inbox := [] } m.inbox).2.map (fun o => (i, o))) h1
    generalize wake f i _ _ _ = r at h2 ⊢
    obtain ⟨s2, o2⟩ := r
    simp only at h2 ⊢
    cases hn2 : s2.nodes[i]? with
    | none => simpa using h2
    | some m2 =>
      simp only
      intro n hn'
      rcases mem_set_cases hn' with rfl | hn'
      · have hm2 : P m2 := h2 m2 (List.mem_of_getElem? hn2)
        split
        · exact hP.handle _ _ (hP.handle _ _ hm2)
        · exact hP.handle _ _ hm2
      · exact h2 n hn'

theorem step_stable {P : Node → Prop} (hP : Stable P) (f : Facts) (s : Sys) (op : Op)
    (h : ∀ n ∈ s.nodes, P n) : ∀ n ∈ (step f s op).1.nodes, P n := by
  cases op with
  | deliver e => exact forwardFrom_stable hP f e 0 s h
  | arrive i t => exact arrive_stable hP f i t s h

theorem runOps_stable {P : Node → Prop} (hP : Stable P) (f : Facts) (ops : List Op) :
    ∀ s : Sys, (∀ n ∈ s.nodes, P n) → ∀ n ∈ (runOps f s ops).1.nodes, P n := by
  induction ops with
  | nil => intro s h; simpa [runOps] using h
  | cons op ops ih => intro s h; exact ih _ (step_stable hP f s op h)

/-! ## blocked callers -/

theorem forwardFrom_waiting (f : Facts) (e : Ev) (k : Nat) (s : Sys) :
    (forwardFrom f e k s).1.waiting =
      s.waiting ++ (match (forward f e (s.nodes.drop k)).blocked with
                    | some j => [{ ev := e, pos := k + j }] | none => []) := rfl

theorem forwardFrom_waiting_mono (f : Facts) (e : Ev) (k : Nat) (s : Sys) (w : Waiting) (h : w ∈ s.waiting) :
    w ∈ (forwardFrom f e k s).1.waiting := by
  rw [forwardFrom_waiting]; exact List.mem_append_left _ h

theorem wake_waiting_mono (f : Facts) (i : Nat) (w : Waiting) :
    ∀ (ws : List Waiting) (s : Sys) (acc : Tagged), w ∈ s.waiting → w ∈ (wake f i ws s acc).1.waiting := by
  intro ws
  induction ws with
  | nil => intro s acc h; simpa [wake] using h
  | cons v vs ih =>
    intro s acc h
    unfold wake
    cases hn : s.nodes[i]? with
    | none => simpa using h
    | some m =>
      simp only
      apply ih
      apply forwardFrom_waiting_mono
      exact h

theorem arrive_waiting_keep (f : Facts) (i : Nat) (t : TokId) (s : Sys) (w : Waiting) (h : w ∈ s.waiting)
    (hne : w.pos ≠ i) : w ∈ (arrive f i t s).1.waiting := by
  unfold arrive
  cases hn : s.nodes[i]? with
  | none => simpa using h
  | some m =>
    simp only
    have h2 := wake_waiting_mono f i w (s.waiting.filter (fun w => w.pos == i))
      { nodes := s.nodes.set i (runMsgs { m with loopStarted := true, inbox := [] } m.inbox).1,
        waiting := s.waiting.filter (fun w => w.pos != i) }
      ((runMsgs { m with loopStarted := true, inbox := [] } m.inbox).2.map (fun o => (i, o)))
      (by simp [List.mem_filter, h, hne])
    generalize wake f i _ _ _ = r at h2 ⊢
    obtain ⟨s2, o2⟩ := r
    simp only at h2 ⊢
    cases hn2 : s2.nodes[i]? with
    | none => simpa using h2
    | some m2 => simpa using h2

/-- a blocked caller stays blocked for as long as the node it is blocked on is not reached -/
theorem blocked_forever (f : Facts) (w : Waiting) :
    ∀ (ops : List Op) (s : Sys), w ∈ s.waiting → (∀ op ∈ ops, ∀ t, op ≠ .arrive w.pos t) →
      w ∈ (runOps f s ops).1.waiting := by
  intro ops
  induction ops with
  | nil => intro s h _; simpa [runOps] using h
  | cons op ops ih =>
    intro s h hops
    simp only [runOps]
    apply ih
    · cases op with
      | deliver e => exact forwardFrom_waiting_mono f e 0 s w h
      | arrive i t =>
        apply arrive_waiting_keep f i t s w h
        intro hpos
        exact hops (.arrive i t) (by simp) t (by rw [hpos])
    · intro op hop t; exact hops op (by simp [hop]) t

/-! ## boundedness under the side condition -/

/-- node types whose constructor starts the reader have it running -/
def CtorRunning (f : Facts) (n : Node) : Prop := (f.of n.kind).readerAtConstruction = true → n.loopStarted = true

theorem ctorRunning_stable (f : Facts) : Stable (CtorRunning f) where
  handle := by intro n m h; unfold CtorRunning; rw [handle_kind, handle_loopStarted]; exact h
  enqueue := by intro n e h; exact h
  startReader := by intro n _ _; rfl

theorem ctorRunning_init (f : Facts) (specs : List NodeSpec) : ∀ n ∈ (Sys.init f specs).nodes, CtorRunning f n := by
  intro n hn
  simp only [Sys.init, List.mem_map] at hn
  obtain ⟨sp, _, rfl⟩ := hn
  intro h
  simpa [Node.init] using h

theorem facts_ok_of (f : Facts) (h : f.ok = true) (k : NodeKind) : (f.of k).ok = true := by
  unfold Facts.ok at h
  cases k <;> simp_all [Facts.of]

theorem no_block_of_kind_ok (f : Facts) (n : Node) (hok : (f.of n.kind).ok = true) (h : CtorRunning f n) (e : Ev) :
    consume (f.of n.kind) n e ≠ .blocks := by
  intro hb
  rw [consume_blocks_iff] at hb
  obtain ⟨h1, h2, _, h4⟩ := hb
  unfold InboxFacts.ok at hok
  simp [h2, h4] at hok
  have := h hok
  simp [h1] at this

theorem no_block_of_ok (f : Facts) (hok : f.ok = true) (n : Node) (h : CtorRunning f n) (e : Ev) :
    consume (f.of n.kind) n e ≠ .blocks :=
  no_block_of_kind_ok f n (facts_ok_of f hok n.kind) h e

/-- if no consumer can block, a delivery leaves the list of blocked callers as it was -/
theorem deliver_returns (f : Facts) (e : Ev) (s : Sys) (h : ∀ n ∈ s.nodes, consume (f.of n.kind) n e ≠ .blocks) :
    (deliver f e s).1.waiting = s.waiting := by
  unfold deliver
  rw [forwardFrom_waiting]
  have := (forward_returns f e (s.nodes.drop 0) (by simpa using h)).1
  simp only [List.drop_zero] at this
  simp [this]

theorem wake_nil (f : Facts) (i : Nat) (s : Sys) (acc : Tagged) : wake f i [] s acc = (s, acc) := rfl

theorem arrive_waiting_nil (f : Facts) (i : Nat) (t : TokId) (s : Sys) (h : s.waiting = []) :
    (arrive f i t s).1.waiting = [] := by
  unfold arrive
  cases hn : s.nodes[i]? with
  | none => simpa using h
  | some m =>
    simp only [h, List.filter_nil, wake_nil]
    cases hn2 : (s.nodes.set i (runMsgs { m with loopStarted := true, inbox := [] } m.inbox).1)[i]? with
    | none => simp
    | some m2 => simp

/-- under the side condition nobody is ever left blocked, in any reachable state -/
theorem runOps_no_waiting (f : Facts) (hok : f.ok = true) :
    ∀ (ops : List Op) (s : Sys), s.waiting = [] → (∀ n ∈ s.nodes, CtorRunning f n) →
      (runOps f s ops).1.waiting = [] ∧ ∀ n ∈ (runOps f s ops).1.nodes, CtorRunning f n := by
  intro ops
  induction ops with
  | nil => intro s h1 h2; exact ⟨by simpa [runOps] using h1, by simpa [runOps] using h2⟩
  | cons op ops ih =>
    intro s h1 h2
    simp only [runOps]
    apply ih
    · cases op with
      | deliver e =>
        show (deliver f e s).1.waiting = []
        rw [deliver_returns f e s (fun n hn => no_block_of_ok f hok n (h2 n hn) e)]; exact h1
      | arrive i t => exact arrive_waiting_nil f i t s h1
    · exact step_stable (ctorRunning_stable f) f s op h2

/-! ## the witness: a never-reached node without an escape in `ConsumeEvent` -/

theorem deliver_single_queued (f : Facts) (n : Node) (e : Ev) (ws : List Waiting) (hnr : n.loopStarted = false)
    (hg : (f.of n.kind).sendOnlyWhenRunning = false) (hroom : n.inbox.length < (f.of n.kind).cap n.incoming) :
    deliver f e { nodes := [n], waiting := ws } =
      ({ nodes := [{ n with inbox := n.inbox ++ [Msg.event e] }], waiting := ws }, []) := by
  simp [deliver, forwardFrom, forward, consume, hnr, hg, hroom, tag]

theorem deliver_single_blocks (f : Facts) (n : Node) (e : Ev) (ws : List Waiting) (hnr : n.loopStarted = false)
    (hg : (f.of n.kind).sendOnlyWhenRunning = false) (hnb : (f.of n.kind).sendNonBlocking = false)
    (hfull : (f.of n.kind).cap n.incoming ≤ n.inbox.length) :
    deliver f e { nodes := [n], waiting := ws } =
      ({ nodes := [n], waiting := ws ++ [{ ev := e, pos := 0 }] }, []) := by
  have : ¬ n.inbox.length < (f.of n.kind).cap n.incoming := by omega
  simp [deliver, forwardFrom, forward, consume, hnr, hg, hnb, this, tag]

theorem fill_unreached (f : Facts) (e : Ev) :
    ∀ (j : Nat) (n : Node), n.loopStarted = false → (f.of n.kind).sendOnlyWhenRunning = false →
      n.inbox.length + j ≤ (f.of n.kind).cap n.incoming →
      runOps f { nodes := [n], waiting := [] } (List.replicate j (Op.deliver e)) =
        ({ nodes := [{ n with inbox := n.inbox ++ List.replicate j (Msg.event e) }], waiting := [] }, []) := by
  intro j
  induction j with
  | zero => intro n _ _ _; simp [runOps]
  | succ j ih =>
    intro n hnr hg hle
    simp only [List.replicate_succ, runOps, step]
    rw [deliver_single_queued f n e [] hnr hg (by omega)]
    simp only
    rw [ih { n with inbox := n.inbox ++ [Msg.event e] } hnr hg (by simp; omega)]
    simp [List.append_assoc]

end Bpmn.Model.CatchEvent

/-! ## index-wise view: what one operation does to the consumer at position `i` -/
namespace Bpmn.Model.CatchEvent

/-- the outputs of the node at position `i` -/
def outsAt (i : Nat) (t : Tagged) : List Out := (t.filter (fun p => p.1 == i)).map (·.2)

theorem outsAt_nil (i : Nat) : outsAt i [] = [] := rfl

theorem outsAt_append (i : Nat) (a b : Tagged) : outsAt i (a ++ b) = outsAt i a ++ outsAt i b := by
  simp [outsAt, List.filter_append]

theorem outsAt_map_same (i : Nat) (os : List Out) : outsAt i (os.map (fun o => (i, o))) = os := by
  induction os with
  | nil => rfl
  | cons o os ih =>
    simp only [outsAt, List.map_cons, List.filter_cons, beq_self_eq_true, if_true, List.cons.injEq, true_and]
    exact ih

theorem outsAt_map_other (i k : Nat) (os : List Out) (h : k ≠ i) : outsAt i (os.map (fun o => (k, o))) = [] := by
  induction os with
  | nil => rfl
  | cons o os ih =>
    have hk : (k == i) = false := by simpa using h
    simp only [outsAt, List.map_cons, List.filter_cons, hk]
    exact ih

theorem outsAt_tag (i : Nat) : ∀ (outs : List (List Out)) (k : Nat),
    outsAt i (tag k outs) = if k ≤ i then (outs[i - k]?).getD [] else [] := by
  intro outs
  induction outs with
  | nil => intro k; simp [tag, outsAt]
  | cons os rest ih =>
    intro k
    simp only [tag, outsAt_append, ih]
    by_cases h1 : k = i
    · subst h1
      simp [outsAt_map_same]
      intro h; omega
    · rw [outsAt_map_other i k os h1]
      by_cases h2 : k ≤ i
      · have h3 : k + 1 ≤ i := by omega
        have h4 : i - k = (i - (k + 1)) + 1 := by omega
        simp [h2, h3, h4]
      · have h3 : ¬ k + 1 ≤ i := by omega
        simp [h2, h3]

/-- everything operations other than this node's own `NextAction` can do to a node: a running reader handles an
event, or an event is put into the buffer of a reader that is not running -/
inductive Steps : Node → Node → List Out → Prop
  | refl (n : Node) : Steps n n []
  | byHandle {n n' : Node} {o : List Out} (e : Ev) : n.loopStarted = true →
      Steps (handle n (.event e)).1 n' o → Steps n n' ((handle n (.event e)).2 ++ o)
  | byEnqueue {n n' : Node} {o : List Out} (e : Ev) : n.loopStarted = false →
      Steps { n with inbox := n.inbox ++ [Msg.event e] } n' o → Steps n n' o

theorem Steps.trans {a b c : Node} {o1 o2 : List Out} (h1 : Steps a b o1) (h2 : Steps b c o2) :
    Steps a c (o1 ++ o2) := by
  induction h1 with
  | refl n => simpa using h2
  | byHandle e hr _ ih => rw [List.append_assoc]; exact Steps.byHandle e hr (ih h2)
  | byEnqueue e hr _ ih => exact Steps.byEnqueue e hr (ih h2)

theorem Steps.one_handle (n : Node) (e : Ev) (h : n.loopStarted = true) :
    Steps n (handle n (.event e)).1 (handle n (.event e)).2 := by
  have := Steps.byHandle e h (Steps.refl (handle n (.event e)).1)
  simpa using this

theorem Steps.of_reached {e : Ev} {n n' : Node} {o : List Out} (h : Reached e n n' o) : Steps n n' o := by
  rcases h with ⟨hr, hh⟩ | ⟨hr, rfl, hn⟩
  · have := Steps.one_handle n e hr
    rw [← hh] at this
    exact this
  · rcases hn with rfl | rfl
    · exact Steps.refl _
    · exact Steps.byEnqueue e hr (Steps.refl _)

theorem Steps.kind {n n' : Node} {o : List Out} (h : Steps n n' o) : n'.kind = n.kind := by
  induction h with
  | refl n => rfl
  | byHandle e _ _ ih => rw [ih, handle_kind]
  | byEnqueue e _ _ ih => rw [ih]

theorem Steps.loopStarted {n n' : Node} {o : List Out} (h : Steps n n' o) : n'.loopStarted = n.loopStarted := by
  induction h with
  | refl n => rfl
  | byHandle e _ _ ih => rw [ih, handle_loopStarted]
  | byEnqueue e _ _ ih => rw [ih]

/-- conservation along `Steps`: nothing arrives, so released ++ waiting = waiting before -/
theorem Steps.conserve {n n' : Node} {o : List Out} (h : Steps n n' o) (hk : n.kind = .catch_) :
    releasedOf o ++ n'.parked = n.parked := by
  induction h with
  | refl n => simp [releasedOf]
  | @byHandle n n' o e _ _ ih =>
    have h1 := handle_conserve n (.event e) hk
    have h2 := ih (by rw [handle_kind, hk])
    rw [releasedOf_append, List.append_assoc, h2]
    simpa [arrivalsOf] using h1
  | byEnqueue e _ _ ih => exact ih hk

/-- a running catch event that is not activated ignores whatever is delivered -/
theorem Steps.inactive_running {n n' : Node} {o : List Out} (h : Steps n n' o) (hk : n.kind = .catch_)
    (ha : n.activated = false) (hr : n.loopStarted = true) : n' = n ∧ o = [] := by
  induction h with
  | refl n => exact ⟨rfl, rfl⟩
  | @byHandle n n' o e _ _ ih =>
    rw [handle_event_inactive n e hk ha] at ih ⊢
    obtain ⟨h1, h2⟩ := ih hk ha hr
    exact ⟨h1, by simp [h2]⟩
  | byEnqueue e hnr _ _ => rw [hr] at hnr; cases hnr

end Bpmn.Model.CatchEvent

namespace Bpmn.Model.CatchEvent

theorem forward_index (f : Facts) (e : Ev) (ns : List Node) (i : Nat) (n : Node) (h : ns[i]? = some n) :
    ∃ n' o, (forward f e ns).nodes[i]? = some n' ∧ (forward f e ns).outs[i]? = some o ∧ Steps n n' o := by
  cases hb : (forward f e ns).blocked with
  | none =>
    obtain ⟨n', o, h1, h2, h3⟩ := forward_pointwise f e ns i n h (by intro b hb'; rw [hb] at hb'; cases hb')
    exact ⟨n', o, h1, h2, Steps.of_reached h3⟩
  | some b =>
    by_cases hi : i < b
    · obtain ⟨n', o, h1, h2, h3⟩ := forward_pointwise f e ns i n h (by
        intro b' hb'; rw [hb] at hb'; cases hb'; exact hi)
      exact ⟨n', o, h1, h2, Steps.of_reached h3⟩
    · obtain ⟨h1, h2⟩ := forward_beyond f e ns b i hb (by omega)
      exact ⟨n, [], by rw [h1, h], by rw [h2, h]; rfl, Steps.refl n⟩

theorem forwardFrom_nodes (f : Facts) (e : Ev) (k : Nat) (s : Sys) :
    (forwardFrom f e k s).1.nodes = s.nodes.take k ++ (forward f e (s.nodes.drop k)).nodes := rfl

theorem forwardFrom_outs (f : Facts) (e : Ev) (k : Nat) (s : Sys) :
    (forwardFrom f e k s).2 = tag k (forward f e (s.nodes.drop k)).outs := rfl

theorem forwardFrom_index (f : Facts) (e : Ev) (k : Nat) (s : Sys) (i : Nat) (n : Node) (h : s.nodes[i]? = some n) :
    ∃ n', (forwardFrom f e k s).1.nodes[i]? = some n' ∧ Steps n n' (outsAt i (forwardFrom f e k s).2) := by
  have hlen : i < s.nodes.length := by
    rcases Nat.lt_or_ge i s.nodes.length with h' | h'
    · exact h'
    · rw [List.getElem?_eq_none h'] at h; cases h
  rw [forwardFrom_nodes, forwardFrom_outs, outsAt_tag]
  by_cases hik : i < k
  · refine ⟨n, ?_, ?_⟩
    · rw [List.getElem?_append_left (by rw [List.length_take]; omega), List.getElem?_take]
      simp [hik, h]
    · have : ¬ k ≤ i := by omega
      simp only [this, if_false]
      exact Steps.refl n
  · have hki : k ≤ i := by omega
    have hd : (s.nodes.drop k)[i - k]? = some n := by
      rw [List.getElem?_drop]
      have : k + (i - k) = i := by omega
      rw [this, h]
    obtain ⟨n', o, h1, h2, h3⟩ := forward_index f e (s.nodes.drop k) (i - k) n hd
    refine ⟨n', ?_, ?_⟩
    · rw [List.getElem?_append_right (by rw [List.length_take]; omega)]
      have : i - (s.nodes.take k).length = i - k := by rw [List.length_take]; omega
      rw [this, h1]
    · simp only [hki, if_true, h2, Option.getD_some]
      exact h3

theorem forwardFrom_length (f : Facts) (e : Ev) (k : Nat) (s : Sys) :
    (forwardFrom f e k s).1.nodes.length = s.nodes.length := by
  rw [forwardFrom_nodes, List.length_append, (forward_lengths f e _).1, List.length_take, List.length_drop]
  omega

end Bpmn.Model.CatchEvent

namespace Bpmn.Model.CatchEvent

theorem wake_cons (f : Facts) (j : Nat) (w : Waiting) (ws : List Waiting) (s : Sys) (acc : Tagged) (m : Node)
    (h : s.nodes[j]? = some m) :
    wake f j (w :: ws) s acc =
      wake f j ws (forwardFrom f w.ev (j + 1) { s with nodes := s.nodes.set j (handle m (.event w.ev)).1 }).1
        (acc ++ (handle m (.event w.ev)).2.map (fun o => (j, o)) ++
          (forwardFrom f w.ev (j + 1) { s with nodes := s.nodes.set j (handle m (.event w.ev)).1 }).2) := by
  rw [wake]
  simp only [h]

theorem wake_cons_none (f : Facts) (j : Nat) (w : Waiting) (ws : List Waiting) (s : Sys) (acc : Tagged)
    (h : s.nodes[j]? = none) : wake f j (w :: ws) s acc = (s, acc) := by
  rw [wake]
  simp only [h]

theorem lt_length_of_getElem? {α : Type} {l : List α} {i : Nat} {a : α} (h : l[i]? = some a) : i < l.length := by
  rcases Nat.lt_or_ge i l.length with h' | h'
  · exact h'
  · rw [List.getElem?_eq_none h'] at h; cases h

/-- what waking the blocked senders of node `j` does to the consumer at any position -/
theorem wake_index (f : Facts) (j : Nat) :
    ∀ (ws : List Waiting) (s : Sys) (acc : Tagged),
      (∀ m, s.nodes[j]? = some m → m.loopStarted = true) →
      ∀ (i : Nat) (n : Node), s.nodes[i]? = some n →
        ∃ n' o, (wake f j ws s acc).1.nodes[i]? = some n' ∧
          outsAt i (wake f j ws s acc).2 = outsAt i acc ++ o ∧ Steps n n' o := by
  intro ws
  induction ws with
  | nil => intro s acc _ i n h; exact ⟨n, [], by simpa [wake] using h, by simp [wake], Steps.refl n⟩
  | cons w ws ih =>
    intro s acc hrun i n h
    cases hj : s.nodes[j]? with
    | none =>
      rw [wake_cons_none f j w ws s acc hj]
      exact ⟨n, [], h, by simp, Steps.refl n⟩
    | some m =>
      rw [wake_cons f j w ws s acc m hj]
      have hjl := lt_length_of_getElem? hj
      have hmr : m.loopStarted = true := hrun m hj
      -- node j after its reader has handled the event
      have hs1j : (s.nodes.set j (handle m (.event w.ev)).1)[j]? = some (handle m (.event w.ev)).1 := by
        rw [List.getElem?_set_self hjl]
      obtain ⟨n2j, hn2j, hst2j⟩ := forwardFrom_index f w.ev (j + 1)
        { s with nodes := s.nodes.set j (handle m (.event w.ev)).1 } j _ hs1j
      have hrun2 : ∀ m', (forwardFrom f w.ev (j + 1)
          { s with nodes := s.nodes.set j (handle m (.event w.ev)).1 }).1.nodes[j]? = some m' →
          m'.loopStarted = true := by
        intro m' hm'
        rw [hn2j] at hm'
        cases hm'
        rw [hst2j.loopStarted, handle_loopStarted, hmr]
      by_cases hij : i = j
      · subst hij
        rw [hj] at h; cases h
        obtain ⟨n', o, h1, h2, h3⟩ := ih _ (acc ++ (handle n (.event w.ev)).2.map (fun o => (i, o)) ++
          (forwardFrom f w.ev (i + 1) { s with nodes := s.nodes.set i (handle n (.event w.ev)).1 }).2) hrun2 i n2j hn2j
        refine ⟨n', (handle n (.event w.ev)).2 ++ outsAt i (forwardFrom f w.ev (i + 1)
            { s with nodes := s.nodes.set i (handle n (.event w.ev)).1 }).2 ++ o, h1, ?_, ?_⟩
        · rw [h2, outsAt_append, outsAt_append, outsAt_map_same]
          simp [List.append_assoc]
        · exact ((Steps.one_handle n w.ev hmr).trans hst2j).trans h3
      · have hs1i : (s.nodes.set j (handle m (.event w.ev)).1)[i]? = some n := by
          rw [List.getElem?_set_ne (by omega)]; exact h
        obtain ⟨n2, hn2, hst2⟩ := forwardFrom_index f w.ev (j + 1)
          { s with nodes := s.nodes.set j (handle m (.event w.ev)).1 } i n hs1i
        obtain ⟨n', o, h1, h2, h3⟩ := ih _ (acc ++ (handle m (.event w.ev)).2.map (fun o => (j, o)) ++
          (forwardFrom f w.ev (j + 1) { s with nodes := s.nodes.set j (handle m (.event w.ev)).1 }).2) hrun2 i n2 hn2
        refine ⟨n', outsAt i (forwardFrom f w.ev (j + 1)
            { s with nodes := s.nodes.set j (handle m (.event w.ev)).1 }).2 ++ o, h1, ?_, hst2.trans h3⟩
        rw [h2, outsAt_append, outsAt_append, outsAt_map_other i j _ (by omega)]
        simp [List.append_assoc]

end Bpmn.Model.CatchEvent

namespace Bpmn.Model.CatchEvent

/-- the reader of node `n` once started: what it makes of the buffer -/
def started (n : Node) : Node × List Out := runMsgs { n with loopStarted := true, inbox := [] } n.inbox

/-- the state after the reader of node `i` has started and the blocked senders have been let in -/
def woken (f : Facts) (i : Nat) (s : Sys) (n : Node) : Sys × Tagged :=
  wake f i (s.waiting.filter (fun w => w.pos == i))
    { nodes := s.nodes.set i (started n).1, waiting := s.waiting.filter (fun w => w.pos != i) }
    ((started n).2.map (fun o => (i, o)))

theorem arrive_catch (f : Facts) (i : Nat) (t : TokId) (s : Sys) (n n2 : Node) (hn : s.nodes[i]? = some n)
    (hk : n.kind = .catch_) (hn2 : (woken f i s n).1.nodes[i]? = some n2) :
    arrive f i t s =
      ({ (woken f i s n).1 with nodes := (woken f i s n).1.nodes.set i (handle n2 (.next t)).1 },
       (woken f i s n).2 ++ (handle n2 (.next t)).2.map (fun o => (i, o))) := by
  unfold woken started at hn2
  unfold arrive woken started
  simp only [hn]
  generalize wake f i _ _ _ = r at hn2 ⊢
  obtain ⟨s2, o2⟩ := r
  simp only at hn2 ⊢
  simp [hn2, hk]

theorem started_loopStarted (n : Node) : (started n).1.loopStarted = true := by
  unfold started; rw [runMsgs_loopStarted]

theorem started_kind (n : Node) : (started n).1.kind = n.kind := by
  unfold started; rw [runMsgs_kind]

/-- the woken state, index-wise: node `i` itself -/
theorem woken_self (f : Facts) (i : Nat) (s : Sys) (n : Node) (hn : s.nodes[i]? = some n) :
    ∃ n2 o, (woken f i s n).1.nodes[i]? = some n2 ∧ outsAt i (woken f i s n).2 = (started n).2 ++ o ∧
      Steps (started n).1 n2 o := by
  have hl := lt_length_of_getElem? hn
  have h1 : (s.nodes.set i (started n).1)[i]? = some (started n).1 := by rw [List.getElem?_set_self hl]
  obtain ⟨n2, o, h2, h3, h4⟩ := wake_index f i (s.waiting.filter (fun w => w.pos == i))
    { nodes := s.nodes.set i (started n).1, waiting := s.waiting.filter (fun w => w.pos != i) }
    ((started n).2.map (fun o => (i, o)))
    (by intro m hm; rw [h1] at hm; cases hm; exact started_loopStarted n) i _ h1
  exact ⟨n2, o, h2, by rw [woken, h3, outsAt_map_same], h4⟩

/-- the woken state, index-wise: any other node -/
theorem woken_other (f : Facts) (i : Nat) (s : Sys) (n : Node) (hn : s.nodes[i]? = some n) (k : Nat) (m : Node)
    (hk : s.nodes[k]? = some m) (hne : k ≠ i) :
    ∃ m', (woken f i s n).1.nodes[k]? = some m' ∧ Steps m m' (outsAt k (woken f i s n).2) := by
  have hl := lt_length_of_getElem? hn
  have h1 : (s.nodes.set i (started n).1)[i]? = some (started n).1 := by rw [List.getElem?_set_self hl]
  have h1k : (s.nodes.set i (started n).1)[k]? = some m := by rw [List.getElem?_set_ne (by omega)]; exact hk
  obtain ⟨m', o, h2, h3, h4⟩ := wake_index f i (s.waiting.filter (fun w => w.pos == i))
    { nodes := s.nodes.set i (started n).1, waiting := s.waiting.filter (fun w => w.pos != i) }
    ((started n).2.map (fun o => (i, o)))
    (by intro m hm; rw [h1] at hm; cases hm; exact started_loopStarted n) k m h1k
  refine ⟨m', h2, ?_⟩
  rw [woken, h3, outsAt_map_other k i _ (by omega)]
  simpa using h4

end Bpmn.Model.CatchEvent

namespace Bpmn.Model.CatchEvent

/-- what `NextAction` / `Trigger` adds once the reader has been started and the blocked senders let in -/
def lastStep (kind : NodeKind) (n2 : Node) (t : TokId) : Node × List Out :=
  match kind with
  | .catch_ => handle n2 (.next t)
  | .start => ((handle (handle n2 .start).1 (.next t)).1, (handle n2 .start).2 ++ (handle (handle n2 .start).1 (.next t)).2)

theorem arrive_eq (f : Facts) (i : Nat) (t : TokId) (s : Sys) (n n2 : Node) (hn : s.nodes[i]? = some n)
    (hn2 : (woken f i s n).1.nodes[i]? = some n2) :
    arrive f i t s =
      ({ (woken f i s n).1 with nodes := (woken f i s n).1.nodes.set i (lastStep n.kind n2 t).1 },
       (woken f i s n).2 ++ (lastStep n.kind n2 t).2.map (fun o => (i, o))) := by
  unfold woken started at hn2
  unfold arrive woken started lastStep
  simp only [hn]
  generalize wake f i _ _ _ = r at hn2 ⊢
  obtain ⟨s2, o2⟩ := r
  simp only at hn2 ⊢
  cases hk : n.kind <;> simp [hn2]

theorem arrive_none (f : Facts) (i : Nat) (t : TokId) (s : Sys) (hn : s.nodes[i]? = none) : arrive f i t s = (s, []) := by
  unfold arrive; simp [hn]

theorem wake_length (f : Facts) (j : Nat) : ∀ (ws : List Waiting) (s : Sys) (acc : Tagged),
    (wake f j ws s acc).1.nodes.length = s.nodes.length := by
  intro ws
  induction ws with
  | nil => intro s acc; rfl
  | cons w ws ih =>
    intro s acc
    cases hj : s.nodes[j]? with
    | none => rw [wake_cons_none f j w ws s acc hj]
    | some m => rw [wake_cons f j w ws s acc m hj, ih, forwardFrom_length]; simp

theorem woken_length (f : Facts) (i : Nat) (s : Sys) (n : Node) : (woken f i s n).1.nodes.length = s.nodes.length := by
  unfold woken; rw [wake_length]; simp

/-- `arrive`, index-wise: node `i` itself -/
theorem arrive_self (f : Facts) (i : Nat) (t : TokId) (s : Sys) (n : Node) (hn : s.nodes[i]? = some n) :
    ∃ n2 o, Steps (started n).1 n2 o ∧ (arrive f i t s).1.nodes[i]? = some (lastStep n.kind n2 t).1 ∧
      outsAt i (arrive f i t s).2 = (started n).2 ++ o ++ (lastStep n.kind n2 t).2 := by
  obtain ⟨n2, o, h1, h2, h3⟩ := woken_self f i s n hn
  refine ⟨n2, o, h3, ?_, ?_⟩
  · rw [arrive_eq f i t s n n2 hn h1]
    simp only
    rw [List.getElem?_set_self (by rw [woken_length]; exact lt_length_of_getElem? hn)]
  · rw [arrive_eq f i t s n n2 hn h1]
    simp only
    rw [outsAt_append, h2, outsAt_map_same]

/-- `arrive`, index-wise: any other node -/
theorem arrive_other (f : Facts) (i : Nat) (t : TokId) (s : Sys) (k : Nat) (m : Node) (hk : s.nodes[k]? = some m)
    (hne : k ≠ i) : ∃ m', (arrive f i t s).1.nodes[k]? = some m' ∧ Steps m m' (outsAt k (arrive f i t s).2) := by
  cases hn : s.nodes[i]? with
  | none => rw [arrive_none f i t s hn]; exact ⟨m, hk, Steps.refl m⟩
  | some n =>
    obtain ⟨n2, o, h1, _, _⟩ := woken_self f i s n hn
    obtain ⟨m', h4, h5⟩ := woken_other f i s n hn k m hk hne
    refine ⟨m', ?_, ?_⟩
    · rw [arrive_eq f i t s n n2 hn h1]
      simp only
      rw [List.getElem?_set_ne (by omega)]; exact h4
    · rw [arrive_eq f i t s n n2 hn h1]
      simp only
      rw [outsAt_append, outsAt_map_other k i _ (by omega)]
      simpa using h5

theorem arrive_length (f : Facts) (i : Nat) (t : TokId) (s : Sys) : (arrive f i t s).1.nodes.length = s.nodes.length := by
  cases hn : s.nodes[i]? with
  | none => rw [arrive_none f i t s hn]
  | some n =>
    obtain ⟨n2, o, h1, _, _⟩ := woken_self f i s n hn
    rw [arrive_eq f i t s n n2 hn h1]
    simp [woken_length]

theorem step_length (f : Facts) (s : Sys) (op : Op) : (step f s op).1.nodes.length = s.nodes.length := by
  cases op with
  | deliver e => exact forwardFrom_length f e 0 s
  | arrive i t => exact arrive_length f i t s

end Bpmn.Model.CatchEvent

namespace Bpmn.Model.CatchEvent

/-- the state of a node between two driver actions: a running reader has emptied its buffer; a node whose reader
was never started has never been activated, holds no token, and has only events in its buffer -/
def WF (n : Node) : Prop :=
  (n.loopStarted = true → n.inbox = []) ∧
  (n.loopStarted = false → n.activated = false ∧ n.parked = [] ∧ ∀ m ∈ n.inbox, ∃ e, m = Msg.event e)

theorem handle_wf_running (n : Node) (m : Msg) (hr : n.loopStarted = true) (h : WF n) : WF (handle n m).1 := by
  refine ⟨fun _ => by rw [handle_inbox]; exact h.1 hr, fun h' => ?_⟩
  rw [handle_loopStarted, hr] at h'; cases h'

theorem Steps.wf {n n' : Node} {o : List Out} (h : Steps n n' o) (hw : WF n) : WF n' := by
  induction h with
  | refl n => exact hw
  | byHandle e hr _ ih => exact ih (handle_wf_running _ _ hr hw)
  | @byEnqueue n n' o e hnr _ ih =>
    apply ih
    refine ⟨fun h' => ?_, fun _ => ?_⟩
    · simp only at h'; rw [hnr] at h'; cases h'
    · obtain ⟨h1, h2, h3⟩ := hw.2 hnr
      refine ⟨h1, h2, ?_⟩
      intro m hm
      simp only [List.mem_append, List.mem_singleton] at hm
      rcases hm with hm | rfl
      · exact h3 m hm
      · exact ⟨e, rfl⟩

theorem started_wf (n : Node) : WF (started n).1 := by
  refine ⟨fun _ => ?_, fun h' => ?_⟩
  · unfold started; rw [runMsgs_inbox]
  · rw [started_loopStarted] at h'; cases h'

theorem lastStep_wf (kind : NodeKind) (n2 : Node) (t : TokId) (hr : n2.loopStarted = true) (h : WF n2) :
    WF (lastStep kind n2 t).1 := by
  cases kind with
  | catch_ => exact handle_wf_running _ _ hr h
  | start =>
    exact handle_wf_running _ _ (by rw [handle_loopStarted]; exact hr) (handle_wf_running _ _ hr h)

theorem wf_init (f : Facts) (specs : List NodeSpec) : ∀ n ∈ (Sys.init f specs).nodes, WF n := by
  intro n hn
  simp only [Sys.init, List.mem_map] at hn
  obtain ⟨sp, _, rfl⟩ := hn
  exact ⟨fun _ => rfl, fun _ => ⟨rfl, rfl, by intro m hm; simp [Node.init] at hm⟩⟩

theorem getElem?_of_lt {α : Type} {l : List α} {i : Nat} (h : i < l.length) : ∃ a, l[i]? = some a :=
  ⟨l[i], List.getElem?_eq_getElem h⟩

theorem step_wf (f : Facts) (s : Sys) (op : Op) (h : ∀ n ∈ s.nodes, WF n) : ∀ n ∈ (step f s op).1.nodes, WF n := by
  intro n' hn'
  obtain ⟨k, hk⟩ := List.mem_iff_getElem?.mp hn'
  have hkl : k < s.nodes.length := by rw [← step_length f s op]; exact lt_length_of_getElem? hk
  obtain ⟨m, hm⟩ := getElem?_of_lt hkl
  have hwm : WF m := h m (List.mem_of_getElem? hm)
  cases op with
  | deliver e =>
    obtain ⟨m', h1, h2⟩ := forwardFrom_index f e 0 s k m hm
    have : (step f s (Op.deliver e)).1.nodes[k]? = some m' := h1
    rw [hk] at this; cases this
    exact h2.wf hwm
  | arrive i t =>
    by_cases hki : k = i
    · subst hki
      obtain ⟨n2, o, h1, h2, _⟩ := arrive_self f k t s m hm
      have : (step f s (Op.arrive k t)).1.nodes[k]? = some (lastStep m.kind n2 t).1 := h2
      rw [hk] at this; cases this
      exact lastStep_wf _ _ _ (by rw [h1.loopStarted, started_loopStarted]) (h1.wf (started_wf m))
    · obtain ⟨m', h1, h2⟩ := arrive_other f i t s k m hm hki
      have : (step f s (Op.arrive i t)).1.nodes[k]? = some m' := h1
      rw [hk] at this; cases this
      exact h2.wf hwm

theorem runOps_wf (f : Facts) : ∀ (ops : List Op) (s : Sys), (∀ n ∈ s.nodes, WF n) →
    ∀ n ∈ (runOps f s ops).1.nodes, WF n := by
  intro ops
  induction ops with
  | nil => intro s h; simpa [runOps] using h
  | cons op ops ih => intro s h; exact ih _ (step_wf f s op h)

/-- Reaching a catch event whose reader was never started: whatever was delivered before — the events in the
buffer and those of callers still blocked on it — is worked off first, while the node is not activated; the node
ends up listening with exactly the arriving token, and shows nothing but the listening trace. -/
theorem arrive_unreached (f : Facts) (i : Nat) (t : TokId) (s : Sys) (n : Node) (hn : s.nodes[i]? = some n)
    (hk : n.kind = .catch_) (hnr : n.loopStarted = false) (hw : WF n) :
    (arrive f i t s).1.nodes[i]? = some { n with loopStarted := true, inbox := [], activated := true, parked := [t] } ∧
    outsAt i (arrive f i t s).2 = [.listening] := by
  obtain ⟨ha, hp, hev⟩ := hw.2 hnr
  have hst : started n = ({ n with loopStarted := true, inbox := [] }, []) := by
    unfold started
    exact runMsgs_events_inactive _ _ hk ha hev
  obtain ⟨n2, o, h1, h2, h3⟩ := arrive_self f i t s n hn
  rw [hst] at h1 h3
  obtain ⟨rfl, rfl⟩ := h1.inactive_running hk ha rfl
  rw [h2, h3, hk]
  simp [lastStep, handle, ha, hp]

end Bpmn.Model.CatchEvent

namespace Bpmn.Model.CatchEvent

/-- the tokens that reached consumer `i` in a history, in order -/
def arrivedAt (i : Nat) : List Op → List TokId
  | [] => []
  | .arrive j t :: ops => if j = i then t :: arrivedAt i ops else arrivedAt i ops
  | .deliver _ :: ops => arrivedAt i ops

theorem arrivedAt_cons (i : Nat) (op : Op) (ops : List Op) : arrivedAt i (op :: ops) = arrivedAt i [op] ++ arrivedAt i ops := by
  cases op with
  | deliver e => simp [arrivedAt]
  | arrive j t => by_cases h : j = i <;> simp [arrivedAt, h]

theorem arrivalsOf_events_only (ms : List Msg) (h : ∀ m ∈ ms, ∃ e, m = Msg.event e) : arrivalsOf ms = [] := by
  induction ms with
  | nil => rfl
  | cons m ms ih =>
    obtain ⟨e, rfl⟩ := h m (by simp)
    simp only [arrivalsOf]
    exact ih (fun m hm => h m (by simp [hm]))

theorem arrivalsOf_inbox_wf (n : Node) (h : WF n) : arrivalsOf n.inbox = [] := by
  by_cases hr : n.loopStarted = true
  · rw [h.1 hr]; rfl
  · exact arrivalsOf_events_only _ (h.2 (by simpa using hr)).2.2

theorem started_conserve (n : Node) (hk : n.kind = .catch_) (hw : WF n) :
    releasedOf (started n).2 ++ (started n).1.parked = n.parked := by
  have := runMsgs_conserve { n with loopStarted := true, inbox := [] } n.inbox hk
  rw [arrivalsOf_inbox_wf n hw] at this
  simpa [started] using this

/-- one operation, seen from the catch event at position `i` -/
theorem step_conserve (f : Facts) (s : Sys) (op : Op) (hwf : ∀ n ∈ s.nodes, WF n) (i : Nat) (n : Node)
    (hn : s.nodes[i]? = some n) (hk : n.kind = .catch_) :
    ∃ n', (step f s op).1.nodes[i]? = some n' ∧ n'.kind = .catch_ ∧
      releasedOf (outsAt i (step f s op).2) ++ n'.parked = n.parked ++ arrivedAt i [op] := by
  cases op with
  | deliver e =>
    obtain ⟨n', h1, h2⟩ := forwardFrom_index f e 0 s i n hn
    exact ⟨n', h1, by rw [h2.kind, hk], by simpa [arrivedAt, step, deliver] using h2.conserve hk⟩
  | arrive j t =>
    by_cases hij : i = j
    · subst hij
      obtain ⟨n2, o, h1, h2, h3⟩ := arrive_self f i t s n hn
      have hk2 : n2.kind = .catch_ := by rw [h1.kind, started_kind, hk]
      refine ⟨_, h2, ?_, ?_⟩
      · rw [hk]; simp only [lastStep]; rw [handle_kind, hk2]
      · show releasedOf (outsAt i (arrive f i t s).2) ++ _ = _
        rw [h3, hk]
        simp only [lastStep, releasedOf_append, arrivedAt, if_true]
        have c1 := started_conserve n hk (hwf n (List.mem_of_getElem? hn))
        have c2 := h1.conserve (by rw [started_kind, hk])
        have c3 := handle_conserve n2 (.next t) hk2
        simp only [arrivalsOf] at c3
        rw [List.append_assoc, List.append_assoc, c3, ← List.append_assoc (releasedOf o), c2, ← List.append_assoc, c1]
    · obtain ⟨n', h1, h2⟩ := arrive_other f j t s i n hn hij
      refine ⟨n', h1, by rw [h2.kind, hk], ?_⟩
      have hji : ¬ j = i := fun h => hij h.symm
      simpa [arrivedAt, hji, step] using h2.conserve hk

/-- token conservation over ANY history of deliveries and arrivals, for every consumer position -/
theorem runOps_conserve (f : Facts) : ∀ (ops : List Op) (s : Sys), (∀ n ∈ s.nodes, WF n) →
    ∀ (i : Nat) (n : Node), s.nodes[i]? = some n → n.kind = .catch_ →
      ∃ n', (runOps f s ops).1.nodes[i]? = some n' ∧ n'.kind = .catch_ ∧
        releasedOf (outsAt i (runOps f s ops).2) ++ n'.parked = n.parked ++ arrivedAt i ops := by
  intro ops
  induction ops with
  | nil => intro s _ i n hn hk; exact ⟨n, hn, hk, by simp [runOps, outsAt, releasedOf, arrivedAt]⟩
  | cons op ops ih =>
    intro s hwf i n hn hk
    obtain ⟨n1, h1, hk1, c1⟩ := step_conserve f s op hwf i n hn hk
    obtain ⟨n', h2, hk2, c2⟩ := ih (step f s op).1 (step_wf f s op hwf) i n1 h1 hk1
    refine ⟨n', h2, hk2, ?_⟩
    simp only [runOps, outsAt_append, releasedOf_append]
    rw [arrivedAt_cons, List.append_assoc, c2, ← List.append_assoc, c1, List.append_assoc]

end Bpmn.Model.CatchEvent

namespace Bpmn.Model.CatchEvent

/-- a node whose reader is not running can only have events put into its buffer -/
theorem Steps.unreached {n n' : Node} {o : List Out} (h : Steps n n' o) (hnr : n.loopStarted = false) :
    ({ n' with inbox := [] } : Node) = { n with inbox := [] } ∧ o = [] := by
  induction h with
  | refl n => exact ⟨rfl, rfl⟩
  | byHandle e hr _ _ => rw [hr] at hnr; cases hnr
  | byEnqueue e _ _ ih => exact ih hnr

theorem lastStep_loopStarted (kind : NodeKind) (n2 : Node) (t : TokId) :
    (lastStep kind n2 t).1.loopStarted = n2.loopStarted := by
  cases kind <;> simp [lastStep, handle_loopStarted]

theorem step_unreached (f : Facts) (s : Sys) (op : Op) (i : Nat) (n n' : Node) (hn : s.nodes[i]? = some n)
    (hn' : (step f s op).1.nodes[i]? = some n') (hnr : n'.loopStarted = false) :
    n.loopStarted = false ∧ ({ n' with inbox := [] } : Node) = { n with inbox := [] } := by
  cases op with
  | deliver e =>
    obtain ⟨m', h1, h2⟩ := forwardFrom_index f e 0 s i n hn
    have : (step f s (Op.deliver e)).1.nodes[i]? = some m' := h1
    rw [hn'] at this; cases this
    have hl : n.loopStarted = false := by rw [← h2.loopStarted]; exact hnr
    exact ⟨hl, (h2.unreached hl).1⟩
  | arrive j t =>
    by_cases hij : i = j
    · subst hij
      obtain ⟨n2, o, h1, h2, _⟩ := arrive_self f i t s n hn
      have : (step f s (Op.arrive i t)).1.nodes[i]? = some (lastStep n.kind n2 t).1 := h2
      rw [hn'] at this; cases this
      rw [lastStep_loopStarted, h1.loopStarted, started_loopStarted] at hnr
      cases hnr
    · obtain ⟨m', h1, h2⟩ := arrive_other f j t s i n hn hij
      have : (step f s (Op.arrive j t)).1.nodes[i]? = some m' := h1
      rw [hn'] at this; cases this
      have hl : n.loopStarted = false := by rw [← h2.loopStarted]; exact hnr
      exact ⟨hl, (h2.unreached hl).1⟩

theorem runOps_length (f : Facts) : ∀ (ops : List Op) (s : Sys), (runOps f s ops).1.nodes.length = s.nodes.length := by
  intro ops
  induction ops with
  | nil => intro s; rfl
  | cons op ops ih => intro s; simp only [runOps]; rw [ih, step_length]

/-- a node that is still unreached after a whole history is, apart from its buffer, exactly as it was -/
theorem runOps_unreached (f : Facts) : ∀ (ops : List Op) (s : Sys) (i : Nat) (n n' : Node),
    s.nodes[i]? = some n → (runOps f s ops).1.nodes[i]? = some n' → n'.loopStarted = false →
      n.loopStarted = false ∧ ({ n' with inbox := [] } : Node) = { n with inbox := [] } := by
  intro ops
  induction ops with
  | nil =>
    intro s i n n' hn hn' hnr
    simp only [runOps] at hn'
    rw [hn] at hn'; cases hn'
    exact ⟨hnr, rfl⟩
  | cons op ops ih =>
    intro s i n n' hn hn' hnr
    simp only [runOps] at hn'
    have hl : i < (step f s op).1.nodes.length := by
      rw [step_length]; exact lt_length_of_getElem? hn
    obtain ⟨n1, hn1⟩ := getElem?_of_lt hl
    obtain ⟨h1, h2⟩ := ih (step f s op).1 i n1 n' hn1 hn' hnr
    obtain ⟨h3, h4⟩ := step_unreached f s op i n n1 hn hn1 h1
    exact ⟨h3, by rw [h2, h4]⟩

theorem init_getElem? (f : Facts) (specs : List NodeSpec) (i : Nat) :
    (Sys.init f specs).nodes[i]? = (specs[i]?).map (fun sp => Node.init f sp.kind sp.incoming sp.defs sp.par) := by
  simp [Sys.init, List.getElem?_map]

end Bpmn.Model.CatchEvent
