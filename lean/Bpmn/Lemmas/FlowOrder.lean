import Bpmn.Model.FlowOrder
import Bpmn.Lemmas.TracerProgress
/-! Invariant of the flow-sending model: the scan state of the causality grammar over the log so far is tied to the
phases of the flow goroutines, so no step can produce a violation. Core Lean only. -/
namespace Bpmn.Model.FlowOrder
open Bpmn.Spec
open Bpmn.Model.Tracer (sumTo sumTo_succ sumTo_congr sumTo_update)

theorem scan_snoc (s : Scan) (l : List Trace) (t : Trace) :
    scan s (l ++ [t]) = match scan s l with
      | .ok s' => scanStep s' t
      | .error v => .error v := by
  induction l generalizing s with
  | nil =>
    simp only [List.nil_append, scan]
    cases scanStep s t <;> rfl
  | cons a l ih =>
    simp only [List.cons_append, scan]
    cases scanStep s a with
    | error v => rfl
    | ok s' => exact ih s'

/-- the node a flow is inside (visited, not left) -/
def cur : Phase → Option Nat
  | .at n => some n
  | .arrived _ n' _ => some n'
  | _ => none

/-- the flow has sent its `NewFlowTrace` -/
def sent : Phase → Bool
  | .none_ | .born _ => false
  | _ => true

def cntAt (s : FSt) (n : Nat) : Nat := sumTo s.nflow (fun f => if cur (s.phase f) = some n then 1 else 0)

structure FInv (s : FSt) (sc : Scan) : Prop where
  started : ∀ f, f ∈ sc.started ↔ sent (s.phase f) = true
  termd : ∀ f, f ∈ sc.termd → s.phase f = .dead
  alloc : ∀ f, s.nflow ≤ f → s.phase f = .none_
  inside : ∀ n, cntAt s n ≤ sc.inside.count n
  ceased : sc.ceased = s.ceased
  quiet : s.ceased = true → ∀ f, f < s.nflow → s.phase f = .dead

/-- the log so far is accepted by the grammar, and its scan state matches the flows -/
def Good (s : FSt) : Prop := ∃ sc, scan {} s.log = .ok sc ∧ FInv s sc

theorem good_init : Good finit := by
  refine ⟨{}, rfl, ?_⟩
  constructor <;> simp [finit, sent, cntAt, sumTo]

@[simp] theorem setPhase_phase (s : FSt) (f : Nat) (p : Phase) (j : Nat) :
    (s.setPhase f p).phase j = if j = f then p else s.phase j := rfl
@[simp] theorem setPhase_nflow (s : FSt) (f : Nat) (p : Phase) : (s.setPhase f p).nflow = s.nflow := rfl
@[simp] theorem setPhase_log (s : FSt) (f : Nat) (p : Phase) : (s.setPhase f p).log = s.log := rfl
@[simp] theorem setPhase_ceased (s : FSt) (f : Nat) (p : Phase) : (s.setPhase f p).ceased = s.ceased := rfl

theorem cntAt_setPhase (s : FSt) (f : Nat) (p : Phase) (hf : f < s.nflow) (n : Nat) :
    cntAt (s.setPhase f p) n + (if cur (s.phase f) = some n then 1 else 0) =
    cntAt s n + (if cur p = some n then 1 else 0) := by
  have := sumTo_update (n := s.nflow) (c := f)
    (w := fun j => if cur (s.phase j) = some n then 1 else 0)
    (w' := fun j => if cur ((s.setPhase f p).phase j) = some n then 1 else 0) hf
    (by intro j hj; simp [hj])
  simpa [cntAt] using this

theorem cntAt_congr {s s' : FSt} (h1 : s'.phase = s.phase) (h2 : s'.nflow = s.nflow) (n : Nat) :
    cntAt s' n = cntAt s n := by unfold cntAt; rw [h1, h2]

theorem FInv.lt_nflow {s : FSt} {sc : Scan} (h : FInv s sc) {f : Nat} (hf : s.phase f ≠ .none_) : f < s.nflow := by
  rcases Nat.lt_or_ge f s.nflow with h1 | h1
  · exact h1
  · exact absurd (h.alloc f h1) hf

/-- a flow that can still send shows that the monitor has not ceased -/
theorem FInv.not_ceased {s : FSt} {sc : Scan} (h : FInv s sc) {f : Nat} (h1 : s.phase f ≠ .none_)
    (h2 : s.phase f ≠ .dead) : sc.ceased = false := by
  rw [h.ceased]
  cases hc : s.ceased with
  | false => rfl
  | true => exact absurd (h.quiet hc f (h.lt_nflow h1)) h2

/-! ### spawn -/

theorem spawn_spec (ts : List Nat) : ∀ s : FSt,
    (s.spawn ts).nflow = s.nflow + ts.length ∧ (s.spawn ts).log = s.log ∧ (s.spawn ts).ceased = s.ceased ∧
    (∀ f, f < s.nflow → (s.spawn ts).phase f = s.phase f) ∧
    (∀ f, s.nflow + ts.length ≤ f → (s.spawn ts).phase f = s.phase f) ∧
    (∀ f, s.nflow ≤ f → f < s.nflow + ts.length → ∃ t, (s.spawn ts).phase f = .born t) := by
  induction ts with
  | nil =>
    intro s
    refine ⟨rfl, rfl, rfl, fun _ _ => rfl, fun _ _ => rfl, ?_⟩
    intro f h1 h2; simp at h2; omega
  | cons t ts ih =>
    intro s
    obtain ⟨a1, a2, a3, a4, a5, a6⟩ := ih ({ s.setPhase s.nflow (.born t) with nflow := s.nflow + 1 } : FSt)
    simp only [FSt.spawn]
    refine ⟨?_, a2, a3, ?_, ?_, ?_⟩
    · rw [a1]; simp only [List.length_cons]; omega
    · intro f hf
      rw [a4 f (by show f < s.nflow + 1; omega)]
      have : f ≠ s.nflow := by omega
      simp [this]
    · intro f hf
      simp only [List.length_cons] at hf
      rw [a5 f (by show s.nflow + 1 + ts.length ≤ f; omega)]
      have : f ≠ s.nflow := by omega
      simp [this]
    · intro f h1 h2
      simp only [List.length_cons] at h2
      by_cases hf : f = s.nflow
      · refine ⟨t, ?_⟩
        rw [a4 f (by show f < s.nflow + 1; omega)]
        simp [hf]
      · exact a6 f (by show s.nflow + 1 ≤ f; omega) (by show f < s.nflow + 1 + ts.length; omega)

theorem sumTo_add (n k : Nat) (w : Nat → Nat) (h : ∀ j, n ≤ j → j < n + k → w j = 0) :
    sumTo (n + k) w = sumTo n w := by
  induction k with
  | zero => rfl
  | succ k ih =>
    rw [← Nat.add_assoc, sumTo_succ, ih (fun j h1 h2 => h j h1 (by omega)), h (n + k) (by omega) (by omega)]
    rfl

theorem cntAt_spawn (s : FSt) (ts : List Nat) (n : Nat) : cntAt (s.spawn ts) n = cntAt s n := by
  obtain ⟨a1, _, _, a4, _, a6⟩ := spawn_spec ts s
  unfold cntAt
  rw [a1, sumTo_add]
  · apply sumTo_congr
    intro j hj
    rw [a4 j hj]
  · intro j h1 h2
    obtain ⟨t, ht⟩ := a6 j h1 h2
    simp [ht, cur]


/-! ### one step -/

theorem scan_step_ok {log : List Trace} {sc sc' : Scan} {t : Trace} (h : scan {} log = .ok sc)
    (h2 : scanStep sc t = .ok sc') : scan {} (log ++ [t]) = .ok sc' := by
  rw [scan_snoc, h]; exact h2

/-- a live flow changes phase while sending one trace: the parts of the invariant that do not depend on the trace -/
theorem finv_phase {s : FSt} {sc sc' : Scan} (h : FInv s sc) {f : Nat} {p : Phase} (t : Trace)
    (hf : s.phase f ≠ .none_) (hnd : s.phase f ≠ .dead)
    (hstarted : ∀ j, j ∈ sc'.started ↔ (if j = f then sent p = true else j ∈ sc.started))
    (htermd : ∀ j, j ∈ sc'.termd → (j ∈ sc.termd ∨ (j = f ∧ p = .dead)))
    (hinside : ∀ n, cntAt (s.setPhase f p) n ≤ sc'.inside.count n)
    (hceased : sc'.ceased = sc.ceased) :
    FInv ({ s.setPhase f p with log := s.log ++ [t] } : FSt) sc' := by
  have hfn := h.lt_nflow hf
  have hnc : s.ceased = false := by
    cases hc : s.ceased with
    | false => rfl
    | true => exact absurd (h.quiet hc f hfn) hnd
  constructor
  · intro j
    rw [hstarted j]
    by_cases hj : j = f
    · subst hj; simp
    · simp [hj, h.started j]
  · intro j hj
    show (if j = f then p else s.phase j) = .dead
    rcases htermd j hj with h1 | ⟨h1, h2⟩
    · by_cases hjf : j = f
      · subst hjf; exact absurd (h.termd j h1) hnd
      · simp [hjf, h.termd j h1]
    · simp [h1, h2]
  · intro j hj
    have : j ≠ f := by
      intro e; subst e
      have : s.nflow ≤ j := hj
      omega
    show (if j = f then p else s.phase j) = .none_
    simp [this]; exact h.alloc j hj
  · exact hinside
  · rw [hceased, h.ceased]; rfl
  · intro hc
    have : s.ceased = true := hc
    rw [hnc] at this; cases this


theorem cnt_le_of_member {s : FSt} {f n : Nat} (hf : f < s.nflow) (hc : cur (s.phase f) = some n) :
    1 ≤ cntAt s n := by
  have := cntAt_setPhase s f .dead hf n
  rw [hc] at this
  simp [cur] at this
  omega

theorem good_step {s s' : FSt} {a : FAct} (hg : Good s) (hs : fstep s a = some s') : Good s' := by
  obtain ⟨sc, hscan, h⟩ := hg
  cases a with
  | root n =>
    simp only [fstep] at hs
    split at hs
    · cases hs
    · next hc =>
      cases hs
      have hnone : s.phase s.nflow = .none_ := h.alloc _ (Nat.le_refl _)
      refine ⟨sc, hscan, ?_⟩
      constructor
      · intro j
        show j ∈ sc.started ↔ sent (if j = s.nflow then .born n else s.phase j) = true
        by_cases hj : j = s.nflow
        · subst hj; simp only [if_true, sent]; rw [h.started, hnone]; simp [sent]
        · simp [hj, h.started j]
      · intro j hj
        show (if j = s.nflow then Phase.born n else s.phase j) = .dead
        by_cases hjf : j = s.nflow
        · subst hjf; have := h.termd _ hj; rw [hnone] at this; cases this
        · simp [hjf, h.termd j hj]
      · intro j hj
        have : s.nflow + 1 ≤ j := hj
        show (if j = s.nflow then Phase.born n else s.phase j) = .none_
        have hne : j ≠ s.nflow := by omega
        simp [hne]; exact h.alloc j (by omega)
      · intro m
        have : cntAt ({ s.setPhase s.nflow (.born n) with nflow := s.nflow + 1 } : FSt) m = cntAt s m := by
          unfold cntAt
          show sumTo (s.nflow + 1) _ = _
          rw [sumTo_succ]
          have e : (if cur ((s.setPhase s.nflow (.born n)).phase s.nflow) = some m then 1 else 0) = 0 := by
            simp [cur]
          rw [e, Nat.add_zero]
          apply sumTo_congr
          intro j hj
          have : j ≠ s.nflow := by omega
          simp [this]
        rw [this]; exact h.inside m
      · exact h.ceased
      · intro hc'
        have : s.ceased = true := hc'
        simp [this] at hc
  | send f =>
    simp only [fstep] at hs
    split at hs
    · -- born n → NewFlowTrace
      next n hp =>
      cases hs
      have hf : s.phase f ≠ .none_ := by rw [hp]; simp
      have hnd : s.phase f ≠ .dead := by rw [hp]; simp
      have hnc := h.not_ceased hf hnd
      have hnt : f ∉ sc.termd := fun e => hnd (h.termd f e)
      have hstep : scanStep sc (.newflow f) = .ok { sc with started := f :: sc.started } := by
        simp [scanStep, hnc, hnt]
      refine ⟨_, scan_step_ok hscan hstep, ?_⟩
      refine finv_phase h _ hf hnd ?_ ?_ ?_ rfl
      · intro j; by_cases hj : j = f
        · subst hj; simp [sent]
        · simp [hj]
      · intro j hj; exact Or.inl hj
      · intro m
        have := cntAt_setPhase s f (.fresh n) (h.lt_nflow hf) m
        simp [hp, cur] at this
        rw [this]; exact h.inside m
    · -- fresh n → VisitTrace n
      next n hp =>
      cases hs
      have hf : s.phase f ≠ .none_ := by rw [hp]; simp
      have hnd : s.phase f ≠ .dead := by rw [hp]; simp
      have hnc := h.not_ceased hf hnd
      have hstep : scanStep sc (.visit n) = .ok { sc with inside := n :: sc.inside } := by
        simp [scanStep, hnc]
      refine ⟨_, scan_step_ok hscan hstep, ?_⟩
      refine finv_phase h _ hf hnd ?_ ?_ ?_ rfl
      · intro j; by_cases hj : j = f
        · subst hj; simp [sent, h.started, hp]
        · simp [hj]
      · intro j hj; exact Or.inl hj
      · intro m
        have := cntAt_setPhase s f (.at n) (h.lt_nflow hf) m
        simp only [hp, cur] at this
        have hi := h.inside m
        show _ ≤ List.count m (n :: sc.inside)
        by_cases hm : n = m
        · subst hm; simp at this; rw [List.count_cons_self]; omega
        · have hne : ¬ (some n = some m) := by simpa using hm
          simp [hne] at this
          rw [List.count_cons_of_ne hm]; omega
    · -- moved n n' ts → VisitTrace n'
      next n n' ts hp =>
      cases hs
      have hf : s.phase f ≠ .none_ := by rw [hp]; simp
      have hnd : s.phase f ≠ .dead := by rw [hp]; simp
      have hnc := h.not_ceased hf hnd
      have hstep : scanStep sc (.visit n') = .ok { sc with inside := n' :: sc.inside } := by
        simp [scanStep, hnc]
      refine ⟨_, scan_step_ok hscan hstep, ?_⟩
      refine finv_phase h _ hf hnd ?_ ?_ ?_ rfl
      · intro j; by_cases hj : j = f
        · subst hj; simp [sent, h.started, hp]
        · simp [hj]
      · intro j hj; exact Or.inl hj
      · intro m
        have := cntAt_setPhase s f (.arrived n n' ts) (h.lt_nflow hf) m
        simp only [hp, cur] at this
        have hi := h.inside m
        show _ ≤ List.count m (n' :: sc.inside)
        by_cases hm : n' = m
        · subst hm; simp at this; rw [List.count_cons_self]; omega
        · have hne : ¬ (some n' = some m) := by simpa using hm
          simp [hne] at this
          rw [List.count_cons_of_ne hm]; omega
    · -- arrived n n' ts → FlowTrace, then the announced flows are started
      next n n' ts hp =>
      cases hs
      have hf : s.phase f ≠ .none_ := by rw [hp]; simp
      have hnd : s.phase f ≠ .dead := by rw [hp]; simp
      have hnc := h.not_ceased hf hnd
      have hnt : f ∉ sc.termd := fun e => hnd (h.termd f e)
      have hst : f ∈ sc.started := by rw [h.started, hp]; rfl
      have hnew : ((List.range ts.length).map (· + s.nflow)).find? (fun g => decide (g ∈ sc.started)) = none := by
        rw [List.find?_eq_none]
        intro g hg
        simp only [List.mem_map, List.mem_range] at hg
        obtain ⟨k, _, rfl⟩ := hg
        have : s.phase (k + s.nflow) = .none_ := h.alloc _ (by omega)
        simp [h.started, this, sent]
      have hstep : scanStep sc (.flow n (f :: (List.range ts.length).map (· + s.nflow))) = .ok sc := by
        simp only [scanStep, hnc, Bool.false_and]
        simp [hnt, hst, hnew]
      refine ⟨sc, ?_, ?_⟩
      · have := scan_step_ok hscan hstep
        rw [(spawn_spec ts _).2.1]
        exact this
      · have hbase : FInv ({ s.setPhase f (.at n') with
            log := s.log ++ [.flow n (f :: (List.range ts.length).map (· + s.nflow))] } : FSt) sc := by
          refine finv_phase h _ hf hnd ?_ ?_ ?_ rfl
          · intro j; by_cases hj : j = f
            · subst hj; simp [sent, hst]
            · simp [hj]
          · intro j hj; exact Or.inl hj
          · intro m
            have := cntAt_setPhase s f (.at n') (h.lt_nflow hf) m
            simp only [hp, cur] at this
            have hi := h.inside m
            by_cases hm : n' = m
            · subst hm; simp at this; omega
            · have hne : ¬ (some n' = some m) := by simpa using hm
              simp [hne] at this
              omega
        obtain ⟨a1, a2, a3, a4, a5, a6⟩ := spawn_spec ts ({ s.setPhase f (.at n') with
            log := s.log ++ [.flow n (f :: (List.range ts.length).map (· + s.nflow))] } : FSt)
        constructor
        · intro j
          rw [hbase.started j]
          rcases Nat.lt_or_ge j s.nflow with hj | hj
          · rw [a4 j hj]
          · rcases Nat.lt_or_ge j (s.nflow + ts.length) with hj2 | hj2
            · obtain ⟨t, ht⟩ := a6 j hj hj2
              rw [ht, hbase.alloc j hj]; simp [sent]
            · rw [a5 j hj2]
        · intro j hj
          have hd := hbase.termd j hj
          rcases Nat.lt_or_ge j s.nflow with hj1 | hj1
          · rw [a4 j hj1]; exact hd
          · rw [hbase.alloc j hj1] at hd; cases hd
        · intro j hj
          have a1' : (({ s.setPhase f (.at n') with
            log := s.log ++ [.flow n (f :: (List.range ts.length).map (· + s.nflow))] } : FSt).spawn ts).nflow
              = s.nflow + ts.length := a1
          rw [a1'] at hj
          rw [a5 j hj]
          exact hbase.alloc j (by show s.nflow ≤ j; omega)
        · intro m; rw [cntAt_spawn]; exact hbase.inside m
        · rw [a3]; exact hbase.ceased
        · intro hc j hj
          rw [a3] at hc
          have hq := hbase.quiet hc
          rcases Nat.lt_or_ge j s.nflow with hj1 | hj1
          · rw [a4 j hj1]; exact hq j hj1
          · -- a ceased monitor and a sending flow cannot coexist
            have : sc.ceased = true := by rw [hbase.ceased]; exact hc
            rw [hnc] at this; cases this
    · cases hs
  | move f n' ts =>
    simp only [fstep] at hs
    split at hs
    · next n hp =>
      cases hs
      have hf : s.phase f ≠ .none_ := by rw [hp]; simp
      have hnd : s.phase f ≠ .dead := by rw [hp]; simp
      have hnc := h.not_ceased hf hnd
      have hone := cnt_le_of_member (h.lt_nflow hf) (show cur (s.phase f) = some n by rw [hp]; rfl)
      have hmem : n ∈ sc.inside := by
        rw [← List.count_pos_iff]
        have := h.inside n; omega
      have hstep : scanStep sc (.leave n) = .ok { sc with inside := sc.inside.erase n } := by
        simp [scanStep, hnc, hmem]
      refine ⟨_, scan_step_ok hscan hstep, ?_⟩
      refine finv_phase h _ hf hnd ?_ ?_ ?_ rfl
      · intro j; by_cases hj : j = f
        · subst hj; simp [sent, h.started, hp]
        · simp [hj]
      · intro j hj; exact Or.inl hj
      · intro m
        have := cntAt_setPhase s f (.moved n n' ts) (h.lt_nflow hf) m
        simp only [hp, cur] at this
        have hi := h.inside m
        show _ ≤ List.count m (sc.inside.erase n)
        by_cases hm : n = m
        · subst hm; simp at this; rw [List.count_erase_self]; omega
        · have hne : ¬ (some n = some m) := by simpa using hm
          simp [hne] at this
          rw [List.count_erase_of_ne (fun e => hm e.symm)]; omega
    · cases hs
  | term f =>
    simp only [fstep] at hs
    split at hs
    · next n hp =>
      cases hs
      have hf : s.phase f ≠ .none_ := by rw [hp]; simp
      have hnd : s.phase f ≠ .dead := by rw [hp]; simp
      have hnc := h.not_ceased hf hnd
      have hnt : f ∉ sc.termd := fun e => hnd (h.termd f e)
      have hst : f ∈ sc.started := by rw [h.started, hp]; rfl
      have hstep : scanStep sc (.term f) = .ok { sc with termd := f :: sc.termd } := by
        simp [scanStep, hnc, hnt, hst]
      refine ⟨_, scan_step_ok hscan hstep, ?_⟩
      refine finv_phase h _ hf hnd ?_ ?_ ?_ rfl
      · intro j; by_cases hj : j = f
        · subst hj; simp [sent, hst]
        · simp [hj]
      · intro j hj
        simp only [List.mem_cons] at hj
        rcases hj with e | e
        · exact Or.inr ⟨e, rfl⟩
        · exact Or.inl e
      · intro m
        have := cntAt_setPhase s f .dead (h.lt_nflow hf) m
        simp only [hp, cur] at this
        have hi := h.inside m
        simp at this
        show _ ≤ List.count m sc.inside
        omega
    · cases hs
  | die f =>
    simp only [fstep] at hs
    split at hs
    · next n hp =>
      cases hs
      have hf : s.phase f ≠ .none_ := by rw [hp]; simp
      have hnd : s.phase f ≠ .dead := by rw [hp]; simp
      have hnc := h.not_ceased hf hnd
      have hnt : f ∉ sc.termd := fun e => hnd (h.termd f e)
      have hst : f ∈ sc.started := by rw [h.started, hp]; rfl
      have hstep : scanStep sc (.cancel f) = .ok { sc with termd := f :: sc.termd } := by
        simp [scanStep, hnc, hnt, hst]
      refine ⟨_, scan_step_ok hscan hstep, ?_⟩
      refine finv_phase h _ hf hnd ?_ ?_ ?_ rfl
      · intro j; by_cases hj : j = f
        · subst hj; simp [sent, hst]
        · simp [hj]
      · intro j hj
        simp only [List.mem_cons] at hj
        rcases hj with e | e
        · exact Or.inr ⟨e, rfl⟩
        · exact Or.inl e
      · intro m
        have := cntAt_setPhase s f .dead (h.lt_nflow hf) m
        simp only [hp, cur] at this
        have hi := h.inside m
        simp at this
        show _ ≤ List.count m sc.inside
        omega
    · cases hs
  | quit f =>
    simp only [fstep] at hs
    split at hs
    · next n hp =>
      cases hs
      have hf : s.phase f ≠ .none_ := by rw [hp]; simp
      have hnd : s.phase f ≠ .dead := by rw [hp]; simp
      have hst : f ∈ sc.started := by rw [h.started, hp]; rfl
      have hstep : scanStep sc .other = .ok sc := by
        simp [scanStep, Trace.isFlowTrace]
      refine ⟨_, scan_step_ok hscan hstep, ?_⟩
      refine finv_phase h _ hf hnd ?_ ?_ ?_ rfl
      · intro j; by_cases hj : j = f
        · subst hj; simp [sent, hst]
        · simp [hj]
      · intro j hj; exact Or.inl hj
      · intro m
        have := cntAt_setPhase s f .dead (h.lt_nflow hf) m
        simp only [hp, cur] at this
        have hi := h.inside m
        simp at this
        omega
    · cases hs
  | other =>
    simp only [fstep, Option.some.injEq] at hs
    subst hs
    have hstep : scanStep sc .other = .ok sc := by simp [scanStep, Trace.isFlowTrace]
    exact ⟨sc, scan_step_ok hscan hstep, ⟨h.started, h.termd, h.alloc, h.inside, h.ceased, h.quiet⟩⟩
  | cease =>
    simp only [fstep] at hs
    split at hs
    · next hc =>
      cases hs
      simp only [Bool.and_eq_true, Bool.not_eq_true'] at hc
      have hstep : scanStep sc .cease = .ok { sc with ceased := true } := by
        simp [scanStep, Trace.isFlowTrace]
      refine ⟨_, scan_step_ok hscan hstep, ?_⟩
      refine ⟨h.started, h.termd, h.alloc, h.inside, rfl, ?_⟩
      intro _ j hj
      have := List.all_eq_true.mp hc.2 j (List.mem_range.mpr hj)
      simpa using this
    · cases hs

theorem good_run (sched : List FAct) : ∀ s, Good s → Good (frun s sched) := by
  induction sched with
  | nil => intro s h; exact h
  | cons a l ih =>
    intro s h
    show Good (frun (fstep' s a) l)
    apply ih
    unfold fstep'
    cases hs : fstep s a with
    | none => exact h
    | some s' => exact good_step h hs

end Bpmn.Model.FlowOrder
