import Bpmn.Lemmas.Completion
/-! Safety invariants of the completion model, preserved by every choice (all schedules, all histories of calls). -/
namespace Bpmn.Model.Completion

/-! ## Counters -/

structure Cnt (P : Params) (s : St) : Prop where
  c1 : s.sent ≤ s.fired
  c2 : s.fired ≤ s.triggered
  c3 : s.triggered + trigCount s.prog = P.n
  owe : s.fired - s.sent ≤ s.wg

theorem cnt_init (P : Params) (h : trigCount (program P) = P.n) : Cnt P (init P) := by
  constructor <;> simp [init, h]

theorem stepMon_frame (P : Params) (s : St) (k : Nat) :
    (stepMon P s k).prog = s.prog ∧ (stepMon P s k).triggered = s.triggered ∧ (stepMon P s k).fired = s.fired ∧
    (stepMon P s k).sent = s.sent ∧ (stepMon P s k).wg = s.wg ∧ (stepMon P s k).waits = s.waits := by
  unfold stepMon
  repeat' split
  all_goals simp

theorem stepDeliver_frame (P : Params) (s : St) :
    (stepDeliver P s).prog = s.prog ∧ (stepDeliver P s).triggered = s.triggered ∧ (stepDeliver P s).fired = s.fired ∧
    (stepDeliver P s).sent = s.sent ∧ (stepDeliver P s).wg = s.wg ∧ (stepDeliver P s).waits = s.waits ∧
    (stepDeliver P s).lock = s.lock ∧ (stepDeliver P s).log = s.log ∧ (stepDeliver P s).subs = s.subs := by
  unfold stepDeliver
  repeat' split
  all_goals simp

theorem stepHelper_frame (P : Params) (s : St) (w : Nat) :
    (stepHelper P s w).prog = s.prog ∧ (stepHelper P s w).triggered = s.triggered ∧ (stepHelper P s w).fired = s.fired ∧
    (stepHelper P s w).sent = s.sent ∧ (stepHelper P s w).wg = s.wg ∧ (stepHelper P s w).mons = s.mons ∧
    (stepHelper P s w).subs = s.subs ∧ (stepHelper P s w).pending = s.pending ∧ (stepHelper P s w).log = s.log := by
  unfold stepHelper
  repeat' split
  all_goals simp

theorem stepRecv_frame (s : St) (w : Nat) :
    (stepRecv s w).prog = s.prog ∧ (stepRecv s w).triggered = s.triggered ∧ (stepRecv s w).fired = s.fired ∧
    (stepRecv s w).sent = s.sent ∧ (stepRecv s w).wg = s.wg ∧ (stepRecv s w).mons = s.mons ∧
    (stepRecv s w).subs = s.subs ∧ (stepRecv s w).pending = s.pending ∧ (stepRecv s w).log = s.log ∧
    (stepRecv s w).lock = s.lock := by
  unfold stepRecv
  repeat' split
  all_goals simp

theorem stepExpire_frame (s : St) (w : Nat) :
    (stepExpire s w).prog = s.prog ∧ (stepExpire s w).triggered = s.triggered ∧ (stepExpire s w).fired = s.fired ∧
    (stepExpire s w).sent = s.sent ∧ (stepExpire s w).wg = s.wg ∧ (stepExpire s w).mons = s.mons ∧
    (stepExpire s w).subs = s.subs ∧ (stepExpire s w).pending = s.pending ∧ (stepExpire s w).log = s.log ∧
    (stepExpire s w).lock = s.lock := by
  unfold stepExpire
  repeat' split
  all_goals simp

theorem cnt_step {P : Params} {s : St} (h : Cnt P s) (c : Choice) : Cnt P (step P s c) := by
  obtain ⟨h1, h2, h3, h4⟩ := h
  cases c with
  | starter =>
    simp only [step, stepStarter]
    split
    · exact ⟨h1, h2, h3, h4⟩
    · next r hp => constructor <;> simp_all [trigCount] <;> omega
    · next r hp => split <;> constructor <;> simp_all [trigCount]
    · next r hp => split <;> constructor <;> simp_all [trigCount]
  | mon k =>
    obtain ⟨e1, e2, e3, e4, e5, _⟩ := stepMon_frame P s k
    simp only [step]; constructor <;> simp [*]
  | deliver =>
    obtain ⟨e1, e2, e3, e4, e5, _⟩ := stepDeliver_frame P s
    simp only [step]; constructor <;> simp [*]
  | helper w =>
    obtain ⟨e1, e2, e3, e4, e5, _⟩ := stepHelper_frame P s w
    simp only [step]; constructor <;> simp [*]
  | recv w =>
    obtain ⟨e1, e2, e3, e4, e5, _⟩ := stepRecv_frame s w
    simp only [step]; constructor <;> simp [*]
  | expire w =>
    obtain ⟨e1, e2, e3, e4, e5, _⟩ := stepExpire_frame s w
    simp only [step]; constructor <;> simp [*]
  | call => simp only [step]; exact ⟨h1, h2, h3, h4⟩
  | fire => simp only [step]; split <;> constructor <;> simp_all <;> omega
  | startTrace => simp only [step]; split <;> constructor <;> simp_all <;> omega
  | other => simp only [step]; split <;> constructor <;> simp_all
  | strayTrace => simp only [step]; split <;> constructor <;> simp_all
  | birth => simp only [step]; split <;> constructor <;> simp_all <;> omega
  | spawnStray => simp only [step]; split <;> constructor <;> simp_all <;> omega
  | death => simp only [step]; split <;> constructor <;> simp_all <;> omega

/-! ## What a monitor has counted never exceeds what the start events have reported -/

structure MonCnt (s : St) : Prop where
  cnt : ∀ k m, s.mons[k]? = some m → m.count + starts m.buf + pendFor s k ≤ s.sent
  nodup : s.subs.Nodup
  lt : ∀ k ∈ s.subs, k < s.mons.length

theorem pendFor_none {s : St} (h : s.pending = none) (k : Nat) : pendFor s k = 0 := by simp [pendFor, h]

theorem pendFor_congr {s s' : St} (h : s'.pending = s.pending) (k : Nat) : pendFor s' k = pendFor s k := by
  simp [pendFor, h]

theorem starts_cons (t : Trace) (r : List Trace) : starts (t :: r) = starts r + isStart t := by
  cases t <;> simp [starts, isStart]

theorem starts_append (t : Trace) (r : List Trace) : starts (r ++ [t]) = starts r + isStart t := by
  cases t <;> simp [starts, isStart, List.count_append]

theorem monCnt_init (P : Params) : MonCnt (init P) := by
  constructor <;> simp [init]

theorem monCnt_step {P : Params} {s : St} (h : MonCnt s) (c : Choice) : MonCnt (step P s c) := by
  obtain ⟨hc, hn, hl⟩ := h
  cases c with
  | starter =>
    simp only [step, stepStarter]
    split
    · exact ⟨hc, hn, hl⟩
    · exact ⟨fun k m hk => by simpa [pendFor] using hc k m hk, hn, hl⟩
    · next r hp =>
      split
      · next hpn =>
        simp at hpn
        refine ⟨?_, ?_, ?_⟩
        · intro k m hk
          simp only [pendFor, hpn]
          rw [List.getElem?_append] at hk
          split at hk
          · have := hc k m hk; simp [pendFor, hpn] at this; omega
          · have : m = {} := by
              by_cases e : k - s.mons.length = 0 <;> simp [e] at hk
              exact hk.symm
            subst this; simp [starts]
        · simp only
          rw [List.nodup_append]
          refine ⟨hn, by simp, ?_⟩
          intro a ha b hb
          simp at hb; subst hb
          have := hl a ha; omega
        · intro k hk
          simp at hk ⊢
          rcases hk with hk | rfl
          · have := hl k hk; omega
          · omega
      · exact ⟨hc, hn, hl⟩
    · next r hp =>
      split
      · refine ⟨?_, hn, by simpa using hl⟩
        apply forall_idx_upd
        · intro k m _ hk; simpa [pendFor] using hc k m hk
        · intro m hk; simpa [pendFor] using hc _ m hk
      · exact ⟨hc, hn, hl⟩
  | mon k0 =>
    simp only [step, stepMon]
    split
    · exact ⟨hc, hn, hl⟩
    · next m0 hm0 =>
      have h0 := hc k0 m0 hm0
      split
      · exact ⟨hc, hn, hl⟩
      · split
        · refine ⟨?_, hn, by simpa using hl⟩
          apply forall_idx_upd
          · intro k m _ hk; simpa [pendFor] using hc k m hk
          · intro m hk; simpa [pendFor] using hc _ m hk
        · split
          · exact ⟨hc, hn, hl⟩
          · next t r hb =>
            refine ⟨?_, hn, by simpa using hl⟩
            apply forall_idx_upd
            · intro k m _ hk; simpa [pendFor] using hc k m hk
            · intro m hk
              rw [hm0] at hk; cases hk
              simp only [pendFor] at h0 ⊢
              rw [hb, starts_cons] at h0
              omega
      · split
        · refine ⟨?_, swapRemove_nodup _ hn, ?_⟩
          · apply forall_idx_upd
            · intro k m _ hk; simpa [pendFor] using hc k m hk
            · intro m hk
              have := hc _ m hk
              simp only [pendFor, starts] at this ⊢
              simp; omega
          · intro k hk; simpa using hl k (mem_swapRemove hk)
        · split
          · exact ⟨hc, hn, hl⟩
          · next t r hb =>
            refine ⟨?_, hn, by simpa using hl⟩
            apply forall_idx_upd
            · intro k m _ hk; simpa [pendFor] using hc k m hk
            · intro m hk
              rw [hm0] at hk; cases hk
              simp only [pendFor] at h0 ⊢
              rw [hb, starts_cons] at h0
              omega
      · split
        · refine ⟨?_, hn, by simpa using hl⟩
          apply forall_idx_upd
          · intro k m _ hk; simpa [pendFor] using hc k m hk
          · intro m hk; simpa [pendFor] using hc _ m hk
        · exact ⟨hc, hn, hl⟩
      · split
        · next hpn =>
          simp at hpn
          refine ⟨?_, hn, by simpa using hl⟩
          apply forall_idx_upd
          · intro k m _ hk
            have := hc k m hk
            simp only [pendFor, hpn] at this
            simp only [pendFor, mkPending]
            split <;> simp_all
          · intro m hk
            have := hc _ m hk
            simp only [pendFor, hpn] at this
            simp only [pendFor, mkPending]
            split <;> simp_all
        · exact ⟨hc, hn, hl⟩
      · refine ⟨?_, hn, by simpa using hl⟩
        apply forall_idx_upd
        · intro k m _ hk; simpa [pendFor] using hc k m hk
        · intro m hk; simpa [pendFor] using hc _ m hk
      · exact ⟨hc, hn, hl⟩
  | deliver =>
    simp only [step, stepDeliver]
    split
    · exact ⟨hc, hn, hl⟩
    · next t hp =>
      refine ⟨?_, hn, hl⟩
      intro k m hk
      have := hc k m hk
      cases t <;> simp_all [pendFor]
    · next t k0 ks hp =>
      split
      · exact ⟨hc, hn, hl⟩
      · next m0 hm0 =>
        split
        · refine ⟨?_, hn, by simpa using hl⟩
          apply forall_idx_upd
          · intro k m hne hk
            have := hc k m hk
            have e : (k0 == k) = false := by simp; exact fun h => hne h.symm
            cases t <;> (split <;> simp_all [pendFor, List.count_cons])
          · intro m hk
            have := hc _ m hk
            cases t <;> (split <;> simp_all [pendFor, List.count_cons, starts_append, isStart]) <;> omega
        · exact ⟨hc, hn, hl⟩
  | helper w =>
    obtain ⟨_, _, _, e4, _, e6, e7, e8, _⟩ := stepHelper_frame P s w
    simp only [step]
    exact ⟨fun k m hk => by rw [e6] at hk; rw [pendFor_congr e8, e4]; exact hc k m hk, e7 ▸ hn, by rw [e7, e6]; exact hl⟩
  | recv w =>
    obtain ⟨_, _, _, e4, _, e6, e7, e8, _⟩ := stepRecv_frame s w
    simp only [step]
    exact ⟨fun k m hk => by rw [e6] at hk; rw [pendFor_congr e8, e4]; exact hc k m hk, e7 ▸ hn, by rw [e7, e6]; exact hl⟩
  | expire w =>
    obtain ⟨_, _, _, e4, _, e6, e7, e8, _⟩ := stepExpire_frame s w
    simp only [step]
    exact ⟨fun k m hk => by rw [e6] at hk; rw [pendFor_congr e8, e4]; exact hc k m hk, e7 ▸ hn, by rw [e7, e6]; exact hl⟩
  | call => simp only [step]; exact ⟨fun k m hk => by simpa [pendFor] using hc k m hk, hn, hl⟩
  | fire =>
    simp only [step]; split
    · exact ⟨fun k m hk => by simpa [pendFor] using hc k m hk, hn, hl⟩
    · exact ⟨hc, hn, hl⟩
  | startTrace =>
    simp only [step]; split
    · next hpn =>
      refine ⟨?_, hn, hl⟩
      intro k m hk
      have := hc k m hk
      have hcnt : s.subs.count k ≤ 1 := by rw [hn.count]; split <;> omega
      simp only [pendFor, mkPending] at this ⊢
      simp at hpn
      simp only [hpn.2] at this
      split <;> simp_all <;> omega
    · exact ⟨hc, hn, hl⟩
  | other =>
    simp only [step]; split
    · next hpn =>
      refine ⟨?_, hn, hl⟩
      intro k m hk
      have := hc k m hk
      simp at hpn
      simp only [pendFor, mkPending, hpn.2] at this ⊢
      split <;> simp_all
    · exact ⟨hc, hn, hl⟩
  | strayTrace =>
    simp only [step]; split
    · next hpn =>
      refine ⟨?_, hn, hl⟩
      intro k m hk
      have := hc k m hk
      simp at hpn
      simp only [pendFor, mkPending, hpn.2] at this ⊢
      split <;> simp_all
    · exact ⟨hc, hn, hl⟩
  | birth =>
    simp only [step]; split
    · exact ⟨fun k m hk => by simpa [pendFor] using hc k m hk, hn, hl⟩
    · exact ⟨hc, hn, hl⟩
  | spawnStray =>
    simp only [step]; split
    · exact ⟨fun k m hk => by simpa [pendFor] using hc k m hk, hn, hl⟩
    · exact ⟨hc, hn, hl⟩
  | death =>
    simp only [step]; split
    · exact ⟨fun k m hk => by simpa [pendFor] using hc k m hk, hn, hl⟩
    · exact ⟨hc, hn, hl⟩

/-! ## Quietness is stable; a monitor past the wait group lives in a quiet state -/

theorem quiet_step {P : Params} {s : St} (hc : Cnt P s) (hq : quiet P s) (c : Choice) : quiet P (step P s c) := by
  obtain ⟨q1, q2, q3⟩ := hq
  have ht : s.triggered ≤ P.n := by have := hc.c3; omega
  cases c with
  | starter =>
    simp only [step, stepStarter, quiet]
    repeat' split
    all_goals exact ⟨q1, q2, q3⟩
  | mon k => obtain ⟨_, _, e3, e4, e5, _⟩ := stepMon_frame P s k; simp only [step, quiet, e3, e4, e5]; exact ⟨q1, q2, q3⟩
  | deliver => obtain ⟨_, _, e3, e4, e5, _⟩ := stepDeliver_frame P s; simp only [step, quiet, e3, e4, e5]; exact ⟨q1, q2, q3⟩
  | helper w => obtain ⟨_, _, e3, e4, e5, _⟩ := stepHelper_frame P s w; simp only [step, quiet, e3, e4, e5]; exact ⟨q1, q2, q3⟩
  | recv w => obtain ⟨_, _, e3, e4, e5, _⟩ := stepRecv_frame s w; simp only [step, quiet, e3, e4, e5]; exact ⟨q1, q2, q3⟩
  | expire w => obtain ⟨_, _, e3, e4, e5, _⟩ := stepExpire_frame s w; simp only [step, quiet, e3, e4, e5]; exact ⟨q1, q2, q3⟩
  | call => exact ⟨q1, q2, q3⟩
  | fire => simp only [step]; split; · omega
            exact ⟨q1, q2, q3⟩
  | startTrace => simp only [step]; split; · omega
                  exact ⟨q1, q2, q3⟩
  | other => simp only [step]; split; · omega
             exact ⟨q1, q2, q3⟩
  | strayTrace => simp only [step]; split <;> exact ⟨q1, q2, q3⟩
  | birth => simp only [step]; split; · omega
             exact ⟨q1, q2, q3⟩
  | spawnStray => simp only [step]; split <;> exact ⟨q1, q2, q3⟩
  | death => simp only [step]; split; · omega
             exact ⟨q1, q2, q3⟩

structure MonPc (P : Params) (s : St) : Prop where
  counted : ∀ (k : Nat) (m : Mon), s.mons[k]? = some m → m.pc.counted = true → m.count = P.n
  past : ∀ (k : Nat) (m : Mon), s.mons[k]? = some m → m.pc.pastWg = true → quiet P s

theorem monPc_init (P : Params) : MonPc P (init P) := by
  constructor <;> simp [init]

theorem monPc_step {P : Params} {s : St} (hC : Cnt P s) (hM : MonCnt s) (h : MonPc P s) (c : Choice) :
    MonPc P (step P s c) := by
  obtain ⟨h1, h2⟩ := h
  -- steps that leave the monitors alone
  have frame : (step P s c).mons = s.mons → MonPc P (step P s c) := fun e =>
    ⟨fun k m hk hp => h1 k m (e ▸ hk) hp, fun k m hk hp => quiet_step hC (h2 k m (e ▸ hk) hp) c⟩
  cases c with
  | starter =>
    simp only [step, stepStarter]
    split
    · exact ⟨h1, h2⟩
    · exact ⟨h1, h2⟩
    · split
      · refine ⟨?_, ?_⟩
        · intro k m hk hp
          rw [List.getElem?_append] at hk
          split at hk
          · exact h1 k m hk hp
          · by_cases e : k - s.mons.length = 0 <;> simp [e] at hk
            subst hk; simp [MPc.counted] at hp
        · intro k m hk hp
          rw [List.getElem?_append] at hk
          split at hk
          · exact h2 k m hk hp
          · by_cases e : k - s.mons.length = 0 <;> simp [e] at hk
            subst hk; simp [MPc.pastWg] at hp
      · exact ⟨h1, h2⟩
    · split
      · refine ⟨?_, ?_⟩
        · apply forall_idx_upd
          · intro k m _ hk hp; exact h1 k m hk hp
          · intro m hk hp; simp [MPc.counted] at hp
        · apply forall_idx_upd
          · intro k m _ hk hp; exact h2 k m hk hp
          · intro m hk hp; simp [MPc.pastWg] at hp
      · exact ⟨h1, h2⟩
  | mon k0 =>
    simp only [step, stepMon]
    split
    · exact ⟨h1, h2⟩
    · next m0 hm0 =>
      split
      · exact ⟨h1, h2⟩
      · next hpc =>
        split
        · next hcn =>
          refine ⟨?_, ?_⟩
          · apply forall_idx_upd
            · intro k m _ hk hp; exact h1 k m hk hp
            · intro m hk hp; rw [hm0] at hk; cases hk; exact hcn
          · apply forall_idx_upd
            · intro k m _ hk hp; exact h2 k m hk hp
            · intro m hk hp; simp [MPc.pastWg] at hp
        · split
          · exact ⟨h1, h2⟩
          · refine ⟨?_, ?_⟩
            · apply forall_idx_upd
              · intro k m _ hk hp; exact h1 k m hk hp
              · intro m hk hp; rw [hm0] at hk; cases hk; simp [hpc, MPc.counted] at hp
            · apply forall_idx_upd
              · intro k m _ hk hp; exact h2 k m hk hp
              · intro m hk hp; rw [hm0] at hk; cases hk; simp [hpc, MPc.pastWg] at hp
      · next hpc =>
        have hcn : m0.count = P.n := h1 k0 m0 hm0 (by simp [hpc, MPc.counted])
        split
        · refine ⟨?_, ?_⟩
          · apply forall_idx_upd
            · intro k m _ hk hp; exact h1 k m hk hp
            · intro m hk hp; rw [hm0] at hk; cases hk; exact hcn
          · apply forall_idx_upd
            · intro k m _ hk hp; exact h2 k m hk hp
            · intro m hk hp; simp [MPc.pastWg] at hp
        · split
          · exact ⟨h1, h2⟩
          · refine ⟨?_, ?_⟩
            · apply forall_idx_upd
              · intro k m _ hk hp; exact h1 k m hk hp
              · intro m hk hp; rw [hm0] at hk; cases hk; exact hcn
            · apply forall_idx_upd
              · intro k m _ hk hp; exact h2 k m hk hp
              · intro m hk hp; rw [hm0] at hk; cases hk; simp [hpc, MPc.pastWg] at hp
      · next hpc =>
        have hcn : m0.count = P.n := h1 k0 m0 hm0 (by simp [hpc, MPc.counted])
        split
        · next hwg =>
          have hq : quiet P s := by
            have a := hM.cnt k0 m0 hm0
            have b := hC.c1; have c := hC.c2; have d := hC.c3
            refine ⟨?_, ?_, hwg⟩ <;> omega
          refine ⟨?_, ?_⟩
          · apply forall_idx_upd
            · intro k m _ hk hp; exact h1 k m hk hp
            · intro m hk hp; simp [MPc.counted] at hp
          · intro k m _ _; exact hq
        · exact ⟨h1, h2⟩
      · next hpc =>
        have hq : quiet P s := h2 k0 m0 hm0 (by simp [hpc, MPc.pastWg])
        split
        · refine ⟨?_, ?_⟩
          · apply forall_idx_upd
            · intro k m _ hk hp; exact h1 k m hk hp
            · intro m hk hp; simp [MPc.counted] at hp
          · intro k m _ _; exact hq
        · exact ⟨h1, h2⟩
      · next hpc =>
        have hq : quiet P s := h2 k0 m0 hm0 (by simp [hpc, MPc.pastWg])
        refine ⟨?_, ?_⟩
        · apply forall_idx_upd
          · intro k m _ hk hp; exact h1 k m hk hp
          · intro m hk hp; simp [MPc.counted] at hp
        · intro k m _ _; exact hq
      · exact ⟨h1, h2⟩
  | deliver =>
    simp only [step, stepDeliver]
    split
    · exact ⟨h1, h2⟩
    · exact ⟨h1, h2⟩
    · split
      · exact ⟨h1, h2⟩
      · split
        · refine ⟨?_, ?_⟩
          · apply forall_idx_upd
            · intro k m _ hk hp; exact h1 k m hk hp
            · intro m hk hp; exact h1 _ m hk hp
          · apply forall_idx_upd
            · intro k m _ hk hp; exact h2 k m hk hp
            · intro m hk hp; exact h2 _ m hk hp
        · exact ⟨h1, h2⟩
  | helper w => exact frame (stepHelper_frame P s w).2.2.2.2.2.1
  | recv w => exact frame (stepRecv_frame s w).2.2.2.2.2.1
  | expire w => exact frame (stepExpire_frame s w).2.2.2.2.2.1
  | call => exact frame rfl
  | fire => apply frame; simp only [step]; split <;> rfl
  | startTrace => apply frame; simp only [step]; split <;> rfl
  | other => apply frame; simp only [step]; split <;> rfl
  | strayTrace => apply frame; simp only [step]; split <;> rfl
  | birth => apply frame; simp only [step]; split <;> rfl
  | spawnStray => apply frame; simp only [step]; split <;> rfl
  | death => apply frame; simp only [step]; split <;> rfl

/-! ## The completion lock and the shape of the remaining starter program -/

structure LockInv (s : St) : Prop where
  mon : ∀ (k : Nat) (m : Mon), s.mons[k]? = some m → m.pc.holds = true → s.lock = some (.mon k)
  helper : ∀ (w : Nat) (x : Wait), s.waits[w]? = some x → x.helper = .holding → s.lock = some (.helper w)
  /-- only the monitor whose creation is under way (between `Subscribe` and `Lock`) has no goroutine yet -/
  want : ∀ (k : Nat) (m : Mon), s.mons[k]? = some m →
      (m.pc = .wantLock ↔ (s.prog.head? = some .lock ∧ k + 1 = s.mons.length))
  wfp : wf s.prog = true ∨ ∃ r, s.prog = .lock :: r ∧ wf r = true ∧ s.mons ≠ []
  some : 1 ≤ s.mons.length + subCount s.prog

theorem lockInv_init (P : Params) (h1 : wf (program P) = true) (h2 : 1 ≤ subCount (program P)) : LockInv (init P) := by
  constructor <;> simp [init, h1, h2]

theorem wf_lock_false (r : List SI) : wf (.lock :: r) = false := by simp [wf]

theorem wf_subscribe {r : List SI} (h : wf (.subscribe :: r) = true) : ∃ r', r = .lock :: r' ∧ wf r' = true := by
  match r, h with
  | .lock :: r', h => exact ⟨r', rfl, by simpa [wf] using h⟩

theorem lockInv_step {P : Params} {s : St} (h : LockInv s) (c : Choice) : LockInv (step P s c) := by
  obtain ⟨hm, hh, hw, hp, hs⟩ := h
  cases c with
  | starter =>
    simp only [step, stepStarter]
    split
    · exact ⟨hm, hh, hw, hp, hs⟩
    · next r hpr =>
      have hwr : wf r = true := by
        rcases hp with hp | ⟨r', e, _⟩
        · simpa [hpr, wf] using hp
        · simp [hpr] at e
      refine ⟨hm, hh, ?_, Or.inl hwr, by simpa [hpr, subCount, List.count_cons] using hs⟩
      intro k m hk
      have := hw k m hk
      simp [hpr] at this
      constructor
      · intro h; exact absurd h this
      · intro ⟨h, _⟩
        -- r cannot start with `lock`
        cases r with
        | nil => simp at h
        | cons a r' => simp at h; subst h; simp [wf] at hwr
    · next r hpr =>
      split
      · have hwr : ∃ r', r = .lock :: r' ∧ wf r' = true := by
          rcases hp with hp | ⟨r', e, _⟩
          · exact wf_subscribe (by simpa [hpr] using hp)
          · simp [hpr] at e
        obtain ⟨r', rfl, hwr'⟩ := hwr
        refine ⟨?_, hh, ?_, Or.inr ⟨r', rfl, hwr', by simp⟩, ?_⟩
        · intro k m hk hold
          rw [List.getElem?_append] at hk
          split at hk
          · exact hm k m hk hold
          · by_cases e : k - s.mons.length = 0 <;> simp [e] at hk
            subst hk; simp [MPc.holds] at hold
        · intro k m hk
          rw [List.getElem?_append] at hk
          split at hk
          · next hlt =>
            have := hw k m hk
            simp [hpr] at this
            simp [this]; omega
          · next hge =>
            by_cases e : k - s.mons.length = 0 <;> simp [e] at hk
            subst hk; simp; omega
        · simp [hpr, subCount] at hs ⊢; omega
      · exact ⟨hm, hh, hw, hp, hs⟩
    · next r hpr =>
      split
      · next hln =>
        simp at hln
        have hwr : wf r = true ∧ s.mons ≠ [] := by
          rcases hp with hp | ⟨r', e, h1, h2⟩
          · simp [hpr, wf] at hp
          · simp [hpr] at e; subst e; exact ⟨h1, h2⟩
        have hlen : 0 < s.mons.length := List.length_pos_iff.mpr hwr.2
        refine ⟨?_, ?_, ?_, Or.inl hwr.1, by simpa [hpr, subCount, List.count_cons] using hs⟩
        · apply forall_idx_upd
          · intro k m _ hk hold; have := hm k m hk hold; simp [hln] at this
          · intro m _ _; rfl
        · intro w x hk hold; have := hh w x hk hold; simp [hln] at this
        · apply forall_idx_upd
          · intro k m hne hk
            have := hw k m hk
            simp [hpr] at this
            have hne' : ¬ (k + 1 = s.mons.length) := by omega
            simp only [upd_length]
            constructor
            · intro h; exact absurd (this.mp h) hne'
            · intro ⟨h, _⟩
              cases r with
              | nil => simp at h
              | cons a r' => simp at h; subst h; simp [wf] at hwr
          · intro m _
            simp only [upd_length]
            constructor
            · intro h; simp at h
            · intro ⟨h, _⟩
              cases r with
              | nil => simp at h
              | cons a r' => simp at h; subst h; simp [wf] at hwr
      · exact ⟨hm, hh, hw, hp, hs⟩
  | mon k0 =>
    simp only [step, stepMon]
    split
    · exact ⟨hm, hh, hw, hp, hs⟩
    · next m0 hm0 =>
      -- a pc update that keeps the lock: from a holding pc to a holding pc
      have keep : ∀ (f : Mon → Mon) (s' : St), s'.mons = upd s.mons k0 f → s'.lock = s.lock → s'.waits = s.waits →
          s'.prog = s.prog → m0.pc.holds = true → (f m0).pc.holds = true → (f m0).pc ≠ .wantLock → LockInv s' := by
        intro f s' e1 e2 e3 e4 a b c
        have hwant0 : m0.pc ≠ .wantLock := by intro h; simp [h, MPc.holds] at a
        refine ⟨?_, by rw [e2, e3]; exact hh, ?_, by rw [e4, e1]; simpa using hp, by rw [e1, e4]; simpa using hs⟩
        · rw [e1, e2]
          apply forall_idx_upd
          · intro k m _ hk hold; exact hm k m hk hold
          · intro m hk _; rw [hm0] at hk; cases hk; exact hm k0 m0 hm0 a
        · rw [e1, e4]
          apply forall_idx_upd
          · intro k m _ hk; simpa using hw k m hk
          · intro m hk; rw [hm0] at hk; cases hk
            have := hw k0 m0 hm0
            simp only [upd_length]
            constructor
            · intro h; exact absurd h c
            · intro h; exact absurd (this.mpr h) hwant0
      split
      · exact ⟨hm, hh, hw, hp, hs⟩
      · next hpc =>
        split
        · exact keep _ _ rfl rfl rfl rfl (by simp [hpc, MPc.holds]) (by simp [MPc.holds]) (by simp)
        · split
          · exact ⟨hm, hh, hw, hp, hs⟩
          · exact keep _ _ rfl rfl rfl rfl (by simp [hpc, MPc.holds]) (by simp [hpc, MPc.holds]) (by simp [hpc])
      · next hpc =>
        split
        · exact keep _ _ rfl rfl rfl rfl (by simp [hpc, MPc.holds]) (by simp [MPc.holds]) (by simp)
        · split
          · exact ⟨hm, hh, hw, hp, hs⟩
          · exact keep _ _ rfl rfl rfl rfl (by simp [hpc, MPc.holds]) (by simp [hpc, MPc.holds]) (by simp [hpc])
      · next hpc =>
        split
        · exact keep _ _ rfl rfl rfl rfl (by simp [hpc, MPc.holds]) (by simp [MPc.holds]) (by simp)
        · exact ⟨hm, hh, hw, hp, hs⟩
      · next hpc =>
        split
        · exact keep _ _ rfl rfl rfl rfl (by simp [hpc, MPc.holds]) (by simp [MPc.holds]) (by simp)
        · exact ⟨hm, hh, hw, hp, hs⟩
      · next hpc =>
        -- the unlock
        have hl : s.lock = some (.mon k0) := hm k0 m0 hm0 (by simp [hpc, MPc.holds])
        refine ⟨?_, ?_, ?_, by simpa using hp, by simpa using hs⟩
        · apply forall_idx_upd
          · intro k m hne hk hold
            have := hm k m hk hold
            rw [hl] at this; simp at this; exact absurd this.symm hne
          · intro m _ hold; simp [MPc.holds] at hold
        · intro w x hk hold
          have := hh w x hk hold
          rw [hl] at this; simp at this
        · apply forall_idx_upd
          · intro k m _ hk; simpa using hw k m hk
          · intro m hk; rw [hm0] at hk; cases hk
            have := hw k0 m0 hm0
            simp only [upd_length]
            constructor
            · intro h; simp at h
            · intro h; have := this.mpr h; simp [hpc] at this
      · exact ⟨hm, hh, hw, hp, hs⟩
  | deliver =>
    simp only [step, stepDeliver]
    split
    · exact ⟨hm, hh, hw, hp, hs⟩
    · exact ⟨hm, hh, hw, hp, hs⟩
    · split
      · exact ⟨hm, hh, hw, hp, hs⟩
      · next m0 hm0 =>
        split
        · refine ⟨?_, hh, ?_, by simpa using hp, by simpa using hs⟩
          · apply forall_idx_upd
            · intro k m _ hk hold; exact hm k m hk hold
            · intro m hk hold; exact hm _ m hk hold
          · apply forall_idx_upd
            · intro k m _ hk; simpa using hw k m hk
            · intro m hk; simpa using hw _ m hk
        · exact ⟨hm, hh, hw, hp, hs⟩
  | helper w0 =>
    simp only [step, stepHelper]
    split
    · exact ⟨hm, hh, hw, hp, hs⟩
    · next x0 hx0 =>
      split
      · split
        · next hln =>
          simp at hln
          refine ⟨?_, ?_, hw, hp, hs⟩
          · intro k m hk hold; have := hm k m hk hold; simp [hln] at this
          · apply forall_idx_upd
            · intro w x _ hk hold; have := hh w x hk hold; simp [hln] at this
            · intro x _ _; rfl
        · exact ⟨hm, hh, hw, hp, hs⟩
      · next hpc =>
        have hl : s.lock = some (.helper w0) := hh w0 x0 hx0 hpc
        have rel : ∀ (f : Wait → Wait), (∀ x, (f x).helper = .done) →
            LockInv { s with lock := none, waits := upd s.waits w0 f } := by
          intro f hf
          refine ⟨?_, ?_, hw, hp, hs⟩
          · intro k m hk hold; have := hm k m hk hold; rw [hl] at this; simp at this
          · apply forall_idx_upd
            · intro w x hne hk hold
              have := hh w x hk hold
              rw [hl] at this; simp at this; exact absurd this.symm hne
            · intro x _ hold; simp [hf] at hold
        split
        · exact rel _ (fun _ => rfl)
        · split
          · exact rel _ (fun _ => rfl)
          · exact ⟨hm, hh, hw, hp, hs⟩
      · exact ⟨hm, hh, hw, hp, hs⟩
  | recv w0 =>
    simp only [step, stepRecv]
    split
    · exact ⟨hm, hh, hw, hp, hs⟩
    · next x0 hx0 =>
      split
      · refine ⟨hm, ?_, hw, hp, hs⟩
        apply forall_idx_upd
        · intro w x _ hk hold; exact hh w x hk hold
        · intro x hk hold; exact hh _ x hk hold
      · exact ⟨hm, hh, hw, hp, hs⟩
  | expire w0 =>
    simp only [step, stepExpire]
    split
    · exact ⟨hm, hh, hw, hp, hs⟩
    · next x0 hx0 =>
      split
      · refine ⟨hm, ?_, hw, hp, hs⟩
        apply forall_idx_upd
        · intro w x _ hk hold; exact hh w x hk hold
        · intro x hk hold; exact hh _ x hk hold
      · exact ⟨hm, hh, hw, hp, hs⟩
  | call =>
    simp only [step]
    refine ⟨hm, ?_, hw, hp, hs⟩
    intro w x hk hold
    rw [List.getElem?_append] at hk
    split at hk
    · exact hh w x hk hold
    · by_cases e : w - s.waits.length = 0 <;> simp [e] at hk
      subst hk; simp at hold
  | fire => simp only [step]; split <;> exact ⟨hm, hh, hw, hp, hs⟩
  | startTrace => simp only [step]; split <;> exact ⟨hm, hh, hw, hp, hs⟩
  | other => simp only [step]; split <;> exact ⟨hm, hh, hw, hp, hs⟩
  | strayTrace => simp only [step]; split <;> exact ⟨hm, hh, hw, hp, hs⟩
  | birth => simp only [step]; split <;> exact ⟨hm, hh, hw, hp, hs⟩
  | spawnStray => simp only [step]; split <;> exact ⟨hm, hh, hw, hp, hs⟩
  | death => simp only [step]; split <;> exact ⟨hm, hh, hw, hp, hs⟩

/-! ## The log: one cease trace per monitor that got that far, and nothing but cease traces after the first -/

structure LogInv (s : St) : Prop where
  cnt : ceases s = s.mons.countP (fun m => m.pc.pastCease)
  ok : LogOk s.log

theorem logInv_init (P : Params) : LogInv (init P) := by
  constructor <;> simp [init, ceases, LogOk]

theorem exists_pastCease_of_cease {s : St} (hL : LogInv s) (h : Trace.cease ∈ s.log) :
    ∃ (k : Nat) (m : Mon), s.mons[k]? = some m ∧ m.pc.pastCease = true := by
  have h1 : 0 < ceases s := List.count_pos_iff.mpr h
  rw [hL.cnt] at h1
  obtain ⟨m, hm, hp⟩ := List.countP_pos_iff.mp h1
  obtain ⟨k, hk⟩ := List.getElem?_of_mem hm
  exact ⟨k, m, hk, hp⟩

theorem pastWg_of_pastCease {pc : MPc} (h : pc.pastCease = true) : pc.pastWg = true := by
  cases pc <;> simp_all [MPc.pastCease, MPc.pastWg]

theorem quiet_of_cease {P : Params} {s : St} (hL : LogInv s) (hP : MonPc P s) (h : Trace.cease ∈ s.log) : quiet P s := by
  obtain ⟨k, m, hk, hp⟩ := exists_pastCease_of_cease hL h
  exact hP.past k m hk (pastWg_of_pastCease hp)

theorem countP_upd_same {l : List Mon} {i : Nat} {f : Mon → Mon} {p : Mon → Bool} {y : Mon} (hy : l[i]? = some y)
    (hp : p (f y) = p y) : (upd l i f).countP p = l.countP p := by
  have := countP_upd l i f p y hy
  rw [hp] at this; omega

theorem upd_none {α : Type} {l : List α} {i : Nat} (f : α → α) (h : l[i]? = none) : upd l i f = l := by
  apply List.ext_getElem?; intro j; rw [getElem?_upd]; split
  · next e => subst e; simp [h]
  · rfl

theorem logInv_step {P : Params} {s : St} (hC : Cnt P s) (hP : MonPc P s) (hK : LockInv s) (h : LogInv s) (c : Choice) :
    LogInv (step P s c) := by
  obtain ⟨h1, h2⟩ := h
  have frame : (step P s c).mons = s.mons → (step P s c).log = s.log → LogInv (step P s c) := fun e1 e2 =>
    ⟨by simp only [ceases, e1, e2]; exact h1, e2 ▸ h2⟩
  -- a pc update of one monitor that does not cross the cease
  have same : ∀ (k0 : Nat) (m0 : Mon) (f : Mon → Mon) (s' : St), s.mons[k0]? = some m0 → s'.mons = upd s.mons k0 f →
      s'.log = s.log → (f m0).pc.pastCease = m0.pc.pastCease → LogInv s' := by
    intro k0 m0 f s' hm0 e1 e2 e3
    refine ⟨?_, e2 ▸ h2⟩
    simp only [ceases, e1, e2]
    rw [countP_upd_same hm0 (by simpa using e3)]
    exact h1
  cases c with
  | starter =>
    simp only [step, stepStarter]
    split
    · exact ⟨h1, h2⟩
    · exact ⟨h1, h2⟩
    · split
      · exact ⟨by simpa [ceases, MPc.pastCease] using h1, h2⟩
      · exact ⟨h1, h2⟩
    · next r hpr =>
      split
      · cases hl : s.mons[s.mons.length - 1]? with
        | none => rw [upd_none _ hl]; exact ⟨h1, h2⟩
        | some y =>
          have hy : y.pc = .wantLock := by
            have hlen : s.mons.length - 1 < s.mons.length := (List.getElem?_eq_some_iff.mp hl).1
            exact (hK.want _ y hl).mpr ⟨by simp [hpr], by omega⟩
          exact same _ y _ _ hl rfl rfl (by simp [hy, MPc.pastCease])
      · exact ⟨h1, h2⟩
  | mon k0 =>
    simp only [step, stepMon]
    split
    · exact ⟨h1, h2⟩
    · next m0 hm0 =>
      split
      · exact ⟨h1, h2⟩
      · next hpc =>
        split
        · exact same k0 m0 _ _ hm0 rfl rfl (by simp [hpc, MPc.pastCease])
        · split
          · exact ⟨h1, h2⟩
          · exact same k0 m0 _ _ hm0 rfl rfl (by simp [hpc, MPc.pastCease])
      · next hpc =>
        split
        · exact same k0 m0 _ _ hm0 rfl rfl (by simp [hpc, MPc.pastCease])
        · split
          · exact ⟨h1, h2⟩
          · exact same k0 m0 _ _ hm0 rfl rfl (by simp [hpc, MPc.pastCease])
      · next hpc =>
        split
        · exact same k0 m0 _ _ hm0 rfl rfl (by simp [hpc, MPc.pastCease])
        · exact ⟨h1, h2⟩
      · next hpc =>
        split
        · refine ⟨?_, ?_⟩
          · simp only [ceases, List.count_cons_self] at h1 ⊢
            have := countP_upd s.mons k0 (fun m => { m with pc := MPc.unlocking }) (fun m => m.pc.pastCease) m0 hm0
            have e1 : m0.pc.pastCease = false := by simp [hpc, MPc.pastCease]
            have e2 : MPc.unlocking.pastCease = true := rfl
            simp only [e1, e2] at this
            simp at this
            omega
          · exact ⟨fun _ => Or.inl rfl, h2⟩
        · exact ⟨h1, h2⟩
      · next hpc => exact same k0 m0 _ _ hm0 rfl rfl (by simp [hpc, MPc.pastCease])
      · exact ⟨h1, h2⟩
  | deliver =>
    simp only [step, stepDeliver]
    split
    · exact ⟨h1, h2⟩
    · exact ⟨h1, h2⟩
    · split
      · exact ⟨h1, h2⟩
      · next m0 hm0 =>
        split
        · exact same _ m0 _ _ hm0 rfl rfl rfl
        · exact ⟨h1, h2⟩
  | helper w => have e := stepHelper_frame P s w; exact frame e.2.2.2.2.2.1 e.2.2.2.2.2.2.2.2
  | recv w => have e := stepRecv_frame s w; exact frame e.2.2.2.2.2.1 e.2.2.2.2.2.2.2.2.1
  | expire w => have e := stepExpire_frame s w; exact frame e.2.2.2.2.2.1 e.2.2.2.2.2.2.2.2.1
  | call => exact frame rfl rfl
  | fire => apply frame <;> (simp only [step]; split <;> rfl)
  | birth => apply frame <;> (simp only [step]; split <;> rfl)
  | spawnStray => apply frame <;> (simp only [step]; split <;> rfl)
  | death => apply frame <;> (simp only [step]; split <;> rfl)
  | startTrace =>
    simp only [step]; split
    · next hc =>
      refine ⟨by simpa [ceases, List.count_cons] using h1, ?_, h2⟩
      intro hce
      have hq := quiet_of_cease ⟨h1, h2⟩ hP hce
      have := hC.c1
      unfold quiet at hq; omega
    · exact ⟨h1, h2⟩
  | other =>
    simp only [step]; split
    · next hc =>
      refine ⟨by simpa [ceases, List.count_cons] using h1, ?_, h2⟩
      intro hce
      have hq := quiet_of_cease ⟨h1, h2⟩ hP hce
      unfold quiet at hq; omega
    · exact ⟨h1, h2⟩
  | strayTrace =>
    simp only [step]; split
    · exact ⟨by simpa [ceases, List.count_cons] using h1, fun _ => Or.inr rfl, h2⟩
    · exact ⟨h1, h2⟩

/-! ## Calls -/

structure WaitInv (s : St) : Prop where
  early : ∀ x ∈ s.waits, x.early = false → s.prog = []
  cease : ∀ x ∈ s.waits, x.early = false → x.helper ≠ .wantLock → Trace.cease ∈ s.log
  done : ∀ x ∈ s.waits, (x.caller = .gotTrue ∨ x.sig = true) → x.helper = .done

theorem waitInv_init (P : Params) : WaitInv (init P) := by
  constructor <;> simp [init]

theorem log_mono {P : Params} {s : St} (c : Choice) {t : Trace} (h : t ∈ s.log) : t ∈ (step P s c).log := by
  cases c with
  | starter => simp only [step, stepStarter]; repeat' split
               all_goals simp [h]
  | mon k => simp only [step, stepMon]; repeat' split
             all_goals simp [h]
  | deliver => rw [show (step P s .deliver).log = s.log from (stepDeliver_frame P s).2.2.2.2.2.2.2.1]; exact h
  | helper w => rw [show (step P s (.helper w)).log = s.log from (stepHelper_frame P s w).2.2.2.2.2.2.2.2]; exact h
  | recv w => rw [show (step P s (.recv w)).log = s.log from (stepRecv_frame s w).2.2.2.2.2.2.2.2.1]; exact h
  | expire w => rw [show (step P s (.expire w)).log = s.log from (stepExpire_frame s w).2.2.2.2.2.2.2.2.1]; exact h
  | call => exact h
  | fire => simp only [step]; split <;> simp [h]
  | startTrace => simp only [step]; split <;> simp [h]
  | other => simp only [step]; split <;> simp [h]
  | strayTrace => simp only [step]; split <;> simp [h]
  | birth => simp only [step]; split <;> simp [h]
  | spawnStray => simp only [step]; split <;> simp [h]
  | death => simp only [step]; split <;> simp [h]

theorem prog_nil_stable {P : Params} {s : St} (c : Choice) (h : s.prog = []) : (step P s c).prog = [] := by
  cases c with
  | starter => simp [step, stepStarter, h]
  | mon k => rw [show (step P s (.mon k)).prog = s.prog from (stepMon_frame P s k).1]; exact h
  | deliver => rw [show (step P s .deliver).prog = s.prog from (stepDeliver_frame P s).1]; exact h
  | helper w => rw [show (step P s (.helper w)).prog = s.prog from (stepHelper_frame P s w).1]; exact h
  | recv w => rw [show (step P s (.recv w)).prog = s.prog from (stepRecv_frame s w).1]; exact h
  | expire w => rw [show (step P s (.expire w)).prog = s.prog from (stepExpire_frame s w).1]; exact h
  | call => exact h
  | fire => simp only [step]; split <;> simp [h]
  | startTrace => simp only [step]; split <;> simp [h]
  | other => simp only [step]; split <;> simp [h]
  | strayTrace => simp only [step]; split <;> simp [h]
  | birth => simp only [step]; split <;> simp [h]
  | spawnStray => simp only [step]; split <;> simp [h]
  | death => simp only [step]; split <;> simp [h]

/-- after `StartAll` returned, a free lock means some monitor has emitted the cease trace -/
theorem cease_of_lock_free {s : St} (hK : LockInv s) (hL : LogInv s) (hp : s.prog = []) (hl : s.lock = none) :
    Trace.cease ∈ s.log := by
  have hlen : 0 < s.mons.length := by have := hK.some; simp [hp, subCount] at this; omega
  obtain ⟨m, hm⟩ : ∃ m, s.mons[0]? = some m := ⟨s.mons[0], by simp⟩
  have h1 : m.pc ≠ .wantLock := by
    intro h; have := (hK.want 0 m hm).mp h; simp [hp] at this
  have h2 : m.pc.holds = false := by
    cases hh : m.pc.holds with
    | false => rfl
    | true => have := hK.mon 0 m hm hh; simp [hl] at this
  have h3 : m.pc.pastCease = true := by
    cases hpc : m.pc <;> simp_all [MPc.holds, MPc.pastCease]
  have : 0 < ceases s := by
    rw [hL.cnt]; exact List.countP_pos_iff.mpr ⟨m, List.mem_of_getElem? hm, h3⟩
  exact List.count_pos_iff.mp this

theorem waitInv_step {P : Params} {s : St} (hK : LockInv s) (hL : LogInv s) (h : WaitInv s) (c : Choice) :
    WaitInv (step P s c) := by
  obtain ⟨h1, h2, h3⟩ := h
  have frame : (step P s c).waits = s.waits → WaitInv (step P s c) := fun e =>
    ⟨fun x hx he => prog_nil_stable c (h1 x (e ▸ hx) he), fun x hx he hh => log_mono c (h2 x (e ▸ hx) he hh),
     fun x hx hh => h3 x (e ▸ hx) hh⟩
  cases c with
  | starter => apply frame; simp only [step, stepStarter]; repeat' split
               all_goals rfl
  | mon k => exact frame (stepMon_frame P s k).2.2.2.2.2
  | deliver => exact frame (stepDeliver_frame P s).2.2.2.2.2.1
  | fire => apply frame; simp only [step]; split <;> rfl
  | startTrace => apply frame; simp only [step]; split <;> rfl
  | other => apply frame; simp only [step]; split <;> rfl
  | strayTrace => apply frame; simp only [step]; split <;> rfl
  | birth => apply frame; simp only [step]; split <;> rfl
  | spawnStray => apply frame; simp only [step]; split <;> rfl
  | death => apply frame; simp only [step]; split <;> rfl
  | call =>
    simp only [step]
    refine ⟨?_, ?_, ?_⟩ <;> try dsimp only
    · intro x hx he
      simp at hx
      rcases hx with hx | rfl
      · exact h1 x hx he
      · simpa using he
    · intro x hx he hh
      simp at hx
      rcases hx with hx | rfl
      · exact h2 x hx he hh
      · simp at hh
    · intro x hx hh
      simp at hx
      rcases hx with hx | rfl
      · exact h3 x hx hh
      · simp at hh
  | helper w0 =>
    simp only [step, stepHelper]
    split
    · exact ⟨h1, h2, h3⟩
    · next x0 hx0 =>
      have hx0m : x0 ∈ s.waits := List.mem_of_getElem? hx0
      split
      · next hpc =>
        split
        · next hln =>
          simp at hln
          refine ⟨?_, ?_, ?_⟩ <;> try dsimp only
          · apply forall_mem_upd (p := fun x : Wait => x.early = false → s.prog = []) h1
            intro y hy; rw [hx0] at hy; cases hy; exact h1 x0 hx0m
          · apply forall_mem_upd (p := fun x : Wait => x.early = false → x.helper ≠ .wantLock → Trace.cease ∈ s.log) h2
            intro y hy he _; rw [hx0] at hy; cases hy
            exact cease_of_lock_free hK hL (h1 x0 hx0m he) hln
          · apply forall_mem_upd (p := fun x : Wait => (x.caller = .gotTrue ∨ x.sig = true) → x.helper = .done) h3
            intro y hy hh; rw [hx0] at hy; cases hy
            have := h3 x0 hx0m hh; simp [hpc] at this
        · exact ⟨h1, h2, h3⟩
      · next hpc =>
        have hce : x0.early = false → Trace.cease ∈ s.log := fun he => h2 x0 hx0m he (by simp [hpc])
        split
        · refine ⟨?_, ?_, ?_⟩ <;> try dsimp only
          · apply forall_mem_upd (p := fun x : Wait => x.early = false → s.prog = []) h1
            intro y hy; rw [hx0] at hy; cases hy; exact h1 x0 hx0m
          · apply forall_mem_upd (p := fun x : Wait => x.early = false → x.helper ≠ .wantLock → Trace.cease ∈ s.log) h2
            intro y hy he _; rw [hx0] at hy; cases hy; exact hce he
          · apply forall_mem_upd (p := fun x : Wait => (x.caller = .gotTrue ∨ x.sig = true) → x.helper = .done) h3
            intro y hy _; rfl
        · split
          · refine ⟨?_, ?_, ?_⟩ <;> try dsimp only
            · apply forall_mem_upd (p := fun x : Wait => x.early = false → s.prog = []) h1
              intro y hy; rw [hx0] at hy; cases hy; exact h1 x0 hx0m
            · apply forall_mem_upd (p := fun x : Wait => x.early = false → x.helper ≠ .wantLock → Trace.cease ∈ s.log) h2
              intro y hy he _; rw [hx0] at hy; cases hy; exact hce he
            · apply forall_mem_upd (p := fun x : Wait => (x.caller = .gotTrue ∨ x.sig = true) → x.helper = .done) h3
              intro y hy _; rfl
          · exact ⟨h1, h2, h3⟩
      · exact ⟨h1, h2, h3⟩
  | recv w0 =>
    simp only [step, stepRecv]
    split
    · exact ⟨h1, h2, h3⟩
    · next x0 hx0 =>
      have hx0m : x0 ∈ s.waits := List.mem_of_getElem? hx0
      split
      · next hc =>
        refine ⟨?_, ?_, ?_⟩ <;> try dsimp only
        · apply forall_mem_upd (p := fun x : Wait => x.early = false → s.prog = []) h1
          intro y hy; rw [hx0] at hy; cases hy; exact h1 x0 hx0m
        · apply forall_mem_upd (p := fun x : Wait => x.early = false → x.helper ≠ .wantLock → Trace.cease ∈ s.log) h2
          intro y hy; rw [hx0] at hy; cases hy; exact h2 x0 hx0m
        · apply forall_mem_upd (p := fun x : Wait => (x.caller = .gotTrue ∨ x.sig = true) → x.helper = .done) h3
          intro y hy _; rw [hx0] at hy; cases hy; exact h3 x0 hx0m (Or.inr hc.2)
      · exact ⟨h1, h2, h3⟩
  | expire w0 =>
    simp only [step, stepExpire]
    split
    · exact ⟨h1, h2, h3⟩
    · next x0 hx0 =>
      have hx0m : x0 ∈ s.waits := List.mem_of_getElem? hx0
      split
      · refine ⟨?_, ?_, ?_⟩ <;> try dsimp only
        · apply forall_mem_upd (p := fun x : Wait => x.early = false → s.prog = []) h1
          intro y hy; rw [hx0] at hy; cases hy; exact h1 x0 hx0m
        · apply forall_mem_upd (p := fun x : Wait => x.early = false → x.helper ≠ .wantLock → Trace.cease ∈ s.log) h2
          intro y hy; rw [hx0] at hy; cases hy; exact h2 x0 hx0m
        · apply forall_mem_upd (p := fun x : Wait => (x.caller = .gotTrue ∨ x.sig = true) → x.helper = .done) h3
          intro y hy hh; rw [hx0] at hy; cases hy
          simp at hh; exact h3 x0 hx0m (Or.inr hh)
      · exact ⟨h1, h2, h3⟩

/-! ## The program of `StartAll` -/

theorem trigCount_startWith (P : Params) (b : Bool) : trigCount (startWith P b) = 1 := by
  unfold startWith; cases b <;> cases P.subBefore <;> simp [trigCount]

theorem trigCount_programFrom (P : Params) (i k : Nat) : trigCount (programFrom P i k) = k := by
  induction k generalizing i with
  | zero => simp [programFrom, trigCount]
  | succ k ih =>
    have := ih (i + 1)
    have h1 := trigCount_startWith P (P.perStart || i == 0)
    simp only [trigCount, programFrom, startWithAt, List.count_append] at *
    omega

theorem wf_startWith_append (P : Params) (b : Bool) (r : List SI) : wf (startWith P b ++ r) = wf r := by
  unfold startWith; cases b <;> cases P.subBefore <;> simp [wf]

theorem wf_programFrom (P : Params) (i k : Nat) : wf (programFrom P i k) = true := by
  induction k generalizing i with
  | zero => simp [programFrom, wf]
  | succ k ih => simp only [programFrom, startWithAt, wf_startWith_append]; exact ih (i + 1)

theorem subCount_program (P : Params) (hn : 1 ≤ P.n) : 1 ≤ subCount (program P) := by
  unfold program
  cases hk : P.n with
  | zero => omega
  | succ k =>
    simp only [programFrom, startWithAt, subCount, List.count_append]
    have : List.count SI.subscribe (startWith P (P.perStart || 0 == 0)) = 1 := by
      unfold startWith; cases P.perStart <;> cases P.subBefore <;> simp
    omega

/-! ## The invariant -/

structure Inv (P : Params) (s : St) : Prop where
  cnt : Cnt P s
  mon : MonCnt s
  pc : MonPc P s
  lock : LockInv s
  log : LogInv s
  wait : WaitInv s

theorem inv_init (P : Params) (hn : 1 ≤ P.n) : Inv P (init P) :=
  ⟨cnt_init P (trigCount_programFrom P 0 P.n), monCnt_init P, monPc_init P,
   lockInv_init P (wf_programFrom P 0 P.n) (subCount_program P hn), logInv_init P, waitInv_init P⟩

theorem inv_step {P : Params} {s : St} (h : Inv P s) (c : Choice) : Inv P (step P s c) :=
  ⟨cnt_step h.cnt c, monCnt_step h.mon c, monPc_step h.cnt h.mon h.pc c, lockInv_step h.lock c,
   logInv_step h.cnt h.pc h.lock h.log c, waitInv_step h.lock h.log h.wait c⟩

theorem inv_run {P : Params} {s : St} (h : Inv P s) (sched : List Choice) : Inv P (run P s sched) := by
  induction sched generalizing s with
  | nil => exact h
  | cons c cs ih => exact ih (inv_step h c)

theorem inv_reachable {P : Params} (hn : 1 ≤ P.n) {s : St} (h : Reachable P s) : Inv P s := by
  obtain ⟨sched, rfl⟩ := h
  exact inv_run (inv_init P hn) sched

theorem run_append (P : Params) (s : St) (a b : List Choice) : run P s (a ++ b) = run P (run P s a) b := by
  simp [run, List.foldl_append]

theorem reachable_step {P : Params} {s : St} (h : Reachable P s) (c : Choice) : Reachable P (step P s c) := by
  obtain ⟨sched, rfl⟩ := h
  exact ⟨sched ++ [c], by simp [run_append, run]⟩

theorem reachable_run {P : Params} {s : St} (h : Reachable P s) (sched : List Choice) : Reachable P (run P s sched) := by
  obtain ⟨s0, rfl⟩ := h
  exact ⟨s0 ++ sched, run_append P _ s0 sched⟩

/-! ## How many monitors there are -/

theorem subCount_programFrom (P : Params) (i k : Nat) :
    subCount (programFrom P i k) = if P.perStart then k else (if i = 0 then min k 1 else 0) := by
  induction k generalizing i with
  | zero => simp [programFrom, subCount]
  | succ k ih =>
    have h := ih (i + 1)
    simp only [subCount, programFrom, startWithAt, List.count_append] at h ⊢
    rw [h]
    cases hps : P.perStart <;> cases hsb : P.subBefore <;> by_cases hi : i = 0 <;>
      simp [startWith, hsb, hi] <;> omega

theorem subCount_program_eq (P : Params) (hn : 1 ≤ P.n) : subCount (program P) = P.monitorsPerStartAll := by
  unfold program Params.monitorsPerStartAll
  rw [subCount_programFrom]
  cases P.perStart <;> simp <;> omega

theorem monsLen_step (P : Params) (s : St) (c : Choice) :
    (step P s c).mons.length + subCount (step P s c).prog = s.mons.length + subCount s.prog := by
  cases c with
  | starter =>
    simp only [step, stepStarter]
    split
    · rfl
    · next r hp => simp [hp, subCount]
    · next r hp => split <;> simp [hp, subCount]; omega
    · next r hp => split <;> simp [hp, subCount]
  | mon k =>
    rw [show (step P s (.mon k)).prog = s.prog from (stepMon_frame P s k).1]
    simp only [step, stepMon]
    repeat' split
    all_goals simp
  | deliver =>
    rw [show (step P s .deliver).prog = s.prog from (stepDeliver_frame P s).1]
    simp only [step, stepDeliver]
    repeat' split
    all_goals simp
  | helper w => have e := stepHelper_frame P s w; simp only [step]; rw [e.1, e.2.2.2.2.2.1]
  | recv w => have e := stepRecv_frame s w; simp only [step]; rw [e.1, e.2.2.2.2.2.1]
  | expire w => have e := stepExpire_frame s w; simp only [step]; rw [e.1, e.2.2.2.2.2.1]
  | call => rfl
  | fire => simp only [step]; split <;> rfl
  | startTrace => simp only [step]; split <;> rfl
  | other => simp only [step]; split <;> rfl
  | strayTrace => simp only [step]; split <;> rfl
  | birth => simp only [step]; split <;> rfl
  | spawnStray => simp only [step]; split <;> rfl
  | death => simp only [step]; split <;> rfl

theorem monsLen_reachable {P : Params} (hn : 1 ≤ P.n) {s : St} (h : Reachable P s) :
    s.mons.length + subCount s.prog = P.monitorsPerStartAll := by
  obtain ⟨sched, rfl⟩ := h
  have : ∀ (sched : List Choice) (s0 : St),
      (run P s0 sched).mons.length + subCount (run P s0 sched).prog = s0.mons.length + subCount s0.prog := by
    intro sched
    induction sched with
    | nil => intro s0; rfl
    | cons c cs ih => intro s0; exact (ih (step P s0 c)).trans (monsLen_step P s0 c)
  rw [this sched (init P)]
  simp [init, subCount_program_eq P hn]

/-! ## Without detached senders every trace comes from a live token or a monitor -/

def NoStray (s : St) : Prop := s.strays = 0 ∧ Trace.stray ∉ s.log

theorem noStray_step {P : Params} (hd : P.detached = false) {s : St} (h : NoStray s) (c : Choice) :
    NoStray (step P s c) := by
  obtain ⟨h1, h2⟩ := h
  cases c with
  | starter => simp only [step, stepStarter, NoStray]; repeat' split
               all_goals exact ⟨h1, h2⟩
  | mon k =>
    simp only [step, stepMon, NoStray]
    repeat' split
    all_goals first | exact ⟨h1, h2⟩ | exact ⟨h1, by simpa using h2⟩
  | deliver => simp only [step, stepDeliver, NoStray]; repeat' split
               all_goals exact ⟨h1, h2⟩
  | helper w => simp only [step, stepHelper, NoStray]; repeat' split
                all_goals exact ⟨h1, h2⟩
  | recv w => simp only [step, stepRecv, NoStray]; repeat' split
              all_goals exact ⟨h1, h2⟩
  | expire w => simp only [step, stepExpire, NoStray]; repeat' split
                all_goals exact ⟨h1, h2⟩
  | call => exact ⟨h1, h2⟩
  | fire => simp only [step, NoStray]; split <;> exact ⟨h1, h2⟩
  | birth => simp only [step, NoStray]; split <;> exact ⟨h1, h2⟩
  | death => simp only [step, NoStray]; split <;> exact ⟨h1, h2⟩
  | startTrace => simp only [step, NoStray]; split
                  · exact ⟨h1, by simpa using h2⟩
                  · exact ⟨h1, h2⟩
  | other => simp only [step, NoStray]; split
             · exact ⟨h1, by simpa using h2⟩
             · exact ⟨h1, h2⟩
  | spawnStray => simp only [step, hd, NoStray]; simp; exact ⟨h1, h2⟩
  | strayTrace => simp only [step, h1, NoStray]; simp; exact ⟨h1, h2⟩

theorem noStray_reachable {P : Params} (hd : P.detached = false) {s : St} (h : Reachable P s) : NoStray s := by
  obtain ⟨sched, rfl⟩ := h
  have : ∀ (sched : List Choice) (s0 : St), NoStray s0 → NoStray (run P s0 sched) := by
    intro sched
    induction sched with
    | nil => intro s0 h; exact h
    | cons c cs ih => intro s0 h; exact ih _ (noStray_step hd h c)
  exact this sched (init P) ⟨rfl, by simp [init]⟩

/-- a log without stray traces in which nothing but cease traces follows the first cease -/
def LogStrict : List Trace → Prop
  | [] => True
  | t :: r => (Trace.cease ∈ r → t = .cease) ∧ LogStrict r

theorem logStrict_of {l : List Trace} (h : LogOk l) (hs : Trace.stray ∉ l) : LogStrict l := by
  induction l with
  | nil => trivial
  | cons t r ih =>
    simp only [List.mem_cons, not_or] at hs
    refine ⟨fun hc => ?_, ih h.2 hs.2⟩
    rcases h.1 hc with e | e
    · exact e
    · exact absurd e.symm hs.1

end Bpmn.Model.Completion
