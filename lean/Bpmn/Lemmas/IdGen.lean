import Bpmn.Model.IdGen
/-! Helper lemmas for C20: list facts, the fallback counter invariant, and the inductive invariant of the
sno small-step machine when `SnoGenerator.New` is serialised by a mutex. -/
namespace Bpmn.Model.IdGen

/-! ### lists -/

theorem nodup_flatMap_of {α β : Type} (f : α → List β) (l : List α)
    (h1 : ∀ a ∈ l, (f a).Nodup)
    (h2 : l.Pairwise (fun a b => ∀ x ∈ f a, ∀ y ∈ f b, x ≠ y)) : (l.flatMap f).Nodup := by
  induction l with
  | nil => simp
  | cons a l ih =>
    rw [List.flatMap_cons, List.nodup_append]
    rw [List.pairwise_cons] at h2
    refine ⟨h1 a (by simp), ih (fun b hb => h1 b (by simp [hb])) h2.2, ?_⟩
    intro x hx y hy
    rw [List.mem_flatMap] at hy
    obtain ⟨b, hb, hyb⟩ := hy
    exact h2.1 b hb x hx y hyb

@[simp] theorem upd_same {α : Type} (f : Nat → α) (i : Nat) (v : α) : upd f i v i = v := by simp [upd]
theorem upd_other {α : Type} (f : Nat → α) (i j : Nat) (v : α) (h : j ≠ i) : upd f i v j = f j := by
  simp [upd, h]

/-! ### fallback generator, atomic increment -/

structure FbInv (p : FbPrefix) (g : FbGen) : Prop where
  pfx : g.pfx = p
  nodup : g.out.Nodup
  bound : ∀ x ∈ g.out, x.pfx = p ∧ x.n ≤ g.counter

theorem fbInv_step (p : FbPrefix) (g : FbGen) (i : Nat) (h : FbInv p g) (hb : g.counter + 1 < u64) :
    FbInv p (fbStep true g i) ∧ (fbStep true g i).counter = g.counter + 1 := by
  have hm : (g.counter + 1) % u64 = g.counter + 1 := Nat.mod_eq_of_lt hb
  simp only [fbStep, if_true, hm]
  refine ⟨⟨h.pfx, ?_, ?_⟩, trivial⟩
  · rw [List.nodup_cons]
    refine ⟨?_, h.nodup⟩
    intro hmem
    have := (h.bound _ hmem).2
    simp only at this
    omega
  · intro x hx
    simp only [List.mem_cons] at hx
    rcases hx with rfl | hx
    · exact ⟨h.pfx, Nat.le_refl _⟩
    · exact ⟨(h.bound x hx).1, Nat.le_succ_of_le (h.bound x hx).2⟩

theorem fbInv_run (p : FbPrefix) (sched : List Nat) :
    ∀ g : FbGen, FbInv p g → g.counter + sched.length < u64 →
      FbInv p (fbRun true g sched) ∧ (fbRun true g sched).counter = g.counter + sched.length := by
  induction sched with
  | nil => intro g h _; exact ⟨h, rfl⟩
  | cons i is ih =>
    intro g h hb
    simp only [List.length_cons] at hb
    obtain ⟨h1, hc⟩ := fbInv_step p g i h (by omega)
    have := ih (fbStep true g i) h1 (by omega)
    simp only [fbRun, List.foldl_cons] at this ⊢
    refine ⟨this.1, ?_⟩
    rw [this.2, hc]; simp only [List.length_cons]; omega

theorem fbInv_new (p : FbPrefix) : FbInv p (fbNew p) :=
  ⟨rfl, by simp [fbNew], by intro x hx; simp [fbNew] at hx⟩

/-- ids already handed out stay handed out -/
theorem fbStep_mono (a : Bool) (g : FbGen) (i : Nat) (x : FbId) (hx : x ∈ g.out) : x ∈ (fbStep a g i).out := by
  unfold fbStep
  cases a
  · simp only [Bool.false_eq_true, if_false]
    split <;> simp [hx]
  · simp [hx]

theorem fbRun_mono (a : Bool) (sched : List Nat) :
    ∀ (g : FbGen) (x : FbId), x ∈ g.out → x ∈ (fbRun a g sched).out := by
  induction sched with
  | nil => intro g x hx; exact hx
  | cons i is ih =>
    intro g x hx
    simp only [fbRun, List.foldl_cons]
    exact ih _ x (fbStep_mono a g i x hx)

/-! ### creation of fallback generators: serial numbers make prefixes distinct whatever the clock says -/

theorem fbProgram_serials (gs : List (Nat × List Nat)) : ∀ created : Nat, created + gs.length < u64 →
    ∀ a ∈ fbProgram true created gs, created < a.1.serial ∧ a.1.serial ≤ created + gs.length := by
  induction gs with
  | nil => intro c _ a ha; simp [fbProgram] at ha
  | cons g rest ih =>
    intro c hb a ha
    obtain ⟨clk, s⟩ := g
    simp only [List.length_cons] at hb
    have hm : (c + 1) % u64 = c + 1 := Nat.mod_eq_of_lt (by omega)
    simp only [fbProgram, if_true, hm, List.mem_cons] at ha
    simp only [List.length_cons]
    rcases ha with rfl | ha
    · simp only; omega
    · have := ih (c + 1) (by omega) a ha
      omega

theorem fbProgram_pairwise (gs : List (Nat × List Nat)) : ∀ created : Nat, created + gs.length < u64 →
    (fbProgram true created gs).Pairwise (fun a b => a.1 ≠ b.1) := by
  induction gs with
  | nil => intro c _; simp [fbProgram]
  | cons g rest ih =>
    intro c hb
    obtain ⟨clk, s⟩ := g
    simp only [List.length_cons] at hb
    have hm : (c + 1) % u64 = c + 1 := Nat.mod_eq_of_lt (by omega)
    simp only [fbProgram, if_true, hm]
    rw [List.pairwise_cons]
    refine ⟨?_, ih (c + 1) (by omega)⟩
    intro b hbm e
    have := (fbProgram_serials rest (c + 1) (by omega) b hbm).1
    rw [← e] at this
    simp only at this
    omega

theorem fbProgram_sched (w : Bool) (gs : List (Nat × List Nat)) : ∀ created : Nat,
    ∀ a ∈ fbProgram w created gs, ∃ g ∈ gs, a.2 = g.2 := by
  induction gs with
  | nil => intro c a ha; simp [fbProgram] at ha
  | cons g rest ih =>
    intro c a ha
    obtain ⟨clk, s⟩ := g
    cases w
    · simp only [fbProgram, Bool.false_eq_true, if_false, List.mem_cons] at ha
      rcases ha with rfl | ha
      · exact ⟨(clk, s), by simp, rfl⟩
      · obtain ⟨g, hg, e⟩ := ih c a ha
        exact ⟨g, by simp [hg], e⟩
    · simp only [fbProgram, if_true, List.mem_cons] at ha
      rcases ha with rfl | ha
      · exact ⟨(clk, s), by simp, rfl⟩
      · obtain ⟨g, hg, e⟩ := ih _ a ha
        exact ⟨g, by simp [hg], e⟩

/-! ### sno generator with `New` serialised -/

/-- lexicographic order on (time, sequence) -/
def lexLt (a b : SnoId) : Prop := a.time < b.time ∨ (a.time = b.time ∧ a.seq < b.seq)

/-- every id handed out so far is, for the generator state, "in the past" -/
def Old (g : Gen) (now : Nat) (x : SnoId) : Prop :=
  x.part = g.part ∧ (x.time < g.wallHi ∨ (x.time = g.wallHi ∧ (x.seq ≤ g.seq ∨ g.wallHi < now)))

/-- what the thread holding the mutex knows at each program point -/
def PcInv (g : Gen) (now ovfCount : Nat) (out : List SnoId) : Pc → Prop
  | .idle => ovfCount = 0
  | .start => ovfCount = 0
  | .gotHi hi => hi = g.wallHi ∧ ovfCount = 0
  | .gotNow hi c => hi = g.wallHi ∧ hi ≤ c ∧ c ≤ now ∧ ovfCount = 0 ∧
      (c = hi → ∀ x ∈ out, x.time = g.wallHi → x.seq ≤ g.seq)
  | .added c s => c = g.wallHi ∧ s = g.seq ∧ ovfCount = 0 ∧ ∀ x ∈ out, x.time = g.wallHi → x.seq < g.seq
  | .ovf => ovfCount = 1
  | .casOk c => c = g.wallHi ∧ ovfCount = 0 ∧ ∀ x ∈ out, x.time < g.wallHi
  | .reset c => c = g.wallHi ∧ g.seq = g.seqMin ∧ ovfCount = 0 ∧ ∀ x ∈ out, x.time < g.wallHi
  | _ => False

structure Inv (p : Nat) (st : St) : Prop where
  part : st.g.part = p
  sorted : st.out.Pairwise (fun newer older => lexLt older newer)
  hi_le : st.g.wallHi ≤ st.now
  old : ∀ x ∈ st.out, Old st.g st.now x
  reg : st.regLock = none
  others : ∀ j, st.mutex ≠ some j → st.pcs j = .idle
  free : st.mutex = none → st.ovfCount = 0 ∧ st.active = 0
  held : ∀ h, st.mutex = some h → PcInv st.g st.now st.ovfCount st.out (st.pcs h) ∧ st.active = 1

theorem inv_init (g : Gen) (now : Nat) (h : g.wallHi ≤ now) : Inv g.part (init g now) :=
  { part := rfl, sorted := by simp [init], hi_le := h, old := by intro x hx; simp [init] at hx,
    reg := rfl, others := by intro j _; rfl, free := by intro _; exact ⟨rfl, rfl⟩,
    held := by intro h hh; simp [init] at hh }

theorem inv_tick (p : Nat) (st : St) (h : Inv p st) : Inv p { st with now := st.now + 1 } := by
  refine { part := h.part, sorted := h.sorted, hi_le := Nat.le_succ_of_le h.hi_le, old := ?_, reg := h.reg,
           others := h.others, free := h.free, held := ?_ }
  · intro x hx
    obtain ⟨h1, h2⟩ := h.old x hx
    refine ⟨h1, ?_⟩
    simp only at h2 ⊢
    omega
  · intro t ht
    obtain ⟨h1, h2⟩ := h.held t ht
    refine ⟨?_, h2⟩
    simp only
    cases hpc : st.pcs t <;> rw [hpc] at h1 <;> simp only [PcInv] at h1 ⊢ <;> try exact h1
    obtain ⟨a, b, c, d, e⟩ := h1
    exact ⟨a, b, by omega, d, e⟩

theorem inv_ovfLoop (p : Nat) (st : St) (h : Inv p st) : Inv p (stepOvfLoop st) := by
  unfold stepOvfLoop
  split
  · exact h
  · rename_i hc
    split
    · exact h
    · split
      · rename_i hlt
        -- some thread is waiting in the overflow loop: it is the mutex holder
        obtain hm | ⟨t, hm⟩ := Option.eq_none_or_eq_some st.mutex
        · exact absurd (h.free hm).1 hc
        · obtain ⟨h1, h2⟩ := h.held t hm
          have hovf : st.pcs t = .ovf := by
            cases hpc : st.pcs t <;> rw [hpc] at h1 <;> simp only [PcInv] at h1 <;>
              first | rfl | (exfalso; omega) | (exfalso; exact h1)
          refine { part := h.part, sorted := h.sorted, hi_le := h.hi_le, old := ?_, reg := h.reg,
                   others := h.others, free := h.free, held := ?_ }
          · intro x hx
            obtain ⟨a, b⟩ := h.old x hx
            refine ⟨a, ?_⟩
            simp only at b ⊢
            omega
          · intro t' ht'
            simp only at ht'
            rw [hm] at ht'
            cases ht'
            refine ⟨?_, h2⟩
            simp only [hovf, PcInv] at h1 ⊢
            exact h1
      · exact h

theorem inv_restore (p : Nat) (st : St) (h : Inv p st) : Inv p (stepRestore st) := by
  unfold stepRestore
  split
  · rename_i ha
    have hm : st.mutex = none := by
      obtain hm | ⟨t, hm⟩ := Option.eq_none_or_eq_some st.mutex
      · exact hm
      · have := (h.held t hm).2; omega
    refine { part := h.part, sorted := h.sorted, hi_le := h.hi_le, old := ?_, reg := rfl,
             others := h.others, free := fun _ => ⟨rfl, ha⟩, held := ?_ }
    · intro x hx
      obtain ⟨a, b⟩ := h.old x hx
      refine ⟨a, ?_⟩
      have := h.hi_le
      simp only [restoreGen, snapshot] at b ⊢
      split <;> split <;> omega
    · intro t ht
      simp only at ht
      rw [hm] at ht
      cases ht
  · exact h

/-- a step of the mutex holder that changes only the generator fields, its own program point and the
overflow count -/
theorem inv_local (p : Nat) (st : St) (i : Nat) (h : Inv p st) (hm : st.mutex = some i)
    (g' : Gen) (pc' : Pc) (oc' : Nat)
    (hpart : g'.part = st.g.part) (hhi : g'.wallHi ≤ st.now) (hold : ∀ x ∈ st.out, Old g' st.now x)
    (hpc : PcInv g' st.now oc' st.out pc') :
    Inv p { st with g := g', pcs := upd st.pcs i pc', ovfCount := oc' } := by
  refine { part := by simp only [hpart, h.part], sorted := h.sorted, hi_le := hhi, old := hold, reg := h.reg,
           others := ?_, free := ?_, held := ?_ }
  · intro j hj
    simp only at hj ⊢
    have hji : j ≠ i := by intro e; subst e; exact hj hm
    rw [upd_other _ _ _ _ hji]
    exact h.others j hj
  · intro hn
    simp only at hn
    rw [hm] at hn
    cases hn
  · intro t ht
    simp only at ht
    rw [hm] at ht
    cases ht
    simp only [upd_same]
    exact ⟨hpc, (h.held i hm).2⟩

/-- the mutex holder returns from `New` with a new id that is lexicographically above everything handed out -/
theorem inv_finish (p : Nat) (st : St) (i : Nat) (h : Inv p st) (hm : st.mutex = some i) (id : SnoId)
    (hnew : ∀ x ∈ st.out, lexLt x id) (hold : Old st.g st.now id) (hoc : st.ovfCount = 0) :
    Inv p (finish true st i (some id)) := by
  unfold finish
  refine { part := h.part, sorted := ?_, hi_le := h.hi_le, old := ?_, reg := h.reg,
           others := ?_, free := ?_, held := ?_ }
  · simp only
    rw [List.pairwise_cons]
    exact ⟨hnew, h.sorted⟩
  · intro x hx
    simp only [List.mem_cons] at hx
    rcases hx with rfl | hx
    · exact hold
    · exact h.old x hx
  · intro j _
    simp only
    by_cases hji : j = i
    · subst hji; simp
    · rw [upd_other _ _ _ _ hji]
      exact h.others j (by rw [hm]; intro e; cases e; exact hji rfl)
  · intro _
    simp only
    exact ⟨hoc, by rw [(h.held i hm).2]⟩
  · intro t ht
    simp at ht

theorem inv_thr (p : Nat) (st : St) (i : Nat) (h : Inv p st) : Inv p (stepThr true st i) := by
  obtain hm | ⟨t, hm⟩ := Option.eq_none_or_eq_some st.mutex
  · -- the mutex is free: every thread is idle; thread i takes the mutex
    have hidle := h.others i (by rw [hm]; simp)
    unfold stepThr
    simp only [hidle, hm, Option.isSome_none, Bool.and_false, Bool.false_eq_true, if_false, if_true]
    refine { part := h.part, sorted := h.sorted, hi_le := h.hi_le, old := h.old, reg := h.reg,
             others := ?_, free := ?_, held := ?_ }
    · intro j hj
      simp only at hj ⊢
      have hji : j ≠ i := by intro e; subst e; exact hj rfl
      rw [upd_other _ _ _ _ hji]
      exact h.others j (by rw [hm]; simp)
    · intro hn; simp at hn
    · intro t ht
      simp only [Option.some.injEq] at ht
      subst ht
      simp only [upd_same, PcInv]
      exact ⟨(h.free hm).1, by rw [(h.free hm).2]⟩
  · by_cases hit : i = t
    · subst hit
      obtain ⟨h1, h2⟩ := h.held i hm
      have hhi := h.hi_le
      unfold stepThr
      cases hpc : st.pcs i <;> rw [hpc] at h1 <;> simp only [PcInv] at h1 <;> dsimp only
      case idle => simp only [hm, Option.isSome_some, Bool.and_self, if_true]; exact h
      case start =>
        exact inv_local p st i h hm st.g _ st.ovfCount rfl h.hi_le h.old (by simp only [PcInv]; exact ⟨trivial, h1⟩)
      case gotHi hi =>
        refine inv_local p st i h hm st.g _ st.ovfCount rfl h.hi_le h.old ?_
        simp only [PcInv]
        refine ⟨h1.1, by omega, Nat.le_refl _, h1.2, ?_⟩
        intro hc x hx hxt
        obtain ⟨_, hb⟩ := h.old x hx
        omega
      case gotNow hi c =>
        obtain ⟨e1, e2, e3, e4, e5⟩ := h1
        split
        · rename_i hch
          split
          · -- fast branch, sequence within bounds
            refine inv_local p st i h hm _ _ st.ovfCount rfl h.hi_le ?_ ?_
            · intro x hx
              obtain ⟨ha, hb⟩ := h.old x hx
              refine ⟨ha, ?_⟩
              simp only at hb ⊢
              omega
            · simp only [PcInv]
              refine ⟨by omega, trivial, e4, ?_⟩
              intro x hx hxt
              have := e5 hch x hx hxt
              omega
          · -- overflow
            refine inv_local p st i h hm _ _ (st.ovfCount + 1) rfl h.hi_le ?_ ?_
            · intro x hx
              obtain ⟨ha, hb⟩ := h.old x hx
              refine ⟨ha, ?_⟩
              simp only at hb ⊢
              omega
            · simp only [PcInv]; omega
        · split
          · rename_i hlt
            split
            · -- the CAS succeeds
              refine inv_local p st i h hm _ _ st.ovfCount rfl e3 ?_ ?_
              · intro x hx
                obtain ⟨ha, hb⟩ := h.old x hx
                refine ⟨ha, ?_⟩
                simp only at hb ⊢
                omega
              · simp only [PcInv]
                refine ⟨trivial, e4, ?_⟩
                intro x hx
                obtain ⟨_, hb⟩ := h.old x hx
                omega
            · rename_i hne; exact absurd e1.symm hne
          · exfalso; omega
      case added c s =>
        obtain ⟨e1, e2, e3, e4⟩ := h1
        refine inv_finish p st i h hm _ ?_ ?_ e3
        · intro x hx
          obtain ⟨_, hb⟩ := h.old x hx
          have := e4 x hx
          simp only [lexLt]
          omega
        · refine ⟨rfl, ?_⟩
          simp only
          omega
      case ovf =>
        split
        · exact h
        · exact inv_local p st i h hm st.g _ (st.ovfCount - 1) rfl h.hi_le h.old (by simp only [PcInv]; omega)
      case casOk c =>
        obtain ⟨e1, e2, e3⟩ := h1
        refine inv_local p st i h hm _ _ st.ovfCount rfl h.hi_le ?_ ?_
        · intro x hx
          obtain ⟨ha, _⟩ := h.old x hx
          exact ⟨ha, Or.inl (e3 x hx)⟩
        · simp only [PcInv]
          exact ⟨e1, trivial, e2, e3⟩
      case reset c =>
        obtain ⟨e1, e2, e3, e4⟩ := h1
        refine inv_finish p st i h hm _ ?_ ?_ e3
        · intro x hx
          have := e4 x hx
          simp only [lexLt]
          omega
        · refine ⟨rfl, ?_⟩
          simp only
          omega
      all_goals exact absurd h1 id
    · -- another thread: blocked on the mutex
      have hidle := h.others i (by rw [hm]; intro e; cases e; exact hit rfl)
      unfold stepThr
      simp only [hidle, hm, Option.isSome_some, Bool.and_true, if_true]
      exact h

theorem inv_step (p : Nat) (st : St) (e : Ev) (h : Inv p st) : Inv p (step true st e) := by
  cases e with
  | tick => exact inv_tick p st h
  | thr i => exact inv_thr p st i h
  | ovfLoop => exact inv_ovfLoop p st h
  | restore => exact inv_restore p st h

theorem inv_run (p : Nat) (sched : List Ev) : ∀ st, Inv p st → Inv p (run true st sched) := by
  induction sched with
  | nil => intro st h; exact h
  | cons e es ih => intro st h; exact ih _ (inv_step p st e h)

/-! ### every id carries the partition — for any schedule, serialised or not -/

theorem step_partInv (p : Nat) (ser : Bool) (st : St) (e : Ev)
    (h1 : st.g.part = p) (h2 : ∀ x ∈ st.out, x.part = p) :
    (step ser st e).g.part = p ∧ ∀ x ∈ (step ser st e).out, x.part = p := by
  cases e with
  | tick => exact ⟨h1, h2⟩
  | ovfLoop =>
    simp only [step, stepOvfLoop]
    split
    · exact ⟨h1, h2⟩
    · split
      · exact ⟨h1, h2⟩
      · split <;> exact ⟨h1, h2⟩
  | restore =>
    simp only [step, stepRestore]
    split
    · exact ⟨h1, h2⟩
    · exact ⟨h1, h2⟩
  | thr i =>
    simp only [step, stepThr]
    split <;> (try split) <;> (try split) <;> (try split) <;>
      first
        | exact ⟨h1, h2⟩
        | (refine ⟨h1, ?_⟩; intro x hx; simp only [finish, List.mem_cons] at hx;
           first | exact h2 x hx | (rcases hx with rfl | hx; exact h1; exact h2 x hx))

theorem run_partInv (p : Nat) (ser : Bool) (sched : List Ev) : ∀ st : St,
    st.g.part = p → (∀ x ∈ st.out, x.part = p) →
    (run ser st sched).g.part = p ∧ ∀ x ∈ (run ser st sched).out, x.part = p := by
  induction sched with
  | nil => intro st h1 h2; exact ⟨h1, h2⟩
  | cons e es ih =>
    intro st h1 h2
    obtain ⟨a, b⟩ := step_partInv p ser st e h1 h2
    exact ih _ a b

/-! ### one drawing thread: the unserialised machine behaves like the serialised one -/

/-- the state with the (unused, when `ser = false`) mutex field cleared -/
def forget (st : St) : St := { st with mutex := none }

/-- with only thread 0 drawing, the mutex is held exactly while thread 0 is inside New -/
def MutexOK (st : St) : Prop := st.mutex = if st.pcs 0 = .idle then none else some 0

/-- events of a run in which only one thread (thread 0) draws -/
def Solo : Ev → Prop
  | .thr i => i = 0
  | _ => True

theorem solo_sim (b : St) (e : Ev) (he : Solo e) (hm : MutexOK b) :
    step false (forget b) e = forget (step true b e) ∧ MutexOK (step true b e) := by
  cases e with
  | tick => exact ⟨rfl, hm⟩
  | ovfLoop =>
    unfold MutexOK at hm ⊢
    by_cases h1 : b.ovfCount = 0 <;> by_cases h2 : b.g.seq ≤ b.g.seqMax <;> by_cases h3 : b.g.wallHi < b.now <;>
      simp [step, stepOvfLoop, forget, h1, h2, h3, hm]
  | restore =>
    unfold MutexOK at hm ⊢
    by_cases h1 : b.active = 0 <;> simp [step, stepRestore, forget, h1, hm]
  | thr i =>
    have hi : i = 0 := he
    subst hi
    unfold MutexOK at hm ⊢
    cases hpc : b.pcs 0 <;> simp only [hpc] at hm
    case ovf =>
      by_cases h : b.g.seqMax < b.g.seq <;> simp [step, stepThr, forget, hpc, hm, h, upd]
    case regHeld c =>
      by_cases h1 : b.g.wallHi ≤ c <;> by_cases h2 : b.g.wallSafe < c <;>
        simp [step, stepThr, forget, hpc, hm, h1, h2, upd, setPc]
    case gotNow hi c =>
      by_cases h1 : c = hi <;> by_cases h2 : b.g.seq + 1 ≤ b.g.seqMax <;> by_cases h3 : hi < c <;>
        by_cases h4 : b.g.wallHi = hi <;> simp [step, stepThr, forget, hpc, hm, h1, h2, h3, h4, upd, setPc]
    case regWant c =>
      cases hl : b.regLock <;> simp [step, stepThr, forget, hpc, hm, hl, upd]
    all_goals simp [step, stepThr, forget, hpc, hm, finish, setPc, upd]

theorem solo_run (sched : List Ev) (hs : ∀ e ∈ sched, Solo e) : ∀ b : St, MutexOK b →
    run false (forget b) sched = forget (run true b sched) ∧ MutexOK (run true b sched) := by
  induction sched with
  | nil => intro b hm; exact ⟨rfl, hm⟩
  | cons e es ih =>
    intro b hm
    obtain ⟨h1, h2⟩ := solo_sim b e (hs e (by simp)) hm
    have := ih (fun e' he' => hs e' (by simp [he'])) (step true b e) h2
    simp only [run, List.foldl_cons] at this ⊢
    rw [h1]
    exact this

theorem solo_out (g0 : Gen) (now0 : Nat) (sched : List Ev) (hs : ∀ e ∈ sched, Solo e) :
    (run false (init g0 now0) sched).out = (run true (init g0 now0) sched).out := by
  have h := (solo_run sched hs (init g0 now0) (by simp [MutexOK, init])).1
  have e : forget (init g0 now0) = init g0 now0 := rfl
  rw [e] at h
  rw [h]
  rfl

theorem lexLt_irrefl (a : SnoId) : ¬ lexLt a a := by simp [lexLt]

theorem nodup_of_sorted (l : List SnoId) (h : l.Pairwise (fun newer older => lexLt older newer)) : l.Nodup := by
  unfold List.Nodup
  refine List.Pairwise.imp ?_ h
  intro a b hab e
  subst e
  exact lexLt_irrefl a hab

end Bpmn.Model.IdGen
