import Bpmn.Model.InclTracker
/-! Lemmas about the flow tracker's map and the join decision taken on it. -/
namespace Bpmn.Model.InclTracker

/-! ## The map -/

def NodupKeys (m : Map) : Prop := (m.map (·.1)).Nodup

theorem lookup_filter_ne (m : Map) (t x : Nat) (h : x ≠ t) :
    List.lookup x (m.filter (·.1 != t)) = List.lookup x m := by
  induction m with
  | nil => rfl
  | cons p rest ih =>
    obtain ⟨k, v⟩ := p
    by_cases hk : k = t
    · subst hk
      have hx : (x == k) = false := by simpa using h
      simp [List.filter, List.lookup, hx, ih]
    · have : ((k, v).1 != t) = true := by simpa using hk
      simp only [List.filter, this, List.lookup]
      cases hxk : x == k <;> simp [ih]

theorem get?_set (m : Map) (t o x : Nat) :
    (m.set t o).get? x = if x = t then some o else m.get? x := by
  unfold Map.set Map.get?
  by_cases h : x = t
  · subst h; simp [List.lookup]
  · have hb : (x == t) = false := by simpa using h
    simp [List.lookup, hb, h, lookup_filter_ne m t x h]

theorem get?_del (m : Map) (t x : Nat) (h : x ≠ t) : (m.del t).get? x = m.get? x := by
  unfold Map.del Map.get?; exact lookup_filter_ne m t x h

theorem nodupKeys_filter (m : Map) (p : Nat × Nat → Bool) (h : NodupKeys m) : NodupKeys (m.filter p) := by
  unfold NodupKeys at *
  induction m with
  | nil => simp
  | cons a rest ih =>
    simp only [List.map_cons, List.nodup_cons] at h
    by_cases hp : p a = true
    · simp only [List.filter, hp, List.map_cons, List.nodup_cons]
      refine ⟨?_, ih h.2⟩
      intro hm
      apply h.1
      obtain ⟨b, hb, e⟩ := List.mem_map.mp hm
      exact List.mem_map.mpr ⟨b, (List.mem_filter.mp hb).1, e⟩
    · have : p a = false := by simpa using hp
      simp only [List.filter, this]
      exact ih h.2

theorem nodupKeys_set (m : Map) (t o : Nat) (h : NodupKeys m) : NodupKeys (m.set t o) := by
  unfold Map.set NodupKeys
  simp only [List.map_cons, List.nodup_cons]
  refine ⟨?_, nodupKeys_filter m _ h⟩
  intro hm
  obtain ⟨b, hb, e⟩ := List.mem_map.mp hm
  have := (List.mem_filter.mp hb).2
  simp at this
  exact this e

theorem nodupKeys_step (m : Map) (tr : Tr) (h : NodupKeys m) : NodupKeys (step m tr) := by
  cases tr with
  | term t => exact nodupKeys_filter m _ h
  | flow src incl toks =>
    simp only [step]
    induction toks generalizing m with
    | nil => simpa
    | cons p rest ih =>
      simp only [List.foldl_cons]
      apply ih
      split
      · exact nodupKeys_set m _ _ h
      · exact h

theorem nodupKeys_track (log : List Tr) : NodupKeys (track log) := by
  unfold track
  have : ∀ (m : Map), NodupKeys m → NodupKeys (log.foldl step m) := by
    induction log with
    | nil => intro m h; simpa
    | cons tr rest ih => intro m h; exact ih _ (nodupKeys_step m tr h)
  exact this [] (by simp [NodupKeys])

/-- with unique keys, membership of a pair is lookup -/
theorem mem_iff_get? (m : Map) (h : NodupKeys m) (x v : Nat) : (x, v) ∈ m ↔ m.get? x = some v := by
  unfold Map.get?
  induction m with
  | nil => simp [List.lookup]
  | cons p rest ih =>
    obtain ⟨k, w⟩ := p
    unfold NodupKeys at h
    simp only [List.map_cons, List.nodup_cons] at h
    by_cases hk : x = k
    · subst hk
      simp only [List.mem_cons, Prod.mk.injEq, true_and, List.lookup, beq_self_eq_true, Option.some.injEq]
      constructor
      · rintro (e | hm)
        · exact e.symm
        · exact absurd (List.mem_map.mpr ⟨(x, v), hm, rfl⟩) h.1
      · intro e; exact Or.inl e.symm
    · have hb : (x == k) = false := by simpa using hk
      simp only [List.mem_cons, Prod.mk.injEq, hk, false_and, false_or, List.lookup, hb]
      exact ih h.2

/-- the cohort of `t` is the set of tokens recorded with `t`'s origin -/
theorem mem_cohort (m : Map) (h : NodupKeys m) (t x : Nat) :
    x ∈ cohort m t ↔ ∃ loc, m.get? t = some loc ∧ m.get? x = some loc := by
  unfold cohort
  cases ht : m.get? t with
  | none => simp
  | some loc =>
    simp only [List.mem_map, List.mem_filter, beq_iff_eq, Option.some.injEq, exists_eq_left']
    constructor
    · rintro ⟨⟨k, v⟩, ⟨hm, hv⟩, hk⟩
      simp at hv hk
      subst hv; subst hk
      exact (mem_iff_get? m h k v).mp hm
    · intro hx
      exact ⟨(x, loc), ⟨(mem_iff_get? m h x loc).mpr hx, rfl⟩, rfl⟩

/-- a FlowTrace of an inclusive gateway records every token it lists with that gateway as origin and leaves the
others alone -/
theorem get?_step_flow_incl (src : Nat) (toks : List (Nat × Nat)) : ∀ (m : Map) (x : Nat),
    (step m (.flow src true toks)).get? x = if x ∈ toks.map (·.1) then some src else m.get? x := by
  simp only [step, Bool.or_true, if_true]
  induction toks with
  | nil => intro m x; simp
  | cons p rest ih =>
    intro m x
    simp only [List.foldl_cons, List.map_cons, List.mem_cons]
    rw [ih (m.set p.1 src) x, get?_set]
    by_cases h1 : x ∈ rest.map (·.1)
    · simp [h1]
    · by_cases h2 : x = p.1 <;> simp [h1, h2]

/-! ## The join on one picture -/

def Join.arriveM (j : Join) (m : Map) (t : Nat) : Join :=
  match j.activated with
  | none => ({ j with activated := some t, arrived := [t] } : Join).trySync m
  | some _ => ({ j with arrived := j.arrived ++ [t] } : Join).trySync m

def Join.arriveAllM (j : Join) (m : Map) : List Nat → Join
  | [] => j
  | t :: ts => (j.arriveM m t).arriveAllM m ts

theorem arrive_fresh (j : Join) (log : List Tr) (t : Nat) : j.arrive log log.length t = j.arriveM (track log) t := by
  unfold Join.arrive Join.arriveM
  simp only [List.take_length]
  cases j.activated <;> rfl

theorem arriveAllFresh_eq (log : List Tr) : ∀ (ts : List Nat) (j : Join),
    j.arriveAllFresh log ts = j.arriveAllM (track log) ts
  | [], j => rfl
  | t :: ts, j => by
    simp only [Join.arriveAllFresh, Join.arriveAllM, arrive_fresh, arriveAllFresh_eq log ts]

/-- the state while the tokens of one cohort are coming in -/
theorem arriveAllM_prefix (m : Map) (C : List Nat) (a : Nat) (fired : List (List Nat)) :
    ∀ (rest done : List Nat),
      cohort m a = C → (∀ x, x ∈ C ↔ x ∈ done ++ rest) → (done ++ rest).Nodup → done ≠ [] →
      (({ activated := some a, arrived := done, fired := fired } : Join).arriveAllM m rest) =
        (if rest = [] then
            (({ activated := some a, arrived := done, fired := fired } : Join))
         else { activated := none, arrived := [], fired := fired ++ [done ++ rest] }) := by
  intro rest
  induction rest with
  | nil => intro done _ _ _ _; simp [Join.arriveAllM]
  | cons t ts ih =>
    intro done hC hmem hnd hne
    simp only [Join.arriveAllM, Join.arriveM, Join.trySync, hC]
    have hall : (C.all fun x => (done ++ [t]).contains x) = decide (ts = []) := by
      by_cases hts : ts = []
      · subst hts
        simp only [decide_true, List.all_eq_true]
        intro x hx
        have := (hmem x).mp hx
        simpa using this
      · simp only [hts, decide_false]
        rw [List.all_eq_false]
        obtain ⟨u, us, e⟩ := List.exists_cons_of_ne_nil hts
        refine ⟨u, (hmem u).mpr (by simp [e]), ?_⟩
        have hnd' : (done ++ t :: u :: us).Nodup := by rw [← e]; exact hnd
        intro hc
        have hu : u ∈ done ++ [t] := by simpa using hc
        rw [List.nodup_append] at hnd'
        obtain ⟨_, hr, hdis⟩ := hnd'
        rcases List.mem_append.mp hu with h1 | h1
        · exact hdis u h1 u (by simp) rfl
        · have : u = t := by simpa using h1
          subst this
          simp at hr
    rw [hall]
    by_cases hts : ts = []
    · subst hts
      simp [Join.arriveAllM]
    · simp only [hts, decide_false, Bool.false_eq_true, if_false]
      have := ih (done ++ [t]) hC (by intro x; rw [hmem x]; simp) (by simpa using hnd) (by simp)
      simp only [List.append_assoc, List.singleton_append] at this
      rw [this]
      simp [hts]

end Bpmn.Model.InclTracker
