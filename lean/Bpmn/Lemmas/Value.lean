import Bpmn.Model.Value
/-! Helper lemmas for C16 (value layer). Core Lean only. -/
namespace Bpmn.Model.Value

/-- the facts as found on the unchanged tree (the generated `Bpmn.Gen.C16` is compared with this in
`Props/C16Current.lean`; nothing else depends on it) -/
def Cfg.asFound : Cfg where
  inferred := [(.slice, .marshalArray), (.array, .marshalArray), (.map, .marshalObject), (.struct, .marshalObject),
    (.string, .string), (.bool, .bool), (.int, .int), (.int8, .int), (.int16, .int), (.int32, .int), (.int64, .int),
    (.uint, .int), (.uint8, .int), (.uint16, .int), (.uint32, .int), (.uint64, .int), (.float32, .float), (.float64, .float)]
  declInt := [.int, .int8, .int16, .int32, .int64, .uint, .uint8, .uint16, .uint32, .uint64]
  floatSix := true
  floatWide := false
  nilGuardArray := false
  nilGuardObject := false
  nilGuardValuePtr := false

/-- the facts after the three proposed repairs (used for non-vacuity of the positive theorems) -/
def Cfg.repaired : Cfg where
  inferred := [(.slice, .marshalArray), (.array, .marshalArray), (.map, .marshalObject), (.struct, .marshalObject),
    (.string, .string), (.bool, .bool), (.int, .int), (.int8, .int), (.int16, .int), (.int32, .int), (.int64, .int),
    (.uint, .uint), (.uint8, .uint), (.uint16, .uint), (.uint32, .uint), (.uint64, .uint), (.float32, .float), (.float64, .float)]
  declInt := [.int, .int8, .int16, .int32, .int64, .uint, .uint8, .uint16, .uint32, .uint64]
  floatSix := false
  floatWide := true
  nilGuardArray := true
  nilGuardObject := true
  nilGuardValuePtr := true

/-! ### decimal integers -/

theorem isDigits_toDigits (n : Nat) : isDigits (Nat.toDigits 10 n) = true := by
  unfold isDigits
  simp only [Bool.and_eq_true, Bool.not_eq_true', List.all_eq_true]
  refine ⟨?_, fun c hc => Nat.isDigit_of_mem_toDigits (b := 10) (n := n) (by decide) (by decide) hc⟩
  cases h : Nat.toDigits 10 n with
  | nil => exact absurd h Nat.toDigits_ne_nil
  | cons _ _ => rfl

theorem parseNat_printNat (n : Nat) : parseNat (printNat n) = some n := by
  unfold parseNat printNat
  rw [isDigits_toDigits]
  simp [Nat.ofDigitChars_ten_toDigits]

theorem printNat_head_digit (n : Nat) : ∃ c r, printNat n = c :: r ∧ c.isDigit = true := by
  unfold printNat
  cases h : Nat.toDigits 10 n with
  | nil => exact absurd h Nat.toDigits_ne_nil
  | cons c r =>
    refine ⟨c, r, rfl, ?_⟩
    exact Nat.isDigit_of_mem_toDigits (b := 10) (n := n) (by decide) (by decide) (by rw [h]; simp)

theorem splitSign_digit (c : Char) (r : Text) (h : c.isDigit = true) : splitSign (c :: r) = (false, c :: r) := by
  unfold splitSign
  split
  · next heq => cases heq; simp [Char.isDigit] at h
  · next heq => cases heq; simp [Char.isDigit] at h
  · rfl

theorem parseInt64_printInt (n : Int) (h1 : -9223372036854775808 ≤ n) (h2 : n ≤ 9223372036854775807) :
    parseInt64 (printInt n) = some n := by
  unfold parseInt64 printInt
  by_cases hn : n < 0
  · have hs : splitSign ('-' :: printNat n.natAbs) = (true, printNat n.natAbs) := rfl
    rw [if_pos hn, hs]
    dsimp only
    rw [parseNat_printNat]
    have : ¬ (n.natAbs : Int) > 9223372036854775808 := by omega
    simp [this]
    omega
  · obtain ⟨c, r, hcr, hd⟩ := printNat_head_digit n.natAbs
    rw [if_neg hn, hcr, splitSign_digit c r hd]
    dsimp only
    rw [← hcr, parseNat_printNat]
    have : ¬ (n.natAbs : Int) > 9223372036854775807 := by omega
    simp [this]
    omega

end Bpmn.Model.Value
