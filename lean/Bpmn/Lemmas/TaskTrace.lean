import Bpmn.Model.TaskTrace
/-! Invariants of the task-request model `TT` (helper lemmas for Props/C08). -/
namespace Bpmn.Lemmas.TaskTrace
open Bpmn.Model.TaskTrace

/-- a value `process` may legitimately deliver: its own ctx / timeout error, or the answer of the FIRST caller whose
send completed -/
def Good (log : List Nat) (v : Val) : Prop :=
  v = .errCtx ∨ v = .errTimeout ∨ ∃ i, log.head? = some i ∧ v = .val i

theorem good_append {log : List Nat} {v : Val} (x : Nat) (h : Good log v) : Good (log ++ [x]) v := by
  rcases h with h | h | ⟨i, hi, hv⟩
  · exact Or.inl h
  · exact Or.inr (Or.inl h)
  · refine Or.inr (Or.inr ⟨i, ?_, hv⟩)
    cases log with
    | nil => simp at hi
    | cons a l => simpa using hi

structure Inv (cfg : Cfg) (s : St) : Prop where
  respLen : s.respLog.length ≤ 1
  early : (s.proc = .waiting ∨ ∃ v, s.proc = .got v) → s.respLog = [] ∧ s.resp = []
  gotGood : ∀ v, s.proc = .got v → Good s.sendLog v
  logGood : ∀ v ∈ s.respLog, Good s.sendLog v
  waitingFwd : s.proc = .waiting → s.fwd = s.sendLog
  fwdCap : s.fwd.length ≤ cfg.forwardCap
  doneIff : s.done = true ↔ s.proc = .closed

theorem inv_init (cfg : Cfg) : Inv cfg init := by
  constructor <;> simp [init]

theorem inv_setPc {cfg : Cfg} {s : St} (h : Inv cfg s) (i : Nat) (p : Pc) : Inv cfg (s.setPc i p) := by
  exact ⟨h.respLen, h.early, h.gotGood, h.logGood, h.waitingFwd, h.fwdCap, h.doneIff⟩

theorem inv_step {cfg : Cfg} {s s' : St} (a : Act) (h : Inv cfg s) (hs : step cfg s a = some s') : Inv cfg s' := by
  cases a with
  | check i =>
    simp only [step] at hs
    split at hs
    · cases hs; exact inv_setPc h _ _
    · cases hs
  | send i =>
    simp only [step] at hs
    split at hs
    · split at hs
      · next hlt =>
        cases hs
        refine ⟨h.respLen, h.early, fun v hv => good_append _ (h.gotGood v hv),
          fun v hv => good_append _ (h.logGood v hv), ?_, ?_, h.doneIff⟩
        · intro hw; simp only [St.setPc]; rw [h.waitingFwd hw]
        · simp only [St.setPc, List.length_append, List.length_cons, List.length_nil]; omega
      · split at hs
        · next hr =>
          cases hs
          have hf : s.fwd = [] := by
            have := h.fwdCap; rw [hr.1] at this
            exact List.eq_nil_of_length_eq_zero (by omega)
          have hl : s.sendLog = [] := by rw [← h.waitingFwd hr.2]; exact hf
          refine ⟨h.respLen, ?_, ?_, fun v hv => good_append _ (h.logGood v hv), ?_, h.fwdCap, ?_⟩
          · intro _; exact h.early (Or.inl hr.2)
          · intro v hv
            simp only [St.setPc, Proc.got.injEq] at hv
            subst hv
            exact Or.inr (Or.inr ⟨i, by simp [St.setPc, hl], rfl⟩)
          · intro hw; simp [St.setPc] at hw
          · simp only [St.setPc]
            constructor
            · intro hd; have := h.doneIff.mp hd; rw [hr.2] at this; cases this
            · intro hc; cases hc
        · cases hs
    · cases hs
  | bail i =>
    simp only [step] at hs
    split at hs
    · split at hs
      · cases hs
      · split at hs
        · cases hs
        · cases hs; exact inv_setPc h _ _
      · split at hs
        · cases hs; exact inv_setPc h _ _
        · cases hs
    · cases hs
  | ret i =>
    simp only [step] at hs
    split at hs
    · cases hs; exact inv_setPc h _ _
    · cases hs
  | recv =>
    simp only [step] at hs
    split at hs
    · next v rest hp hf =>
      cases hs
      have hl := h.waitingFwd hp
      refine ⟨h.respLen, fun _ => h.early (Or.inl hp), ?_, h.logGood, ?_, ?_, ?_⟩
      · intro w hw
        simp only [Proc.got.injEq] at hw
        subst hw
        exact Or.inr (Or.inr ⟨v, by rw [← hl, hf]; rfl, rfl⟩)
      · intro hw; cases hw
      · have := h.fwdCap; rw [hf] at this; simp only [List.length_cons] at this; simp only; omega
      · constructor
        · intro hd; have := h.doneIff.mp hd; rw [hp] at this; cases this
        · intro hc; cases hc
    · cases hs
  | fireCtx =>
    simp only [step] at hs
    split at hs
    · next hc =>
      cases hs
      refine ⟨h.respLen, fun _ => h.early (Or.inl hc.1), ?_, h.logGood, ?_, h.fwdCap, ?_⟩
      · intro w hw; simp only [Proc.got.injEq] at hw; subst hw; exact Or.inl rfl
      · intro hw; cases hw
      · constructor
        · intro hd; have := h.doneIff.mp hd; rw [hc.1] at this; cases this
        · intro hc'; cases hc'
    · cases hs
  | fireTimeout =>
    simp only [step] at hs
    split at hs
    · next hc =>
      cases hs
      refine ⟨h.respLen, fun _ => h.early (Or.inl hc.1), ?_, h.logGood, ?_, h.fwdCap, ?_⟩
      · intro w hw; simp only [Proc.got.injEq] at hw; subst hw; exact Or.inr (Or.inl rfl)
      · intro hw; cases hw
      · constructor
        · intro hd; have := h.doneIff.mp hd; rw [hc.1] at this; cases this
        · intro hc'; cases hc'
    · cases hs
  | respond =>
    simp only [step] at hs
    split at hs
    · next v hp =>
      have he := h.early (Or.inr ⟨v, hp⟩)
      have hg := h.gotGood v hp
      have hd : ¬ s.done = true := by
        intro hd; have := h.doneIff.mp hd; rw [hp] at this; cases this
      split at hs
      · cases hs
        refine ⟨by simp [he.1], ?_, ?_, ?_, ?_, h.fwdCap, ?_⟩
        · intro hc; rcases hc with hc | ⟨w, hc⟩ <;> cases hc
        · intro w hw; cases hw
        · intro w hw; simp only [he.1, List.nil_append, List.mem_singleton] at hw; subst hw; exact hg
        · intro hw; cases hw
        · constructor
          · intro hd'; exact absurd hd' hd
          · intro hc; cases hc
      · split at hs
        · cases hs
          refine ⟨by simp [he.1], ?_, ?_, ?_, ?_, h.fwdCap, ?_⟩
          · intro hc; rcases hc with hc | ⟨w, hc⟩ <;> cases hc
          · intro w hw; cases hw
          · intro w hw; simp only [he.1, List.nil_append, List.mem_singleton] at hw; subst hw; exact hg
          · intro hw; cases hw
          · constructor
            · intro hd'; exact absurd hd' hd
            · intro hc; cases hc
        · cases hs
    · cases hs
  | close =>
    simp only [step] at hs
    split at hs
    · cases hs
      refine ⟨h.respLen, ?_, ?_, h.logGood, ?_, h.fwdCap, by simp⟩
      · intro hc; rcases hc with hc | ⟨w, hc⟩ <;> cases hc
      · intro w hw; cases hw
      · intro hw; cases hw
    · cases hs
  | consume =>
    simp only [step] at hs
    split at hs
    · next v rest hc hr =>
      cases hs
      refine ⟨h.respLen, ?_, h.gotGood, h.logGood, h.waitingFwd, h.fwdCap, h.doneIff⟩
      intro hp
      have := (h.early hp).2
      rw [hr] at this; cases this
    · cases hs
  | leave =>
    simp only [step] at hs
    split at hs
    · cases hs; exact ⟨h.respLen, h.early, h.gotGood, h.logGood, h.waitingFwd, h.fwdCap, h.doneIff⟩
    · cases hs
  | cancel =>
    simp only [step] at hs
    split at hs
    · cases hs
    · cases hs; exact ⟨h.respLen, h.early, h.gotGood, h.logGood, h.waitingFwd, h.fwdCap, h.doneIff⟩
  | expire =>
    simp only [step] at hs
    split at hs
    · cases hs
    · cases hs; exact ⟨h.respLen, h.early, h.gotGood, h.logGood, h.waitingFwd, h.fwdCap, h.doneIff⟩

theorem inv_stepD {cfg : Cfg} {s : St} (a : Act) (h : Inv cfg s) : Inv cfg (stepD cfg s a) := by
  unfold stepD
  cases hs : step cfg s a with
  | none => simpa using h
  | some s' => simpa using inv_step a h hs

theorem inv_run {cfg : Cfg} (sched : List Act) : ∀ {s : St}, Inv cfg s → Inv cfg (run cfg s sched) := by
  induction sched with
  | nil => intro s h; exact h
  | cons a rest ih => intro s h; exact ih (inv_stepD a h)

theorem run_append (cfg : Cfg) (s : St) (a b : List Act) : run cfg s (a ++ b) = run cfg (run cfg s a) b := by
  simp [run, List.foldl_append]

theorem run_cons (cfg : Cfg) (s : St) (a : Act) (b : List Act) : run cfg s (a :: b) = run cfg (stepD cfg s a) b := rfl

end Bpmn.Lemmas.TaskTrace
