import Bpmn.Model.TaskTrace
import Bpmn.Props.C01
/-! Invariants of the task-request model `TT` (helper lemmas for Props/C08). -/
namespace Bpmn.Lemmas.TaskTrace
open Bpmn.Model.TaskTrace

/-- a value `process` may legitimately deliver: its own ctx / timeout error, or the answer of the FIRST caller whose
send completed -/
def Good (log : List Nat) (v : Val) : Prop :=
  v = .errCtx ∨ v = .errTimeout ∨ ∃ i, log.head? = some i ∧ v = .val i

theorem good_append {log : List Nat} {v : Val} (x : Nat) (h : Good log v) : Good (log ++ [x]) v := by
  rcases h with h | h | ⟨i, hi, hv⟩
  · exact Or.inl h
  · exact Or.inr (Or.inl h)
  · refine Or.inr (Or.inr ⟨i, ?_, hv⟩)
    cases log with
    | nil => simp at hi
    | cons a l => simpa using hi

structure Inv (cfg : Cfg) (s : St) : Prop where
  respLen : s.respLog.length ≤ 1
  early : (s.proc = .waiting ∨ ∃ v, s.proc = .got v) → s.respLog = [] ∧ s.resp = []
  gotGood : ∀ v, s.proc = .got v → Good s.sendLog v
  logGood : ∀ v ∈ s.respLog, Good s.sendLog v
  waitingFwd : s.proc = .waiting → s.fwd = s.sendLog
  fwdCap : s.fwd.length ≤ cfg.forwardCap
  doneIff : s.done = true ↔ s.proc = .closed

theorem inv_init (cfg : Cfg) : Inv cfg init := by
  constructor <;> simp [init]

theorem inv_setPc {cfg : Cfg} {s : St} (h : Inv cfg s) (i : Nat) (p : Pc) : Inv cfg (s.setPc i p) := by
  exact ⟨h.respLen, h.early, h.gotGood, h.logGood, h.waitingFwd, h.fwdCap, h.doneIff⟩

theorem inv_step {cfg : Cfg} {s s' : St} (a : Act) (h : Inv cfg s) (hs : step cfg s a = some s') : Inv cfg s' := by
  cases a with
  | check i =>
    simp only [step] at hs
    split at hs
    · cases hs; exact inv_setPc h _ _
    · cases hs
  | send i =>
    simp only [step] at hs
    split at hs
    · split at hs
      · next hlt =>
        cases hs
        refine ⟨h.respLen, h.early, fun v hv => good_append _ (h.gotGood v hv),
          fun v hv => good_append _ (h.logGood v hv), ?_, ?_, h.doneIff⟩
        · intro hw; dsimp only; rw [h.waitingFwd hw]
        · simp only [List.length_append, List.length_cons, List.length_nil]; omega
      · split at hs
        · next hr =>
          cases hs
          have hf : s.fwd = [] := by
            have := h.fwdCap; rw [hr.1] at this
            exact List.eq_nil_of_length_eq_zero (by omega)
          have hl : s.sendLog = [] := by rw [← h.waitingFwd hr.2]; exact hf
          refine ⟨h.respLen, ?_, ?_, fun v hv => good_append _ (h.logGood v hv), ?_, h.fwdCap, ?_⟩
          · intro _; exact h.early (Or.inl hr.2)
          · intro v hv
            simp only [Proc.got.injEq] at hv
            subst hv
            exact Or.inr (Or.inr ⟨i, by simp [hl], rfl⟩)
          · intro hw; simp at hw
          · simp only [St.setPc]
            constructor
            · intro hd; have := h.doneIff.mp hd; rw [hr.2] at this; cases this
            · intro hc; cases hc
        · cases hs
    · cases hs
  | bail i =>
    simp only [step] at hs
    split at hs
    · split at hs
      · cases hs
      · split at hs
        · cases hs
        · cases hs; exact inv_setPc h _ _
      · split at hs
        · cases hs; exact inv_setPc h _ _
        · cases hs
    · cases hs
  | ret i =>
    simp only [step] at hs
    split at hs
    · cases hs; exact inv_setPc h _ _
    · cases hs
  | recv =>
    simp only [step] at hs
    split at hs
    · next v rest hp hf =>
      cases hs
      have hl := h.waitingFwd hp
      refine ⟨h.respLen, fun _ => h.early (Or.inl hp), ?_, h.logGood, ?_, ?_, ?_⟩
      · intro w hw
        simp only [Proc.got.injEq] at hw
        subst hw
        exact Or.inr (Or.inr ⟨v, by rw [← hl, hf]; rfl, rfl⟩)
      · intro hw; cases hw
      · have := h.fwdCap; rw [hf] at this; simp only [List.length_cons] at this; simp only; omega
      · constructor
        · intro hd; have := h.doneIff.mp hd; rw [hp] at this; cases this
        · intro hc; cases hc
    · cases hs
  | fireCtx =>
    simp only [step] at hs
    split at hs
    · next hc =>
      cases hs
      refine ⟨h.respLen, fun _ => h.early (Or.inl hc.1), ?_, h.logGood, ?_, h.fwdCap, ?_⟩
      · intro w hw; simp only [Proc.got.injEq] at hw; subst hw; exact Or.inl rfl
      · intro hw; cases hw
      · constructor
        · intro hd; have := h.doneIff.mp hd; rw [hc.1] at this; cases this
        · intro hc'; cases hc'
    · cases hs
  | fireTimeout =>
    simp only [step] at hs
    split at hs
    · next hc =>
      cases hs
      refine ⟨h.respLen, fun _ => h.early (Or.inl hc.1), ?_, h.logGood, ?_, h.fwdCap, ?_⟩
      · intro w hw; simp only [Proc.got.injEq] at hw; subst hw; exact Or.inr (Or.inl rfl)
      · intro hw; cases hw
      · constructor
        · intro hd; have := h.doneIff.mp hd; rw [hc.1] at this; cases this
        · intro hc'; cases hc'
    · cases hs
  | respond =>
    simp only [step] at hs
    split at hs
    · next v hp =>
      have he := h.early (Or.inr ⟨v, hp⟩)
      have hg := h.gotGood v hp
      have hd : ¬ s.done = true := by
        intro hd; have := h.doneIff.mp hd; rw [hp] at this; cases this
      split at hs
      · cases hs
        refine ⟨by simp [he.1], ?_, ?_, ?_, ?_, h.fwdCap, ?_⟩
        · intro hc; rcases hc with hc | ⟨w, hc⟩ <;> cases hc
        · intro w hw; cases hw
        · intro w hw; simp only [he.1, List.nil_append, List.mem_singleton] at hw; subst hw; exact hg
        · intro hw; cases hw
        · constructor
          · intro hd'; exact absurd hd' hd
          · intro hc; cases hc
      · split at hs
        · cases hs
          refine ⟨by simp [he.1], ?_, ?_, ?_, ?_, h.fwdCap, ?_⟩
          · intro hc; rcases hc with hc | ⟨w, hc⟩ <;> cases hc
          · intro w hw; cases hw
          · intro w hw; simp only [he.1, List.nil_append, List.mem_singleton] at hw; subst hw; exact hg
          · intro hw; cases hw
          · constructor
            · intro hd'; exact absurd hd' hd
            · intro hc; cases hc
        · cases hs
    · cases hs
  | close =>
    simp only [step] at hs
    split at hs
    · cases hs
      refine ⟨h.respLen, ?_, ?_, h.logGood, ?_, h.fwdCap, by simp⟩
      · intro hc; rcases hc with hc | ⟨w, hc⟩ <;> cases hc
      · intro w hw; cases hw
      · intro hw; cases hw
    · cases hs
  | consume =>
    simp only [step] at hs
    split at hs
    · next v rest hc hr =>
      cases hs
      refine ⟨h.respLen, ?_, h.gotGood, h.logGood, h.waitingFwd, h.fwdCap, h.doneIff⟩
      intro hp
      have := (h.early hp).2
      rw [hr] at this; cases this
    · cases hs
  | leave =>
    simp only [step] at hs
    split at hs
    · cases hs; exact ⟨h.respLen, h.early, h.gotGood, h.logGood, h.waitingFwd, h.fwdCap, h.doneIff⟩
    · cases hs
  | cancel =>
    simp only [step] at hs
    split at hs
    · cases hs
    · cases hs; exact ⟨h.respLen, h.early, h.gotGood, h.logGood, h.waitingFwd, h.fwdCap, h.doneIff⟩
  | expire =>
    simp only [step] at hs
    split at hs
    · cases hs
    · cases hs; exact ⟨h.respLen, h.early, h.gotGood, h.logGood, h.waitingFwd, h.fwdCap, h.doneIff⟩

theorem inv_stepD {cfg : Cfg} {s : St} (a : Act) (h : Inv cfg s) : Inv cfg (stepD cfg s a) := by
  unfold stepD
  cases hs : step cfg s a with
  | none => simpa using h
  | some s' => simpa using inv_step a h hs

theorem inv_run {cfg : Cfg} (sched : List Act) : ∀ {s : St}, Inv cfg s → Inv cfg (run cfg s sched) := by
  induction sched with
  | nil => intro s h; exact h
  | cons a rest ih => intro s h; exact ih (inv_stepD a h)

theorem run_append (cfg : Cfg) (s : St) (a b : List Act) : run cfg s (a ++ b) = run cfg (run cfg s a) b := by
  simp [run, List.foldl_append]

theorem run_cons (cfg : Cfg) (s : St) (a : Act) (b : List Act) : run cfg s (a :: b) = run cfg (stepD cfg s a) b := rfl


/-! ## ranks and progress -/

theorem done_stable (cfg : Cfg) (s s' : St) (a : Act) (hs : step cfg s a = some s') (hd : s.done = true) : s'.done = true := by
  cases a <;> simp only [step] at hs <;> (repeat' split at hs) <;> cases hs <;> simp_all [St.setPc]

theorem caller_rank_mono (cfg : Cfg) (s s' : St) (a : Act) (hs : step cfg s a = some s') (i : Nat) :
    pcRank (s.pc i) ≤ pcRank (s'.pc i) := by
  cases a <;> simp only [step] at hs <;> (repeat' split at hs) <;> cases hs <;> simp only [St.setPc] <;>
    (try split) <;> simp_all [pcRank]

def ownActs (i : Nat) : List Act := [.check i, .send i, .bail i, .ret i]

theorem caller_own_step (cfg : Cfg) (s s' : St) (i : Nat) (a : Act) (ha : a ∈ ownActs i) (hs : step cfg s a = some s') :
    pcRank (s.pc i) < pcRank (s'.pc i) := by
  simp only [ownActs, List.mem_cons, List.mem_nil_iff, or_false] at ha
  rcases ha with rfl | rfl | rfl | rfl <;> simp only [step] at hs <;> (repeat' split at hs) <;> cases hs <;>
    simp_all [St.setPc, pcRank]

theorem proc_rank_mono (cfg : Cfg) (s s' : St) (a : Act) (hs : step cfg s a = some s') :
    procRank s.proc ≤ procRank s'.proc := by
  cases a <;> simp only [step] at hs <;> (repeat' split at hs) <;> cases hs <;> simp_all [St.setPc, procRank]

theorem proc_own_step (cfg : Cfg) (s s' : St) (a : Act) (ha : a ∈ [Act.recv, .fireCtx, .fireTimeout, .respond, .close])
    (hs : step cfg s a = some s') : procRank s.proc < procRank s'.proc := by
  simp only [List.mem_cons, List.mem_nil_iff, or_false] at ha
  rcases ha with rfl | rfl | rfl | rfl | rfl <;> simp only [step] at hs <;> (repeat' split at hs) <;> cases hs <;>
    simp_all [procRank]

theorem tt_progress (cfg : Cfg) (hok : Ok cfg = true) (s : St) (h : Inv cfg s) (i : Nat) (hn : s.pc i ≠ .returned) :
    ∃ a ∈ coreActs i, (step cfg s a).isSome = true := by
  cases hp : s.pc i with
  | returned => exact absurd hp hn
  | start => exact ⟨.check i, by simp [coreActs], by simp [step, hp]⟩
  | sent => exact ⟨.ret i, by simp [coreActs], by simp [step, hp]⟩
  | passed =>
    by_cases hroom : s.fwd.length < cfg.forwardCap
    · exact ⟨.send i, by simp [coreActs], by simp [step, hp, hroom]⟩
    · unfold Ok at hok
      split at hok
      · cases hok
      · next hm => exact ⟨.bail i, by simp [coreActs], by simp [step, hp, hm, hroom]⟩
      · next hm =>
        have hrc : 1 ≤ cfg.responseCap := by simpa using hok
        by_cases hd : s.done = true
        · exact ⟨.bail i, by simp [coreActs], by simp [step, hp, hm, hd]⟩
        · cases hproc : s.proc with
          | waiting =>
            cases hf : s.fwd with
            | nil =>
              have hc : cfg.forwardCap = 0 := by rw [hf] at hroom; simpa using hroom
              exact ⟨.send i, by simp [coreActs], by simp [step, hp, hc, hproc]⟩
            | cons v rest => exact ⟨.recv, by simp [coreActs], by simp [step, hproc, hf]⟩
          | got v =>
            have he := (h.early (Or.inr ⟨v, hproc⟩)).2
            exact ⟨.respond, by simp [coreActs], by
              have : 0 < cfg.responseCap := by omega
              simp [step, hproc, he, this]⟩
          | forwarded => exact ⟨.close, by simp [coreActs], by simp [step, hproc]⟩
          | closed => exact absurd (h.doneIff.mpr hproc) hd

/-! ## callers that block for ever -/

/-- caller `i` sits behind the `done` check of a blocking send, the buffer is full and `process` will never receive again -/
def StuckB (cfg : Cfg) (i : Nat) (s : St) : Prop :=
  cfg.mode = .blocking ∧ s.pc i = .passed ∧ s.proc ≠ .waiting ∧ cfg.forwardCap ≤ s.fwd.length

theorem stuckB_step {cfg : Cfg} {i : Nat} {s s' : St} (a : Act) (h : StuckB cfg i s) (hs : step cfg s a = some s') :
    StuckB cfg i s' := by
  obtain ⟨hm, hp, hw, hc⟩ := h
  cases a <;> simp only [step] at hs <;> (repeat' split at hs) <;> cases hs <;>
    simp_all [StuckB, St.setPc] <;> (try omega) <;> (try (intro e; subst e; simp_all))

theorem stuckB_run {cfg : Cfg} {i : Nat} (sched : List Act) : ∀ {s : St}, StuckB cfg i s → StuckB cfg i (run cfg s sched) := by
  induction sched with
  | nil => intro s h; exact h
  | cons a rest ih =>
    intro s h
    rw [run_cons]
    apply ih
    unfold stepD
    cases hs : step cfg s a with
    | none => simpa using h
    | some s' => simpa using stuckB_step a h hs

def StuckD (cfg : Cfg) (i : Nat) (s : St) : Prop :=
  cfg.mode = .selDone ∧ cfg.responseCap = 0 ∧ s.pc i = .passed ∧ (∃ v, s.proc = .got v) ∧ s.cons = .gone ∧
    s.done = false ∧ cfg.forwardCap ≤ s.fwd.length

theorem stuckD_step {cfg : Cfg} {i : Nat} {s s' : St} (a : Act) (h : StuckD cfg i s) (hs : step cfg s a = some s') :
    StuckD cfg i s' := by
  obtain ⟨hm, hr, hp, ⟨v, hv⟩, hc, hd, hf⟩ := h
  cases a <;> simp only [step] at hs <;> (repeat' split at hs) <;> cases hs <;>
    simp_all [StuckD, St.setPc] <;> (try omega) <;> (try (intro e; subst e; simp_all))

theorem stuckD_run {cfg : Cfg} {i : Nat} (sched : List Act) : ∀ {s : St}, StuckD cfg i s → StuckD cfg i (run cfg s sched) := by
  induction sched with
  | nil => intro s h; exact h
  | cons a rest ih =>
    intro s h
    rw [run_cons]
    apply ih
    unfold stepD
    cases hs : step cfg s a with
    | none => simpa using h
    | some s' => simpa using stuckD_step a h hs

theorem run_fill (cfg : Cfg) : ∀ (n b : Nat) (s : St), s.done = false → s.proc ≠ .waiting → (∀ j, b ≤ j → s.pc j = .start) →
    s.fwd.length + n ≤ cfg.forwardCap →
    (run cfg s (fill b n)).fwd.length = s.fwd.length + n ∧ (run cfg s (fill b n)).proc = s.proc ∧
    (run cfg s (fill b n)).done = false ∧ (run cfg s (fill b n)).cons = s.cons ∧
    (∀ j, j < b → (run cfg s (fill b n)).pc j = s.pc j) := by
  intro n
  induction n with
  | zero => intro b s hd _ _ _; simp [fill, run, hd]
  | succ n ih =>
    intro b s hd hw hst hcap
    have hb : s.pc b = .start := hst b (Nat.le_refl b)
    have hlt : s.fwd.length < cfg.forwardCap := by omega
    have e1 : stepD cfg s (.check b) = s.setPc b .passed := by simp [stepD, step, hb, hd]
    have e2 : stepD cfg (s.setPc b .passed) (.send b) =
        { (s.setPc b .passed).setPc b .sent with fwd := s.fwd ++ [b], sendLog := s.sendLog ++ [b] } := by
      simp [stepD, step, St.setPc, hlt]
    simp only [fill, run_cons, e1, e2]
    have := ih (b + 1) { (s.setPc b .passed).setPc b .sent with fwd := s.fwd ++ [b], sendLog := s.sendLog ++ [b] }
      (by simpa [St.setPc] using hd) (by simpa [St.setPc] using hw)
      (by intro j hj; simp only [St.setPc]; rw [if_neg (by omega), if_neg (by omega)]; exact hst j (by omega))
      (by simp; omega)
    obtain ⟨h1, h2, h3, h4, h5⟩ := this
    refine ⟨by rw [h1]; simp; omega, by rw [h2]; simp [St.setPc], h3, by rw [h4]; simp [St.setPc], ?_⟩
    intro j hj
    rw [h5 j (by omega)]
    simp only [St.setPc]
    rw [if_neg (by omega), if_neg (by omega)]

theorem prefixB (cfg : Cfg) :
    let s1 := run cfg init [.check 0, .check 1, .send 1, .recv]
    s1.pc 0 = .passed ∧ s1.done = false ∧ s1.proc ≠ .waiting ∧ s1.fwd = [] ∧ (∀ j, 2 ≤ j → s1.pc j = .start) := by
  by_cases hc : cfg.forwardCap = 0
  · simp [run, stepD, step, init, St.setPc, hc]
    intro j hj
    rw [if_neg (by omega), if_neg (by omega), if_neg (by omega)]
  · have : 0 < cfg.forwardCap := by omega
    simp [run, stepD, step, init, St.setPc, this]
    intro j hj
    rw [if_neg (by omega), if_neg (by omega), if_neg (by omega)]

theorem prefixD (cfg : Cfg) :
    let s1 := run cfg init [.cancel, .leave, .fireCtx, .check 0]
    s1.pc 0 = .passed ∧ s1.done = false ∧ s1.proc = .got .errCtx ∧ s1.cons = .gone ∧ s1.fwd = [] ∧
      (∀ j, 1 ≤ j → s1.pc j = .start) := by
  simp [run, stepD, step, init, St.setPc]
  intro j hj
  omega

theorem witnessB_stuck (cfg : Cfg) (hm : cfg.mode = .blocking) :
    StuckB cfg 0 (run cfg init (witnessBlocking cfg.forwardCap)) := by
  unfold witnessBlocking
  rw [run_append]
  obtain ⟨h0, hd, hw, hf, hst⟩ := prefixB cfg
  have := run_fill cfg cfg.forwardCap 2 _ hd hw hst (by rw [hf]; simp)
  obtain ⟨h1, h2, _, _, h5⟩ := this
  refine ⟨hm, ?_, ?_, ?_⟩
  · rw [h5 0 (by omega)]; exact h0
  · rw [h2]; exact hw
  · rw [h1]; omega

theorem witnessD_stuck (cfg : Cfg) (hm : cfg.mode = .selDone) (hr : cfg.responseCap = 0) :
    StuckD cfg 0 (run cfg init (witnessNoReader cfg.forwardCap)) := by
  unfold witnessNoReader
  rw [run_append]
  obtain ⟨h0, hd, hp, hc, hf, hst⟩ := prefixD cfg
  have := run_fill cfg cfg.forwardCap 1 _ hd (by rw [hp]; simp) hst (by rw [hf]; simp)
  obtain ⟨h1, h2, h3, h4, h5⟩ := this
  refine ⟨hm, hr, ?_, ⟨.errCtx, by rw [h2]; exact hp⟩, by rw [h4]; exact hc, h3, by rw [h1]; omega⟩
  rw [h5 0 (by omega)]; exact h0

/-! ## a caller that is let run returns -/

theorem returned_stable (cfg : Cfg) (s : St) (a : Act) (i : Nat) (h : s.pc i = .returned) : (stepD cfg s a).pc i = .returned := by
  unfold stepD
  cases hs : step cfg s a with
  | none => simpa using h
  | some s' =>
    simp only [Option.getD_some]
    cases a <;> simp only [step] at hs <;> (repeat' split at hs) <;> cases hs <;> simp only [St.setPc] <;>
      (try split) <;> simp_all

theorem returned_run (cfg : Cfg) (i : Nat) (sched : List Act) : ∀ (s : St), s.pc i = .returned → (run cfg s sched).pc i = .returned := by
  induction sched with
  | nil => intro s h; exact h
  | cons a rest ih => intro s h; rw [run_cons]; exact ih _ (returned_stable cfg s a i h)

/-- once `done` is closed, caller `i` returns by its own next three attempts -/
theorem finish_when_done (cfg : Cfg) (hmode : cfg.mode ≠ .blocking) (s : St) (i : Nat) (hd : s.done = true) (hp : s.pc i ≠ .start)
    (hsel : cfg.mode = .selDefault → ¬ s.pc i = .passed) :
    (run cfg s [.send i, .bail i, .ret i]).pc i = .returned := by
  cases hpc : s.pc i with
  | start => exact absurd hpc hp
  | returned => exact returned_run cfg i _ s hpc
  | sent => simp [run, stepD, step, hpc, St.setPc]
  | passed =>
    cases hm : cfg.mode with
    | blocking => exact absurd hm hmode
    | selDefault => exact absurd hpc (hsel hm)
    | selDone =>
      by_cases hroom : s.fwd.length < cfg.forwardCap
      · simp [run, stepD, step, hpc, St.setPc, hroom]
      · by_cases hr : cfg.forwardCap = 0 ∧ s.proc = .waiting
        · simp [run, stepD, step, hpc, St.setPc, hr]
        · simp [run, stepD, step, hpc, St.setPc, hroom, hr, hm, hd]

theorem proc_acts_keep_pc (cfg : Cfg) (s : St) (a : Act) (ha : a = .recv ∨ a = .respond ∨ a = .close) :
    (stepD cfg s a).pc = s.pc := by
  unfold stepD
  cases hs : step cfg s a with
  | none => rfl
  | some s' =>
    simp only [Option.getD_some]
    rcases ha with rfl | rfl | rfl <;> simp only [step] at hs <;> (repeat' split at hs) <;> cases hs <;> rfl

theorem proc_run_keep_pc (cfg : Cfg) (s : St) : (run cfg s [.recv, .respond, .close]).pc = s.pc := by
  simp only [run, List.foldl_cons, List.foldl_nil]
  rw [proc_acts_keep_pc _ _ _ (Or.inr (Or.inr rfl)), proc_acts_keep_pc _ _ _ (Or.inr (Or.inl rfl)),
    proc_acts_keep_pc _ _ _ (Or.inl rfl)]

theorem proc_finishes (cfg : Cfg) (hrc : 1 ≤ cfg.responseCap) (s : St) (h : Inv cfg s)
    (hw : s.proc = .waiting → s.fwd ≠ []) : (run cfg s [.recv, .respond, .close]).done = true := by
  have hpos : 0 < cfg.responseCap := by omega
  cases hp : s.proc with
  | waiting =>
    have he := (h.early (Or.inl hp)).2
    cases hf : s.fwd with
    | nil => exact absurd hf (hw hp)
    | cons v rest => simp [run, stepD, step, hp, hf, he, hpos]
  | got v =>
    have he := (h.early (Or.inr ⟨v, hp⟩)).2
    simp [run, stepD, step, hp, he, hpos]
  | forwarded => simp [run, stepD, step, hp]
  | closed => simpa [run, stepD, step, hp] using h.doneIff.mpr hp

theorem after_send_bail (cfg : Cfg) (hok : Ok cfg = true) (s : St) (i : Nat) (hp : s.pc i ≠ .start) :
    (run cfg s [.send i, .bail i]).pc i = .returned ∨ (run cfg s [.send i, .bail i]).pc i = .sent ∨
    (run cfg s [.send i, .bail i] = s ∧ s.pc i = .passed ∧ cfg.mode = .selDone ∧ ¬ s.fwd.length < cfg.forwardCap ∧
      ¬ (cfg.forwardCap = 0 ∧ s.proc = .waiting) ∧ s.done = false) := by
  cases hpc : s.pc i with
  | start => exact absurd hpc hp
  | returned => exact Or.inl (returned_run cfg i _ s hpc)
  | sent => right; left; simp [run, stepD, step, hpc]
  | passed =>
    by_cases hroom : s.fwd.length < cfg.forwardCap
    · right; left; simp [run, stepD, step, hpc, St.setPc, hroom]
    · by_cases hr : cfg.forwardCap = 0 ∧ s.proc = .waiting
      · right; left; simp [run, stepD, step, hpc, St.setPc, hr]
      · unfold Ok at hok
        split at hok
        · cases hok
        · next hm => left; simp [run, stepD, step, hpc, St.setPc, hroom, hr, hm]
        · next hm =>
          by_cases hd : s.done = true
          · left; simp [run, stepD, step, hpc, St.setPc, hroom, hr, hm, hd]
          · right; right
            refine ⟨?_, rfl, hm, hroom, hr, by simpa using hd⟩
            simp [run, stepD, step, hpc, hroom, hr, hm, hd]

theorem check_leaves_start (cfg : Cfg) (s : St) (i : Nat) : (stepD cfg s (.check i)).pc i ≠ .start := by
  cases hpc : s.pc i <;> simp [stepD, step, hpc, St.setPc]
  split <;> simp

theorem tt_drive (cfg : Cfg) (hok : Ok cfg = true) (s : St) (h : Inv cfg s) (i : Nat) :
    (run cfg s (drive i)).pc i = .returned := by
  have e : drive i = [.check i] ++ ([.send i, .bail i] ++ ([.recv, .respond, .close] ++ [.send i, .bail i, .ret i])) := rfl
  rw [e, run_append, run_append, run_append]
  have h1 : Inv cfg (run cfg s [.check i]) := inv_run _ h
  have hp1 : (run cfg s [.check i]).pc i ≠ .start := check_leaves_start cfg s i
  generalize run cfg s [.check i] = s1 at h1 hp1
  have h2 : Inv cfg (run cfg s1 [.send i, .bail i]) := inv_run _ h1
  rcases after_send_bail cfg hok s1 i hp1 with hr | hs | ⟨heq, hpa, hm, hroom, hrdv, hd⟩
  · exact returned_run cfg i _ _ (returned_run cfg i _ _ hr)
  · generalize run cfg s1 [.send i, .bail i] = s2 at h2 hs
    have : (run cfg s2 [.recv, .respond, .close]).pc i = .sent := by rw [proc_run_keep_pc]; exact hs
    generalize run cfg s2 [.recv, .respond, .close] = s3 at this
    simp [run, stepD, step, this, St.setPc]
  · rw [heq]
    have hrc : 1 ≤ cfg.responseCap := by
      unfold Ok at hok; rw [hm] at hok; simpa using hok
    have hdone := proc_finishes cfg hrc s1 h1 (by
      intro hw hf
      have : cfg.forwardCap ≠ 0 := fun hc => hrdv ⟨hc, hw⟩
      rw [hf] at hroom; simp at hroom; omega)
    have hpc3 : (run cfg s1 [.recv, .respond, .close]).pc i = .passed := by rw [proc_run_keep_pc]; exact hpa
    exact finish_when_done cfg (by rw [hm]; simp) _ i hdone (by rw [hpc3]; simp) (by rw [hm]; simp)

/-! ## retry counter -/

section
open Bpmn.Model

theorem requests_cons_request (evs : List Ev) : requests (.request :: evs) = requests evs + 1 := by
  simp [requests, List.countP_cons, Ev.isRequest]

theorem requests_cons_other (e : Ev) (evs : List Ev) (h : e.isRequest = false) : requests (e :: evs) = requests evs := by
  simp [requests, h]

theorem requests_append (a b : List Ev) : requests (a ++ b) = requests a + requests b := by
  simp [requests]

/-- one retry answer: what the error switch does with the counter -/
theorem errSwitch_retry (td : Int) (r : Option Retry) (n : Int) :
    errSwitch td r (.mode 1 n) =
      if n = -1 ∨ n > attemptsOf r then (.rerequest, some ⟨n, attemptsOf r + 1⟩) else (.endToken, some ⟨n, attemptsOf r⟩) := by
  cases r with
  | none =>
    by_cases h1 : n = -1 <;> by_cases h2 : n > 0 <;>
      simp [errSwitch, Retry.reset, Retry.isContinue, Retry.stepR, retrySentinel, attemptsOf, h1, h2]
  | some x =>
    by_cases h1 : n = -1 <;> by_cases h2 : n > x.attempts <;>
      simp [errSwitch, Retry.reset, Retry.isContinue, Retry.stepR, retrySentinel, attemptsOf, h1, h2]

theorem retry_exact_aux (td n : Int) (hn : 0 ≤ n) : ∀ (f : Nat) (r : Option Retry), 0 ≤ attemptsOf r →
    requests (tokenRun td r (failThenOk n f)).1 = 1 + min (n - attemptsOf r).toNat f := by
  intro f
  induction f with
  | zero => intro r _; simp [failThenOk, tokenRun, onAnswer, requests, List.countP_cons, Ev.isRequest]
  | succ f ih =>
    intro r ha
    have e : failThenOk n (f + 1) = .err (.mode 1 n) :: failThenOk n f := by
      simp [failThenOk, List.replicate_succ]
    rw [e]
    simp only [tokenRun, onAnswer, errSwitch_retry]
    have hne : ¬ n = -1 := by omega
    by_cases hgt : n > attemptsOf r
    · rw [if_pos (Or.inr hgt)]
      simp only [List.cons_append, List.nil_append, requests_cons_request]
      rw [requests_cons_other _ _ rfl]
      have := ih (some ⟨n, attemptsOf r + 1⟩) (by show 0 ≤ attemptsOf r + 1; omega)
      rw [this]
      show 1 + min (n - (attemptsOf r + 1)).toNat f + 1 = 1 + min (n - attemptsOf r).toNat (f + 1)
      omega
    · rw [if_neg (by intro h; rcases h with h | h; exact hne h; exact hgt h)]
      simp only [List.cons_append, List.nil_append, requests_cons_request]
      rw [requests_cons_other _ _ rfl, requests_cons_other _ _ rfl]
      simp [requests]
      omega

theorem retry_unbounded_aux (td : Int) : ∀ (f : Nat) (r : Option Retry),
    requests (tokenRun td r (failThenOk (-1) f)).1 = 1 + f := by
  intro f
  induction f with
  | zero => intro r; simp [failThenOk, tokenRun, onAnswer, requests, List.countP_cons, Ev.isRequest]
  | succ f ih =>
    intro r
    have e : failThenOk (-1) (f + 1) = .err (.mode 1 (-1)) :: failThenOk (-1) f := by
      simp [failThenOk, List.replicate_succ]
    rw [e]
    simp only [tokenRun, onAnswer, errSwitch_retry]
    simp only [true_or, if_true]
    simp only [List.cons_append, List.nil_append, requests_cons_request]
    rw [requests_cons_other _ _ rfl, ih]
    omega

theorem retry_bound_aux (td n : Int) : ∀ (answers : List Ans) (r : Option Retry), 0 ≤ attemptsOf r →
    BoundedBy n answers → requests (tokenRun td r answers).1 ≤ 1 + (n - attemptsOf r).toNat := by
  intro answers
  induction answers with
  | nil => intro r _ _; simp [tokenRun, requests, List.countP_cons, Ev.isRequest]
  | cons a rest ih =>
    intro r ha hb
    have hrest : BoundedBy n rest := fun k hk => hb k (List.mem_cons_of_mem _ hk)
    cases a with
    | ok => simp [tokenRun, onAnswer, requests, List.countP_cons, Ev.isRequest]
    | err h =>
      cases h with
      | none => simp [tokenRun, onAnswer, errSwitch, requests, List.countP_cons, Ev.isRequest]
      | mode m k =>
        by_cases hm : m = 1
        · subst hm
          obtain ⟨hk1, hk2⟩ := hb k (List.mem_cons_self ..)
          simp only [tokenRun, onAnswer, errSwitch_retry]
          by_cases hgt : k > attemptsOf r
          · rw [if_pos (Or.inr hgt)]
            simp only [List.cons_append, List.nil_append, requests_cons_request]
            rw [requests_cons_other _ _ rfl]
            have := ih (some ⟨k, attemptsOf r + 1⟩) (by show 0 ≤ attemptsOf r + 1; omega) hrest
            have e : attemptsOf (some ⟨k, attemptsOf r + 1⟩) = attemptsOf r + 1 := rfl
            rw [e] at this
            omega
          · rw [if_neg (by intro h; rcases h with h | h; exact hk1 h; exact hgt h)]
            simp [requests, List.countP_cons, Ev.isRequest]
        · by_cases h3 : m = 3
          · subst h3; simp [tokenRun, onAnswer, errSwitch, requests, List.countP_cons, Ev.isRequest]
          · have : errSwitch td r (.mode m k) = (.continue_, r) := by
              unfold errSwitch
              split <;> simp_all
            simp [tokenRun, onAnswer, this, requests, List.countP_cons, Ev.isRequest]

/-! ## declared names -/

open Bpmn.Model.Engine

theorem get_set_eq (vs : Vars) (k : String) (v : Int) : (vs.set k v).get k = some v := by
  unfold Vars.set Vars.get
  by_cases hany : vs.any (·.1 == k) = true
  · rw [if_pos hany]
    induction vs with
    | nil => simp at hany
    | cons x xs ih =>
      by_cases hx : x.1 = k
      · simp [hx]
      · have hx' : (x.1 == k) = false := by simpa using hx
        simp only [List.map_cons, hx', Bool.false_eq_true, if_false, List.find?_cons]
        apply ih
        simpa [List.any_cons, hx'] using hany
  · rw [if_neg hany]
    have : vs.find? (fun x => x.1 == k) = none := by
      rw [List.find?_eq_none]
      intro x hx
      simp only [List.any_eq_true, not_exists, not_and] at hany
      exact hany x hx
    simp [List.find?_append, this]

theorem restrictTo_get (supplied : List (String × Int)) (k : String) : ∀ (declared : List String) (store : Vars),
    (restrictTo declared Vars.set store supplied).get k =
      if k ∈ declared then (supplied? supplied k).orElse (fun _ => store.get k) else store.get k := by
  intro declared
  induction declared with
  | nil => intro store; simp [restrictTo]
  | cons nm rest ih =>
    intro store
    have unfold1 : restrictTo (nm :: rest) Vars.set store supplied =
        restrictTo rest Vars.set (match supplied.find? (·.1 == nm) with
          | some (_, v) => store.set nm v
          | none => store) supplied := by
      unfold restrictTo
      rw [List.foldl_cons]
      congr 1
      cases supplied.find? (fun x => x.1 == nm) with
      | none => rfl
      | some q => rfl
    rw [unfold1, ih]
    by_cases hk : nm = k
    · subst hk
      simp only [List.mem_cons, true_or, if_true]
      cases hf : supplied.find? (fun x => x.1 == nm) with
      | none => simp [supplied?, hf]
      | some q => simp [supplied?, hf, get_set_eq]
    · have hstep : Vars.get (match supplied.find? (·.1 == nm) with
          | some (_, v) => store.set nm v
          | none => store) k = store.get k := by
        cases supplied.find? (fun x => x.1 == nm) with
        | none => rfl
        | some q => exact Bpmn.Props.C01.get_set_ne store nm k q.2 hk
      have hmem : (k ∈ nm :: rest) ↔ k ∈ rest := by
        simp only [List.mem_cons]
        constructor
        · intro h; rcases h with h | h; exact absurd h.symm hk; exact h
        · intro h; exact Or.inr h
      rw [hstep]
      by_cases hr : k ∈ rest
      · rw [if_pos hr, if_pos (hmem.mpr hr)]
      · rw [if_neg hr, if_neg (fun h => hr (hmem.mp h))]

theorem applyDeclared_eq (n : Node) (vars : Vars) (results : List (String × Int)) :
    applyDeclared n vars results = if n.hasResults then restrictTo n.results Vars.set vars results else vars := by
  unfold applyDeclared restrictTo
  cases n.hasResults
  · simp
  · simp only [Bool.not_true, Bool.false_eq_true, if_false, if_true]
    congr 1
    funext vs name
    cases results.find? (fun x => x.1 == name) with
    | none => rfl
    | some q => rfl


end

end Bpmn.Lemmas.TaskTrace
