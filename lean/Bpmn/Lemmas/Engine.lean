import Bpmn.Model.Engine
/-!
Helper lemmas about the engine model (`Bpmn.Model.Engine`) used by `Props/C01Conformance`:

* which functions leave `St.causes` untouched (everything except `St.cause`),
* `St.cause` always leaves a non-empty log,
* two generic lemmas to push "the log is empty at the end" backwards through a `List.foldl`.
-/
namespace Bpmn.Lemmas.Engine
open Bpmn.Model Bpmn.Model.Engine

/-! ## folds -/

/-- a property of the result that every step reflects is reflected by the whole fold -/
theorem foldl_back {α β : Type _} (P : β → Prop) (g : β → α → β) (h : ∀ b a, P (g b a) → P b) :
    ∀ (l : List α) (b : β), P (l.foldl g b) → P b := by
  intro l
  induction l with
  | nil => intro b hb; exact hb
  | cons a as ih => intro b hb; exact h b a (ih (g b a) hb)

/-- if two step functions agree whenever the first one's result satisfies `P`, and `P` is reflected by the
first one's steps, the folds agree whenever the first one's result satisfies `P` -/
theorem foldl_congr_back {α β : Type _} (P : β → Prop) (g1 g2 : β → α → β) (hb : ∀ b a, P (g1 b a) → P b)
    (hc : ∀ b a, P (g1 b a) → g1 b a = g2 b a) :
    ∀ (l : List α) (b : β), P (l.foldl g1 b) → l.foldl g1 b = l.foldl g2 b := by
  intro l
  induction l with
  | nil => intro b _; rfl
  | cons a as ih =>
    intro b hP
    simp only [List.foldl_cons] at hP ⊢
    have h1 : P (g1 b a) := foldl_back P g1 hb as (g1 b a) hP
    rw [← hc b a h1]
    exact ih (g1 b a) hP

/-- a projection that every step preserves is preserved by the fold -/
theorem foldl_proj {α β γ : Type _} (f : β → γ) (g : β → α → β) (h : ∀ b a, f (g b a) = f b) :
    ∀ (l : List α) (b : β), f (l.foldl g b) = f b := by
  intro l
  induction l with
  | nil => intro b; rfl
  | cons a as ih => intro b; simp only [List.foldl_cons]; rw [ih (g b a), h b a]

/-! ## the log -/

/-- logging a cause never leaves the log empty -/
theorem cause_ne_nil (s : St) (c : String) : (s.cause c).causes ≠ [] := by
  unfold St.cause
  by_cases h : s.causes.contains c = true
  · rw [if_pos h]
    intro e
    rw [e] at h
    simp at h
  · rw [if_neg h]
    simp

/-- logging a cause never shrinks the log -/
theorem cause_back (s : St) (c : String) : (s.cause c).causes = [] → s.causes = [] :=
  fun h => absurd h (cause_ne_nil s c)

@[simp] theorem emit_causes (s : St) (o : Obs) : (s.emit o).causes = s.causes := rfl
@[simp] theorem recordTerm_causes (s : St) (f : Nat) : (s.recordTerm f).causes = s.causes := rfl
@[simp] theorem setTags_causes (s : St) (f : Nat) (ts : List Nat) : (s.setTags f ts).causes = s.causes := rfl
@[simp] theorem recordFlow_causes (s : St) (p : Proc) (src : String) (fids : List Nat) :
    (s.recordFlow p src fids).causes = s.causes := rfl
@[simp] theorem igSet_causes (s : St) (g : IgSt) : (igSet s g).causes = s.causes := rfl
@[simp] theorem bumpOcc_causes (s : St) (n : String) : (bumpOcc s n).2.causes = s.causes := rfl

@[simp] theorem oos_causes (s : St) (why : String) : (s.oos why).causes = s.causes := by
  unfold St.oos; split <;> rfl

@[simp] theorem inherit_causes (s : St) (parent : Nat) (kids : List Nat) :
    (s.inherit parent kids).causes = s.causes := by
  unfold St.inherit
  apply foldl_proj (fun s : St => s.causes)
  intro _ _; rfl

@[simp] theorem evalFlow_causes (p : Proc) (s : St) (fl : String) (u : Bool) :
    (evalFlow p s fl u).2.causes = s.causes := by
  unfold evalFlow
  split
  · rfl
  · split
    · rfl
    · split <;> rfl

@[simp] theorem evalFlows_causes (p : Proc) (s : St) (fls : List String) (u : Bool) :
    (evalFlows p s fls u).2.causes = s.causes := by
  unfold evalFlows
  apply foldl_proj (fun x : List (String × Bool) × St => x.2.causes)
  intro b a; simp

@[simp] theorem forkToks_causes (p : Proc) (s : St) (fls : List String) :
    (forkToks p s fls).2.causes = s.causes := by
  unfold forkToks
  apply foldl_proj (fun x : List Tok × St => x.2.causes)
  intro _ _; rfl

@[simp] theorem igRelease_causes (p : Proc) (s : St) (n : Node) (g : IgSt) :
    (igRelease p s n g).2.causes = s.causes := by
  unfold igRelease
  simp only
  split
  · simp
  · rw [foldl_proj (fun x : List Tok × St => x.2.causes)]
    · simp only
      rw [foldl_proj (fun s : St => s.causes)]
      · simp
      · intro _ _; rfl
    · intro b a
      obtain ⟨acc, s⟩ := b
      obtain ⟨f, r⟩ := a
      simp only
      split
      · simp
      · split <;> simp

theorem selectFlows_back (cfg : Cfg) (p : Proc) (s : St) (t : Tok) (fls : List String) (u : Bool) :
    (selectFlows cfg p s t fls u).2.2.causes = [] → s.causes = [] := by
  unfold selectFlows
  split
  · simp
  · simp only
    split
    · simp
    · split
      · simp only [inherit_causes, recordFlow_causes, forkToks_causes]
        intro h; exact absurd h (cause_ne_nil _ _)
      · simp

theorem selectFlows_conf (cfg : Cfg) (p : Proc) (s : St) (t : Tok) (fls : List String) (u : Bool) :
    (selectFlows cfg p s t fls u).2.2.causes = [] → selectFlows cfg p s t fls u = selectFlows Cfg.ideal p s t fls u := by
  unfold selectFlows
  split
  · simp
  · simp only
    split
    · simp
    · split
      · simp only [inherit_causes, recordFlow_causes, forkToks_causes]
        intro h; exact absurd h (cause_ne_nil _ _)
      · simp [Cfg.ideal]

@[simp] theorem spawnStarts_causes (s : St) (starts : List Node) : (spawnStarts s starts).2.causes = s.causes := by
  unfold spawnStarts
  apply foldl_proj (fun x : List Tok × St => x.2.causes)
  intro _ _; rfl

theorem ite_cause_back (c : Prop) [Decidable c] (s : St) (nm : String) :
    (if c then s.cause nm else s).causes = [] → s.causes = [] := by
  split
  · exact cause_back s nm
  · exact id

theorem enterSub_back (cfg : Cfg) (s : St) (t : Tok) (n : Node) (starts : List Node) :
    (enterSub cfg s t n starts).causes = [] → s.causes = [] := by
  unfold enterSub
  cases hs : cfg.subStartSticky
  · simp
  · simp only [Bool.true_and, if_true]
    intro h
    have h' := ite_cause_back _ _ _ h
    revert h'
    split
    · exact cause_back s _
    · exact id

theorem enterSub_conf (cfg : Cfg) (s : St) (t : Tok) (n : Node) (starts : List Node) :
    (enterSub cfg s t n starts).causes = [] → enterSub cfg s t n starts = enterSub Cfg.ideal s t n starts := by
  unfold enterSub
  cases hs : cfg.subStartSticky
  · simp [Cfg.ideal]
  · simp only [Bool.true_and, if_true, Cfg.ideal, Bool.false_and, Bool.false_eq_true, if_false]
    split
    · intro h
      exact absurd (ite_cause_back _ _ _ h) (cause_ne_nil s _)
    · split
      · intro h; exact absurd h (cause_ne_nil _ _)
      · rename_i hany
        intro _
        have : List.filter (fun a => !starts.any (fun x => x.id == a)) s.activated = s.activated := by
          apply List.filter_eq_self.mpr
          intro a ha
          simp only [Bool.not_eq_true, List.any_eq_true, not_exists, not_and] at hany
          have := hany a ha
          simpa using this
        simp only [this]

theorem arrive_back (cfg : Cfg) (p : Proc) (s : St) (t : Tok) :
    (arrive cfg p s t).2.causes = [] → s.causes = [] := by
  unfold arrive
  split
  · simp
  · rename_i n hn
    split
    · simp
    · split
      · simp
      · simp only
        intro h
        have := selectFlows_back _ _ _ _ _ _ h
        simpa using this
    · simp
    · simp only
      split
      · intro h
        have := selectFlows_back _ _ _ _ _ _ h
        simpa using this
      · simp
    · simp only
      split
      · intro h
        have := foldl_back (fun x : List Tok × St => x.2.causes = []) _ (by
          intro b a
          obtain ⟨acc, s⟩ := b
          obtain ⟨f, r⟩ := a
          simp only
          split
          · simp
          · intro h; exact selectFlows_back _ _ _ _ _ _ h) _ _ h
        simpa using this
      · simp
    · simp only
      split <;> simp
    · split
      · simp
      · simp only [spawnStarts_causes]
        exact enterSub_back _ _ _ _ _
    · simp

theorem arrive_conf (cfg : Cfg) (he : cfg.eagerSettle = false) (p : Proc) (s : St) (t : Tok) :
    (arrive cfg p s t).2.causes = [] → arrive cfg p s t = arrive Cfg.ideal p s t := by
  unfold arrive
  cases hn : p.node? t.node with
  | none => simp
  | some n =>
    simp only
    cases hk : n.kind with
    | start =>
      simp only
      split
      · simp
      · intro h
        rw [selectFlows_conf _ _ _ _ _ _ h]
    | xor =>
      simp only
      split
      · intro h
        rw [selectFlows_conf _ _ _ _ _ _ h]
      · simp
    | par =>
      simp only
      split
      · simp only [he, Cfg.ideal, Bool.false_eq_true, if_false]
        intro h
        exact foldl_congr_back (fun x : List Tok × St => x.2.causes = []) _ _ (by
          intro b a
          obtain ⟨acc, s⟩ := b
          obtain ⟨f, r⟩ := a
          simp only
          split
          · simp
          · intro h; exact selectFlows_back _ _ _ _ _ _ h) (by
          intro b a
          obtain ⟨acc, s⟩ := b
          obtain ⟨f, r⟩ := a
          simp only
          split
          · simp
          · intro h; rw [selectFlows_conf _ _ _ _ _ _ h]; rfl) _ _ h
      · simp
    | sub =>
      simp only
      split
      · simp
      · simp only [spawnStarts_causes]
        intro h
        rw [enterSub_conf _ _ _ _ _ h]
    | _ => simp

end Bpmn.Lemmas.Engine
