import Bpmn.Model.Engine
import Bpmn.Spec.TokenGame
/-!
Helper lemmas about the engine model (`Bpmn.Model.Engine`) used by `Props/C01Conformance`:

* which functions leave `St.causes` untouched (everything except `St.cause`),
* `St.cause` always leaves a non-empty log,
* two generic lemmas to push "the log is empty at the end" backwards through a `List.foldl`.
-/
namespace Bpmn.Lemmas.Engine
open Bpmn.Model Bpmn.Model.Engine Bpmn.Spec.TokenGame

/-! ## folds -/

/-- a property of the result that every step reflects is reflected by the whole fold -/
theorem foldl_back {α β : Type _} (P : β → Prop) (g : β → α → β) (h : ∀ b a, P (g b a) → P b) :
    ∀ (l : List α) (b : β), P (l.foldl g b) → P b := by
  intro l
  induction l with
  | nil => intro b hb; exact hb
  | cons a as ih => intro b hb; exact h b a (ih (g b a) hb)

/-- if two step functions agree whenever the first one's result satisfies `P`, and `P` is reflected by the
first one's steps, the folds agree whenever the first one's result satisfies `P` -/
theorem foldl_congr_back {α β : Type _} (P : β → Prop) (g1 g2 : β → α → β) (hb : ∀ b a, P (g1 b a) → P b)
    (hc : ∀ b a, P (g1 b a) → g1 b a = g2 b a) :
    ∀ (l : List α) (b : β), P (l.foldl g1 b) → l.foldl g1 b = l.foldl g2 b := by
  intro l
  induction l with
  | nil => intro b _; rfl
  | cons a as ih =>
    intro b hP
    simp only [List.foldl_cons] at hP ⊢
    have h1 : P (g1 b a) := foldl_back P g1 hb as (g1 b a) hP
    rw [← hc b a h1]
    exact ih (g1 b a) hP

/-- a projection that every step preserves is preserved by the fold -/
theorem foldl_proj {α β γ : Type _} (f : β → γ) (g : β → α → β) (h : ∀ b a, f (g b a) = f b) :
    ∀ (l : List α) (b : β), f (l.foldl g b) = f b := by
  intro l
  induction l with
  | nil => intro b; rfl
  | cons a as ih => intro b; simp only [List.foldl_cons]; rw [ih (g b a), h b a]

/-! ## the log -/

/-- logging a cause never leaves the log empty -/
theorem cause_ne_nil (s : St) (c : String) : (s.cause c).causes ≠ [] := by
  unfold St.cause
  by_cases h : s.causes.contains c = true
  · rw [if_pos h]
    intro e
    rw [e] at h
    simp at h
  · rw [if_neg h]
    simp

/-- logging a cause never shrinks the log -/
theorem cause_back (s : St) (c : String) : (s.cause c).causes = [] → s.causes = [] :=
  fun h => absurd h (cause_ne_nil s c)

@[simp] theorem emit_causes (s : St) (o : Obs) : (s.emit o).causes = s.causes := rfl
@[simp] theorem recordTerm_causes (s : St) (f : Nat) : (s.recordTerm f).causes = s.causes := rfl
@[simp] theorem setTags_causes (s : St) (f : Nat) (ts : List Nat) : (s.setTags f ts).causes = s.causes := rfl
@[simp] theorem recordFlow_causes (s : St) (p : Proc) (src : String) (fids : List Nat) :
    (s.recordFlow p src fids).causes = s.causes := rfl
@[simp] theorem igSet_causes (s : St) (g : IgSt) : (igSet s g).causes = s.causes := rfl
@[simp] theorem bumpOcc_causes (s : St) (n : String) : (bumpOcc s n).2.causes = s.causes := rfl

@[simp] theorem oos_causes (s : St) (why : String) : (s.oos why).causes = s.causes := by
  unfold St.oos; split <;> rfl

@[simp] theorem inherit_causes (s : St) (parent : Nat) (kids : List Nat) :
    (s.inherit parent kids).causes = s.causes := by
  unfold St.inherit
  apply foldl_proj (fun s : St => s.causes)
  intro _ _; rfl

@[simp] theorem evalFlow_causes (p : Proc) (s : St) (fl : String) (u : Bool) :
    (evalFlow p s fl u).2.causes = s.causes := by
  unfold evalFlow
  split
  · rfl
  · split
    · rfl
    · split <;> rfl

@[simp] theorem evalFlows_causes (p : Proc) (s : St) (fls : List String) (u : Bool) :
    (evalFlows p s fls u).2.causes = s.causes := by
  unfold evalFlows
  apply foldl_proj (fun x : List (String × Bool) × St => x.2.causes)
  intro b a; simp

@[simp] theorem forkToks_causes (p : Proc) (s : St) (fls : List String) :
    (forkToks p s fls).2.causes = s.causes := by
  unfold forkToks
  apply foldl_proj (fun x : List Tok × St => x.2.causes)
  intro _ _; rfl

@[simp] theorem igRelease_causes (p : Proc) (s : St) (n : Node) (g : IgSt) :
    (igRelease p s n g).2.causes = s.causes := by
  unfold igRelease
  simp only
  split
  · simp
  · rw [foldl_proj (fun x : List Tok × St => x.2.causes)]
    · simp only
      rw [foldl_proj (fun s : St => s.causes)]
      · simp
      · intro _ _; rfl
    · intro b a
      obtain ⟨acc, s⟩ := b
      obtain ⟨f, r⟩ := a
      simp only
      split
      · simp
      · split <;> simp

theorem selectFlows_back (cfg : Cfg) (p : Proc) (s : St) (t : Tok) (fls : List String) (u : Bool) :
    (selectFlows cfg p s t fls u).2.2.causes = [] → s.causes = [] := by
  unfold selectFlows
  split
  · simp
  · simp only
    split
    · simp
    · split
      · simp only [inherit_causes, recordFlow_causes, forkToks_causes]
        intro h; exact absurd h (cause_ne_nil _ _)
      · simp

theorem selectFlows_conf (cfg : Cfg) (p : Proc) (s : St) (t : Tok) (fls : List String) (u : Bool) :
    (selectFlows cfg p s t fls u).2.2.causes = [] → selectFlows cfg p s t fls u = selectFlows Cfg.ideal p s t fls u := by
  unfold selectFlows
  split
  · simp
  · simp only
    split
    · simp
    · split
      · simp only [inherit_causes, recordFlow_causes, forkToks_causes]
        intro h; exact absurd h (cause_ne_nil _ _)
      · simp [Cfg.ideal]

@[simp] theorem spawnStarts_causes (s : St) (starts : List Node) : (spawnStarts s starts).2.causes = s.causes := by
  unfold spawnStarts
  apply foldl_proj (fun x : List Tok × St => x.2.causes)
  intro _ _; rfl

theorem ite_cause_back (c : Prop) [Decidable c] (s : St) (nm : String) :
    (if c then s.cause nm else s).causes = [] → s.causes = [] := by
  split
  · exact cause_back s nm
  · exact id

theorem enterSub_back (cfg : Cfg) (s : St) (t : Tok) (n : Node) (starts : List Node) :
    (enterSub cfg s t n starts).causes = [] → s.causes = [] := by
  unfold enterSub
  cases hs : cfg.subStartSticky
  · simp
  · simp only [Bool.true_and, if_true]
    intro h
    have h' := ite_cause_back _ _ _ h
    revert h'
    split
    · exact cause_back s _
    · exact id

theorem enterSub_conf (cfg : Cfg) (s : St) (t : Tok) (n : Node) (starts : List Node) :
    (enterSub cfg s t n starts).causes = [] → enterSub cfg s t n starts = enterSub Cfg.ideal s t n starts := by
  unfold enterSub
  cases hs : cfg.subStartSticky
  · simp [Cfg.ideal]
  · simp only [Bool.true_and, if_true, Cfg.ideal, Bool.false_and, Bool.false_eq_true, if_false]
    split
    · intro h
      exact absurd (ite_cause_back _ _ _ h) (cause_ne_nil s _)
    · split
      · intro h; exact absurd h (cause_ne_nil _ _)
      · rename_i hany
        intro _
        have : List.filter (fun a => !starts.any (fun x => x.id == a)) s.activated = s.activated := by
          apply List.filter_eq_self.mpr
          intro a ha
          simp only [Bool.not_eq_true, List.any_eq_true, not_exists, not_and] at hany
          have := hany a ha
          simpa using this
        simp only [this]

theorem arrive_back (cfg : Cfg) (p : Proc) (s : St) (t : Tok) :
    (arrive cfg p s t).2.causes = [] → s.causes = [] := by
  unfold arrive
  split
  · simp
  · rename_i n hn
    split
    · simp
    · split
      · simp
      · simp only
        intro h
        have := selectFlows_back _ _ _ _ _ _ h
        simpa using this
    · simp
    · simp only
      split
      · intro h
        have := selectFlows_back _ _ _ _ _ _ h
        simpa using this
      · simp
    · simp only
      split
      · intro h
        have := foldl_back (fun x : List Tok × St => x.2.causes = []) _ (by
          intro b a
          obtain ⟨acc, s⟩ := b
          obtain ⟨f, r⟩ := a
          simp only
          split
          · simp
          · intro h; exact selectFlows_back _ _ _ _ _ _ h) _ _ h
        simpa using this
      · simp
    · simp only
      split <;> simp
    · split
      · simp
      · simp only [spawnStarts_causes]
        exact enterSub_back _ _ _ _ _
    · split
      · intro h
        exact cause_back s _ (by simpa using h)
      · simp only
        intro h
        have := selectFlows_back _ _ _ _ _ _ h
        simpa using this
    · simp

theorem arrive_conf (cfg : Cfg) (he : cfg.eagerSettle = false) (p : Proc) (s : St) (t : Tok) :
    (arrive cfg p s t).2.causes = [] → arrive cfg p s t = arrive Cfg.ideal p s t := by
  unfold arrive
  cases hn : p.node? t.node with
  | none => simp
  | some n =>
    simp only
    cases hk : n.kind with
    | start =>
      simp only
      split
      · simp
      · intro h
        rw [selectFlows_conf _ _ _ _ _ _ h]
    | xor =>
      simp only
      split
      · intro h
        rw [selectFlows_conf _ _ _ _ _ _ h]
      · simp
    | par =>
      simp only
      split
      · simp only [he, Cfg.ideal, Bool.false_eq_true, if_false]
        intro h
        exact foldl_congr_back (fun x : List Tok × St => x.2.causes = []) _ _ (by
          intro b a
          obtain ⟨acc, s⟩ := b
          obtain ⟨f, r⟩ := a
          simp only
          split
          · simp
          · intro h; exact selectFlows_back _ _ _ _ _ _ h) (by
          intro b a
          obtain ⟨acc, s⟩ := b
          obtain ⟨f, r⟩ := a
          simp only
          split
          · simp
          · intro h; rw [selectFlows_conf _ _ _ _ _ _ h]; rfl) _ _ h
      · simp
    | sub =>
      simp only
      split
      · simp
      · simp only [spawnStarts_causes]
        intro h
        rw [enterSub_conf _ _ _ _ _ h]
    | throw_ =>
      simp only
      split
      · intro h
        exact absurd (show (s.cause "throw_fused").causes = [] by simpa using h) (cause_ne_nil s _)
      · intro h
        rw [selectFlows_conf _ _ _ _ _ _ h]
        simp [Cfg.ideal]
    | _ => simp

/-! ## the abstracted functions of `Spec/TokenGame` are the engine's -/

theorem settleIncl_tie (cfg : Cfg) (p : Proc) (s : St) (work : List Tok) :
    settleInclW (igReady cfg) p s work = settleIncl cfg p s work := rfl

theorem settle_tie (cfg : Cfg) (p : Proc) (s : St) :
    settleW (igReady cfg) cfg p s = settle cfg p s := by
  unfold settleW settle settleSubs
  rw [settleIncl_tie]
  generalize settleIncl cfg p s [] = r
  obtain ⟨x, s'⟩ := r
  cases x <;> rfl

theorem runWork_tie (cfg : Cfg) (p : Proc) : ∀ (fuel : Nat) (toks : List Tok) (s : St),
    runWorkW (igReady cfg) cfg p fuel toks s = runWork cfg p fuel toks s := by
  intro fuel
  induction fuel with
  | zero => intro toks s; rfl
  | succ k ih =>
    intro toks s
    cases toks with
    | nil =>
      simp only [runWorkW, runWork, settle_tie, ih]
    | cons t rest =>
      simp only [runWorkW, runWork, settleIncl_tie, ih]
      rfl

theorem start_tie (cfg : Cfg) (p : Proc) (vars : Vars) : startW (igReady cfg) cfg p vars = Engine.start cfg p vars := by
  simp only [startW, Engine.start, runWork_tie]

theorem answer_tie (cfg : Cfg) (p : Proc) (s : St) (node : String) (occ : Nat) (a : Answer) :
    answerW (igReady cfg) cfg p s node occ a = Engine.answer cfg p s node occ a := by
  unfold answerW answerPrep Engine.answer
  simp only [runWork_tie]
  cases hf : List.find? (fun q => q.1.node == node && q.2 == occ) ({ s with obs := [] } : St).pending with
  | none => rfl
  | some q =>
    obtain ⟨t, k⟩ := q
    cases hn : p.node? node with
    | none => rfl
    | some n =>
      simp only
      cases a with
      | ok results => rfl
      | err mode retries =>
        match mode with
        | 0 => rfl
        | 1 =>
          simp only
          generalize (retries == -1 || _) = c
          cases c <;> rfl
        | 2 => rfl
        | 3 => rfl
        | m + 4 => rfl

/-! ## conformance of the abstracted functions, for decision procedures that agree while nothing is logged -/

/-- the decision procedure never shrinks the log -/
def Back (r : Ready) : Prop := ∀ p s n g work, (r p s n g work).2.causes = [] → s.causes = []
/-- `r1` decides like `r2` (and leaves the same state) whenever it logs nothing -/
def Conf (r1 r2 : Ready) : Prop :=
  ∀ p s n g work, (r1 p s n g work).2.causes = [] → r1 p s n g work = r2 p s n g work

theorem settleInclW_back (r : Ready) (hb : Back r) (p : Proc) (s : St) (work : List Tok) :
    (settleInclW r p s work).2.causes = [] → s.causes = [] := by
  unfold settleInclW
  intro h
  exact foldl_back (fun x : Option (List Tok) × St => x.2.causes = []) _ (by
    intro b n
    obtain ⟨x, s⟩ := b
    cases x with
    | some x => exact id
    | none =>
      simp only
      split
      · simp only [igRelease_causes]; exact hb _ _ _ _ _
      · exact hb _ _ _ _ _) _ _ h

theorem settleInclW_conf (r1 r2 : Ready) (hb : Back r1) (hc : Conf r1 r2) (p : Proc) (s : St) (work : List Tok) :
    (settleInclW r1 p s work).2.causes = [] → settleInclW r1 p s work = settleInclW r2 p s work := by
  unfold settleInclW
  intro h
  exact foldl_congr_back (fun x : Option (List Tok) × St => x.2.causes = []) _ _ (by
    intro b n
    obtain ⟨x, s⟩ := b
    cases x with
    | some x => exact id
    | none =>
      simp only
      split
      · simp only [igRelease_causes]; exact hb _ _ _ _ _
      · exact hb _ _ _ _ _) (by
    intro b n
    obtain ⟨x, s⟩ := b
    cases x with
    | some x => intro _; rfl
    | none =>
      simp only
      intro h
      have hr : (r1 p s n (igGet s n.id) work).2.causes = [] := by
        revert h
        split
        · simp only [igRelease_causes]; exact id
        · exact id
      rw [hc _ _ _ _ _ hr]) _ _ h

theorem ite_pair_snd {α β : Type _} (c : Prop) [Decidable c] (a b : α) (s : β) :
    (if c then (a, s) else (b, s)).2 = s := by split <;> rfl

theorem settleSubs_back (cfg : Cfg) (p : Proc) (s : St) :
    (settleSubs cfg p s).2.causes = [] → s.causes = [] := by
  unfold settleSubs
  simp only
  split
  · exact id
  · cases hs : cfg.subNeverReturns
    · simp only [Bool.false_eq_true, if_false]
      split
      · exact id
      · rw [nextTurn_causes]
        intro h
        have := selectFlows_back _ _ _ _ _ _ h
        exact this
    · simp only [if_true]
      split
      · simp only [ite_pair_snd]
        intro h
        have := selectFlows_back _ _ _ _ _ _ h
        exact absurd this (cause_ne_nil _ _)
      · intro h; exact cause_back s _ h

theorem settleSubs_conf (cfg : Cfg) (p : Proc) (s : St) :
    (settleSubs cfg p s).2.causes = [] → settleSubs cfg p s = settleSubs Cfg.ideal p s := by
  unfold settleSubs
  simp only
  split
  · intro _; rfl
  · cases hs : cfg.subNeverReturns
    · simp only [Bool.false_eq_true, if_false, Cfg.ideal]
      split
      · intro _; rfl
      · rw [nextTurn_causes]
        intro h
        rw [selectFlows_conf _ _ _ _ _ _ h]
        rfl
    · simp only [if_true]
      split
      · simp only [ite_pair_snd]
        intro h
        have := selectFlows_back _ _ _ _ _ _ h
        exact absurd this (cause_ne_nil _ _)
      · intro h; exact absurd h (cause_ne_nil s _)

theorem settleW_back (r : Ready) (hb : Back r) (cfg : Cfg) (p : Proc) (s : St) :
    (settleW r cfg p s).2.causes = [] → s.causes = [] := by
  unfold settleW
  cases hsi : settleInclW r p s [] with
  | mk x s' =>
    have h0 := settleInclW_back r hb p s []
    rw [hsi] at h0
    cases x with
    | some x => exact h0
    | none => exact fun h => h0 (settleSubs_back cfg p s' h)

theorem settleW_conf (r1 r2 : Ready) (hb : Back r1) (hc : Conf r1 r2) (cfg : Cfg) (p : Proc) (s : St) :
    (settleW r1 cfg p s).2.causes = [] → settleW r1 cfg p s = settleW r2 Cfg.ideal p s := by
  unfold settleW
  have h0 := settleInclW_conf r1 r2 hb hc p s []
  cases hsi : settleInclW r1 p s [] with
  | mk x s' =>
    rw [hsi] at h0
    cases x with
    | some x => intro h; rw [← h0 h]
    | none =>
      simp only
      intro h
      have h1 := settleSubs_back cfg p s' h
      rw [← h0 h1]
      exact settleSubs_conf cfg p s' h

theorem runWorkW_back (r : Ready) (hb : Back r) (cfg : Cfg) (he : cfg.eagerSettle = false) (p : Proc) :
    ∀ (fuel : Nat) (toks : List Tok) (s : St), (runWorkW r cfg p fuel toks s).causes = [] → s.causes = [] := by
  intro fuel
  induction fuel with
  | zero => intro toks s; simp [runWorkW]
  | succ k ih =>
    intro toks s
    cases toks with
    | nil =>
      simp only [runWorkW]
      split
      · exact settleW_back r hb cfg p s
      · intro h; exact settleW_back r hb cfg p s (ih _ _ h)
    | cons t rest =>
      simp only [runWorkW, he, Bool.false_eq_true, if_false]
      intro h
      exact arrive_back cfg p s t (ih _ _ h)

theorem runWorkW_conf (r1 r2 : Ready) (hb : Back r1) (hc : Conf r1 r2) (cfg : Cfg) (he : cfg.eagerSettle = false)
    (p : Proc) : ∀ (fuel : Nat) (toks : List Tok) (s : St),
      (runWorkW r1 cfg p fuel toks s).causes = [] →
      runWorkW r1 cfg p fuel toks s = runWorkW r2 Cfg.ideal p fuel toks s := by
  intro fuel
  induction fuel with
  | zero => intro toks s _; rfl
  | succ k ih =>
    intro toks s
    cases toks with
    | nil =>
      simp only [runWorkW]
      intro h
      have hs : (settleW r1 cfg p s).2.causes = [] := by
        revert h
        split
        · exact id
        · exact runWorkW_back r1 hb cfg he p _ _ _
      have he' := settleW_conf r1 r2 hb hc cfg p s hs
      rw [← he']
      split
      · rfl
      · rename_i hcond
        simp only [hcond] at h
        exact ih _ _ h
    | cons t rest =>
      simp only [runWorkW, he, Bool.false_eq_true, if_false, Cfg.ideal]
      intro h
      have ha := arrive_conf cfg he p s t (runWorkW_back r1 hb cfg he p _ _ _ h)
      rw [ih _ _ h, ha]
      rfl

theorem startW_conf (r1 r2 : Ready) (hb : Back r1) (hc : Conf r1 r2) (cfg : Cfg) (he : cfg.eagerSettle = false)
    (p : Proc) (vars : Vars) :
    (startW r1 cfg p vars).causes = [] → startW r1 cfg p vars = startW r2 Cfg.ideal p vars := by
  unfold startW
  exact runWorkW_conf r1 r2 hb hc cfg he p _ _ _

theorem answerPrep_back (cfg : Cfg) (p : Proc) (s : St) (node : String) (occ : Nat) (a : Answer)
    (toks : List Tok) (s' : St) (h : answerPrep cfg p s node occ a = some (toks, s')) :
    s'.causes = [] → s.causes = [] := by
  unfold answerPrep at h
  revert h
  simp only
  split
  · rename_i t k n _ _
    cases a with
    | ok results =>
      simp only [Option.some.injEq, Prod.mk.injEq]
      rintro ⟨_, rfl⟩ h
      have := selectFlows_back _ _ _ _ _ _ h
      exact this
    | err mode retries =>
      simp only
      split
      · split
        · simp only [Option.some.injEq, Prod.mk.injEq]; rintro ⟨_, rfl⟩ h; exact h
        · simp only [Option.some.injEq, Prod.mk.injEq]; rintro ⟨_, rfl⟩ h; exact h
      · simp only [Option.some.injEq, Prod.mk.injEq]; rintro ⟨_, rfl⟩ h; exact h
      · simp only [Option.some.injEq, Prod.mk.injEq]
        rintro ⟨_, rfl⟩ h
        have := selectFlows_back _ _ _ _ _ _ h
        exact this
  · simp

theorem answerPrep_conf (cfg : Cfg) (p : Proc) (s : St) (node : String) (occ : Nat) (a : Answer) :
    (∀ toks s', answerPrep cfg p s node occ a = some (toks, s') → s'.causes = []) →
    answerPrep cfg p s node occ a = answerPrep Cfg.ideal p s node occ a := by
  unfold answerPrep
  simp only
  split
  · rename_i t k n _ _
    cases a with
    | ok results =>
      simp only
      intro h
      have := h _ _ rfl
      rw [selectFlows_conf _ _ _ _ _ _ this]
    | err mode retries =>
      simp only
      split
      · intro _; rfl
      · intro _; rfl
      · intro h
        have := h _ _ rfl
        rw [selectFlows_conf _ _ _ _ _ _ this]
  · intro _; rfl

theorem answerW_back (r : Ready) (hb : Back r) (cfg : Cfg) (he : cfg.eagerSettle = false) (p : Proc) (s : St)
    (node : String) (occ : Nat) (a : Answer) :
    (answerW r cfg p s node occ a).causes = [] → s.causes = [] := by
  unfold answerW
  cases hp : answerPrep cfg p s node occ a with
  | none => simp
  | some q =>
    obtain ⟨toks, s'⟩ := q
    intro h
    exact answerPrep_back cfg p s node occ a toks s' hp (runWorkW_back r hb cfg he p _ _ _ h)

theorem answerW_conf (r1 r2 : Ready) (hb : Back r1) (hc : Conf r1 r2) (cfg : Cfg) (he : cfg.eagerSettle = false)
    (p : Proc) (s : St) (node : String) (occ : Nat) (a : Answer) :
    (answerW r1 cfg p s node occ a).causes = [] →
    answerW r1 cfg p s node occ a = answerW r2 Cfg.ideal p s node occ a := by
  unfold answerW
  cases hp : answerPrep cfg p s node occ a with
  | none =>
    have := answerPrep_conf cfg p s node occ a (by intro toks s' h; rw [hp] at h; cases h)
    rw [← this, hp]
    intro _; rfl
  | some q =>
    obtain ⟨toks, s'⟩ := q
    simp only
    intro h
    have hs' := runWorkW_back r1 hb cfg he p _ _ _ h
    have := answerPrep_conf cfg p s node occ a (by
      intro toks2 s2 h2; rw [hp] at h2; cases h2; exact hs')
    rw [← this, hp]
    exact runWorkW_conf r1 r2 hb hc cfg he p _ _ _ h

/-! ## the engine's decision procedure -/

theorem igReady_back (cfg : Cfg) : Back (igReady cfg) := by
  intro p s n g work
  unfold igReady
  split
  · exact id
  · simp only
    split
    · exact ite_cause_back _ _ _
    · split <;> exact id

theorem igReady_conf (cfg : Cfg) (hl : cfg.lateJoin = false) : Conf (igReady cfg) (joinOf cfg).ready := by
  intro p s n g work
  unfold igReady joinOf Join.ready
  cases hi : cfg.inclCohort
  · simp only [Bool.false_eq_true, if_false, hl, Join.early, earlyAt]
    cases hg : g.activated <;> simp
  · simp only [if_true, Join.cohortClamped, earlyAt]
    cases hg : g.activated with
    | none => simp
    | some a =>
      simp only
      split
      · intro h; exact absurd h (cause_ne_nil _ _)
      · rename_i hdev
        intro _
        simp only [Prod.mk.injEq, and_true]
        revert hdev
        generalize ((Engine.cohort s a).all fun x => g.arrived.contains x) = c
        generalize lateAt s n a g.arrived work = l
        generalize ((s.tagsOf a).isEmpty || !upstreamLive p s n.id work g.arrived) = u
        cases c <;> cases l <;> cases u <;> simp

theorem joinOf_admissible (cfg : Cfg) : (joinOf cfg).Admissible := by
  intro p s n g work
  unfold joinOf
  cases hi : cfg.inclCohort
  · simp only [Bool.false_eq_true, if_false, Join.early]
    cases hg : g.activated <;> simp
  · simp only [if_true, Join.cohortClamped]
    cases hg : g.activated with
    | none => simp
    | some a =>
      simp only
      generalize ((Engine.cohort s a).all fun x => g.arrived.contains x) = c
      generalize lateAt s n a g.arrived work = l
      generalize earlyAt p s n g work = e
      cases c <;> cases l <;> cases e <;> simp

theorem early_admissible : Join.early.Admissible := joinOf_admissible Cfg.ideal
theorem late_admissible : Join.late.Admissible := by
  intro p s n g work
  unfold Join.late
  cases hg : g.activated with
  | none => rfl
  | some a =>
    simp only
    generalize lateAt s n a g.arrived work = l
    generalize earlyAt p s n g work = e
    cases l <;> cases e <;> simp

theorem igReady_ideal : igReady Cfg.ideal = Join.early.ready := by
  funext p s n g work
  unfold igReady Join.ready Join.early earlyAt
  cases g.activated <;> simp [Cfg.ideal]

theorem igReady_idealLate : igReady Cfg.idealLate = Join.late.ready := by
  funext p s n g work
  unfold igReady Join.ready Join.late earlyAt
  cases g.activated <;> simp [Cfg.idealLate]

/-! ## `lateJoin` is read by `igReady` only -/

theorem arrive_idealLate (p : Proc) (s : St) (t : Tok) : arrive Cfg.idealLate p s t = arrive Cfg.ideal p s t := rfl
theorem settleSubs_idealLate (p : Proc) (s : St) : settleSubs Cfg.idealLate p s = settleSubs Cfg.ideal p s := rfl
theorem answerPrep_idealLate (p : Proc) (s : St) (node : String) (occ : Nat) (a : Answer) :
    answerPrep Cfg.idealLate p s node occ a = answerPrep Cfg.ideal p s node occ a := rfl

theorem runWorkW_idealLate (r : Ready) (p : Proc) : ∀ (fuel : Nat) (toks : List Tok) (s : St),
    runWorkW r Cfg.idealLate p fuel toks s = runWorkW r Cfg.ideal p fuel toks s := by
  intro fuel
  induction fuel with
  | zero => intro toks s; rfl
  | succ k ih =>
    intro toks s
    cases toks with
    | nil =>
      have : settleW r Cfg.idealLate p s = settleW r Cfg.ideal p s := rfl
      simp only [runWorkW, this, ih]
    | cons t rest =>
      simp only [runWorkW, arrive_idealLate, ih]
      rfl

theorem startW_idealLate (r : Ready) (p : Proc) (vars : Vars) :
    startW r Cfg.idealLate p vars = startW r Cfg.ideal p vars := by
  simp only [startW, runWorkW_idealLate]

theorem answerW_idealLate (r : Ready) (p : Proc) (s : St) (node : String) (occ : Nat) (a : Answer) :
    answerW r Cfg.idealLate p s node occ a = answerW r Cfg.ideal p s node occ a := by
  simp only [answerW, runWorkW_idealLate, answerPrep_idealLate]

end Bpmn.Lemmas.Engine
